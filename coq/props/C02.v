(* props/C02.v -- failed runs return the previous data untouched; outcomes follow the code ranges.
   Only pinned statements, [exact], non-vacuity examples and Print Assumptions.

   Every theorem about outcomes is universal over the opaque stage behaviours (RunTop's [world], whose
   [w_rest] is what `prepare` hands to the executor), over the executor's stream part and
   Streams::compactify (the Section variables [exec_stream_instr] / [finish_streams] of RunExec.run),
   over the success of the two signing calls and over the data serializer. *)
From Aqua Require Import Base Json Air Trace Handler Values Scalars Lens Exec RunExec RunTop CodesSpec CodesProofs.
From Aqua Require Stream ExecStreams StreamPosSpec StreamPosProofs.
Open Scope N_scope.
Open Scope list_scope.

(* the whole property as the model states it; C02_fail_keeps_prev_stmt carries the explicit hypothesis
   [compactify_ok] (outcome.rs's internal-error exit is not taken), see C02_internal_error_branch *)
Definition C02_full : Prop :=
  C02_codes_stmt /\ C02_codes_general_stmt /\
  forall exec_stream_instr finish_streams sign_produced sign_result serialize,
    C02_fail_stages_stmt exec_stream_instr finish_streams sign_produced sign_result serialize /\
    C02_fail_keeps_prev_stmt exec_stream_instr finish_streams sign_produced sign_result serialize /\
    C02_ok_data_stmt exec_stream_instr finish_streams sign_produced sign_result serialize /\
    C02_code_classes_stmt exec_stream_instr finish_streams sign_produced sign_result serialize /\
    C02_run_glue_stmt exec_stream_instr finish_streams sign_produced sign_result serialize.

(* every code of the four generated enums lies in its range, all codes are pairwise distinct, none is 0 *)
Theorem C02_codes : C02_codes_stmt.
Proof. exact codes_ranges. Qed.

(* start id + position < start id + number of variants, for any enum *)
Theorem C02_codes_general : C02_codes_general_stmt.
Proof. exact codes_general. Qed.

(* a failing preparation stage / an uncatchable execution error / a failing sign_produced_cids answers
   exactly (its code, the previous bytes, [], []) *)
Theorem C02_fail_stages : forall esi fin sp sr ser, C02_fail_stages_stmt esi fin sp sr ser.
Proof. exact fail_stages. Qed.

(* code in 1..9999 or 20000..29999 => previous bytes, no next peers, no requests *)
Theorem C02_fail_keeps_prev : forall esi fin sp sr ser, C02_fail_keeps_prev_stmt esi fin sp sr ser.
Proof. exact fail_keeps_prev. Qed.

(* code 0, 10000..19999 or 30000 => non-empty decodable new data = the final context's result trace and
   last request id (no hypothesis about compactification or signing is needed here) *)
Theorem C02_ok_data : forall esi fin sp sr ser, C02_ok_data_stmt esi fin sp sr ser.
Proof. exact ok_data. Qed.

Theorem C02_code_classes : forall esi fin sp sr ser, C02_code_classes_stmt esi fin sp sr ser.
Proof. exact code_classes. Qed.

Theorem C02_run_glue : forall esi fin sp sr ser, C02_run_glue_stmt esi fin sp sr ser.
Proof. exact run_glue. Qed.

Theorem C02 : C02_full.
Proof.
  split; [exact codes_ranges|]. split; [exact codes_general|].
  intros esi fin sp sr ser.
  exact (conj (fail_stages esi fin sp sr ser) (conj (fail_keeps_prev esi fin sp sr ser)
        (conj (ok_data esi fin sp sr ser) (conj (code_classes esi fin sp sr ser) (run_glue esi fin sp sr ser))))).
Qed.

(* the hypothesis [compactify_ok] cannot be dropped in the model of the code: execution_error_into_outcome *)
Theorem C02_internal_error_branch : C02_internal_error_branch_stmt.
Proof. exact internal_error_branch. Qed.

(* the local half of `compactify_total`: a compactification plan whose positions all point at Ap / stream
   Call states of the result trace runs to the end (no GenerationCompactificationError) *)
Theorem C02_compactify_sufficient : C02_compactify_sufficient_stmt.
Proof. exact compactify_sufficient. Qed.

(* ---- the global half of `compactify_total`: the stream-position invariant of the executor model ----
   (model/StreamPosSpec.v, proofs/StreamPosProofs.v).  For the stage-2 executor (ExecStreams.stream_instr,
   ExecStreams.finish_streams, i.e. run2) the hypothesis [compactify_ok] is a theorem. *)

(* every value of every live stream / stream map points at its own Ap / stream Call state of the result trace,
   at pairwise different positions, table keys are unique, no stream holds STREAM_MAX_SIZE values: true in the
   initial context and preserved by every instruction, for every fuel, instruction and context (induction on the
   fuel over all instructions; every outcome that carries a context, uncatchable errors included) *)
Theorem C02_stream_pos_inv : StreamPosSpec.stream_pos_inv_stmt.
Proof. exact StreamPosProofs.stream_pos_inv. Qed.

(* [gen_at tr p]: p < length tr and the state there is `SAp _` or `SCall (Executed (VRStream _ _))` *)
Theorem C02_gen_at_spec : StreamPosSpec.gen_at_spec_stmt.
Proof. exact StreamPosProofs.gen_at_spec. Qed.

(* on a context that satisfies the invariant Streams::compactify + StreamMaps::compactify run to the end: no
   GenerationCompactificationError and no generation index overflow (indices stay below 3 * STREAM_MAX_SIZE) *)
Theorem C02_finish_total : StreamPosSpec.finish_total_stmt.
Proof. exact StreamPosProofs.finish_total. Qed.

(* hence for every run input: a run that ends with success or a catchable error compactifies successfully *)
Theorem C02_compactify_total : StreamPosSpec.compactify_total_stmt.
Proof. exact StreamPosProofs.compactify_total. Qed.

Theorem C02_compactify_ok_run2 : StreamPosSpec.compactify_ok_run2_stmt.
Proof. exact StreamPosProofs.compactify_ok_run2. Qed.

(* the property's first sentence and the code classes for run2 (the stage-2 executor and its compactification),
   WITHOUT the hypothesis compactify_ok *)
Theorem C02_fail_keeps_prev_run2 : StreamPosSpec.C02_fail_keeps_prev_run2_stmt.
Proof. exact StreamPosProofs.fail_keeps_prev_run2. Qed.

Theorem C02_code_classes_run2 : StreamPosSpec.C02_code_classes_run2_stmt.
Proof. exact StreamPosProofs.code_classes_run2. Qed.

(* the decisive source lines are the ones the model mirrors (re-read from /repo on every run) *)
Theorem C02_source_tie : C02_source_tie_stmt.
Proof. exact source_tie. Qed.

(* ---- non-vacuity: concrete runs of the stage-1 executor through the full routing ---- *)
Definition C02_ser (d : idata) (s : list cid) : option bytes :=
  Some [1; d_lcid d; N.of_nat (length (d_trace d)); N.of_nat (length s)].
Definition C02_go (w : world run_input) : full_outcome :=
  execute_air_full no_streams no_finish (fun _ => true) (fun _ => true) C02_ser 100%nat unlimited w [9; 9].
Definition C02_call : instr :=
  ICall "(call ""A"" (""s"" ""f"") [] x)"
        {| t_peer := PLiteral "A"; t_service := SLiteral "s"; t_function := SLiteral "f" |} []
        (OutScalar {| v_name := "x"; v_pos := 0 |}).
Definition C02_next : instr := INext "(next i)" {| v_name := "i"; v_pos := 0 |}.
Definition C02_bad_script_world : world run_input :=
  {| w_air_len := 6; w_cur_len := 0; w_prev_empty := false; w_prev_env := ROk tt; w_cur_env := ROk min_as_version;
     w_prev_inner := ROk tt; w_cur_inner := ROk tt; w_verify := ROk tt; w_parse_air := RErr AIRParseError;
     w_call_results := ROk []; w_keypair := ROk tt; w_rest := ib_input INull [] |}.

Definition C02_is (o : full_outcome) (code : Z) (data : bytes) (nreqs : nat) : Prop :=
  exists r, o = FOut r /\ r_code r = code /\ r_data r = data /\ length (r_reqs r) = nreqs /\ r_next r = [].

Example C02_nonvacuous :
  (* a preparation failure, and an uncatchable error raised after a call request was issued: previous bytes *)
  C02_is (C02_go C02_bad_script_world) 1%Z [9; 9] 0 /\
  C02_is (C02_go (ib_world (IPar C02_call C02_next) [])) 20003%Z [9; 9] 0 /\
  (* success with a request, a catchable error, left-over call results: new data *)
  C02_is (C02_go (ib_world C02_call [])) 0%Z [1; 1; 1; 0] 1 /\
  C02_is (C02_go (ib_world (IFail "(fail 1 ""x"")" (FLiteral 1 "x")) [])) 10006%Z [1; 0; 0; 0] 0 /\
  C02_is (C02_go (ib_world INull [(5, {| sa_ret_code := 0%Z; sa_text := "1"; sa_parsed := Some (JInt 1) |})]))
         30000%Z [1; 0; 0; 0] 0 /\
  (* and the hypotheses of the theorems hold on them *)
  compactify_ok no_streams no_finish (fun _ => true) 100%nat unlimited (ib_world C02_call []).
Proof.
  split; [eexists; split; [vm_compute; reflexivity|repeat split]|].
  split; [eexists; split; [vm_compute; reflexivity|repeat split]|].
  split; [eexists; split; [vm_compute; reflexivity|repeat split]|].
  split; [eexists; split; [vm_compute; reflexivity|repeat split]|].
  split; [eexists; split; [vm_compute; reflexivity|repeat split]|].
  intros x _. exists x. reflexivity.
Qed.

Definition C02_handler : handler cid := meet_ap_end cid (handler_from cid [] []) [7].
Example C02_compactify_nonvacuous :
  (exists h', Stream.run_plan (update_generation cid) C02_handler {| Stream.cp_updates := [(0, 3)]; Stream.cp_crash := None |}
              = Stream.CompactOk h' /\ result_trace cid h' = [SAp [3]]) /\
  (exists e, Stream.run_plan (update_generation cid) C02_handler {| Stream.cp_updates := [(1, 3)]; Stream.cp_crash := None |}
              = Stream.CompactErr e).
Proof. split; eexists; [split|]; vm_compute; reflexivity. Qed.

(* run2 on a script with two streams, a `new`-scoped stream and a stream fold: the reached context holds three
   live values (the one of the `new`-scoped stream has left the tables), compactifies, and the full routing
   answers new data *)
Definition C02_ap (text val name : string) (pos : N) : instr :=
  IAp text (ALiteral val) (ApStream {| v_name := name; v_pos := pos |}).
Definition C02_stream_script : instr :=
  ISeq (C02_ap "ap1" "x" "$s" 10)
       (ISeq (INew "new" (NStream {| v_name := "$t"; v_pos := 20 |}) (C02_ap "ap2" "y" "$t" 25) {| sp_left := 15; sp_right := 40 |})
             (ISeq (C02_ap "ap3" "z" "$s" 50)
                   (IFoldStream "fold" {| v_name := "$s"; v_pos := 60 |} {| v_name := "i"; v_pos := 61 |}
                                (C02_ap "ap4" "w" "$u" 70) None {| sp_left := 55; sp_right := 90 |}))).
Example C02_run2_nonvacuous :
  match exec ExecStreams.stream_instr 100 C02_stream_script (initial_ctx (ib_input C02_stream_script [])) with
  | XOk x =>
      map va_pos (StreamPosSpec.ctx_values x) = [0; 2; 4] /\
      match ExecStreams.finish_streams x with
      | inl y => result_trace cid (x_handler y) =
                 [SAp [0]; SAp [0]; SAp [0];
                  SFold [{| fl_value_pos := 0; fl_descs := [{| sd_pos := 4; sd_len := 1 |}; {| sd_pos := 5; sd_len := 0 |}] |}];
                  SAp [0]]
      | inr _ => False
      end
  | _ => False
  end /\
  C02_is (execute_air_full ExecStreams.stream_instr ExecStreams.finish_streams (fun _ => true) (fun _ => true) C02_ser
                           100%nat unlimited (ib_world C02_stream_script []) [9; 9]) 0%Z [1; 0; 5; 0] 0.
Proof.
  split; [vm_compute; split; reflexivity|].
  eexists; split; [vm_compute; reflexivity|repeat split].
Qed.

Print Assumptions C02_codes.
Print Assumptions C02_codes_general.
Print Assumptions C02_fail_stages.
Print Assumptions C02_fail_keeps_prev.
Print Assumptions C02_ok_data.
Print Assumptions C02_code_classes.
Print Assumptions C02_run_glue.
Print Assumptions C02.
Print Assumptions C02_internal_error_branch.
Print Assumptions C02_compactify_sufficient.
Print Assumptions C02_source_tie.
Print Assumptions C02_stream_pos_inv.
Print Assumptions C02_gen_at_spec.
Print Assumptions C02_finish_total.
Print Assumptions C02_compactify_total.
Print Assumptions C02_compactify_ok_run2.
Print Assumptions C02_fail_keeps_prev_run2.
Print Assumptions C02_code_classes_run2.
