(* props/C27.v -- data and call encodings round-trip.
   Only pinned statements, [exact], non-vacuity examples and Print Assumptions.
   Premises that stand for third-party code (the inner Format, semver text, rkyv) are explicit. *)
From Aqua Require Import Base Wire WireProofs.
Open Scope list_scope.
Open Scope N_scope.

(* u32 varint: what the encoder writes is read back, whatever follows *)
Theorem C27_varint_roundtrip : forall n tag rest,
  varint_encode_u32 n = Some tag -> varint_decode_u32 (tag ++ rest) = VOk n rest.
Proof. exact varint_roundtrip. Qed.

(* every u32 has an encoding; it has 1..5 bytes *)
Theorem C27_varint_total : forall n, n < u32_bound -> exists tag, varint_encode_u32 n = Some tag.
Proof. exact u32_enc_some. Qed.

Theorem C27_varint_length : forall n tag, varint_encode_u32 n = Some tag ->
  (1 <= length tag <= 5)%nat /\ forallb is_byte tag = true.
Proof. exact varint_encode_length. Qed.

Theorem C27_varint_encode_injective : forall n m tag,
  varint_encode_u32 n = Some tag -> varint_encode_u32 m = Some tag -> n = m.
Proof. exact varint_encode_injective. Qed.

Theorem C27_varint_prefix_free : forall n m t1 t2 r1 r2,
  varint_encode_u32 n = Some t1 -> varint_encode_u32 m = Some t2 -> t1 ++ r1 = t2 ++ r2 -> n = m /\ r1 = r2.
Proof. exact varint_prefix_free. Qed.

(* "the decoder accepts only the canonical encoding" ([C27_varint_canonical_full], model/Wire.v)
   is FALSE for unsigned-varint 0.8.0: 80 80 80 80 10 is read as 0 *)
Theorem C27_varint_canonical_refuted : ~ C27_varint_canonical_full.
Proof. exact varint_decode_canonical_refuted. Qed.

(* what does hold: the decoder consumes 1..5 bytes, returns their LEB128 value modulo 2^32, and
   when that value fits u32 the consumed bytes are exactly the canonical encoding *)
Theorem C27_varint_canonical_partial : forall bs n rest, forallb is_byte bs = true ->
  varint_decode_u32 bs = VOk n rest ->
  exists pre, bs = pre ++ rest /\ (1 <= length pre <= 5)%nat /\ n = leb_value pre mod u32_bound /\
    (leb_value pre < u32_bound -> varint_encode_u32 n = Some pre).
Proof. exact varint_decode_canonical_partial. Qed.

(* multiformat over any inner format that reads back what it writes *)
Theorem C27_multiformat_roundtrip :
  forall (A : Type) (enc : A -> option (list N)) (dec : list N -> option A),
  (forall x bs, enc x = Some bs -> dec bs = Some x) ->
  forall c x bs, encode_multiformat A enc c x = Some bs -> decode_multiformat A dec c bs = MOk x.
Proof. exact multiformat_roundtrip. Qed.

Theorem C27_multiformat_rejects_other_codec :
  forall (A : Type) (enc : A -> option (list N)) (dec : list N -> option A),
  forall c c' x bs, c <> c' ->
  encode_multiformat A enc c x = Some bs -> decode_multiformat A dec c' bs = MErr (DCodec c).
Proof. exact multiformat_rejects_other_codec. Qed.

Theorem C27_multiformat_accepts_only_tagged :
  forall (A : Type) (dec : list N -> option A),
  forall c bs x, forallb is_byte bs = true -> decode_multiformat A dec c bs = MOk x ->
  exists tag payload, bs = tag ++ payload /\ dec payload = Some x /\ c = leb_value tag mod u32_bound /\
    (leb_value tag < u32_bound -> varint_encode_u32 c = Some tag).
Proof. exact multiformat_accepts_only_tagged. Qed.

(* envelope: the versions are readable whatever the inner data is (and whatever follows) *)
Theorem C27_envelope_versions_independent :
  forall (V : Type) (print_ver : V -> string) (parse_ver : string -> option V),
  (forall v, parse_ver (print_ver v) = Some v) ->
  forall dv iv inner bs junk,
  envelope_serialize V print_ver dv iv inner = Some bs ->
  try_get_versions V parse_ver (bs ++ junk) = EOk (dv, iv).
Proof. exact envelope_versions_independent. Qed.

Theorem C27_envelope_roundtrip :
  forall (V : Type) (print_ver : V -> string) (parse_ver : string -> option V),
  (forall v, parse_ver (print_ver v) = Some v) ->
  forall dv iv inner bs junk,
  envelope_serialize V print_ver dv iv inner = Some bs ->
  envelope_try_from_slice V parse_ver (bs ++ junk) = EOk (dv, iv, inner).
Proof. exact envelope_roundtrip. Qed.

Theorem C27_envelope_serialize_total :
  forall (V : Type) (print_ver : V -> string) dv iv inner,
  lenN (bytes_of_string (print_ver dv)) < u32_bound -> lenN (bytes_of_string (print_ver iv)) < u32_bound ->
  lenN inner < u32_bound -> exists bs, envelope_serialize V print_ver dv iv inner = Some bs.
Proof. exact envelope_serialize_total. Qed.

(* interpreter data inside its envelope, over any inner (rkyv) format that reads back what it writes *)
Theorem C27_data_roundtrip :
  forall (V : Type) (print_ver : V -> string) (parse_ver : string -> option V),
  (forall v, parse_ver (print_ver v) = Some v) ->
  forall (D : Type) (data_enc : D -> option (list N)) (data_dec : list N -> option D),
  (forall d bs, data_enc d = Some bs -> data_dec bs = Some d) ->
  forall dv iv d bs,
  data_to_bytes V print_ver D data_enc dv iv d = Some bs ->
  data_from_bytes V parse_ver D data_dec bs = EOk (dv, iv, d).
Proof. exact data_envelope_roundtrip. Qed.

(* the codec numbers, the Format of the two call maps, the envelope's field names and the varint
   crate's two numbers are the ones found in the sources today *)
Theorem C27_source_tie : wire_constants_agree = true.
Proof. exact wire_constants_ok. Qed.

(* non-vacuity *)
Example C27_nonvacuous_varint :
  varint_encode_u32 multiformat_msgpack = Some [129; 4] /\
  varint_decode_u32 [129; 4; 7; 7] = VOk 513 [7; 7] /\
  varint_encode_u32 4294967295 = Some [255; 255; 255; 255; 15] /\
  varint_decode_u32 [128; 0] = VErr VNotMinimal /\
  varint_decode_u32 [128; 128; 128; 128; 128; 1] = VErr VOverflow /\
  varint_decode_u32 [128] = VErr VInsufficient /\
  varint_decode_u32 [129; 132; 128; 128; 16; 7] = VOk 513 [7].
Proof. vm_compute. repeat split. Qed.

Example C27_nonvacuous_multiformat :
  encode_multiformat (list N) (fun x => Some x) multiformat_msgpack [1; 2] = Some [129; 4; 1; 2] /\
  decode_multiformat (list N) (fun x => Some x) multiformat_msgpack [129; 4; 1; 2] = MOk [1; 2] /\
  decode_multiformat (list N) (fun x => Some x) multiformat_json [129; 4; 1; 2] = MErr (DCodec 513).
Proof. vm_compute. repeat split. Qed.

Example C27_nonvacuous_envelope :
  exists bs, envelope_serialize string (fun s => s) "0.6.3" "0.61.0" [1; 2; 3] = Some bs /\
    length bs = 58%nat /\
    try_get_versions string (fun s => Some s) bs = EOk ("0.6.3", "0.61.0")%string /\
    envelope_try_from_slice string (fun s => Some s) bs = EOk ("0.6.3", "0.61.0", [1; 2; 3])%string.
Proof. eexists. vm_compute. repeat split. Qed.

Print Assumptions C27_varint_roundtrip.
Print Assumptions C27_varint_total.
Print Assumptions C27_varint_length.
Print Assumptions C27_varint_encode_injective.
Print Assumptions C27_varint_prefix_free.
Print Assumptions C27_varint_canonical_refuted.
Print Assumptions C27_varint_canonical_partial.
Print Assumptions C27_multiformat_roundtrip.
Print Assumptions C27_multiformat_rejects_other_codec.
Print Assumptions C27_multiformat_accepts_only_tagged.
Print Assumptions C27_envelope_versions_independent.
Print Assumptions C27_envelope_roundtrip.
Print Assumptions C27_envelope_serialize_total.
Print Assumptions C27_data_roundtrip.
Print Assumptions C27_source_tie.
