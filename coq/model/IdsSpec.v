(* IdsSpec.v -- statements of C06 (call request ids are fresh, results reach the call that requested
   them) and C05 (each service call runs once, its result is never lost) over the executor model
   (Exec.v: [exec], [resolved_call_execute], [handle_prev_state]; RunExec.v: [run]).

   The stream / canon instructions are the parameter [esi] of [exec] (ExecStreams.v instantiates it);
   every statement about [exec] / [run] is made for EVERY [esi] that satisfies a hypothesis of the
   same shape as the conclusion ([hook_preserves R]: if the executor passed to it respects the relation
   R between the context before and after, so does the stream instruction), and every [fs]
   (compactification of stream generations at the end of the run) that leaves the four fields the
   properties are about alone ([finish_keeps_ids]).
   Definitions only. *)
From Coq Require Import Sorted.
From Aqua Require Import Base Json Air Trace Handler Values Scalars Lens Exec RunExec ExecStreams CallSpec.
Open Scope N_scope.
Open Scope list_scope.

(* ------------------------------------------------------------------------------------------ *)
(* relations between the context before and after an instruction *)

(* [res_sat R x r] (every context carried by the outcome r is R-related to x), [stream_hook],
   [hook_preserves R esi] and [outcome_ctx] are those of model/CallSpec.v *)

Definition finish_keeps_ids (fs : ctx -> ctx + uncatchable) : Prop :=
  forall x x1, fs x = inl x1 ->
    x_lcid x1 = x_lcid x /\ x_requests x1 = x_requests x /\ x_call_results x1 = x_call_results x /\
    x_params x1 = x_params x.

(* [start; start+1; ...] of the given length *)
Fixpoint N_seq (start : N) (len : nat) : list N :=
  match len with O => [] | S k => start :: N_seq (start + 1) k end.

Definition u32_max_id : N := 4294967295.

(* freshness: the requests issued by an instruction are appended, their ids continue the counter *)
Definition fresh_step (x x' : ctx) : Prop :=
  exists new : list (N * request),
    x_requests x' = x_requests x ++ new /\
    map fst new = N_seq (x_lcid x + ids_src_increment) (length new) /\
    x_lcid x' = x_lcid x + N.of_nat (length new) /\
    (x_lcid x <= u32_max_id -> x_lcid x' <= u32_max_id).

(* l' is l with some entries removed (order kept) *)
Inductive removed_from {A} : list A -> list A -> Prop :=
| rf_nil : removed_from [] []
| rf_keep : forall a l' l, removed_from l' l -> removed_from (a :: l') (a :: l)
| rf_drop : forall a l' l, removed_from l' l -> removed_from l' (a :: l).

(* call results are only ever taken away; the run parameters never change *)
Definition results_step (x x' : ctx) : Prop :=
  removed_from (x_call_results x') (x_call_results x) /\ x_params x' = x_params x.

(* nothing about calls changes (used for "no request is issued") *)
Definition no_request (x x' : ctx) : Prop := x_requests x' = x_requests x /\ x_lcid x' = x_lcid x.

(* ------------------------------------------------------------------------------------------ *)
(* C06: freshness *)

Definition out_requests (o : outcome) : list (N * request) :=
  match o with OutNewData _ _ _ reqs _ => reqs | _ => [] end.
(* what the host stores after a run (air/README: the returned data; a failed run returns the previous
   data byte for byte; a panicking run returns nothing) *)
Definition host_next_prev (prev : idata) (o : outcome) : idata :=
  match o with OutNewData _ d _ _ _ => d | _ => prev end.

Definition C06_fresh_exec_stmt : Prop :=
  forall esi, hook_preserves fresh_step esi ->
  forall fuel i x, res_sat fresh_step x (exec esi fuel i x).

(* one run: the request ids are lcid(prev)+1 .. lcid(prev)+k in order, the new data stores lcid(prev)+k;
   a run that gives no new data issues no request (and the host keeps prev) *)
Definition fresh_run_post (prev : idata) (o : outcome) : Prop :=
  let ids := map fst (out_requests o) in
  ids = N_seq (d_lcid prev + 1) (length ids) /\
  d_lcid (host_next_prev prev o) = d_lcid prev + N.of_nat (length ids) /\
  (d_lcid prev <= u32_max_id -> d_lcid (host_next_prev prev o) <= u32_max_id) /\
  match o with OutNewData _ _ _ _ _ => True | _ => ids = [] end.

Definition C06_fresh_run_stmt : Prop :=
  forall esi fs, hook_preserves fresh_step esi -> finish_keeps_ids fs ->
  forall fuel i, fresh_run_post (ri_prev i) (run esi fs fuel i).

(* a sequence of runs of one peer: every run takes as previous data what the host stored after the
   run before; script, parameters, current data, call results and fuel of every run are arbitrary *)
Record run_step := { rs_script : instr; rs_params : run_params; rs_cur : idata;
                     rs_results : list (N * service_answer); rs_fuel : nat }.
Definition step_input (prev : idata) (s : run_step) : run_input :=
  {| ri_script := rs_script s; ri_params := rs_params s; ri_prev := prev; ri_cur := rs_cur s; ri_results := rs_results s |}.

Section RunSeq.
  Variable esi : stream_hook.
  Variable fs : ctx -> ctx + uncatchable.
  (* the ids handed to the host in every run, and the data the host holds at the end *)
  Fixpoint run_seq (prev : idata) (steps : list run_step) : list (list N) * idata :=
    match steps with
    | [] => ([], prev)
    | s :: rest =>
        let o := run esi fs (rs_fuel s) (step_input prev s) in
        let '(idss, final) := run_seq (host_next_prev prev o) rest in
        (map fst (out_requests o) :: idss, final)
    end.
End RunSeq.

Definition fresh_runs_post (prev : idata) (r : list (list N) * idata) : Prop :=
  let '(idss, final) := r in
  let all := concat idss in
  all = N_seq (d_lcid prev + 1) (length all) /\
  d_lcid final = d_lcid prev + N.of_nat (length all) /\
  StronglySorted N.lt all /\ NoDup all /\ Forall (fun k => d_lcid prev < k <= d_lcid final) all.

Definition C06_fresh_runs_stmt : Prop :=
  forall esi fs, hook_preserves fresh_step esi -> finish_keeps_ids fs ->
  forall prev steps, fresh_runs_post prev (run_seq esi fs prev steps).

(* the same for the full executor (stage 2: ExecStreams.stream_instr, finish_streams; run2), unconditionally *)
Definition C06_fresh_run2_stmt : Prop := forall fuel i, fresh_run_post (ri_prev i) (run2 fuel i).
Definition C06_fresh_runs2_stmt : Prop := forall prev steps, fresh_runs_post prev (run_seq stream_instr finish_streams prev steps).
Definition C06_exec2_stmt : Prop :=
  forall fuel i x, res_sat fresh_step x (exec stream_instr fuel i x) /\ res_sat results_step x (exec stream_instr fuel i x).

(* the current data's counter is ignored *)
Definition with_cur_lcid (i : run_input) (n : N) : run_input :=
  {| ri_script := ri_script i; ri_params := ri_params i; ri_prev := ri_prev i;
     ri_cur := {| d_trace := d_trace (ri_cur i); d_lcid := n; d_cids := d_cids (ri_cur i) |};
     ri_results := ri_results i |}.
Definition C06_lcid_from_prev_stmt : Prop :=
  forall esi fs fuel i n, run esi fs fuel (with_cur_lcid i n) = run esi fs fuel i.

(* ------------------------------------------------------------------------------------------ *)
(* C06: routing of results *)

(* a call takes a result out of the map only under the id of the pending state it meets, and only
   when that state was left by this very peer *)
Definition C06_routing_call_stmt : Prop :=
  forall x t args out x',
    outcome_ctx (resolved_call_execute x t args out) = Some x' ->
    x_params x' = x_params x /\
    (x_call_results x' = x_call_results x \/
     exists k ans pos src h',
       meet_call_start cid cid_eqb (x_handler x) = Ok (CallMet cid (RequestSentBy (SPeerCall (current_peer x) k)) pos src, h') /\
       results_take (x_call_results x) k = (Some ans, x_call_results x')).

(* what [results_take] does: the FIRST entry under the key is removed, everything else stays, in order *)
Definition C06_results_take_stmt : Prop :=
  forall l k,
    match results_take l k with
    | (Some a, rest) => exists l1 l2, l = l1 ++ (k, a) :: l2 /\ rest = l1 ++ l2 /\ ~ In k (map fst l1)
    | (None, rest) => rest = l /\ ~ In k (map fst l)
    end.

(* every instruction only ever removes entries *)
Definition C06_routing_exec_stmt : Prop :=
  forall esi, hook_preserves results_step esi ->
  forall fuel i x, res_sat results_step x (exec esi fuel i x).

(* pending ids of a peer in a trace *)
Definition pending_ids (me : string) (tr : list (state cid)) : list N :=
  flat_map (fun s => match s with
                     | SCall (RequestSentBy (SPeerCall p k)) => if String.eqb p me then [k] else []
                     | _ => [] end) tr.

(* leftovers: code 30000 and the new data is still returned; no leftovers: code 0 *)
Definition C06_unknown_stmt : Prop :=
  forall esi fs fuel i x,
    exec esi fuel (ri_script i) (initial_ctx i) = XOk x ->
    match fs x with
    | inl x1 =>
        exists code,
          run esi fs fuel i = OutNewData code (data_of_ctx x1) (dedup (x_next_peers x1) []) (x_requests x1) (x_tracker x1) /\
          (x_call_results x <> [] -> code = 30000%Z) /\ (x_call_results x = [] -> code = 0%Z)
    | inr u => run esi fs fuel i = OutPrevData (uncatchable_code u)
    end.

(* an id that the run was given and that is still there at the end was not consumed; in particular a
   result under an id for which the map holds nothing consumable stays: with [C06_routing_exec] every
   supplied entry is either consumed at a call that met RequestSentBy(me, id) or is a leftover *)
Definition C06_unknown_full : Prop :=
  forall esi fs, finish_keeps_ids fs -> forall fuel i x,
    (exec esi fuel (ri_script i) (initial_ctx i) = XOk x \/
     exists c, exec esi fuel (ri_script i) (initial_ctx i) = XErr (ECatch c) x) ->
    x_call_results x <> [] ->
    exists d next reqs signed, run esi fs fuel i = OutNewData 30000%Z d next reqs signed.

(* ------------------------------------------------------------------------------------------ *)
(* C05 *)

Definition is_done_or_pending (me : string) (c : call_result cid) : Prop :=
  match c with
  | Executed _ | Failed _ => True
  | RequestSentBy (SPeerCall p _) => p = me
  | RequestSentBy (SPeer _) => False
  end.

(* a call whose merged previous state is Executed, Failed or RequestSentBy(me, _) issues no request *)
Definition C05_not_rerequested_stmt : Prop :=
  forall x t args out met pos src h' x',
    meet_call_start cid cid_eqb (x_handler x) = Ok (CallMet cid met pos src, h') ->
    is_done_or_pending (current_peer x) met ->
    outcome_ctx (resolved_call_execute x t args out) = Some x' ->
    no_request x x'.

(* a result handed back under the id of the pending state the call meets is taken out of the map and
   becomes the Executed / Failed state appended to the result trace -- unless the run fails with an
   uncatchable error or crashes (then the whole run is void and the host keeps the previous data) *)
Definition C05_recorded_stmt : Prop :=
  forall x t args out k ans rest pos src h' arg_values arg_tetraplets,
    collect_args x args = POk (arg_values, arg_tetraplets) ->
    meet_call_start cid cid_eqb (x_handler x) = Ok (CallMet cid (RequestSentBy (SPeerCall (current_peer x) k)) pos src, h') ->
    results_take (x_call_results x) k = (Some ans, rest) ->
    let r := resolved_call_execute x t args out in
    match r with
    | XOk x' =>
        x_call_results x' = rest /\ no_request x x' /\
        exists v, result_trace cid (x_handler x') = result_trace cid h' ++ [SCall (Executed v)]
    | XErr (ECatch c) x' =>
        x_call_results x' = rest /\ no_request x x' /\
        (exists code msg, c = CLocalServiceError code msg) /\
        exists fc, result_trace cid (x_handler x') = result_trace cid h' ++ [SCall (Failed fc)]
    | XErr (EUncatch _) _ | XCrash _ | XFuel | XUnsupported _ => True
    end.
(* ... and meeting the state does not touch the result trace *)
Definition C05_meet_keeps_result_stmt : Prop :=
  forall (h h' : handler cid) m, meet_call_start cid cid_eqb h = Ok (m, h') -> result_trace cid h' = result_trace cid h.

(* without a result the pending state is kept as it is and nothing is issued *)
Definition C05_pending_kept_stmt : Prop :=
  forall x t args out k rest pos src h',
    meet_call_start cid cid_eqb (x_handler x) = Ok (CallMet cid (RequestSentBy (SPeerCall (current_peer x) k)) pos src, h') ->
    results_take (x_call_results x) k = (None, rest) ->
    match resolved_call_execute x t args out with
    | XOk x' =>
        x_call_results x' = x_call_results x /\ no_request x x' /\ x_complete x' = false /\
        result_trace cid (x_handler x') = result_trace cid h' ++ [SCall (RequestSentBy (SPeerCall (current_peer x) k))]
    | XErr e x' =>      (* only when an argument fails to resolve with a non-joinable error: nothing was touched *)
        x' = x /\ collect_args x args = PErr e /\ is_joinable e = false
    | _ => True
    end.

(* a request is issued only by a call addressed to this peer that met no state or a RequestSentBy state
   of ANOTHER peer; the state it leaves carries the id *)
Definition C05_request_recorded_stmt : Prop :=
  forall x t args out x',
    outcome_ctx (resolved_call_execute x t args out) = Some x' ->
    no_request x x' \/
    (tp_peer t = current_peer x /\
     exists rq, x_requests x' = x_requests x ++ [(x_lcid x + ids_src_increment, rq)] /\
                x_lcid x' = x_lcid x + ids_src_increment /\
                rq_service rq = tp_service t /\ rq_function rq = tp_function t /\
                exists tr, result_trace cid (x_handler x') = tr ++ [SCall (RequestSentBy (SPeerCall (current_peer x) (x_lcid x')))]).

(* The history-level reading ("in every honest history each call instance is issued at most once") is
   not a local fact.  It is kept in this form: in a closed history of ONE peer (every current data is
   empty or one of the data the peer produced before, results are handed back for pending ids only),
   for a fold-free script whose call instructions have pairwise different function names, no two
   requests handed to the host over the whole sequence name the same function. *)
Fixpoint fold_free (i : instr) : bool :=
  match i with
  | ISeq a b | IPar a b | IXor a b => fold_free a && fold_free b
  | IMatch _ _ _ b | IMisMatch _ _ _ b | INew _ _ b _ => fold_free b
  | IFoldScalar _ _ _ _ _ _ | IFoldStream _ _ _ _ _ _ | IFoldStreamMap _ _ _ _ _ _ | INext _ _ => false
  | _ => true
  end.
Fixpoint call_functions (i : instr) : list string_arg :=
  match i with
  | ICall _ tr _ _ => [t_function tr]
  | ISeq a b | IPar a b | IXor a b => call_functions a ++ call_functions b
  | IMatch _ _ _ b | IMisMatch _ _ _ b | INew _ _ b _ => call_functions b
  | _ => []
  end.
Definition literal_function (s : string_arg) : option string := match s with SLiteral f => Some f | _ => None end.

Section History.
  Variable esi : stream_hook.
  Variable fs : ctx -> ctx + uncatchable.
  Variable script : instr.
  Variable params : run_params.
  (* one step: which earlier data comes in as current data (None: empty), which pending ids are answered *)
  Record hstep := { hs_cur : option nat; hs_results : list (N * service_answer); hs_fuel : nat }.
  Fixpoint closed_history (prev : idata) (produced : list idata) (steps : list hstep) : list (list (N * request)) :=
    match steps with
    | [] => []
    | s :: rest =>
        let cur := match hs_cur s with Some n => nth n produced empty_data | None => empty_data end in
        let o := run esi fs (hs_fuel s)
                   {| ri_script := script; ri_params := params; ri_prev := prev; ri_cur := cur; ri_results := hs_results s |} in
        out_requests o :: closed_history (host_next_prev prev o) (produced ++ [host_next_prev prev o]) rest
    end.
End History.

Definition C05_full : Prop :=
  forall esi fs script params steps,
    fold_free script = true ->
    NoDup (map literal_function (call_functions script)) ->
    Forall (fun f => f <> None) (map literal_function (call_functions script)) ->
    NoDup (map (fun r => rq_function (snd r)) (concat (closed_history esi fs script params empty_data [] steps))).

(* ------------------------------------------------------------------------------------------ *)
(* what the model assumes about the source lines read by tools/genx_ids.py *)

Definition ids_source_agrees : bool :=
  (ids_src_increment =? 1) && (ids_src_id_bits =? 32) &&
  String.eqb ids_src_ctx_lcid_from "prev_ingredients" &&
  String.eqb ids_src_prev_ingredients_from "prev_data" &&
  String.eqb ids_src_current_ingredients_from "current_data" &&
  String.eqb ids_src_consume_op "remove" && String.eqb ids_src_consume_key "call_id" &&
  String.eqb ids_src_consume_some_descriptor "executed" && String.eqb ids_src_consume_none_descriptor "not_ready" &&
  list_eqb (pair_eqb String.eqb String.eqb) ids_src_call_results_uses
           [("air/src/execution_step/instructions/call/prev_result_handler.rs", "exec_ctx.call_results.remove")] &&
  list_eqb (pair_eqb (pair_eqb String.eqb Bool.eqb) Bool.eqb) ids_src_state_descriptors
           [("can_execute_now", true, true); ("cant_execute_now", false, true); ("executed", false, false);
            ("no_previous_state", true, false); ("not_ready", false, true)] &&
  ids_src_execute_issues_next_id &&
  String.eqb ids_src_farewell_test "exec_ctx.call_results.is_empty()" &&
  String.eqb ids_src_farewell_success_code "INTERPRETER_SUCCESS" &&
  String.eqb ids_src_farewell_leftover_variant "UnprocessedCallResult" &&
  list_eqb String.eqb farewell_error_variants ["UnprocessedCallResult"] &&
  (farewell_errors_start_id =? 30000)%Z &&
  negb ids_src_execution_error_reads_call_results.

(* the overflow guard of the model is the id type of the source *)
Definition ids_overflow_bound_agrees : bool := u32_max_id =? 2 ^ ids_src_id_bits - 1.
