(* Handler.v -- the TraceHandler: sliders, data keeper, mergers, par/fold state machines, API.

   Mirrors crates/air-lib/trace-handler/src (every function below names the Rust function it
   mirrors).  `&mut self` is state passing; a Rust panic (unchecked u32 arithmetic with overflow
   checks on, slice index, unwrap) is the outcome [Crash site]; errors are classified by their
   enum variant.  Errors the Rust code swallows (`let _ =`) are swallowed here too.
   Definitions only. *)
From Aqua Require Import Base Trace.
Open Scope N_scope.
Open Scope list_scope.

Definition u32_max : N := 4294967295.

(* ---- error classes: TraceHandlerError and everything below it, by variant ---- *)
Inductive herr :=
(* KeeperError *)
| SetSubtraceLenFailed | SetSubtraceLenAndPosFailed | NoElementAtPosition | NoStreamState
(* MergeError *)
| IncompatibleExecutedStates | DifferentExecutedStateExpected
| InvalidDstGenerations                    (* IncorrectApResult *)
| ValuesNotEqual | IncompatibleCallResults (* IncorrectCallResult *)
| CanonIncompatibleState                   (* IncorrectCanonResult *)
| SubtraceLenOverflow | SeveralRecordsWithSamePos | FoldIncorrectSubtracesCount (* IncorrectFoldResult *)
(* StateFSMError *)
| ParQueueIsEmpty | FoldFSMNotFound | ParLenOverflow | ParPosOverflow | ParLenUnderflow
| FoldPosOverflow | FoldLenUnderflow.

Definition herr_index (e : herr) : N :=
  match e with
  | SetSubtraceLenFailed => 0 | SetSubtraceLenAndPosFailed => 1 | NoElementAtPosition => 2 | NoStreamState => 3
  | IncompatibleExecutedStates => 4 | DifferentExecutedStateExpected => 5 | InvalidDstGenerations => 6
  | ValuesNotEqual => 7 | IncompatibleCallResults => 8 | CanonIncompatibleState => 9
  | SubtraceLenOverflow => 10 | SeveralRecordsWithSamePos => 11 | FoldIncorrectSubtracesCount => 12
  | ParQueueIsEmpty => 13 | FoldFSMNotFound => 14 | ParLenOverflow => 15 | ParPosOverflow => 16
  | ParLenUnderflow => 17 | FoldPosOverflow => 18 | FoldLenUnderflow => 19
  end.
Definition herr_eqb (a b : herr) : bool := herr_index a =? herr_index b.

(* panic sites of the trace handler (C01 catalogue) *)
Inductive site :=
| SitePosPlusLen          (* trace_slider.rs set_position_and_len: position + subtrace_len (u32 overflow) *)
| SiteRemainder           (* trace_slider.rs set_subtrace_len: trace_len - position (u32 underflow) *)
| SitePosMinusOne         (* position_mapping.rs: slider.position() - 1 *)
| SiteApGenerationIndex   (* merge_ctx.rs try_get_generation: ap_result.res_generations[0] *)
| SiteCtorQueueCurrent    (* lore_ctor_queue.rs current(): queue[back_traversal_pos - 1] *)
| SiteTrackerLen          (* lore_ctor.rs PositionsTracker::len: end_pos - start_pos *)
| SiteParBuilderTrack     (* par_builder.rs track: states_count - prev_states_count *)
| SiteInserterIndex       (* state_inserter.rs insert: result_trace[position] *)
| SiteTraverseBack        (* lore_ctor_queue.rs traverse_back: back_traversal_pos -= 1 *)
| SiteResultLen.          (* trace.rs trace_states_count: len does not fit u32 *)

Inductive res (A : Type) := Ok (a : A) | Err (e : herr) | Crash (s : site).
Arguments Ok {A} a. Arguments Err {A} e. Arguments Crash {A} s.

Definition bind {A B} (r : res A) (f : A -> res B) : res B :=
  match r with Ok a => f a | Err e => Err e | Crash s => Crash s end.
Notation "'do' x <- r ; k" := (bind r (fun x => k)) (at level 200, x pattern, r at level 100, k at level 200, right associativity).

(* `let _ = r` / errors ignored: keep the old value on error; a panic is still a panic *)
Definition swallow {A} (r : res A) (old : A) : res A :=
  match r with Ok a => Ok a | Err _ => Ok old | Crash s => Crash s end.

Section Handler.
  Variable C : Type.
  Variable ceqb : C -> C -> bool.
  Notation state := (state C).
  Notation trace := (list state).

  (* ================= data_keeper/trace_slider.rs ================= *)
  Record slider := { s_trace : trace; s_pos : N; s_len : N; s_seen : N }.

  Definition slider_new (t : trace) : slider :=                       (* TraceSlider::new *)
    {| s_trace := t; s_pos := 0; s_len := len_N t; s_seen := 0 |}.

  Definition next_state (s : slider) : option state * slider :=       (* next_state *)
    if (s_len s <=? s_seen s) || (len_N (s_trace s) <=? s_pos s) then (None, s)
    else match nth_N (s_trace s) (s_pos s) with
         | Some st => (Some st, {| s_trace := s_trace s; s_pos := s_pos s + 1; s_len := s_len s; s_seen := s_seen s + 1 |})
         | None => (None, s)
         end.

  Definition set_position_and_len (s : slider) (p l : N) : res slider :=   (* set_position_and_len *)
    if negb (l =? 0) then
      (* since the fix: checked_add; an end that does not fit u32 is the same error as one past the trace *)
      if u32_max <? p + l then Err SetSubtraceLenAndPosFailed
      else if len_N (s_trace s) <? p + l then Err SetSubtraceLenAndPosFailed
      else Ok {| s_trace := s_trace s; s_pos := p; s_len := l; s_seen := 0 |}
    else Ok {| s_trace := s_trace s; s_pos := p; s_len := l; s_seen := 0 |}.

  Definition set_subtrace_len (s : slider) (l : N) : res slider :=         (* set_subtrace_len *)
    (* since the fix: saturating_sub (N subtraction truncates at 0 likewise) *)
    if (len_N (s_trace s) - s_pos s) <? l then Err SetSubtraceLenFailed
    else Ok {| s_trace := s_trace s; s_pos := s_pos s; s_len := l; s_seen := 0 |}.

  Definition subtrace_len (s : slider) : N := s_len s - s_seen s.          (* subtrace_len *)

  (* data_keeper/merge_ctx.rs: try_get_generation *)
  Definition try_get_generation (s : slider) (p : N) : res N :=
    match nth_N (s_trace s) p with
    | None => Err NoElementAtPosition
    | Some (SCall (Executed (VRStream _ g))) => Ok g
    | Some (SAp gens) => match gens with g :: _ => Ok g | [] => Err NoStreamState end   (* since the fix: was an index panic *)
    | Some _ => Err NoStreamState
    end.

  (* ================= data_keeper/keeper.rs ================= *)
  (* BiHashMap::insert removes every pair sharing the left or the right value *)
  Definition bimap := list (N * N).
  Definition bimap_insert (m : bimap) (l r : N) : bimap :=
    (l, r) :: filter (fun p => negb ((fst p =? l) || (snd p =? r))) m.
  Fixpoint bimap_get_by_left (m : bimap) (l : N) : option N :=
    match m with [] => None | (a, b) :: rest => if a =? l then Some b else bimap_get_by_left rest l end.

  Record keeper := {
    k_prev : slider; k_cur : slider;
    k_new_to_prev : bimap; k_new_to_cur : bimap;
    k_result : trace }.

  Definition keeper_from (prev cur : trace) : keeper :=
    {| k_prev := slider_new prev; k_cur := slider_new cur; k_new_to_prev := []; k_new_to_cur := []; k_result := [] |}.
  Definition with_prev (k : keeper) (s : slider) : keeper :=
    {| k_prev := s; k_cur := k_cur k; k_new_to_prev := k_new_to_prev k; k_new_to_cur := k_new_to_cur k; k_result := k_result k |}.
  Definition with_cur (k : keeper) (s : slider) : keeper :=
    {| k_prev := k_prev k; k_cur := s; k_new_to_prev := k_new_to_prev k; k_new_to_cur := k_new_to_cur k; k_result := k_result k |}.
  Definition with_result (k : keeper) (r : trace) : keeper :=
    {| k_prev := k_prev k; k_cur := k_cur k; k_new_to_prev := k_new_to_prev k; k_new_to_cur := k_new_to_cur k; k_result := r |}.
  Definition push_state (k : keeper) (st : state) : keeper := with_result k (k_result k ++ [st]).
  Definition result_next_pos (k : keeper) : N := len_N (k_result k).

  (* both sliders advance: the common prologue of every merger *)
  Definition next_states (k : keeper) : option state * option state * keeper :=
    let '(p, sp) := next_state (k_prev k) in
    let '(c, sc) := next_state (k_cur k) in
    (p, c, with_cur (with_prev k sp) sc).

  (* ================= merger/position_mapping.rs ================= *)
  Inductive scheme := SchPrevious | SchCurrent | SchBoth.
  Inductive value_source := PreviousData | CurrentData.
  Definition source_of (s : scheme) : value_source :=
    match s with SchPrevious | SchBoth => PreviousData | SchCurrent => CurrentData end.

  Definition prepare_positions_mapping (sch : scheme) (k : keeper) : res keeper :=
    let new_pos := result_next_pos k in
    let map_prev (k : keeper) : res keeper :=
      if s_pos (k_prev k) =? 0 then Crash SitePosMinusOne
      else Ok {| k_prev := k_prev k; k_cur := k_cur k;
                 k_new_to_prev := bimap_insert (k_new_to_prev k) new_pos (s_pos (k_prev k) - 1);
                 k_new_to_cur := k_new_to_cur k; k_result := k_result k |} in
    let map_cur (k : keeper) : res keeper :=
      if s_pos (k_cur k) =? 0 then Crash SitePosMinusOne
      else Ok {| k_prev := k_prev k; k_cur := k_cur k; k_new_to_prev := k_new_to_prev k;
                 k_new_to_cur := bimap_insert (k_new_to_cur k) new_pos (s_pos (k_cur k) - 1);
                 k_result := k_result k |} in
    match sch with
    | SchPrevious => map_prev k
    | SchCurrent => map_cur k
    | SchBoth => do k1 <- map_prev k; map_cur k1
    end.

  (* MergeError::incompatible_states *)
  Definition incompatible_states (p c : option state) : herr :=
    match p, c with
    | Some _, Some _ => IncompatibleExecutedStates
    | _, _ => DifferentExecutedStateExpected
    end.

  (* ================= merger/call_merger.rs ================= *)
  Inductive merger_call_result :=
  | CallNotMet
  | CallMet (r : call_result C) (trace_pos : N) (src : value_source).

  (* call_merger/utils.rs: merge_executed *)
  Definition merge_executed (p c : value_ref C) : res (call_result C) :=
    match p, c with
    | VRScalar _, VRScalar _ => if value_ref_eqb C ceqb p c then Ok (Executed p) else Err ValuesNotEqual
    | VRStream pc _, VRStream cc _ => if ceqb pc cc then Ok (Executed p) else Err ValuesNotEqual
    | VRUnused _, VRUnused _ => if value_ref_eqb C ceqb p c then Ok (Executed p) else Err ValuesNotEqual
    | _, _ => Err ValuesNotEqual
    end.

  (* merge_call_results: the decision table *)
  Definition merge_call_results (p c : call_result C) : res (call_result C * scheme) :=
    match p, c with
    | Failed _, Failed _ => if call_result_eqb C ceqb p c then Ok (p, SchPrevious) else Err IncompatibleCallResults
    | RequestSentBy _, Failed _ => Ok (c, SchCurrent)
    | Failed _, RequestSentBy _ => Ok (p, SchPrevious)
    | RequestSentBy _, RequestSentBy _ => Ok (p, SchPrevious)
    | RequestSentBy _, Executed _ => Ok (c, SchCurrent)
    | Executed _, RequestSentBy _ => Ok (p, SchPrevious)
    | Executed pv, Executed cv => do m <- merge_executed pv cv; Ok (m, SchBoth)
    | _, _ => Err IncompatibleCallResults
    end.

  Definition prepare_call_result (r : call_result C) (sch : scheme) (k : keeper) : res (merger_call_result * keeper) :=
    let pos := result_next_pos k in
    do k1 <- prepare_positions_mapping sch k;
    Ok (CallMet r pos (source_of sch), k1).

  Definition try_merge_next_state_as_call (k : keeper) : res (merger_call_result * keeper) :=
    let '(p, c, k1) := next_states k in
    match p, c with
    | Some (SCall pc), Some (SCall cc) =>
        do ms <- merge_call_results pc cc; prepare_call_result (fst ms) (snd ms) k1
    | None, Some (SCall cc) => prepare_call_result cc SchCurrent k1
    | Some (SCall pc), None => prepare_call_result pc SchPrevious k1
    | None, None => Ok (CallNotMet, k1)
    | _, _ => Err (incompatible_states p c)
    end.

  (* ================= merger/canon_merger.rs ================= *)
  Inductive merger_canon_result := CanonEmpty | CanonMet (r : canon_result C).

  Definition merge_canon_results (p c : canon_result C) : res (canon_result C) :=
    match p, c with
    | CanonExecuted x, CanonExecuted y => if ceqb x y then Ok p else Err CanonIncompatibleState
    | CanonRequestSentBy _, CanonExecuted _ => Ok c
    | _, _ => Ok p
    end.

  Definition try_merge_next_state_as_canon (k : keeper) : res (merger_canon_result * keeper) :=
    let '(p, c, k1) := next_states k in
    match p, c with
    | Some (SCanon pc), Some (SCanon cc) => do m <- merge_canon_results pc cc; Ok (CanonMet m, k1)
    | Some (SCanon pc), None => Ok (CanonMet pc, k1)
    | None, Some (SCanon cc) => Ok (CanonMet cc, k1)
    | None, None => Ok (CanonEmpty, k1)
    | _, _ => Err (incompatible_states p c)
    end.

  (* ================= merger/ap_merger.rs ================= *)
  Inductive merger_ap_result := ApNotMet | ApMet (generation : N) (src : value_source).

  Definition prepare_ap_result (gens : list N) (sch : scheme) (k : keeper) : res (merger_ap_result * keeper) :=
    do k1 <- prepare_positions_mapping sch k;
    match gens with
    | [g] => Ok (ApMet g (source_of sch), k1)
    | _ => Err InvalidDstGenerations
    end.

  Definition try_merge_next_state_as_ap (k : keeper) : res (merger_ap_result * keeper) :=
    let '(p, c, k1) := next_states k in
    match p, c with
    | Some (SAp pg), Some (SAp _) => prepare_ap_result pg SchBoth k1
    | Some (SAp pg), None => prepare_ap_result pg SchPrevious k1
    | None, Some (SAp cg) => prepare_ap_result cg SchCurrent k1
    | None, None => Ok (ApNotMet, k1)
    | _, _ => Err (incompatible_states p c)
    end.

  (* ================= merger/par_merger.rs ================= *)
  Definition try_merge_next_state_as_par (k : keeper) : res (option (N * N) * option (N * N) * keeper) :=
    let '(p, c, k1) := next_states k in
    match p, c with
    | Some (SPar pl pr), Some (SPar cl cr) => Ok (Some (pl, pr), Some (cl, cr), k1)
    | None, Some (SPar cl cr) => Ok (None, Some (cl, cr), k1)
    | Some (SPar pl pr), None => Ok (Some (pl, pr), None, k1)
    | None, None => Ok (None, None, k1)
    | _, _ => Err (incompatible_states p c)
    end.

  (* ================= merger/fold_merger/fold_lore_resolver.rs ================= *)
  Record resolved_descs := { rd_before : sub_desc; rd_after : sub_desc }.
  Record resolved_fold := { rf_lore : list (N * resolved_descs); rf_count : N }.
  Definition empty_resolved_fold : resolved_fold := {| rf_lore := []; rf_count := 0 |}.

  Record lores_len := { ll_before : N; ll_after : N }.

  (* compute_before_lens over lens[begin..=end]: *before_len = cum_before + lens[end].after_len *)
  Fixpoint before_lens_rev (seg_rev : list lores_len) (cum after_len : N) : list lores_len :=
    match seg_rev with
    | [] => []
    | x :: rest =>
        let cum' := cum + ll_before x in
        {| ll_before := cum' + after_len; ll_after := ll_after x |} :: before_lens_rev rest cum' after_len
    end.
  Definition close_group (grp : list lores_len) : list lores_len :=
    (* grp in order; the last element's after_len is the group's cumulative after length *)
    match rev grp with
    | [] => []
    | last :: _ => rev (before_lens_rev (rev grp) 0 (ll_after last))
    end.

  (* compute_lens_convolution: walks the lore keeping the current generation group *)
  Fixpoint lens_convolution (s : slider) (lore : list fold_sub_lore)
           (first : bool) (last_gen : N) (grp done : list lores_len) (count cum_after : N)
    : res (N * list lores_len) :=
    match lore with
    | [] => Ok (count, done ++ close_group grp)
    | l :: rest =>
        match fl_descs l with
        | [b; a] =>
            do g <- try_get_generation s (fl_value_pos l);
            let new_group := negb (last_gen =? g) in
            let done' := if new_group && negb first then done ++ close_group grp else done in
            (* when the generation changes at the very first entry nothing is closed *)
            let done'' := if new_group && first then done else done' in
            let grp' := if new_group then [] else grp in
            let cum' := if new_group then 0 else cum_after in
            let count' := count + sd_len b + sd_len a in
            if (u32_max <? count + sd_len b) || (u32_max <? count') then Err SubtraceLenOverflow
            else
              let cum'' := cum' + sd_len a in
              lens_convolution s rest false g (grp' ++ [{| ll_before := sd_len b; ll_after := cum'' |}]) done''
                               count' cum''
        | _ => Err FoldIncorrectSubtracesCount
        end
    end.

  Fixpoint assoc_mem (m : list (N * resolved_descs)) (k : N) : bool :=
    match m with [] => false | (a, _) :: r => (a =? k) || assoc_mem r k end.

  Fixpoint build_resolved (lore : list fold_sub_lore) (lens : list lores_len) (acc : list (N * resolved_descs))
    : res (list (N * resolved_descs)) :=
    match lore, lens with
    | l :: lr, n :: nr =>
        match fl_descs l with
        | [b; a] =>
            if assoc_mem acc (fl_value_pos l) then Err SeveralRecordsWithSamePos
            else build_resolved lr nr
                   (acc ++ [(fl_value_pos l,
                             {| rd_before := {| sd_pos := sd_pos b; sd_len := ll_before n |};
                                rd_after := {| sd_pos := sd_pos a; sd_len := ll_after n |} |})])
        | _ => Err FoldIncorrectSubtracesCount
        end
    | _, _ => Ok acc
    end.

  Definition resolve_fold_lore (lore : list fold_sub_lore) (s : slider) : res resolved_fold :=
    do cl <- lens_convolution s lore true 0 [] [] 0 0;
    do m <- build_resolved lore (snd cl) [];
    Ok {| rf_lore := m; rf_count := fst cl |}.

  (* merger/fold_merger.rs *)
  Definition try_merge_next_state_as_fold (k : keeper) : res (resolved_fold * resolved_fold * keeper) :=
    let '(p, c, k1) := next_states k in
    match p, c with
    | Some (SFold pf), Some (SFold cf) =>
        do rp <- resolve_fold_lore pf (k_prev k1); do rc <- resolve_fold_lore cf (k_cur k1); Ok (rp, rc, k1)
    | None, Some (SFold cf) => do rc <- resolve_fold_lore cf (k_cur k1); Ok (empty_resolved_fold, rc, k1)
    | Some (SFold pf), None => do rp <- resolve_fold_lore pf (k_prev k1); Ok (rp, empty_resolved_fold, k1)
    | None, None => Ok (empty_resolved_fold, empty_resolved_fold, k1)
    | _, _ => Err (incompatible_states p c)
    end.

  (* ================= state_automata/utils.rs ================= *)
  Record ctx_state := { cs_pos : N; cs_len : N }.
  (* update_ctx_states: both results are ignored (`let _ =`) *)
  Definition update_ctx_states (ps cs : ctx_state) (k : keeper) : res keeper :=
    do sp <- swallow (set_position_and_len (k_prev k) (cs_pos ps) (cs_len ps)) (k_prev k);
    do sc <- swallow (set_position_and_len (k_cur k) (cs_pos cs) (cs_len cs)) (k_cur k);
    Ok (with_cur (with_prev k sp) sc).

  (* ================= state_automata/par_fsm ================= *)
  Record par_fsm := {
    pf_prev : N * N; pf_cur : N * N;
    pf_inserter : N;                              (* StateInserter.position *)
    pf_left : ctx_state * ctx_state;              (* CtxStateHandler.left_pair (prev, current) *)
    pf_right : ctx_state * ctx_state;
    pf_saved : N; pf_left_size : N; pf_right_size : N   (* ParBuilder *)
  }.

  Inductive subgraph := SLeft | SRight.

  (* new_states_calculation.rs: compute_new_state *)
  Definition par_new_state (par : N * N) (sg : subgraph) (s : slider) : res ctx_state :=
    let '(l, r) := par in
    do len <- match sg with
              | SLeft => Ok l
              | SRight => if u32_max <? l + r then Err ParLenOverflow else Ok (l + r)
              end;
    if u32_max <? s_pos s + len then Err ParPosOverflow else
    (* since the fix of the left window: both subgraphs leave the slider at `remaining window - subgraph`
       (before: SLeft => cs_len := len, which made the swallowed set_position_and_len fail when
       left_size > number of states after the left subtree, so the slider stayed inside the left window) *)
    if subtrace_len s <? len then Err ParLenUnderflow
    else Ok {| cs_pos := s_pos s + len; cs_len := subtrace_len s - len |}.

  Definition par_prepare_sliders (f : par_fsm) (sg : subgraph) (k : keeper) : res keeper :=
    let pl := match sg with SLeft => fst (pf_prev f) | SRight => snd (pf_prev f) end in
    let cl := match sg with SLeft => fst (pf_cur f) | SRight => snd (pf_cur f) end in
    do sp <- set_subtrace_len (k_prev k) pl;
    let k1 := with_prev k sp in
    do sc <- set_subtrace_len (k_cur k1) cl;
    Ok (with_cur k1 sc).

  (* ParFSM::from_left_started *)
  Definition par_from_left_started (pp cp : option (N * N)) (k : keeper) : res (par_fsm * keeper) :=
    let prev_par := match pp with Some x => x | None => (0, 0) end in
    let cur_par := match cp with Some x => x | None => (0, 0) end in
    let ins := result_next_pos k in
    let k1 := push_state k (SPar 0 0) in                             (* StateInserter::from_keeper *)
    do lp <- par_new_state prev_par SLeft (k_prev k1);
    do lc <- par_new_state cur_par SLeft (k_cur k1);
    do rp <- par_new_state prev_par SRight (k_prev k1);
    do rc <- par_new_state cur_par SRight (k_cur k1);
    let f := {| pf_prev := prev_par; pf_cur := cur_par; pf_inserter := ins;
                pf_left := (lp, lc); pf_right := (rp, rc);
                pf_saved := len_N (k_result k1); pf_left_size := 0; pf_right_size := 0 |} in
    do k2 <- par_prepare_sliders f SLeft k1;
    Ok (f, k2).

  (* ParBuilder::track *)
  Definition par_track (f : par_fsm) (sg : subgraph) (k : keeper) : res par_fsm :=
    let n := len_N (k_result k) in
    if n <? pf_saved f then Crash SiteParBuilderTrack else
    let d := n - pf_saved f in
    Ok {| pf_prev := pf_prev f; pf_cur := pf_cur f; pf_inserter := pf_inserter f;
          pf_left := pf_left f; pf_right := pf_right f; pf_saved := n;
          pf_left_size := match sg with SLeft => d | SRight => pf_left_size f end;
          pf_right_size := match sg with SLeft => pf_right_size f | SRight => d end |}.

  (* left_completed: prepare_sliders' error is ignored; the first slider update may already have happened *)
  Definition par_left_completed (f : par_fsm) (k : keeper) : res (par_fsm * keeper) :=
    do f1 <- par_track f SLeft k;
    do k1 <- update_ctx_states (fst (pf_left f1)) (snd (pf_left f1)) k;
    let pl := snd (pf_prev f1) in let cl := snd (pf_cur f1) in
    match set_subtrace_len (k_prev k1) pl with
    | Crash s => Crash s
    | Err _ => Ok (f1, k1)
    | Ok sp =>
        let k2 := with_prev k1 sp in
        match set_subtrace_len (k_cur k2) cl with
        | Crash s => Crash s
        | Err _ => Ok (f1, k2)
        | Ok sc => Ok (f1, with_cur k2 sc)
        end
    end.

  Definition insert_state (k : keeper) (p : N) (st : state) : res keeper :=   (* StateInserter::insert *)
    if p <? len_N (k_result k) then Ok (with_result k (set_nth (k_result k) (N.to_nat p) st))
    else Crash SiteInserterIndex.

  Definition par_right_completed (f : par_fsm) (k : keeper) : res keeper :=
    do f1 <- par_track f SRight k;
    do k1 <- insert_state k (pf_inserter f1) (SPar (pf_left_size f1) (pf_right_size f1));
    update_ctx_states (fst (pf_right f1)) (snd (pf_right f1)) k1.

  (* ================= state_automata/fold_fsm ================= *)
  Inductive ctor_state := BeforeStarted | BeforeCompleted | AfterStarted | AfterCompleted.
  Definition ctor_next (s : ctor_state) : ctor_state :=
    match s with BeforeStarted => BeforeCompleted | BeforeCompleted => AfterStarted | _ => AfterCompleted end.

  Record lore_ctor := {                                              (* SubTraceLoreCtor *)
    lc_value_pos : N;
    lc_before_start : N; lc_before_end : N; lc_after_start : N; lc_after_end : N;
    lc_state : ctor_state }.

  Definition ctor_set (c : lore_ctor) (bs be as_ ae : N) (st : ctor_state) : lore_ctor :=
    {| lc_value_pos := lc_value_pos c; lc_before_start := bs; lc_before_end := be;
       lc_after_start := as_; lc_after_end := ae; lc_state := st |}.
  Definition ctor_before_end (c : lore_ctor) (n : N) : lore_ctor :=
    ctor_set c (lc_before_start c) n (lc_after_start c) (lc_after_end c) (ctor_next (lc_state c)).
  Definition ctor_maybe_before_end (c : lore_ctor) (n : N) : lore_ctor :=
    match lc_state c with BeforeStarted => ctor_before_end c n | _ => c end.
  Definition ctor_after_start (c : lore_ctor) (n : N) : lore_ctor :=
    ctor_set c (lc_before_start c) (lc_before_end c) n (lc_after_end c) (ctor_next (lc_state c)).
  Definition ctor_after_end (c : lore_ctor) (n : N) : lore_ctor :=
    ctor_set c (lc_before_start c) (lc_before_end c) (lc_after_start c) n (ctor_next (lc_state c)).
  Definition ctor_finish (c : lore_ctor) (n : N) : lore_ctor :=
    match lc_state c with
    | BeforeStarted => ctor_after_end (ctor_after_start (ctor_before_end c n) n) n
    | BeforeCompleted => ctor_after_end (ctor_after_start c n) n
    | AfterStarted => ctor_after_end c n
    | AfterCompleted => c
    end.
  Definition ctor_into_lore (c : lore_ctor) : res fold_sub_lore :=
    if (lc_before_end c <? lc_before_start c) || (lc_after_end c <? lc_after_start c) then Crash SiteTrackerLen
    else Ok {| fl_value_pos := lc_value_pos c;
               fl_descs := [ {| sd_pos := lc_before_start c; sd_len := lc_before_end c - lc_before_start c |};
                             {| sd_pos := lc_after_start c; sd_len := lc_after_end c - lc_after_start c |} ] |}.

  Record ctor_desc := { cd_ctor : lore_ctor; cd_prev : option resolved_descs; cd_cur : option resolved_descs }.

  Record fold_fsm := {
    ff_prev : list (N * resolved_descs);   (* prev_fold.lore, entries are removed when used *)
    ff_cur : list (N * resolved_descs);
    ff_inserter : N;
    ff_queue : list ctor_desc; ff_back_pos : N; ff_back_started : bool;
    ff_result : list fold_sub_lore;
    ff_final : ctx_state * ctx_state }.

  (* fold_fsm/state_handler.rs: compute_new_state *)
  Definition fold_new_state (count : N) (s : slider) : res ctx_state :=
    if u32_max <? s_pos s + count then Err FoldPosOverflow
    else if subtrace_len s <? count then Err FoldLenUnderflow
    else Ok {| cs_pos := s_pos s + count; cs_len := subtrace_len s - count |}.

  Definition fold_from_start (rp rc : resolved_fold) (k : keeper) : res (fold_fsm * keeper) :=
    let ins := result_next_pos k in
    let k1 := push_state k (SPar 0 0) in
    do sp <- fold_new_state (rf_count rp) (k_prev k1);
    do sc <- fold_new_state (rf_count rc) (k_cur k1);
    Ok ({| ff_prev := rf_lore rp; ff_cur := rf_lore rc; ff_inserter := ins; ff_queue := [];
           ff_back_pos := 0; ff_back_started := false; ff_result := []; ff_final := (sp, sc) |}, k1).

  Fixpoint assoc_remove (m : list (N * resolved_descs)) (key : N) : option resolved_descs * list (N * resolved_descs) :=
    match m with
    | [] => (None, [])
    | (a, d) :: r => if a =? key then (Some d, r)
                     else let '(x, r') := assoc_remove r key in (x, (a, d) :: r')
    end.

  (* lore_applier.rs: apply_fold_lore *)
  Definition apply_fold_lore (s : slider) (l : option resolved_descs) (after : bool) : res slider :=
    match l with
    | Some d => let sd := if after then rd_after d else rd_before d in set_position_and_len s (sd_pos sd) (sd_len sd)
    | None => set_subtrace_len s 0
    end.
  Definition apply_fold_lore_both (k : keeper) (pl cl : option resolved_descs) (after : bool) : res keeper :=
    do sp <- apply_fold_lore (k_prev k) pl after;
    let k1 := with_prev k sp in
    do sc <- apply_fold_lore (k_cur k1) cl after;
    Ok (with_cur k1 sc).

  Definition with_queue (f : fold_fsm) (q : list ctor_desc) (bp : N) (bs : bool) : fold_fsm :=
    {| ff_prev := ff_prev f; ff_cur := ff_cur f; ff_inserter := ff_inserter f; ff_queue := q;
       ff_back_pos := bp; ff_back_started := bs; ff_result := ff_result f; ff_final := ff_final f |}.

  (* FoldFSM::meet_iteration_start *)
  Definition fold_iteration_start (f : fold_fsm) (value_pos : N) (k : keeper) : res (fold_fsm * keeper) :=
    let '(pl, prev') := match bimap_get_by_left (k_new_to_prev k) value_pos with
                        | Some p => assoc_remove (ff_prev f) p | None => (None, ff_prev f) end in
    let '(cl, cur') := match bimap_get_by_left (k_new_to_cur k) value_pos with
                       | Some p => assoc_remove (ff_cur f) p | None => (None, ff_cur f) end in
    let f1 := {| ff_prev := prev'; ff_cur := cur'; ff_inserter := ff_inserter f; ff_queue := ff_queue f;
                 ff_back_pos := ff_back_pos f; ff_back_started := ff_back_started f;
                 ff_result := ff_result f; ff_final := ff_final f |} in
    do k1 <- apply_fold_lore_both k pl cl false;
    let n := result_next_pos k1 in
    let ctor := {| lc_value_pos := value_pos; lc_before_start := n; lc_before_end := 0;
                   lc_after_start := 0; lc_after_end := 0; lc_state := BeforeStarted |} in
    Ok (with_queue f1 (ff_queue f1 ++ [{| cd_ctor := ctor; cd_prev := pl; cd_cur := cl |}])
                   (ff_back_pos f1 + 1) (ff_back_started f1), k1).

  (* SubTraceLoreCtorQueue::current: queue[back_traversal_pos - 1] *)
  Definition queue_current (f : fold_fsm) : res (nat * ctor_desc) :=
    if ff_back_pos f =? 0 then Crash SiteCtorQueueCurrent else
    let i := N.to_nat (ff_back_pos f - 1) in
    match nth_error (ff_queue f) i with Some d => Ok (i, d) | None => Crash SiteCtorQueueCurrent end.

  Definition queue_update (f : fold_fsm) (i : nat) (c : lore_ctor) : fold_fsm :=
    match nth_error (ff_queue f) i with
    | Some d => with_queue f (set_nth (ff_queue f) i {| cd_ctor := c; cd_prev := cd_prev d; cd_cur := cd_cur d |})
                           (ff_back_pos f) (ff_back_started f)
    | None => f
    end.

  Definition fold_iteration_end (f : fold_fsm) (k : keeper) : res fold_fsm :=
    do id <- queue_current f;
    Ok (queue_update f (fst id) (ctor_before_end (cd_ctor (snd id)) (result_next_pos k))).

  Definition fold_back_iterator (f : fold_fsm) (k : keeper) : res (fold_fsm * keeper) :=
    let n := result_next_pos k in
    do id <- queue_current f;
    let '(i, d) := id in
    if negb (ff_back_started f) then
      let c := ctor_after_start (ctor_maybe_before_end (cd_ctor d) n) n in
      let f1 := queue_update f i c in
      do k1 <- apply_fold_lore_both k (cd_prev d) (cd_cur d) true;
      Ok (with_queue f1 (ff_queue f1) (ff_back_pos f1) true, k1)
    else
      let f1 := queue_update f i (ctor_after_end (cd_ctor d) n) in
      if ff_back_pos f1 =? 0 then Crash SiteTraverseBack else
      let f2 := with_queue f1 (ff_queue f1) (ff_back_pos f1 - 1) (ff_back_started f1) in
      do id2 <- queue_current f2;
      let '(i2, d2) := id2 in
      let f3 := queue_update f2 i2 (ctor_after_start (cd_ctor d2) n) in
      do k1 <- apply_fold_lore_both k (cd_prev d2) (cd_cur d2) true;
      Ok (f3, k1).

  Fixpoint ctors_into_lore (q : list ctor_desc) (n : N) : res (list fold_sub_lore) :=
    match q with
    | [] => Ok []
    | d :: r => do l <- ctor_into_lore (ctor_finish (cd_ctor d) n); do ls <- ctors_into_lore r n; Ok (l :: ls)
    end.

  Definition fold_generation_end (f : fold_fsm) (k : keeper) : res fold_fsm :=
    do lore <- ctors_into_lore (ff_queue f) (result_next_pos k);
    Ok {| ff_prev := ff_prev f; ff_cur := ff_cur f; ff_inserter := ff_inserter f; ff_queue := [];
          ff_back_pos := 0; ff_back_started := false; ff_result := ff_result f ++ lore; ff_final := ff_final f |}.

  Definition fold_end (f : fold_fsm) (k : keeper) : res keeper :=
    do k1 <- insert_state k (ff_inserter f) (SFold (ff_result f));
    update_ctx_states (fst (ff_final f)) (snd (ff_final f)) k1.

  (* ================= handler.rs ================= *)
  Record handler := { h_keeper : keeper; h_pars : list par_fsm (* stack, head = last *); h_folds : list (N * fold_fsm) }.

  Definition handler_from (prev cur : trace) : handler :=
    {| h_keeper := keeper_from prev cur; h_pars := []; h_folds := [] |}.
  Definition with_keeper (h : handler) (k : keeper) : handler :=
    {| h_keeper := k; h_pars := h_pars h; h_folds := h_folds h |}.

  Definition trace_pos (h : handler) : res N :=
    let n := len_N (k_result (h_keeper h)) in Ok n.
  Definition subgraph_sizes (h : handler) : N * N :=
    (subtrace_len (k_prev (h_keeper h)), subtrace_len (k_cur (h_keeper h))).

  Definition meet_call_start (h : handler) : res (merger_call_result * handler) :=
    do rk <- try_merge_next_state_as_call (h_keeper h); Ok (fst rk, with_keeper h (snd rk)).
  Definition meet_call_end (h : handler) (c : call_result C) : handler :=
    with_keeper h (push_state (h_keeper h) (SCall c)).
  Definition meet_ap_start (h : handler) : res (merger_ap_result * handler) :=
    do rk <- try_merge_next_state_as_ap (h_keeper h); Ok (fst rk, with_keeper h (snd rk)).
  Definition meet_ap_end (h : handler) (gens : list N) : handler :=
    with_keeper h (push_state (h_keeper h) (SAp gens)).
  Definition meet_canon_start (h : handler) : res (merger_canon_result * handler) :=
    do rk <- try_merge_next_state_as_canon (h_keeper h); Ok (fst rk, with_keeper h (snd rk)).
  Definition meet_canon_end (h : handler) (c : canon_result C) : handler :=
    with_keeper h (push_state (h_keeper h) (SCanon c)).

  Definition meet_par_start (h : handler) : res handler :=
    do r <- try_merge_next_state_as_par (h_keeper h);
    let '(pp, cp, k1) := r in
    do fk <- par_from_left_started pp cp k1;
    Ok {| h_keeper := snd fk; h_pars := fst fk :: h_pars h; h_folds := h_folds h |}.

  Definition meet_par_subgraph_end (h : handler) (sg : subgraph) : res handler :=
    match h_pars h with
    | [] => Err ParQueueIsEmpty
    | f :: rest =>
        match sg with
        | SLeft => do fk <- par_left_completed f (h_keeper h);
                   Ok {| h_keeper := snd fk; h_pars := fst fk :: rest; h_folds := h_folds h |}
        | SRight => do k1 <- par_right_completed f (h_keeper h);
                    Ok {| h_keeper := k1; h_pars := rest; h_folds := h_folds h |}
        end
    end.

  Fixpoint folds_get (m : list (N * fold_fsm)) (id : N) : option fold_fsm :=
    match m with [] => None | (a, f) :: r => if a =? id then Some f else folds_get r id end.
  Definition folds_put (m : list (N * fold_fsm)) (id : N) (f : fold_fsm) : list (N * fold_fsm) :=
    (id, f) :: filter (fun p => negb (fst p =? id)) m.
  Definition folds_del (m : list (N * fold_fsm)) (id : N) : list (N * fold_fsm) :=
    filter (fun p => negb (fst p =? id)) m.

  Definition meet_fold_start (h : handler) (id : N) : res handler :=
    do r <- try_merge_next_state_as_fold (h_keeper h);
    let '(rp, rc, k1) := r in
    do fk <- fold_from_start rp rc k1;
    Ok {| h_keeper := snd fk; h_pars := h_pars h; h_folds := folds_put (h_folds h) id (fst fk) |}.

  Definition with_fold (h : handler) (id : N) (f : fold_fsm) (k : keeper) : handler :=
    {| h_keeper := k; h_pars := h_pars h; h_folds := folds_put (h_folds h) id f |}.

  Definition meet_iteration_start (h : handler) (id value_pos : N) : res handler :=
    match folds_get (h_folds h) id with
    | None => Err FoldFSMNotFound
    | Some f => do fk <- fold_iteration_start f value_pos (h_keeper h); Ok (with_fold h id (fst fk) (snd fk))
    end.
  Definition meet_iteration_end (h : handler) (id : N) : res handler :=
    match folds_get (h_folds h) id with
    | None => Err FoldFSMNotFound
    | Some f => do f1 <- fold_iteration_end f (h_keeper h); Ok (with_fold h id f1 (h_keeper h))
    end.
  Definition meet_back_iterator (h : handler) (id : N) : res handler :=
    match folds_get (h_folds h) id with
    | None => Err FoldFSMNotFound
    | Some f => do fk <- fold_back_iterator f (h_keeper h); Ok (with_fold h id (fst fk) (snd fk))
    end.
  Definition meet_generation_end (h : handler) (id : N) : res handler :=
    match folds_get (h_folds h) id with
    | None => Err FoldFSMNotFound
    | Some f => do f1 <- fold_generation_end f (h_keeper h); Ok (with_fold h id f1 (h_keeper h))
    end.
  Definition meet_fold_end (h : handler) (id : N) : res handler :=
    match folds_get (h_folds h) id with
    | None => Err FoldFSMNotFound
    | Some f => do k1 <- fold_end f (h_keeper h);
                Ok {| h_keeper := k1; h_pars := h_pars h; h_folds := folds_del (h_folds h) id |}
    end.

  (* update_generation: only the generation field of Ap / stream Call states *)
  Inductive gen_err := PointsToNowhere | PointsToInvalidState.
  Definition update_generation (h : handler) (p g : N) : handler + gen_err :=
    let k := h_keeper h in
    match nth_N (k_result k) p with
    | None => inr PointsToNowhere
    | Some (SAp _) => inl (with_keeper h (with_result k (set_nth (k_result k) (N.to_nat p) (SAp [g]))))
    | Some (SCall (Executed (VRStream c _))) =>
        inl (with_keeper h (with_result k (set_nth (k_result k) (N.to_nat p) (SCall (Executed (VRStream c g))))))
    | Some _ => inr PointsToInvalidState
    end.

  Definition result_trace (h : handler) : trace := k_result (h_keeper h).
End Handler.
