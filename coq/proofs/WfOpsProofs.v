(* WfOpsProofs.v -- the call sequence [ops_dts ds] of a driver forest, executed with [step] of
   model/HandlerCases.v (the op semantics that is compared with the real TraceHandler), is [drive ds]. *)
From Coq Require Import Lia.
From Aqua Require Import Base Trace Handler HandlerCases WfTrace WfCases WfProofs.
Open Scope N_scope.
Open Scope list_scope.

Lemma exec_ops_app a b h : exec_ops (a ++ b) h = match exec_ops a h with Some h' => exec_ops b h' | None => None end.
Proof.
  revert h. induction a as [|o r IH]; intros h; simpl; [reflexivity|].
  destruct (step h o) as [ob [h'|]]; [apply IH|reflexivity].
Qed.
Lemma run_ops_exec ops h : snd (run_ops h ops) = option_map (result_trace string) (exec_ops ops h).
Proof.
  revert h. induction ops as [|o r IH]; intros h; simpl; [reflexivity|].
  destruct (step h o) as [ob [h'|]]; [|reflexivity].
  specialize (IH h'). destruct (run_ops h' r) as [obs t]. exact IH.
Qed.
Lemma exec_one o h : exec_ops [o] h = snd (step h o).
Proof. simpl. destruct (step h o) as [ob [h'|]]; reflexivity. Qed.
Lemma snd_lift {A} (r : res A) f h : snd (lift r f h) = match r with Ok a => Some (snd (f a)) | _ => None end.
Proof. unfold lift. destruct r as [a| |]; [destruct (f a)|..]; reflexivity. Qed.

Lemma is_stream_state_eq s : HandlerCases.is_stream_state s = WfTrace.is_stream_state string s.
Proof. destruct s as [| [ | [ | | ] | ] | | | ]; reflexivity. Qed.
Lemma stream_positions_eq t i : HandlerCases.stream_positions t i = WfTrace.stream_positions string t i.
Proof. revert i. induction t as [|s r IH]; intros i; simpl; [reflexivity|]. rewrite is_stream_state_eq, !IH. reflexivity. Qed.
Lemma nth_stream_pos_eq t k : HandlerCases.nth_stream_pos t k = WfTrace.nth_stream_pos string t k.
Proof. unfold HandlerCases.nth_stream_pos, WfTrace.nth_stream_pos. now rewrite stream_positions_eq. Qed.

Lemma ops_call_ok c h : exec_ops (ops_call c) h = res_to_option (drive_call string String.eqb c h).
Proof.
  destruct c as [d up|[st|]]; unfold ops_call, drive_call.
  - rewrite exec_one. cbn [step]. rewrite snd_lift.
    destruct (meet_call_start string String.eqb h) as [[r h1]| |]; cbn [bind fst snd]; [|reflexivity|reflexivity].
    destruct r; destruct d; reflexivity.
  - cbn [exec_ops step]. unfold lift.
    destruct (meet_call_start string String.eqb h) as [[r h1]| |]; cbn [bind fst snd]; [|reflexivity|reflexivity].
    destruct r; reflexivity.
  - rewrite exec_one. cbn [step]. rewrite snd_lift.
    destruct (meet_call_start string String.eqb h) as [[r h1]| |]; cbn [bind fst snd]; [|reflexivity|reflexivity].
    destruct r; reflexivity.
Qed.
Lemma ops_ap_ok a h : exec_ops (ops_ap a) h = res_to_option (drive_ap string a h).
Proof.
  destruct a as [d|gens]; unfold ops_ap, drive_ap.
  - rewrite exec_one. cbn [step]. rewrite snd_lift.
    destruct (meet_ap_start string h) as [[r h1]| |]; cbn [bind fst snd]; [|reflexivity|reflexivity].
    destruct r; reflexivity.
  - cbn [exec_ops step]. unfold lift.
    destruct (meet_ap_start string h) as [[r h1]| |]; cbn [bind fst snd]; [|reflexivity|reflexivity].
    destruct r; reflexivity.
Qed.
Lemma ops_canon_ok c h : exec_ops (ops_canon c) h = res_to_option (drive_canon string String.eqb c h).
Proof.
  destruct c as [d up|[st|]]; unfold ops_canon, drive_canon.
  - rewrite exec_one. cbn [step]. rewrite snd_lift.
    destruct (meet_canon_start string String.eqb h) as [[r h1]| |]; cbn [bind fst snd]; [|reflexivity|reflexivity].
    destruct r; reflexivity.
  - cbn [exec_ops step]. unfold lift.
    destruct (meet_canon_start string String.eqb h) as [[r h1]| |]; cbn [bind fst snd]; [|reflexivity|reflexivity].
    destruct r; reflexivity.
  - rewrite exec_one. cbn [step]. rewrite snd_lift.
    destruct (meet_canon_start string String.eqb h) as [[r h1]| |]; cbn [bind fst snd]; [|reflexivity|reflexivity].
    destruct r; reflexivity.
Qed.

(* single structural ops *)
Lemma op_par_start h : snd (step h OpParStart) = res_to_option (meet_par_start string h).
Proof. cbn [step]. rewrite snd_lift. destruct (meet_par_start string h); reflexivity. Qed.
Lemma op_par_end h b : snd (step h (OpParEnd b)) = res_to_option (meet_par_subgraph_end string h (if b then SLeft else SRight)).
Proof. cbn [step]. rewrite snd_lift. destruct (meet_par_subgraph_end string h _); reflexivity. Qed.
Lemma op_fold_start h id : snd (step h (OpFoldStart id)) = res_to_option (meet_fold_start string h id).
Proof. cbn [step]. rewrite snd_lift. destruct (meet_fold_start string h id); reflexivity. Qed.
Lemma op_fold_end h id : snd (step h (OpFoldEnd id)) = res_to_option (meet_fold_end string h id).
Proof. cbn [step]. rewrite snd_lift. destruct (meet_fold_end string h id); reflexivity. Qed.
Lemma op_iter_end h id : snd (step h (OpIterEnd id)) = res_to_option (meet_iteration_end string h id).
Proof. cbn [step]. rewrite snd_lift. destruct (meet_iteration_end string h id); reflexivity. Qed.
Lemma op_back h id : snd (step h (OpBackIter id)) = res_to_option (meet_back_iterator string h id).
Proof. cbn [step]. rewrite snd_lift. destruct (meet_back_iterator string h id); reflexivity. Qed.
Lemma op_gen_end h id : snd (step h (OpGenEnd id)) = res_to_option (meet_generation_end string h id).
Proof. cbn [step]. rewrite snd_lift. destruct (meet_generation_end string h id); reflexivity. Qed.
Lemma op_vsel h id v : snd (step h (ops_vsel id v)) = res_to_option (iteration_start string false h id v).
Proof.
  unfold iteration_start. cbn [andb]. destruct v as [p|k]; cbn [ops_vsel step vsel_pos]; rewrite snd_lift.
  - destruct (meet_iteration_start string h id p); reflexivity.
  - rewrite nth_stream_pos_eq. destruct (meet_iteration_start string h id _); reflexivity.
Qed.
Lemma ops_updates_ok us h :
  exec_ops (map (fun pg => OpUpdateGen (fst pg) (snd pg)) us) h = Some (drive_updates string us h).
Proof.
  revert h. induction us as [|[p g] r IH]; intros h; [reflexivity|].
  cbn [map exec_ops step fst snd drive_updates].
  destruct (update_generation string h p g) as [h1|[]]; apply IH.
Qed.

(* sequencing *)
Ltac step_op L :=
  rewrite exec_ops_app, exec_one, L;
  match goal with |- context [res_to_option ?r] => destruct r; cbn [res_to_option bind]; [|reflexivity|reflexivity] end.
Ltac step_piece IH :=
  rewrite exec_ops_app, IH;
  match goal with |- context [res_to_option ?r] => destruct r; cbn [res_to_option bind]; [|reflexivity|reflexivity] end.

Theorem ops_tie_all :
  (forall d h, exec_ops (ops_dt d) h = res_to_option (drive_dt string String.eqb false d h)) /\
  (forall ds h, exec_ops (ops_dts ds) h = res_to_option (drive_dts string String.eqb false ds h)) /\
  (forall gs id h, exec_ops (ops_gens id gs) h = res_to_option (drive_gens string String.eqb false id gs h)) /\
  (forall b id h, exec_ops (ops_body id b) h = res_to_option (drive_body string String.eqb false id b h)) /\
  (forall hl id h, exec_ops (ops_hole id hl) h = res_to_option (drive_hole string String.eqb false id hl h)).
Proof.
  apply drive_mutind; intros; drive_unfold.
  - apply ops_call_ok.
  - apply ops_ap_ok.
  - apply ops_canon_ok.
  - (* DPar *) cbn [ops_dt]. step_op op_par_start. step_piece H. step_op (op_par_end a0 true). step_piece H0.
    rewrite exec_one, (op_par_end a2 false). reflexivity.
  - (* DFold *) cbn [ops_dt]. step_op op_fold_start. step_piece H. rewrite exec_one, op_fold_end. reflexivity.
  - (* DGens *) cbn [ops_dt]. apply ops_updates_ok.
  - reflexivity.
  - (* DCons *) cbn [ops_dts]. step_piece H. apply H0.
  - reflexivity.
  - (* GCons *) cbn [ops_gens]. step_op op_vsel. step_piece H. step_op op_gen_end. apply H0.
  - (* BPlain *) cbn [ops_body]. apply H.
  - (* BHole *) cbn [ops_body]. step_piece H. step_piece H0. apply H1.
  - (* HNextMore *) cbn [ops_hole].
    change ([OpIterEnd id; ops_vsel id v] ++ ops_body id b ++ (if back then [OpBackIter id] else []))
      with ([OpIterEnd id] ++ [ops_vsel id v] ++ ops_body id b ++ (if back then [OpBackIter id] else [])).
    step_op op_iter_end. step_op op_vsel. step_piece H. destruct back.
    + rewrite exec_one, op_back. reflexivity.
    + reflexivity.
  - (* HNextEnd *) cbn [ops_hole].
    change ([OpIterEnd id; OpBackIter id] ++ ops_dts last) with ([OpIterEnd id] ++ [OpBackIter id] ++ ops_dts last).
    step_op op_iter_end. step_op op_back. apply H.
  - (* HParL *) cbn [ops_hole]. step_op op_par_start. step_piece H. step_op (op_par_end a0 true). step_piece H0.
    rewrite exec_one, (op_par_end a2 false). reflexivity.
  - (* HParR *) cbn [ops_hole]. step_op op_par_start. step_piece H. step_op (op_par_end a0 true). step_piece H0.
    rewrite exec_one, (op_par_end a2 false). reflexivity.
Qed.

Theorem ops_tie : C10_ops_tie_stmt.
Proof. intros ds h. apply (proj1 (proj2 ops_tie_all)). Qed.

(* hence: whenever the op sequence of a forest runs through (in the op semantics that is validated against the
   real TraceHandler), the result trace is structurally well formed *)
Definition C10_wf_run_ops_stmt : Prop :=
  forall ds prev cur obs t,
    run_ops (handler_from string prev cur) (ops_dts ds) = (obs, Some t) -> wf_struct string t.
Theorem wf_run_ops : C10_wf_run_ops_stmt.
Proof.
  intros ds prev cur obs t H. pose proof (run_ops_exec (ops_dts ds) (handler_from string prev cur)) as E.
  rewrite H, ops_tie in E. simpl in E.
  destruct (drive string String.eqb ds (handler_from string prev cur)) as [h| |] eqn:D; simpl in E; try discriminate.
  inversion E. subst t. eapply wf_drive; eauto.
Qed.
