(* StreamPosSpec.v -- the stream-position invariant of the executor model and what follows from it.

   Every value of every live stream / stream map of the execution context carries the position of
   ITS OWN state of the result trace: the value enters the stream (Streams::add_stream_value) with
   `trace_ctx.trace_pos()` and the very next trace operation of the same instruction pushes the
   Ap state (ap.rs, ap_map.rs) or the Call state with a stream value ref (call_result_setter.rs)
   at exactly that position.  The result trace is append-only except for StateInserter::insert
   (overwrites the Par placeholder it pushed itself) and TraceHandler::update_generation (rewrites
   the generation inside an Ap / stream Call state).  Hence at the farewell step
   Streams::compactify / StreamMaps::compactify finds an Ap / stream Call state at the position of
   every value, and the values of different streams sit at different positions: the hypotheses
   [compactify_ok] of C02 and [streams_ok] of C20 hold for every run.
   Definitions only. *)
From Aqua Require Import Base Json Air Trace Handler Values Scalars Lens Exec RunExec ExecStreams.
From Aqua Require Stream SignSpec CodesSpec DetSpec.
Open Scope N_scope.
Open Scope list_scope.

(* ------------------------------------------------------------------------------------------ *)
(* the values held by the descriptors of one name / by one table / by both tables of a context,
   every generation of the three matrices of every stream (Stream::iter) *)
Definition descs_values (ds : list (Stream.descriptor vagg)) : list vagg :=
  flat_map (fun d => Stream.stream_iter vagg (Stream.d_stream d)) ds.
Definition tbl_values (m : Stream.streams vagg) : list vagg :=
  flat_map (fun kd => descs_values (snd kd)) m.
Definition ctx_values (x : ctx) : list vagg :=
  tbl_values (table_of TStreams x) ++ tbl_values (table_of TMaps x).

(* the size counter of a stream bounds its number of values and stays below STREAM_MAX_SIZE
   (Stream::add_value refuses the append that reaches it) *)
Definition stream_small (s : Stream.stream vagg) : Prop :=
  Stream.lenN (Stream.stream_iter vagg s) <= Stream.stream_size vagg s /\
  Stream.stream_size vagg s < stream_max_size.
Definition tbl_small (m : Stream.streams vagg) : Prop :=
  forall k ds d, In (k, ds) m -> In d ds -> stream_small (Stream.d_stream d).

(* position p of the trace holds a state whose generation update_generation can overwrite:
   p < length and the state is `SAp _` or `SCall (Executed (VRStream _ _))` (CodesSpec.gen_state_at) *)
Definition gen_at (tr : list (state cid)) (p : N) : Prop := CodesSpec.gen_state_at tr p = true.

(* INVARIANT.  [SignSpec.handler_ok] (the positions remembered by the live Par / Fold state inserters
   hold placeholder states) is the auxiliary part that makes StateInserter::insert harmless. *)
Definition stream_pos_ok (x : ctx) : Prop :=
  SignSpec.handler_ok (x_handler x) /\
  (* every value of every live stream points at its Ap / stream Call state *)
  (forall v, In v (ctx_values x) -> gen_at (result_trace cid (x_handler x)) (va_pos v)) /\
  (* at pairwise different positions, over both tables *)
  NoDup (map va_pos (ctx_values x)) /\
  (* table keys are unique *)
  (forall t, NoDup (Stream.streams_keys vagg (table_of t x))) /\
  (* no stream holds STREAM_MAX_SIZE values *)
  (forall t, tbl_small (table_of t x)).

(* an outcome that carries a context carries the invariant (uncatchable errors included) *)
Definition xres_all (P : ctx -> Prop) (r : xres) : Prop :=
  match r with XOk y | XErr _ y => P y | _ => True end.

(* THEOREM: the invariant holds initially and is preserved by every instruction, for every fuel *)
Definition stream_pos_inv_stmt : Prop :=
  (forall i, stream_pos_ok (initial_ctx i)) /\
  (forall fuel instr x, stream_pos_ok x -> xres_all stream_pos_ok (exec stream_instr fuel instr x)).

(* the same for a whole execution from the initial context *)
Definition stream_pos_run_stmt : Prop :=
  forall fuel i, xres_all stream_pos_ok (exec stream_instr fuel (ri_script i) (initial_ctx i)).

(* what the invariant says in the vocabulary of the brief: bound, kind of state *)
Definition gen_at_spec_stmt : Prop :=
  forall tr p, gen_at tr p <->
    p < len_N tr /\
    exists st, nth_error tr (N.to_nat p) = Some st /\
               ((exists g, st = SAp g) \/ (exists c g, st = SCall (Executed (VRStream c g)))).

(* ------------------------------------------------------------------------------------------ *)
(* COROLLARY 1: the farewell compactification cannot fail (DESIGN 6/C02 `compactify_total`).
   No side condition is left: the generation indices stay below 3 * STREAM_MAX_SIZE. *)
Definition finish_total_stmt : Prop :=
  forall x, stream_pos_ok x -> exists y, finish_streams x = inl y.
Definition compactify_total_stmt : Prop :=
  forall fuel i x,
    (exec stream_instr fuel (ri_script i) (initial_ctx i) = XOk x \/
     exists c, exec stream_instr fuel (ri_script i) (initial_ctx i) = XErr (ECatch c) x) ->
    exists y, finish_streams x = inl y.

(* the hypothesis of C02_fail_keeps_prev / C02_code_classes holds for the stage-2 executor *)
Definition compactify_ok_run2_stmt : Prop :=
  forall sign_produced fuel l w, CodesSpec.compactify_ok stream_instr finish_streams sign_produced fuel l w.

(* COROLLARY 2: C02's two conditional statements for run2, without [compactify_ok] *)
Definition C02_fail_keeps_prev_run2_stmt : Prop :=
  forall sign_produced sign_result serialize fuel l w prev r,
    CodesSpec.execute_air_full stream_instr finish_streams sign_produced sign_result serialize fuel l w prev = CodesSpec.FOut r ->
    CodesSpec.fail_code (CodesSpec.r_code r) = true ->
    CodesSpec.r_data r = prev /\ CodesSpec.r_next r = [] /\ CodesSpec.r_reqs r = [].
Definition C02_code_classes_run2_stmt : Prop :=
  forall sign_produced sign_result serialize fuel l w prev r,
    (forall x x1, CodesSpec.farewell_ctx stream_instr sign_produced fuel l w = Some x ->
                  finish_streams x = inl x1 -> sign_result x1 = true) ->
    CodesSpec.execute_air_full stream_instr finish_streams sign_produced sign_result serialize fuel l w prev = CodesSpec.FOut r ->
    CodesSpec.fail_code (CodesSpec.r_code r) = true \/ CodesSpec.ok_code (CodesSpec.r_code r) = true.

(* COROLLARY 3: the hypothesis of C20_order_irrelevant_partial holds for every run *)
Definition streams_ok_of_inv_stmt : Prop := forall x, stream_pos_ok x -> DetSpec.streams_ok x.
Definition streams_ok_run_stmt : Prop :=
  forall fuel i x, DetSpec.end_ctx (exec stream_instr fuel (ri_script i) (initial_ctx i)) = Some x -> DetSpec.streams_ok x.
(* = DetSpec.C20_full *)
Definition C20_order_irrelevant_run2_stmt : Prop :=
  forall o o' fuel i, DetSpec.valid_orders o -> DetSpec.valid_orders o' ->
    DetSpec.outcome_equiv (DetSpec.run_det o fuel i) (DetSpec.run_det o' fuel i).
