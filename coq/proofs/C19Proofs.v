(* C19Proofs.v -- proofs of the C19 statements of model/CallSpec.v, on top of proofs/ExecInv.v. *)
From Coq Require Import Lia PeanoNat.
From Aqua Require Import Base Json Air Trace Handler Values Scalars Lens Exec RunExec ExecStreams CallSpec ExecInv ExecStreamsInv.
Open Scope N_scope.
Open Scope list_scope.

(* ------------------------------------------------------------------------------------------ *)
(* c19_rel is an invariant of execution *)

Lemma c19_rel_refl x : c19_rel x x.
Proof.
  split; [reflexivity |]. split; [exists []; symmetry; apply app_nil_r |].
  exists []. split; [symmetry; apply app_nil_r | constructor].
Qed.

Lemma c19_rel_trans x y z : c19_rel x y -> c19_rel y z -> c19_rel x z.
Proof.
  intros (P1 & (a1 & A1) & (s1 & S1 & F1)) (P2 & (a2 & A2) & (s2 & S2 & F2)).
  split; [congruence |]. split.
  - exists (a1 ++ a2). rewrite A2, A1. symmetry; apply app_assoc.
  - exists (s1 ++ s2). split; [rewrite S2, S1; symmetry; apply app_assoc |].
    apply Forall_app. split; [exact F1 |].
    unfold current_peer in *. rewrite P1 in F2. exact F2.
Qed.

Lemma c19_rel_of_frame x y : frame x y -> c19_rel x y.
Proof.
  intros (F1 & F2 & F3 & F4 & F5).
  split; [exact F5 |]. split; [exists []; rewrite F1; symmetry; apply app_nil_r |].
  exists []. split; [rewrite F3; symmetry; apply app_nil_r | constructor].
Qed.

Lemma c19_rel_exec_invariant : exec_invariant c19_rel.
Proof.
  constructor.
  - apply frame_invariant_of_frame; [apply c19_rel_trans | apply c19_rel_of_frame].
  - intros x id ans rest _. split; [reflexivity |]. split; [exists []; symmetry; apply app_nil_r |].
    exists []. split; [symmetry; apply app_nil_r | constructor].
  - intros x p Hp. split; [reflexivity |]. split; [exists []; symmetry; apply app_nil_r |].
    exists [p]. split; [reflexivity |]. constructor; [| constructor].
    intros E. subst p. rewrite String.eqb_refl in Hp. discriminate.
  - intros x rq _. split; [reflexivity |]. split; [eexists; reflexivity |].
    exists []. split; [symmetry; apply app_nil_r | constructor].
Qed.

Theorem c19_exec hook :
  hook_preserves c19_rel hook ->
  forall fuel i x y, outcome_ctx (exec hook fuel i x) = Some y -> c19_rel x y.
Proof.
  intros Hh fuel i x y E.
  apply (proj1 (res_sat_outcome c19_rel x _) (exec_inv c19_rel c19_rel_exec_invariant hook Hh fuel i x) y E).
Qed.

(* ------------------------------------------------------------------------------------------ *)
(* 1 *)

Lemma eqb_false_neq a b : String.eqb a b = false <-> a <> b.
Proof. apply String.eqb_neq. Qed.

Lemma app_one_neq {A} (l : list A) a : l ++ [a] <> l.
Proof.
  intros E. assert (H : length (l ++ [a]) = length l) by (rewrite E; reflexivity).
  rewrite app_length in H. simpl in H. lia.
Qed.

Lemma C19_remote_no_request x t args out y :
  outcome_ctx (resolved_call_execute x t args out) = Some y ->
  tp_peer t <> current_peer x ->
  x_requests y = x_requests x /\ x_lcid y = x_lcid x.
Proof.
  intros Hy Hp. destruct (resolved_call_execute_spec _ _ _ _ _ Hy) as (eff & Hf & _).
  destruct Hf as (_ & Hf). destruct eff; cbn in Hf.
  - tauto.
  - tauto.
  - tauto.
  - destruct Hf as (Heq & _). apply String.eqb_eq in Heq. contradiction.
Qed.

Lemma hsame_requests x y : hsame x y -> x_requests y = x_requests x /\ x_lcid y = x_lcid x /\ x_next_peers y = x_next_peers x.
Proof. intros [(F1 & F2 & F3 & _) _]. auto. Qed.

Lemma C19_request_only_local x text tr_ args out y :
  outcome_ctx (exec_call x text tr_ args out) = Some y ->
  x_requests y <> x_requests x ->
  exists t rq, resolve_triplet x tr_ = POk t /\ tp_peer t = current_peer x /\
               x_requests y = x_requests x ++ [(x_lcid x + 1, rq)] /\
               rq_service rq = tp_service t /\ rq_function rq = tp_function t.
Proof.
  intros Hy Hne. destruct (exec_call_spec _ _ _ _ _ _ Hy) as [Hs | (t & y' & Et & Hy' & Hs)].
  - exfalso. apply Hne. apply (hsame_requests _ _ Hs).
  - destruct (hsame_requests _ _ Hs) as (R1 & _). rewrite R1 in *.
    destruct (resolved_call_execute_spec _ _ _ _ _ Hy') as (eff & (_ & Hf) & _).
    destruct eff; cbn in Hf.
    + exfalso. apply Hne. tauto.
    + exfalso. apply Hne. tauto.
    + exfalso. apply Hne. tauto.
    + destruct Hf as (Heq & Hid & _ & _ & Hr & Hsv & Hfn & _). apply String.eqb_eq in Heq. subst id.
      exists t, rq. repeat split; assumption.
Qed.

Theorem C19_requests_local_proof : C19_requests_local_stmt.
Proof.
  split; [exact C19_remote_no_request |]. split; [exact C19_request_only_local |].
  intros hook Hh fuel i x y E. destruct (c19_exec hook Hh fuel i x y E) as (_ & Ha & _). exact Ha.
Qed.

(* ------------------------------------------------------------------------------------------ *)
(* 2 *)

Lemma existsb_eqb_In q l : existsb (String.eqb q) l = true <-> In q l.
Proof.
  rewrite existsb_exists. split.
  - intros (z & Hz & E). apply String.eqb_eq in E. subst. exact Hz.
  - intros H. exists q. split; [exact H | apply String.eqb_refl].
Qed.

Lemma dedup_In l : forall seen q, In q (dedup l seen) <-> In q l /\ ~ In q seen.
Proof.
  induction l as [| a l IH]; intros seen q; simpl.
  - tauto.
  - destruct (existsb (String.eqb a) seen) eqn:E.
    + apply existsb_eqb_In in E. rewrite IH. split.
      * intros [H1 H2]. tauto.
      * intros [[H1 | H1] H2]; [subst; contradiction | tauto].
    + assert (Hn : ~ In a seen) by (intros H; apply existsb_eqb_In in H; congruence).
      simpl. rewrite IH. simpl. split.
      * intros [H | [H1 H2]]; [subst; tauto |]. split; [tauto |]. intros H3. apply H2. right. exact H3.
      * intros [[H | H] H2]; [left; exact H |].
        destruct (string_dec a q) as [Eq | Nq]; [left; exact Eq |]. right. split; [exact H |].
        intros [H3 | H3]; [contradiction | contradiction].
Qed.

Lemma dedup_NoDup l : forall seen, NoDup (dedup l seen).
Proof.
  induction l as [| a l IH]; intros seen; simpl; [constructor |].
  destruct (existsb (String.eqb a) seen); [apply IH |].
  constructor; [| apply IH]. intros H. apply dedup_In in H. destruct H as [_ H]. apply H. left. reflexivity.
Qed.

Lemma dedup_spec l : NoDup (dedup l []) /\ forall q, In q (dedup l []) <-> In q l.
Proof.
  split; [apply dedup_NoDup |]. intros q. rewrite dedup_In. simpl. tauto.
Qed.

Lemma run_next_peers hook finish :
  hook_preserves c19_rel hook -> finish_keeps_next finish ->
  forall fuel i code d next reqs signed,
    run hook finish fuel i = OutNewData code d next reqs signed ->
    NoDup next /\ ~ In (rp_current_peer (ri_params i)) next.
Proof.
  intros Hh Hf fuel i code d next reqs signed.
  unfold run.
  assert (Hp : forall c x, outcome_ctx (exec hook fuel (ri_script i) (initial_ctx i)) = Some x ->
            match finish x with
            | inr u => OutPrevData (uncatchable_code u)
            | inl x1 => OutNewData c (data_of_ctx x1) (dedup (x_next_peers x1) []) (x_requests x1) (x_tracker x1)
            end = OutNewData code d next reqs signed ->
            NoDup next /\ ~ In (rp_current_peer (ri_params i)) next).
  { intros c x Hx. destruct (finish x) as [x1 | u] eqn:Ef; [| discriminate].
    intros E. inversion E; subst. clear E.
    split; [apply dedup_NoDup |].
    rewrite (Hf _ _ Ef). intros Hin. apply dedup_In in Hin. destruct Hin as [Hin _].
    destruct (c19_exec hook Hh _ _ _ _ Hx) as (_ & _ & (sent & Hs & Hall)).
    cbn in Hs. rewrite Hs in Hin. rewrite Forall_forall in Hall.
    apply (Hall _ Hin). reflexivity. }
  destruct (exec hook fuel (ri_script i) (initial_ctx i)) as [x | e x | | |] eqn:Ex; try discriminate.
  - apply (Hp _ x eq_refl).
  - destruct e; [apply (Hp _ x eq_refl) | discriminate].
Qed.

Theorem C19_next_peers_not_self_proof : C19_next_peers_not_self_stmt.
Proof.
  split; [| split; [exact dedup_spec | exact run_next_peers]].
  intros hook Hh fuel i x y E. destruct (c19_exec hook Hh fuel i x y E) as (_ & _ & Hs). exact Hs.
Qed.

(* the stage-1 instance *)
Lemma no_finish_keeps_next : finish_keeps_next no_finish.
Proof. intros x x1 E. inversion E; reflexivity. Qed.

Corollary run1_next_peers fuel i code d next reqs signed :
  run1 fuel i = OutNewData code d next reqs signed ->
  NoDup next /\ ~ In (rp_current_peer (ri_params i)) next.
Proof. apply (run_next_peers no_streams no_finish (hook_preserves_no_streams _) no_finish_keeps_next). Qed.

(* the full interpreter (stage 2: streams, canon, stream folds) *)
Lemma c19_hook2 : hook_preserves c19_rel stream_instr.
Proof. apply stream_instr_preserves. apply c19_rel_exec_invariant. Qed.

Lemma finish_streams_keeps_next : finish_keeps_next finish_streams.
Proof. intros x x1 E. destruct (finish_streams_frame _ _ E) as (_ & _ & F3 & _). exact F3. Qed.

Corollary exec2_c19 fuel i x y : outcome_ctx (exec stream_instr fuel i x) = Some y -> c19_rel x y.
Proof. apply (c19_exec stream_instr c19_hook2). Qed.

Corollary run2_next_peers fuel i code d next reqs signed :
  run2 fuel i = OutNewData code d next reqs signed ->
  NoDup next /\ ~ In (rp_current_peer (ri_params i)) next.
Proof. apply (run_next_peers stream_instr finish_streams c19_hook2 finish_streams_keeps_next). Qed.

(* ------------------------------------------------------------------------------------------ *)
(* 3 *)

Lemma app_tail_inj {A} (l : list A) a b : l ++ [a] = l ++ [b] -> a = b.
Proof. intros E. apply app_inv_head in E. inversion E; reflexivity. Qed.

Lemma app_one_nil {A} (l : list A) a : l = l ++ [a] -> False.
Proof. intros E. symmetry in E. apply (app_one_neq _ _ E). Qed.

Theorem C19_marked_forwarded_proof : C19_marked_forwarded_stmt.
Proof.
  intros x t args out y Hy.
  destruct (resolved_call_execute_spec _ _ _ _ _ Hy) as (eff & (_ & Hf) & He).
  destruct eff; cbn in Hf, He.
  - (* frame *)
    split.
    + intros p Ht Hn. exfalso. destruct He as [He | (c & Hm & He)].
      * rewrite He in Ht. apply (app_one_nil _ _ Ht).
      * rewrite He in Ht. apply app_tail_inj in Ht. inversion Ht; subst. contradiction.
    + intros Hne. exfalso. apply Hne. tauto.
  - (* a supplied result is consumed *)
    split.
    + intros p Ht Hn. exfalso. destruct He as [He | (c & He & Hc)].
      * rewrite He in Ht. apply (app_one_nil _ _ Ht).
      * rewrite He in Ht. apply app_tail_inj in Ht. inversion Ht; subst. exact Hc.
    + intros Hne. exfalso. apply Hne. tauto.
  - (* forward *)
    destruct Hf as (Hp & Hn & _). apply String.eqb_neq in Hp.
    split.
    + intros p Ht _. rewrite He in Ht. apply app_tail_inj in Ht. inversion Ht; subst. auto.
    + intros _. auto.
  - (* request *)
    split.
    + intros p Ht _. exfalso. rewrite He in Ht. apply app_tail_inj in Ht. discriminate.
    + intros Hne. exfalso. apply Hne. tauto.
Qed.

(* ------------------------------------------------------------------------------------------ *)
(* 5 *)

Theorem C19_source_tie_proof : C19_source_tie_stmt.
Proof.
  split; [vm_compute; reflexivity |]. split; [intros a b; reflexivity |].
  intros x t args out y Hy Hne.
  destruct (proj2 (C19_marked_forwarded_proof x t args out y Hy) Hne) as (Hp & _).
  change (snd (fst c19_call_remote_guard)) with CmpNe. cbn [str_cmp].
  apply String.eqb_neq in Hp. rewrite Hp. reflexivity.
Qed.

(* ------------------------------------------------------------------------------------------ *)
(* 4. the history-level statement is refuted by the model (and by the code: known finding
   forwarded-before-arguments-known, corpus/C19/known_forwarded_before_arguments.json):
   a call whose arguments are not known yet is marked as sent and forwarded at once; the target
   cannot execute it; when the sender learns the arguments it keeps its mark and does not forward
   again, so the call stays marked although the target could execute it with everything that is known *)

Definition cx_var (n : string) : var := {| v_name := n; v_pos := 0 |}.
Definition cx_call (p : peer_arg) (fn : string) (args : list value) (out : call_output) : instr :=
  ICall "call" {| t_peer := p; t_service := SLiteral "s"; t_function := SLiteral fn |} args out.
Definition cx_script : instr :=
  ISeq (IPar (cx_call (PLiteral "D") "peer" [] (OutScalar (cx_var "v4")))
             (ISeq (cx_call (PLiteral "A") "val" [] (OutScalar (cx_var "v5")))
                   (cx_call (PLiteral "D") "later" [] OutNone)))
       (cx_call (PScalar (cx_var "v4")) "use" [VScalar (cx_var "v5")] OutNone).
Definition cx_service (p : string) (rq : request) : service_answer :=
  let j := if String.eqb (rq_function rq) "peer" then JStr "C" else JStr (rq_function rq ++ "@" ++ p) in
  {| sa_ret_code := 0; sa_text := ""; sa_parsed := Some j |}.
Definition cx_ops : list hop :=
  [HStart; HDeliver 0 false; HReturn "D"; HDeliver 0 false; HReturn "A"; HDeliver 0 false; HReturn "D"].

Lemma quiescent_b_true n : quiescent_b n = true -> quiescent n.
Proof.
  unfold quiescent_b, quiescent. intros H. apply andb_prop in H. destruct H as [H H3]. apply andb_prop in H. destruct H as [H1 H2].
  split; [exact H1 |]. split; [destruct (n_inflight n); [reflexivity | discriminate] |].
  intros h Hin. rewrite forallb_forall in H3. specialize (H3 h Hin). destruct (ho_pending h); [reflexivity | discriminate].
Qed.

Lemma C19_quiescent_check_sound hook finish fuel script init ts ttl service peers observer :
  C19_quiescent_for hook finish fuel script init ts ttl service peers observer ->
  forall ops, C19_quiescent_check hook finish fuel script init ts ttl service peers observer ops <> Some false.
Proof.
  intros H ops. unfold C19_quiescent_check.
  set (n := fold_left (step hook finish fuel script init ts ttl service) ops (start_net peers)).
  destruct (quiescent_b n) eqn:Eq; cbn [negb]; [| discriminate].
  pose proof (quiescent_b_true n Eq) as Hq.
  destruct (merged hook finish fuel script init ts ttl observer n) as [m |] eqn:Em; [| discriminate].
  intros E. inversion E as [E1]. clear E.
  assert (Ht : forallb (fun h => match run_at hook finish fuel script init ts ttl h m [] with
                                 | OutNewData _ d _ _ _ =>
                                     Nat.eqb (marks_of_others (ho_peer h) observer (d_trace d))
                                             (marks_of_others (ho_peer h) observer (d_trace m))
                                 | _ => true end) (n_hosts n) = true).
  { apply forallb_forall. intros h Hin.
    destruct (run_at hook finish fuel script init ts ttl h m []) as [code d next reqs signed | | | |] eqn:Er; try reflexivity.
    apply Nat.eqb_eq. apply (H ops Hq m Em h Hin code d next reqs signed Er). }
  rewrite Ht in E1. discriminate.
Qed.

Lemma cx_check :
  C19_quiescent_check stream_instr finish_streams 200 cx_script "A" 1 2 cx_service ["A"; "B"; "C"; "D"] "observer" cx_ops = Some false.
Proof. vm_compute. reflexivity. Qed.

Theorem C19_full_refuted_proof : ~ C19_full stream_instr finish_streams.
Proof.
  intros H.
  assert (Hn : ~ In "observer" ["A"; "B"; "C"; "D"]).
  { intros Hi. repeat (destruct Hi as [Hi | Hi]; [discriminate |]). contradiction. }
  apply (C19_quiescent_check_sound _ _ _ _ _ _ _ _ _ _
           (H 200%nat cx_script "A" 1 2 cx_service ["A"; "B"; "C"; "D"] "observer" Hn (or_introl eq_refl)) cx_ops).
  exact cx_check.
Qed.
