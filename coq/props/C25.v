(* props/C25.v -- content ids are canonical and verification accepts exactly the matching pairs.
   Only pinned statements, [exact], non-vacuity examples and Print Assumptions.
   The text <-> structure mapping of ids, the two hash functions and the canonical bytes of a value are
   arbitrary functions (universally quantified); laws assumed about them are explicit premises. *)
From Coq Require Import Permutation.
From Aqua Require Import Base Json Cid CidProofs.
Open Scope list_scope.
Open Scope N_scope.

(* an object does not depend on the order its members were inserted in *)
Theorem C25_canonical : forall kvs kvs', Permutation kvs kvs' -> NoDup (map fst kvs) -> jobj_of kvs = jobj_of kvs'.
Proof. exact jobj_of_perm. Qed.

(* ... it is in canonical form (keys strictly increasing) and holds exactly the given members *)
Theorem C25_canonical_form : forall kvs, exists l, jobj_of kvs = JObj l /\ keys_sorted (map fst l) = true.
Proof. exact jobj_of_sorted. Qed.

Theorem C25_canonical_members : forall kvs k v, NoDup (map fst kvs) -> In (k, v) kvs ->
  exists l, jobj_of kvs = JObj l /\ obj_get k l = Some v.
Proof. exact jobj_of_get. Qed.

(* hence the id depends only on the value *)
Theorem C25_id_insertion_order_free :
  forall (print_cid : parsed_cid -> string) (blake3 : list N -> list N) (bytes_of : json -> list N),
  forall kvs kvs', Permutation kvs kvs' -> NoDup (map fst kvs) ->
  value_to_json_cid print_cid blake3 bytes_of (jobj_of kvs) = value_to_json_cid print_cid blake3 bytes_of (jobj_of kvs').
Proof. exact id_insertion_order_free. Qed.

(* verification succeeds exactly for a JSON-codec id whose full digest matches *)
Theorem C25_verify :
  forall (parse_cid : string -> option parsed_cid) (sha256 blake3 : list N -> list N) (bytes_of : json -> list N),
  forall cid v,
    verify_value parse_cid sha256 blake3 bytes_of cid v = VerOk <->
    exists p, parse_cid cid = Some p /\ cid_codec p = json_codec /\
      ((cid_hash_code p = sha2_256_code /\ cid_digest p = sha256 (bytes_of v)) \/
       (cid_hash_code p = blake3_256_code /\ cid_digest p = blake3 (bytes_of v))).
Proof. exact verify_characterised. Qed.

Theorem C25_verify_raw :
  forall (parse_cid : string -> option parsed_cid) (sha256 blake3 : list N -> list N),
  forall cid raw,
    verify_raw_value parse_cid sha256 blake3 cid raw = VerOk <->
    exists p, parse_cid cid = Some p /\ cid_codec p = json_codec /\
      ((cid_hash_code p = sha2_256_code /\ cid_digest p = sha256 raw) \/
       (cid_hash_code p = blake3_256_code /\ cid_digest p = blake3 raw)).
Proof. exact verify_raw_characterised. Qed.

Theorem C25_verify_value_is_raw_on_bytes :
  forall (parse_cid : string -> option parsed_cid) (sha256 blake3 : list N -> list N) (bytes_of : json -> list N),
  forall cid v, verify_value parse_cid sha256 blake3 bytes_of cid v = verify_raw_value parse_cid sha256 blake3 cid (bytes_of v).
Proof. exact verify_value_as_raw. Qed.

(* the error variant of every failure *)
Theorem C25_verify_errors :
  forall (parse_cid : string -> option parsed_cid) (sha256 blake3 : list N -> list N) (bytes_of : json -> list N),
  forall cid v,
    (verify_value parse_cid sha256 blake3 bytes_of cid v = VerErr MalformedCid <-> parse_cid cid = None) /\
    (forall c, verify_value parse_cid sha256 blake3 bytes_of cid v = VerErr (UnsupportedCidCodec c) <->
               exists p, parse_cid cid = Some p /\ cid_codec p = c /\ c <> json_codec) /\
    (forall h, verify_value parse_cid sha256 blake3 bytes_of cid v = VerErr (UnsupportedHashCode h) <->
               exists p, parse_cid cid = Some p /\ cid_codec p = json_codec /\ cid_hash_code p = h /\
                         h <> sha2_256_code /\ h <> blake3_256_code) /\
    (verify_value parse_cid sha256 blake3 bytes_of cid v = VerErr ValueMismatch <->
               exists p alg, parse_cid cid = Some p /\ cid_codec p = json_codec /\
                         supported_hash (cid_hash_code p) = Some alg /\
                         cid_digest p <> run_hash sha256 blake3 alg (bytes_of v)).
Proof. exact verify_errors. Qed.

(* a digest of another length -- in particular a truncated one -- never verifies *)
Theorem C25_truncated_digest_fails :
  forall (parse_cid : string -> option parsed_cid) (sha256 blake3 : list N -> list N) (bytes_of : json -> list N),
  forall cid v p, parse_cid cid = Some p ->
    length (cid_digest p) <> length (sha256 (bytes_of v)) -> length (cid_digest p) <> length (blake3 (bytes_of v)) ->
    verify_value parse_cid sha256 blake3 bytes_of cid v <> VerOk.
Proof. exact truncated_digest_fails. Qed.

(* the id computed for a value verifies against that value (premise: id text round-trips) *)
Theorem C25_own_id_verifies :
  forall (parse_cid : string -> option parsed_cid) (print_cid : parsed_cid -> string)
         (sha256 blake3 : list N -> list N) (bytes_of : json -> list N),
  (forall p, parse_cid (print_cid p) = Some p) ->
  forall v c, value_to_json_cid print_cid blake3 bytes_of v = CidOk c ->
              verify_value parse_cid sha256 blake3 bytes_of c v = VerOk.
Proof. exact own_id_verifies. Qed.

Theorem C25_id_total :
  forall (print_cid : parsed_cid -> string) (blake3 : list N -> list N) (bytes_of : json -> list N),
  forall v, length (blake3 (bytes_of v)) = 32%nat -> exists c, value_to_json_cid print_cid blake3 bytes_of v = CidOk c.
Proof. exact id_total. Qed.

(* different values get different ids (premises: collision-freeness, injective printing) *)
Theorem C25_distinct_values_distinct_ids :
  forall (parse_cid : string -> option parsed_cid) (print_cid : parsed_cid -> string)
         (blake3 : list N -> list N) (bytes_of : json -> list N),
  (forall p, parse_cid (print_cid p) = Some p) ->
  (forall a b, blake3 a = blake3 b -> a = b) ->
  (forall v w, bytes_of v = bytes_of w -> v = w) ->
  forall v w c, value_to_json_cid print_cid blake3 bytes_of v = CidOk c ->
                value_to_json_cid print_cid blake3 bytes_of w = CidOk c -> v = w.
Proof. exact distinct_values_distinct_ids. Qed.

(* the supported hash codes and their numbers, the hash and version used for new ids, the codec
   and the full-digest comparison are the ones found in the sources today *)
Theorem C25_source_tie : cid_constants_agree = true.
Proof. exact cid_constants_ok. Qed.

(* non-vacuity *)
Example C25_nonvacuous_canonical :
  jobj_of [("b", JInt 1); ("a", JNull); ("c", JArr [])]%string = JObj [("a", JNull); ("b", JInt 1); ("c", JArr [])]%string /\
  jobj_of [("c", JArr []); ("a", JNull); ("b", JInt 1)]%string = JObj [("a", JNull); ("b", JInt 1); ("c", JArr [])]%string.
Proof. vm_compute. split; reflexivity. Qed.

Example C25_nonvacuous_verify :
  let good := {| cid_version := 1; cid_codec := 512; cid_hash_code := 18; cid_digest := [1; 2; 3] |} in
  let trunc := {| cid_version := 1; cid_codec := 512; cid_hash_code := 18; cid_digest := [1; 2] |} in
  let other := {| cid_version := 1; cid_codec := 85; cid_hash_code := 18; cid_digest := [1; 2; 3] |} in
  let sha512 := {| cid_version := 1; cid_codec := 512; cid_hash_code := 19; cid_digest := [1; 2; 3] |} in
  let run p := verify_value (fun _ => p) (fun _ => [1; 2; 3]) (fun _ => [9]) (fun _ => []) ""%string JNull in
  run (Some good) = VerOk /\ run (Some trunc) = VerErr ValueMismatch /\
  run (Some other) = VerErr (UnsupportedCidCodec 85) /\ run (Some sha512) = VerErr (UnsupportedHashCode 19) /\
  run None = VerErr MalformedCid.
Proof. vm_compute. repeat split. Qed.

Print Assumptions C25_canonical.
Print Assumptions C25_canonical_form.
Print Assumptions C25_canonical_members.
Print Assumptions C25_id_insertion_order_free.
Print Assumptions C25_verify.
Print Assumptions C25_verify_raw.
Print Assumptions C25_verify_value_is_raw_on_bytes.
Print Assumptions C25_verify_errors.
Print Assumptions C25_truncated_digest_fails.
Print Assumptions C25_own_id_verifies.
Print Assumptions C25_id_total.
Print Assumptions C25_distinct_values_distinct_ids.
Print Assumptions C25_source_tie.
