"""Translator piece for C02 (failed runs return the previous data; outcomes follow the code ranges).

Re-reads, on every run, the source lines of /repo that decide which data an outcome carries:

    interpreter_success                 INTERPRETER_SUCCESS (interpreter-interface)
    outcome_new_params                  parameter names of InterpreterOutcome::new, in order, and the struct
                                        field each one initialises (outcome_new_field_init)
    farewell_if_fail_is_standard        the macro: Ok(result) => result, Err(error) => return
                                        Err(farewell::from_uncatchable_error($raw_prev_data, error, $soft_limits_triggering))
    runner_farewell_sites               every farewell_if_fail!(f(..), <data>, <flags>) of execute_air_impl in
                                        source order: (f, <data>, <flags>)
    runner_stage_order                  the same sites interleaved with `execute` (air.execute(..)) and `match`
                                        (the match on exec_result), by source position
    runner_exec_match_arms              arms of `match exec_result`: (pattern, function called, its first argument)
    from_uncatchable_error_args         the six arguments of InterpreterOutcome::new in from_uncatchable_error
    from_uncatchable_error_lets         its let bindings (name, right-hand side), whitespace-normalised
    from_success_result_code_rule_is_standard    (INTERPRETER_SUCCESS, "") iff call_results is empty, otherwise
                                        FarewellError::UnprocessedCallResult(..).to_error_code()
    from_execution_error_is_standard    populate_outcome_from_contexts(exec_ctx, trace_handler, error.to_error_code(), ..)
    populate_steps                      order of compactify_streams / sign_result / from_execution_result /
                                        serialize / dedup / InterpreterOutcome::new in populate_outcome_from_contexts
    populate_data_args                  first and fourth argument of InterpreterDataEnvelope::from_execution_result
                                        (result trace, last call request id)
    populate_outcome_args               the six arguments of the final InterpreterOutcome::new
    internal_error_outcome_args         (function, the six InterpreterOutcome::new arguments) of
                                        execution_error_into_outcome and signing_error_into_outcome
    compactify_error_route / sign_error_route    which of the two each failing step of populate.. calls
    is_catchable_is_standard            ExecutionError::is_catchable = matches!(self, ExecutionError::Catchable(_))
    execution_error_code_delegates      ExecutionError::to_error_code delegates to the wrapped error in both arms
    to_error_code_macro_is_standard     generate_to_error_code!: start id + position in <Enum>Discriminants::iter()
    to_error_code_uses                  (enum, start-id constant) of each `generate_to_error_code!(self, E, C)`
    error_enums_iterate_discriminants   each of the four enums derives EnumDiscriminants with
                                        #[strum_discriminants(derive(EnumIter))] (iteration = declaration order)
    signing_error_code_is_start_plus_count   SigningError (farewell) = FAREWELL_ERRORS_START_ID + FarewellError::COUNT

model/CodesSpec.v compares these with what the model assumes ([codes_source_agrees]); props/C02.v proves
the comparison by computation, so an edit of any of these lines breaks the obligation of C02."""
import re

from gen_model import TranslationError, coq_list, coq_str, const_int, read, strip_comments

RUNNER = "air/src/runner.rs"
OUTCOME = "air/src/farewell_step/outcome.rs"
UTILS = "crates/air-lib/utils/src/lib.rs"
IFACE = "crates/air-lib/interpreter-interface/src/interpreter_outcome.rs"
EXEC_ERR = "air/src/execution_step/errors/execution_errors.rs"
TO_CODE = "air/src/utils/to_error_code.rs"
FAREWELL_ERR = "air/src/farewell_step/errors.rs"
ENUM_FILES = [
    ("PreparationError", "air/src/preparation_step/errors.rs"),
    ("CatchableError", "air/src/execution_step/errors/catchable_errors.rs"),
    ("UncatchableError", "air/src/execution_step/errors/uncatchable_errors.rs"),
    ("FarewellError", FAREWELL_ERR),
]


def norm(s):
    return re.sub(r"\s+", " ", s).strip()


def balanced(src, i, open_c="(", close_c=")"):
    """src[i] is an opening bracket: return the index just after its closing partner."""
    depth = 0
    j = i
    while j < len(src):
        c = src[j]
        if c in "([{":
            depth += 1
        elif c in ")]}":
            depth -= 1
            if depth == 0:
                return j + 1
        j += 1
    raise TranslationError("unbalanced brackets")


def split_args(s):
    """Top-level comma separated arguments of a call's argument text."""
    out, depth, tok = [], 0, ""
    for c in s:
        if c in "([{":
            depth += 1
        elif c in ")]}":
            depth -= 1
        if c == "," and depth == 0:
            out.append(norm(tok))
            tok = ""
        else:
            tok += c
    if tok.strip():
        out.append(norm(tok))
    return out


def fn_body(src, name, rel):
    m = re.search(r"\bfn\s+" + re.escape(name) + r"\b", src)
    if not m:
        raise TranslationError("function %s not found in %s" % (name, rel))
    # the body is the first `{` after the parameter list / return type
    i = src.find("(", m.end())
    j = balanced(src, i)
    k = src.find("{", j)
    if k < 0:
        raise TranslationError("function %s in %s has no body" % (name, rel))
    return src[k:balanced(src, k)]


def call_args(body, callee, rel, which=0):
    ms = list(re.finditer(re.escape(callee) + r"\s*\(", body))
    if len(ms) <= which:
        raise TranslationError("call of %s not found in %s" % (callee, rel))
    i = ms[which].end() - 1
    return split_args(body[i + 1:balanced(body, i) - 1]), ms[which].start()


def pairs(l):
    return coq_list(["(%s, %s)" % (coq_str(a), coq_str(b)) for a, b in l])


def triples(l):
    return coq_list(["(%s, %s, %s)" % (coq_str(a), coq_str(b), coq_str(c)) for a, b, c in l])


def strs(l):
    return coq_list([coq_str(x) for x in l])


def b(x):
    return "true" if x else "false"


def generate():
    out = []
    w = out.append
    w("(* ---- tools/genx_codes.py (C02) ---- *)")
    w("Definition interpreter_success : Z := %d%%Z." % const_int(IFACE, "INTERPRETER_SUCCESS"))

    # InterpreterOutcome::new
    isrc = strip_comments(read(IFACE))
    m = re.search(r"impl\s+InterpreterOutcome\s*\{\s*pub fn new\s*\(", isrc)
    if not m:
        raise TranslationError("InterpreterOutcome::new not found")
    i = m.end() - 1
    params = [p.split(":")[0].strip() for p in split_args(isrc[i + 1:balanced(isrc, i) - 1])]
    k = isrc.find("{", balanced(isrc, i))
    nbody = isrc[k:balanced(isrc, k)]
    ms = re.search(r"Self\s*\{", nbody)
    if not ms:
        raise TranslationError("InterpreterOutcome::new: no Self { .. }")
    j = ms.end() - 1
    inits = []
    for f in split_args(nbody[j + 1:balanced(nbody, j) - 1]):
        if ":" in f:
            a, bb = f.split(":", 1)
            inits.append((a.strip(), norm(bb)))
        else:
            inits.append((f, f))
    w("Definition outcome_new_params : list string := %s." % strs(params))
    w("Definition outcome_new_field_init : list (string * string) := %s." % pairs(inits))
    w("Definition outcome_new_call_requests_is_into : bool := %s." % b("let call_requests = call_requests.into();" in norm(nbody)))

    # farewell_if_fail!
    usrc = strip_comments(read(UTILS))
    m = re.search(r"macro_rules!\s*farewell_if_fail\s*\{", usrc)
    if not m:
        raise TranslationError("macro farewell_if_fail not found")
    mb = norm(usrc[m.end() - 1:balanced(usrc, m.end() - 1)])
    expect = ("{ ($cmd:expr, $raw_prev_data:expr, $soft_limits_triggering:expr) => { match $cmd { Ok(result) => result, "
              "Err(error) => { return Err(farewell::from_uncatchable_error( $raw_prev_data, error, $soft_limits_triggering, )) } }; }; }")
    w("Definition farewell_if_fail_is_standard : bool := %s." % b(mb == expect))

    # runner.rs
    rsrc = strip_comments(read(RUNNER))
    body = fn_body(rsrc, "execute_air_impl", RUNNER)
    sites = []
    marks = []
    for mm in re.finditer(r"farewell_if_fail!\s*\(", body):
        i = mm.end() - 1
        args = split_args(body[i + 1:balanced(body, i) - 1])
        if len(args) != 3:
            raise TranslationError("farewell_if_fail! site with %d arguments" % len(args))
        f = re.match(r"([A-Za-z_][\w:]*)\s*\(", args[0])
        if not f:
            raise TranslationError("farewell_if_fail! site: command is not a call: %s" % args[0][:40])
        sites.append((f.group(1), args[1], args[2]))
        marks.append((mm.start(), f.group(1)))
    if not sites:
        raise TranslationError("no farewell_if_fail! site in execute_air_impl")
    ex = [mm.start() for mm in re.finditer(r"\bair\.execute\s*\(", body)]
    if len(ex) != 1:
        raise TranslationError("execute_air_impl: expected exactly one air.execute(..), found %d" % len(ex))
    marks.append((ex[0], "execute"))
    mt = [mm for mm in re.finditer(r"\bmatch\s+exec_result\s*\{", body)]
    if len(mt) != 1:
        raise TranslationError("execute_air_impl: expected exactly one `match exec_result`")
    marks.append((mt[0].start(), "match"))
    marks.sort()
    w("Definition runner_farewell_sites : list (string * string * string) := %s." % triples(sites))
    w("Definition runner_stage_order : list string := %s." % strs([n for _, n in marks]))
    # no other early exit: `return`, `?` or a second from_* call outside the macro sites and the match
    other_returns = len(re.findall(r"\breturn\b", body)) + len(re.findall(r"\?\s*;", body))
    w("Definition runner_other_early_exits : N := %d%%N." % other_returns)

    # the arms of match exec_result
    i = mt[0].end() - 1
    mbody = body[i + 1:balanced(body, i) - 1]
    arms = []
    pos = 0
    while True:
        mm = re.search(r"(Ok\(_\)|Err\(error\)(?:\s+if\s+[^=]+?)?)\s*=>", mbody[pos:])
        if not mm:
            break
        pat = norm(mm.group(1))
        rest = mbody[pos + mm.end():]
        f = re.search(r"farewell::(\w+)\s*\(", rest)
        if not f:
            raise TranslationError("match exec_result: arm %s calls no farewell function" % pat)
        j = f.end() - 1
        args = split_args(rest[j + 1:balanced(rest, j) - 1])
        wrapped = re.sub(r"[\s{]", "", rest[:f.start()])
        arms.append((pat, wrapped + f.group(1), args[0] if args else ""))
        pos = pos + mm.end() + balanced(rest, j)
    if not arms:
        raise TranslationError("match exec_result: no arms recognised")
    w("Definition runner_exec_match_arms : list (string * string * string) := %s." % triples(arms))
    w("Definition runner_unwraps_with_identity : bool := %s." % b(
        "execute_air_impl(air, prev_data, data, params, call_results).unwrap_or_else(identity)" in norm(rsrc)))

    # outcome.rs
    osrc = strip_comments(read(OUTCOME))
    fu = fn_body(osrc, "from_uncatchable_error", OUTCOME)
    args, _ = call_args(fu, "InterpreterOutcome::new", OUTCOME)
    lets = [(mm.group(1), norm(mm.group(2))) for mm in re.finditer(r"\blet\s+(\w+)\s*=\s*(.*?);", fu, flags=re.S)]
    w("Definition from_uncatchable_error_args : list string := %s." % strs(args))
    w("Definition from_uncatchable_error_lets : list (string * string) := %s." % pairs(lets))

    fs = norm(fn_body(osrc, "from_success_result", OUTCOME))
    rule = ("let (ret_code, error_message) = if exec_ctx.call_results.is_empty() { (INTERPRETER_SUCCESS, String::new()) } else { "
            "let farewell_error = Rc::new(FarewellError::UnprocessedCallResult(exec_ctx.call_results.clone())); "
            "(farewell_error.to_error_code(), farewell_error.to_string()) };")
    tail = "let outcome = populate_outcome_from_contexts( exec_ctx, trace_handler, ret_code, error_message, keypair, soft_limits_triggering, ); Ok(outcome)"
    w("Definition from_success_result_code_rule_is_standard : bool := %s." % b(rule in fs and tail in fs))
    fe = norm(fn_body(osrc, "from_execution_error", OUTCOME))
    w("Definition from_execution_error_is_standard : bool := %s." % b(
        fe == "{ populate_outcome_from_contexts( exec_ctx, trace_handler, error.to_error_code(), error.to_string(), keypair, soft_limits_triggering, ) }"))

    pb = fn_body(osrc, "populate_outcome_from_contexts", OUTCOME)
    steps = []
    for pat, name in [(r"\bcompactify_streams\s*\(", "compactify_streams"), (r"\bsign_result\s*\(", "sign_result"),
                      (r"InterpreterDataEnvelope::from_execution_result\s*\(", "from_execution_result"),
                      (r"\bdata\.serialize\s*\(\)", "serialize"), (r"\bdedup\s*\(", "dedup"),
                      (r"InterpreterOutcome::new\s*\(", "InterpreterOutcome::new")]:
        mm = list(re.finditer(pat, pb))
        if len(mm) != 1:
            raise TranslationError("populate_outcome_from_contexts: %s occurs %d times" % (name, len(mm)))
        steps.append((mm[0].start(), name))
    steps.sort()
    w("Definition populate_steps : list string := %s." % strs([n for _, n in steps]))
    dargs, _ = call_args(pb, "InterpreterDataEnvelope::from_execution_result", OUTCOME)
    if len(dargs) < 4:
        raise TranslationError("from_execution_result: fewer than four arguments")
    w("Definition populate_data_args : list string := %s." % strs([dargs[0], dargs[3]]))
    oargs, _ = call_args(pb, "InterpreterOutcome::new", OUTCOME)
    w("Definition populate_outcome_args : list string := %s." % strs(oargs))
    early = [norm(mm.group(0)) for mm in re.finditer(
        r"match\s+(\w+)\s*\([^)]*\)\s*\{\s*Ok\(\(\)\)\s*=>\s*\{\}\s*,?\s*Err\(outcome\)\s*=>\s*return outcome\s*,?\s*\}", pb)]
    w("Definition populate_early_returns : N := %d%%N." % len(early))
    w("Definition populate_returns_total : N := %d%%N." % len(re.findall(r"\breturn\b", pb)))
    w("Definition populate_next_peers_is_dedup : bool := %s." % b("let next_peer_pks = dedup(exec_ctx.next_peer_pks);" in norm(pb)))
    w("Definition populate_requests_from_ctx : bool := %s." % b(
        re.search(r"CallRequestsRepr\s*\.serialize\(&exec_ctx\.call_requests\)", norm(pb)) is not None))

    internal = []
    for fname in ("execution_error_into_outcome", "signing_error_into_outcome"):
        a, _ = call_args(fn_body(osrc, fname, OUTCOME), "InterpreterOutcome::new", OUTCOME)
        internal.append((fname, a))
    w("Definition internal_error_outcome_args : list (string * list string) := %s." % coq_list(
        ["(%s, %s)" % (coq_str(n), strs(a)) for n, a in internal]))
    cs = norm(fn_body(osrc, "compactify_streams", OUTCOME))
    mm = re.search(r"\.map_err\(\|err\| (\w+)\(err, soft_limits_triggering\)\)", cs)
    w("Definition compactify_error_route : string := %s." % coq_str(mm.group(1) if mm else "?"))
    sr = norm(fn_body(osrc, "sign_result", OUTCOME))
    mm = re.search(r"\.map_err\(\|err\| (\w+)\(err, soft_limits_triggering\)\)\?", sr)
    w("Definition sign_error_route : string := %s." % coq_str(mm.group(1) if mm else "?"))

    # ExecutionError
    esrc = strip_comments(read(EXEC_ERR))
    ic = norm(fn_body(esrc, "is_catchable", EXEC_ERR))
    w("Definition is_catchable_is_standard : bool := %s." % b(ic == "{ matches!(self, ExecutionError::Catchable(_)) }"))
    m = re.search(r"impl\s+ToErrorCode\s+for\s+ExecutionError\s*\{", esrc)
    if not m:
        raise TranslationError("impl ToErrorCode for ExecutionError not found")
    tb = norm(esrc[m.end() - 1:balanced(esrc, m.end() - 1)])
    w("Definition execution_error_code_delegates : bool := %s." % b(
        tb == "{ fn to_error_code(&self) -> i64 { match self { ExecutionError::Catchable(err) => err.to_error_code(), "
              "ExecutionError::Uncatchable(err) => err.to_error_code(), } } }"))

    # generate_to_error_code!
    tsrc = strip_comments(read(TO_CODE))
    m = re.search(r"macro_rules!\s*generate_to_error_code\s*\{", tsrc)
    if not m:
        raise TranslationError("macro generate_to_error_code not found")
    gb = norm(tsrc[m.end() - 1:balanced(tsrc, m.end() - 1)])
    shape = ("const error_start_id: i64 = $start_id; let mut errors = error_discriminant::iter(); "
             "let actual_error_type = error_discriminant::from($self); "
             "let enum_variant_position = errors.position(|et| et == actual_error_type).unwrap() as i64; "
             "error_start_id + enum_variant_position")
    disc = "concat_idents::concat_idents!(error_discriminant = $error_type, Discriminants {"
    w("Definition to_error_code_macro_is_standard : bool := %s." % b(shape in gb and disc in gb))
    uses = []
    derives = True
    for en, rel in ENUM_FILES:
        s = strip_comments(read(rel))
        mm = re.search(r"generate_to_error_code!\(\s*self\s*,\s*(\w+)\s*,\s*(\w+)\s*\)", s)
        if not mm:
            raise TranslationError("no generate_to_error_code! in %s" % rel)
        uses.append((mm.group(1), mm.group(2)))
        md = re.search(r"#\[derive\(([^)]*)\)\]\s*#\[strum_discriminants\(derive\(([^)]*)\)\)\]\s*pub enum " + en + r"\b", s)
        if not md or "EnumDiscriminants" not in md.group(1) or "EnumIter" not in md.group(2):
            derives = False
    w("Definition to_error_code_uses : list (string * string) := %s." % pairs(uses))
    w("Definition error_enums_iterate_discriminants : bool := %s." % b(derives))
    fsrc = norm(strip_comments(read(FAREWELL_ERR)))
    w("Definition signing_error_code_is_start_plus_count : bool := %s." % b(
        "impl ToErrorCode for SigningError { fn to_error_code(&self) -> i64 { crate::utils::FAREWELL_ERRORS_START_ID + FarewellError::COUNT as i64 } }" in fsrc))
    w("")
    return out
