//! canon11: property C11 ("a canonicalized stream is fixed once and identical everywhere") on the REAL
//! interpreter: histories (given schedule), exhaustive exploration of delivery orders, forked worlds
//! (two different executed results for one canon position presented to one peer) and forged states
//! (a result executed by a peer that was not designated).  The oracles are written from the property
//! text; runs that involve canon states are also printed as terms of coq/model/ExecCases.v (the
//! term printer is the one of bin/exec.rs, copied: a driver binary cannot import another one).
//!
//! input : {"mode": "history"|"explore"|"fork"|"forge", "script", "script_b"?, "peers", "init", "services",
//!          "ops", "ops_b"?, "cross"?, "seq_canons": bool, "expect_c": bool, "model": bool, "max_terms": n,
//!          "max_paths": n, "max_depth": n}
//! output: {"script_term", "script_term_b"?, "coq": [ecase...], "term_script": [0|1...], "classes", "info",
//!          "oracle_failures", "runs", "stats"}

use air_interpreter_cid::value_to_json_cid;
use air_interpreter_data::*;
use air_interpreter_value::JValue;
use aquah::ast2coq;
use aquah::coqfmt as c;
use aquah::sim::*;
use serde_json::Value as J;
use std::collections::HashMap;
use std::io::BufRead;

pub fn json_term(j: &J) -> String {
    match j {
        J::Null => "JNull".into(),
        J::Bool(b) => format!("(JBool {})", c::b(*b)),
        J::Number(n) => {
            if let Some(i) = n.as_i64() {
                format!("(JInt {})", c::z(i as i128))
            } else if let Some(u) = n.as_u64() {
                format!("(JInt {})", c::z(u as i128))
            } else {
                format!("(JFloat {})", c::s(&n.to_string()))
            }
        }
        J::String(s) => format!("(JStr {})", c::s(s)),
        J::Array(a) => format!("(JArr {})", c::list(a.iter().map(json_term))),
        J::Object(o) => {
            let mut keys: Vec<&String> = o.keys().collect();
            keys.sort_by(|a, b| a.as_bytes().cmp(b.as_bytes()));
            format!("(JObj {})", c::list(keys.iter().map(|k| format!("({}, {})", c::s(k), json_term(&o[*k])))))
        }
    }
}

fn jvalue_to_json(v: &JValue) -> J {
    serde_json::to_value(v).unwrap_or(J::Null)
}

fn tetraplet_term(t: &polyplets::SecurityTetraplet) -> String {
    format!(
        "{{| tp_peer := {}; tp_service := {}; tp_function := {}; tp_lens := {} |}}",
        c::s(&t.peer_pk),
        c::s(&t.service_id),
        c::s(&t.function_name),
        c::s(&t.lens)
    )
}

#[derive(Default)]
struct Dict {
    /// value cid -> JSON (service results the hosts produced)
    values: HashMap<String, J>,
    /// argument hash -> arguments
    args: HashMap<String, Vec<J>>,
}

struct Resolver<'a> {
    dict: &'a Dict,
    infos: Vec<&'a CidInfo>,
    memo: HashMap<String, String>,
}

impl<'a> Resolver<'a> {
    fn value(&mut self, cid: &str) -> String {
        for ci in &self.infos {
            if let Some(v) = ci.value_store.get(&air_interpreter_cid::CID::new(cid)) {
                return format!("(CValue {})", json_term(&jvalue_to_json(&v.get_value())));
            }
        }
        if let Some(v) = self.dict.values.get(cid) {
            return format!("(CValue {})", json_term(v));
        }
        format!("(COpaque {})", c::s(cid))
    }
    fn tetraplet(&mut self, cid: &str) -> String {
        for ci in &self.infos {
            if let Some(t) = ci.tetraplet_store.get(&air_interpreter_cid::CID::new(cid)) {
                return format!("(CTetraplet {})", tetraplet_term(&t));
            }
        }
        format!("(COpaque {})", c::s(cid))
    }
    fn args(&mut self, hash: &str) -> String {
        match self.dict.args.get(hash) {
            Some(a) => format!("(CArgs {})", c::list(a.iter().map(json_term))),
            None => format!("(COpaque {})", c::s(hash)),
        }
    }
    fn service(&mut self, cid: &str) -> String {
        if let Some(m) = self.memo.get(cid) {
            return m.clone();
        }
        let mut out = format!("(COpaque {})", c::s(cid));
        let infos = self.infos.clone();
        for ci in infos {
            if let Some(a) = ci.service_result_store.get(&air_interpreter_cid::CID::new(cid)) {
                out = format!(
                    "(CService {} {} {})",
                    self.value(&a.value_cid.get_inner()),
                    self.args(&a.argument_hash),
                    self.tetraplet(&a.tetraplet_cid.get_inner())
                );
                break;
            }
        }
        self.memo.insert(cid.to_string(), out.clone());
        out
    }
    fn provenance(&mut self, p: &Provenance) -> String {
        match p {
            Provenance::Literal => "None".into(),
            Provenance::ServiceResult { cid } => format!("(Some (true, {}))", self.service(&cid.get_inner())),
            Provenance::Canon { cid } => format!("(Some (false, {}))", self.canon_result(&cid.get_inner())),
        }
    }
    fn canon_elem(&mut self, cid: &str) -> String {
        let infos = self.infos.clone();
        for ci in infos {
            if let Some(a) = ci.canon_element_store.get(&air_interpreter_cid::CID::new(cid)) {
                return format!(
                    "(CCanonElem {} {} {})",
                    self.value(&a.value.get_inner()),
                    self.tetraplet(&a.tetraplet.get_inner()),
                    self.provenance(&a.provenance)
                );
            }
        }
        format!("(COpaque {})", c::s(cid))
    }
    fn canon_result(&mut self, cid: &str) -> String {
        if let Some(m) = self.memo.get(cid) {
            return m.clone();
        }
        let mut out = format!("(COpaque {})", c::s(cid));
        let infos = self.infos.clone();
        for ci in infos {
            if let Some(a) = ci.canon_result_store.get(&air_interpreter_cid::CID::new(cid)) {
                let vals: Vec<String> = a.values.iter().map(|v| self.canon_elem(&v.get_inner())).collect();
                out = format!("(CCanonResult {} {})", self.tetraplet(&a.tetraplet.get_inner()), c::list(vals));
                break;
            }
        }
        self.memo.insert(cid.to_string(), out.clone());
        out
    }

    fn gen_u32(g: &GenerationIdx) -> u32 {
        let u: usize = (*g).into();
        u as u32
    }
    fn pos_u32(p: TracePos) -> u32 {
        let u: usize = p.into();
        u as u32
    }

    fn state(&mut self, s: &ExecutedState) -> String {
        match s {
            ExecutedState::Par(p) => format!("(SPar {} {})", p.left_size, p.right_size),
            ExecutedState::Call(CallResult::RequestSentBy(Sender::PeerId(p))) => format!("(SCall (RequestSentBy (SPeer {})))", c::s(p)),
            ExecutedState::Call(CallResult::RequestSentBy(Sender::PeerIdWithCallId { peer_id, call_id })) => {
                format!("(SCall (RequestSentBy (SPeerCall {} {})))", c::s(peer_id), call_id)
            }
            ExecutedState::Call(CallResult::Executed(ValueRef::Scalar(cid))) => format!("(SCall (Executed (VRScalar {})))", self.service(&cid.get_inner())),
            ExecutedState::Call(CallResult::Executed(ValueRef::Stream { cid, generation })) => {
                format!("(SCall (Executed (VRStream {} {})))", self.service(&cid.get_inner()), Self::gen_u32(generation))
            }
            ExecutedState::Call(CallResult::Executed(ValueRef::Unused(cid))) => format!("(SCall (Executed (VRUnused {})))", self.value(&cid.get_inner())),
            ExecutedState::Call(CallResult::Failed(cid)) => format!("(SCall (Failed {}))", self.service(&cid.get_inner())),
            ExecutedState::Ap(a) => format!("(SAp {})", c::list(a.res_generations.iter().map(|g| format!("{}", Self::gen_u32(g))))),
            ExecutedState::Canon(CanonResult::RequestSentBy(p)) => format!("(SCanon (CanonRequestSentBy {}))", c::s(p)),
            ExecutedState::Canon(CanonResult::Executed(cid)) => format!("(SCanon (CanonExecuted {}))", self.canon_result(&cid.get_inner())),
            ExecutedState::Fold(f) => format!(
                "(SFold {})",
                c::list(f.lore.iter().map(|e| format!(
                    "{{| fl_value_pos := {}; fl_descs := {} |}}",
                    Self::pos_u32(e.value_pos),
                    c::list(e.subtraces_desc.iter().map(|d| format!("{{| sd_pos := {}; sd_len := {} |}}", Self::pos_u32(d.begin_pos), d.subtrace_len)))
                )))
            ),
        }
    }

    fn cid_state(&mut self, ci: &CidInfo) -> String {
        let mut vs: Vec<String> = ci.value_store.iter().map(|(k, _)| k.get_inner().to_string()).collect();
        vs.sort();
        let mut ts: Vec<String> = ci.tetraplet_store.iter().map(|(k, _)| k.get_inner().to_string()).collect();
        ts.sort();
        let mut ce: Vec<String> = ci.canon_element_store.iter().map(|(k, _)| k.get_inner().to_string()).collect();
        ce.sort();
        let mut cr: Vec<String> = ci.canon_result_store.iter().map(|(k, _)| k.get_inner().to_string()).collect();
        cr.sort();
        let mut ss: Vec<String> = ci.service_result_store.iter().map(|(k, _)| k.get_inner().to_string()).collect();
        ss.sort();
        format!(
            "{{| cs_values := {}; cs_tetraplets := {}; cs_canon_elems := {}; cs_canon_results := {}; cs_services := {} |}}",
            c::list(vs.iter().map(|k| self.value(k))),
            c::list(ts.iter().map(|k| self.tetraplet(k))),
            c::list(ce.iter().map(|k| self.canon_elem(k))),
            c::list(cr.iter().map(|k| self.canon_result(k))),
            c::list(ss.iter().map(|k| self.service(k)))
        )
    }

    fn data(&mut self, d: &InterpreterData) -> String {
        let trace: Vec<String> = d.trace.iter().map(|s| self.state(s)).collect();
        format!("{{| d_trace := {}; d_lcid := {}; d_cids := {} |}}", c::list(trace), d.last_call_request_id, self.cid_state(&d.cid_info))
    }
}

fn empty_data_term() -> String {
    "empty_data".into()
}

fn request_term(r: &Req) -> String {
    let tets: Vec<Vec<polyplets::SecurityTetraplet>> = serde_json::from_value(r.tetraplets.clone()).unwrap_or_default();
    format!(
        "{{| rq_service := {}; rq_function := {}; rq_args := {}; rq_tetraplets := {} |}}",
        c::s(&r.service),
        c::s(&r.function),
        c::list(r.args.iter().map(json_term)),
        c::list(tets.iter().map(|ts| c::list(ts.iter().map(tetraplet_term))))
    )
}

/// CIDs the trace attributes to `peer` (interpreter-data verification.rs: collect_peers_cids_from_trace)
fn attributed(trace: &ExecutionTrace, ci: &CidInfo, peer: &str) -> Vec<(bool, String)> {
    let mut out = vec![];
    for st in trace.iter() {
        match st {
            ExecutedState::Call(call) => {
                if let Some(cid) = call.get_cid() {
                    if let Some(sr) = ci.service_result_store.get(cid) {
                        if let Some(t) = ci.tetraplet_store.get(&sr.tetraplet_cid) {
                            if t.peer_pk == peer {
                                out.push((true, cid.get_inner().to_string()));
                            }
                        }
                    }
                }
            }
            ExecutedState::Canon(CanonResult::Executed(cid)) => {
                if let Some(cr) = ci.canon_result_store.get(cid) {
                    if let Some(t) = ci.tetraplet_store.get(&cr.tetraplet) {
                        if t.peer_pk == peer {
                            out.push((false, cid.get_inner().to_string()));
                        }
                    }
                }
            }
            _ => {}
        }
    }
    out
}

/// everything the hosts computed so far (argument hashes, raw values) -- needed to print ids as content terms
fn dict_update(rec: &StepRecord, dict: &mut Dict) {
    for (_, (_, text)) in rec.input.call_results.iter() {
        if let Ok(v) = serde_json::from_str::<JValue>(text) {
            if let Ok(cid) = value_to_json_cid(&v) {
                dict.values.insert(cid.get_inner().to_string(), jvalue_to_json(&v));
            }
        }
    }
    if let Some(reqs) = &rec.out.requests {
        for (_, r) in reqs {
            let args: Vec<JValue> = r.args.iter().cloned().map(JValue::from).collect();
            if let Ok(cid) = value_to_json_cid(&args) {
                dict.args.insert(cid.get_inner().to_string(), r.args.clone());
            }
        }
    }
}

/// one run as a term of ExecCases.case_t (the script is the free variable `script`)
fn ecase_term(rec: &StepRecord, dict: &Dict) -> Option<(String, String, J)> {
    let prev = decode_data(&rec.input.prev).ok();
    let cur = decode_data(&rec.input.cur).ok();
    if (!rec.input.prev.is_empty() && prev.is_none()) || (!rec.input.cur.is_empty() && cur.is_none()) {
        return None;
    }
    let new = decode_data(&rec.out.data).ok();
    let mut infos_ci: Vec<&CidInfo> = vec![];
    if let Some(d) = &prev { infos_ci.push(&d.data.cid_info); }
    if let Some(d) = &cur { infos_ci.push(&d.data.cid_info); }
    if let Some(d) = &new { infos_ci.push(&d.data.cid_info); }
    let mut rs = Resolver { dict, infos: infos_ci, memo: HashMap::new() };

    let prev_t = prev.as_ref().map(|d| rs.data(&d.data)).unwrap_or_else(empty_data_term);
    let cur_t = cur.as_ref().map(|d| rs.data(&d.data)).unwrap_or_else(empty_data_term);
    let results_t = c::list(rec.input.call_results.iter().map(|(id, (code, text))| {
        let parsed = serde_json::from_str::<JValue>(text).ok().map(|v| json_term(&jvalue_to_json(&v)));
        format!("({}, {{| sa_ret_code := {}; sa_text := {}; sa_parsed := {} |}})", id, c::z(*code as i128), c::s(text), c::opt(parsed))
    }));
    let params_t = format!(
        "{{| rp_init_peer := {}; rp_current_peer := {}; rp_timestamp := {}; rp_ttl := {} |}}",
        c::s(&rec.input.init_peer_id), c::s(&rec.input.current_peer_id), rec.input.timestamp, rec.input.ttl
    );
    let input_t = format!(
        "{{| ri_script := script; ri_params := {}; ri_prev := {}; ri_cur := {}; ri_results := {} |}}",
        params_t, prev_t, cur_t, results_t
    );
    let out = &rec.out;
    let (kind, cls): (u32, String) = if out.panic.is_some() {
        (2, "panic".into())
    } else if out.data == rec.input.prev && ((1..10000).contains(&out.code) || (20000..30000).contains(&out.code)) {
        (1, format!("prev:{}", out.code))
    } else if out.data.is_empty() {
        (3, format!("empty:{}", out.code))
    } else {
        (0, format!("new:{}", out.code))
    };
    let mut next = out.next.clone();
    next.sort();
    let (trace_t, lcid, cids_t, signed_t) = match (&new, kind) {
        (Some(d), 0) => {
            let att = attributed(&d.data.trace, &d.data.cid_info, &rec.input.current_peer_id);
            let signed: Vec<String> = att.iter().map(|(is_call, cid)| if *is_call { rs.service(cid) } else { rs.canon_result(cid) }).collect();
            let tr: Vec<String> = d.data.trace.iter().map(|s| rs.state(s)).collect();
            (c::list(tr), d.data.last_call_request_id, rs.cid_state(&d.data.cid_info), c::list(signed))
        }
        _ => ("[]".into(), 0, "empty_cids".into(), "[]".into()),
    };
    let reqs_t = match &out.requests {
        Some(m) => c::list(m.iter().map(|(id, r)| format!("({}, {})", id, request_term(r)))),
        None => "[]".into(),
    };
    let obs_t = format!(
        "{{| eo_kind := {}; eo_code := {}; eo_trace := {}; eo_lcid := {}; eo_next := {}; eo_requests := {}; eo_signed := {}; eo_cids := {} |}}",
        kind, c::z(out.code as i128), trace_t, lcid, c::list(next.iter().map(|p| c::s(p))), reqs_t, signed_t, cids_t
    );
    let info = serde_json::json!({"step": rec.step, "peer": rec.peer, "code": out.code,
        "trace_len": new.as_ref().map(|d| d.data.trace.len()), "msg": out.msg.chars().take(160).collect::<String>()});
    Some((format!("{{| ec_input := {}; ec_obs := {} |}}", input_t, obs_t), cls, info))
}

// ------------------------------------------------------------------------------------------------
// the property oracles (from the text of C11)

fn fail(step: usize, what: String, key: &str) -> J {
    serde_json::json!({"property": "C11", "step": step, "what": what, "key": key})
}

fn is_new_code(c: i64) -> bool {
    c == 0 || (10000..=19999).contains(&c) || c == 30000
}

fn is_canon_conflict(msg: &str) -> bool {
    msg.contains("canon results") && msg.contains("incompatible execution states")
}

fn trace_vec(bytes: &[u8]) -> Option<Vec<ExecutedState>> {
    if bytes.is_empty() {
        return Some(vec![]);
    }
    decode_data(bytes).ok().map(|d| d.data.trace.to_vec())
}

fn executed_canons(t: &[ExecutedState]) -> Vec<String> {
    t.iter().filter_map(|s| match s { ExecutedState::Canon(CanonResult::Executed(c)) => Some(c.get_inner().to_string()), _ => None }).collect()
}

fn has_canon(bytes: &[u8]) -> bool {
    trace_vec(bytes).map(|t| t.iter().any(|s| matches!(s, ExecutedState::Canon(_)))).unwrap_or(false)
}

/// (value, tetraplet) pairs of a canon result, through the stores of `ci`
fn canon_content(ci: &CidInfo, cid: &str) -> Option<(String, Vec<(J, J)>)> {
    let agg = ci.canon_result_store.get(&air_interpreter_cid::CID::new(cid))?;
    let t = ci.tetraplet_store.get(&agg.tetraplet)?;
    let mut vals = vec![];
    for e in agg.values.iter() {
        let el = ci.canon_element_store.get(e)?;
        let v = ci.value_store.get(&el.value)?;
        let tt = ci.tetraplet_store.get(&el.tetraplet)?;
        vals.push((jvalue_to_json(&v.get_value()), serde_json::to_value(&*tt).unwrap_or(J::Null)));
    }
    Some((t.peer_pk.clone(), vals))
}

/// the values of the canonicalized stream a peer knew in front of trace position `k` of its own output,
/// in the peer's order (generation, then insertion = trace position); None when a state cannot be read
/// by the conventions of the structured generator (see checks/C11.py)
fn known_before(d: &InterpreterData, k: usize, init_peer: &str) -> Option<Vec<(J, J)>> {
    let ci = &d.cid_info;
    let mut items: Vec<(u32, usize, J, J)> = vec![];
    let tet = |sr: &ServiceResultCidAggregate| ci.tetraplet_store.get(&sr.tetraplet_cid);
    let tr: Vec<&ExecutedState> = d.trace.iter().collect();
    for i in 0..k {
        match tr[i] {
            ExecutedState::Call(CallResult::Executed(ValueRef::Stream { cid, generation })) => {
                let sr = ci.service_result_store.get(cid)?;
                let t = tet(&sr)?;
                if t.service_id == "val" {
                    let v = ci.value_store.get(&sr.value_cid)?;
                    let g: usize = (*generation).into();
                    items.push((g as u32, i, jvalue_to_json(&v.get_value()), serde_json::to_value(&*t).unwrap_or(J::Null)));
                }
            }
            ExecutedState::Ap(ap) => {
                if ap.res_generations.len() != 1 || i == 0 {
                    return None;
                }
                let g: usize = ap.res_generations[0].into();
                match tr[i - 1] {
                    ExecutedState::Call(CallResult::Executed(ValueRef::Scalar(cid))) => {
                        let sr = ci.service_result_store.get(cid)?;
                        let t = tet(&sr)?;
                        if t.service_id == "lit" {
                            // (ap "<function name>" $s): a literal, tetraplet of a literal
                            let lt = polyplets::SecurityTetraplet::literal_tetraplet(init_peer);
                            items.push((g as u32, i, J::String(t.function_name.clone()), serde_json::to_value(&lt).unwrap_or(J::Null)));
                        } else if t.service_id == "val" {
                            let v = ci.value_store.get(&sr.value_cid)?;
                            items.push((g as u32, i, jvalue_to_json(&v.get_value()), serde_json::to_value(&*t).unwrap_or(J::Null)));
                        } else {
                            return None;
                        }
                    }
                    _ => return None,
                }
            }
            _ => {}
        }
    }
    items.sort_by_key(|x| (x.0, x.1));
    Some(items.into_iter().map(|x| (x.2, x.3)).collect())
}

struct Cfg {
    seq_canons: bool,
    expect_c: bool,
}

#[derive(Default)]
struct Stats {
    canon_executed_first: usize,
    canon_reused_runs: usize,
    content_checked: usize,
    content_unreadable: usize,
    observer_merges: usize,
    observer_other_errors: usize,
    obs_groups: usize,
    obs_groups_multi_peer: usize,
    positions_checked: usize,
    distinct_cids: usize,
}

type Log = Vec<(u32, Req, (i32, String))>;

/// all oracles over one recorded history
fn oracles(recs: &[StepRecord], logs: &[(String, Log)], script: &str, init_peer_id: &str, particle_id: &str, cfg: &Cfg, st: &mut Stats) -> Vec<J> {
    let mut v = vec![];
    let obs = Peer::new("observer-peer");
    let mut acc: Vec<u8> = vec![];
    // position -> executed ids (only when canon states are sequentially ordered by the script's shape)
    let mut by_index: Vec<std::collections::BTreeSet<String>> = vec![];
    let mut seen_cids: std::collections::BTreeSet<String> = Default::default();
    for rec in recs {
        let o = &rec.out;
        if o.panic.is_some() {
            continue;
        }
        if is_canon_conflict(&o.msg) {
            v.push(fail(rec.step, format!("an honest peer refuses honest data: {}", o.msg.chars().take(300).collect::<String>()), "two-results-one-position"));
        }
        if !is_new_code(o.code) || o.data.is_empty() {
            continue;
        }
        let d = match decode_data(&o.data) { Ok(d) => d, Err(_) => continue };
        let prev_set: std::collections::BTreeSet<String> = trace_vec(&rec.input.prev).map(|t| executed_canons(&t)).unwrap_or_default().into_iter().collect();
        let cur_set: std::collections::BTreeSet<String> = trace_vec(&rec.input.cur).map(|t| executed_canons(&t)).unwrap_or_default().into_iter().collect();
        if !prev_set.is_empty() || !cur_set.is_empty() {
            st.canon_reused_runs += 1;
        }
        // (a) by index
        if cfg.seq_canons {
            let mut j = 0;
            for s in d.data.trace.iter() {
                if let ExecutedState::Canon(cr) = s {
                    if by_index.len() <= j {
                        by_index.push(Default::default());
                    }
                    if let CanonResult::Executed(cid) = cr {
                        by_index[j].insert(cid.get_inner().to_string());
                    }
                    j += 1;
                }
            }
        }
        // (c), (d): ids this run created
        for (k, s) in d.data.trace.iter().enumerate() {
            if let ExecutedState::Canon(CanonResult::Executed(cid)) = s {
                let id = cid.get_inner().to_string();
                if prev_set.contains(&id) || cur_set.contains(&id) {
                    continue;
                }
                let content = canon_content(&d.data.cid_info, &id);
                let (owner, vals) = match content {
                    Some(x) => x,
                    None => {
                        v.push(fail(rec.step, format!("executed canon result {} is not readable through the stores of the data that carries it", id), "canon-content-missing"));
                        continue;
                    }
                };
                st.canon_executed_first += 1;
                // (d) executed only at the designated peer: the id names its executor in its tetraplet
                if owner != rec.input.current_peer_id {
                    v.push(fail(rec.step, format!("peer {} created the canon result {} that names {} as the designated peer", rec.input.current_peer_id, id, owner), "executed-by-non-designated-peer"));
                }
                if !seen_cids.insert(id.clone()) {
                    // created twice (same content) by two runs: allowed only on the same peer (re-creation from equal knowledge)
                }
                // (c) exactly what the designated peer knew, in its order
                if cfg.expect_c {
                    match known_before(&d.data, k, &rec.input.init_peer_id) {
                        Some(exp) => {
                            st.content_checked += 1;
                            if exp != vals {
                                v.push(fail(rec.step, format!("canon result {} created at trace position {} holds {:?}; the peer's stream held {:?}", id, k,
                                    vals.iter().map(|x| x.0.clone()).collect::<Vec<_>>(), exp.iter().map(|x| x.0.clone()).collect::<Vec<_>>()), "canon-content-differs"));
                            }
                            // were values appended to the stream after this canon, in this or a later data?
                        }
                        None => st.content_unreadable += 1,
                    }
                }
            }
        }
        // (a) by merging everything at an observer: positions of two traces correspond by walking the script
        let inp = RunInput {
            air: script.to_string(), prev: acc.clone(), cur: o.data.clone(), init_peer_id: init_peer_id.to_string(),
            current_peer_id: obs.id.clone(), secret: obs.secret.clone(), key_format: 0, particle_id: particle_id.to_string(),
            timestamp: rec.input.timestamp, ttl: rec.input.ttl, limits: Limits::unlimited(), call_results: Default::default(), call_results_raw: None,
        };
        let m = run(&inp);
        st.observer_merges += 1;
        if m.panic.is_none() && is_new_code(m.code) && !m.data.is_empty() {
            acc = m.data;
        } else if is_canon_conflict(&m.msg) {
            v.push(fail(rec.step, format!("the data produced at step {} and the data produced before hold different executed canon results at one position: {}",
                rec.step, m.msg.chars().take(300).collect::<String>()), "two-results-one-position"));
        } else {
            st.observer_other_errors += 1;
        }
    }
    for (j, set) in by_index.iter().enumerate() {
        st.positions_checked += 1;
        if set.len() > 1 {
            v.push(fail(recs.last().map(|r| r.step).unwrap_or(0), format!("canon position {} holds {} different executed results in the data of this history: {:?}", j, set.len(), set), "two-results-one-position"));
        }
    }
    st.distinct_cids += seen_cids.len();
    // (b) the canon value handed to services is the same on all peers: observers are calls of service "obs"/"obs0",
    // the function names the canon instruction, the first argument the iteration
    let mut groups: std::collections::BTreeMap<(String, String, String), std::collections::BTreeMap<String, Vec<String>>> = Default::default();
    for (peer, log) in logs {
        for (_, req, _) in log {
            if req.service == "obs" || req.service == "obs0" {
                let key = req.args.get(0).map(|a| a.to_string()).unwrap_or_default();
                let rest: Vec<J> = req.args.iter().skip(1).cloned().collect();
                let tets: Vec<J> = req.tetraplets.as_array().map(|a| a.iter().skip(1).cloned().collect()).unwrap_or_default();
                let seen = serde_json::json!([rest, sort_json(&J::Array(tets))]).to_string();
                groups.entry((req.service.clone(), req.function.clone(), key)).or_default().entry(seen).or_default().push(peer.clone());
            }
        }
    }
    for ((svc, f, key), views) in groups.iter() {
        st.obs_groups += 1;
        let peers: std::collections::BTreeSet<&String> = views.values().flatten().collect();
        if peers.len() > 1 {
            st.obs_groups_multi_peer += 1;
        }
        if views.len() > 1 {
            v.push(fail(recs.last().map(|r| r.step).unwrap_or(0), format!("services {}.{} (iteration {}) were handed different canon values: {:?}", svc, f, key,
                views.iter().map(|(k, ps)| format!("{} on {:?}", k.chars().take(200).collect::<String>(), ps)).collect::<Vec<_>>()), "canon-value-differs-between-peers"));
        }
    }
    v
}

// ------------------------------------------------------------------------------------------------

struct World {
    net: Net,
    recs: Vec<StepRecord>,
}

fn new_net(script: &str, peers: &[String], init: usize, services: &Services, particle: &str) -> Net {
    Net::new(script, peers, init, services.clone(), particle)
}

fn run_world(script: &str, peers: &[String], init: usize, services: &Services, particle: &str, ops: &[Op]) -> World {
    let mut net = new_net(script, peers, init, services, particle);
    let mut recs = vec![];
    for op in ops {
        if let Some(r) = net.exec(op) {
            recs.push(r);
        }
    }
    World { net, recs }
}

fn logs_of(net: &Net) -> Vec<(String, Log)> {
    net.hosts.iter().map(|h| (h.peer.name.clone(), h.log.clone())).collect()
}

fn stats_json(st: &Stats) -> J {
    serde_json::json!({"canon results created": st.canon_executed_first, "runs that met an executed canon": st.canon_reused_runs,
        "contents checked (c)": st.content_checked, "contents unreadable (c)": st.content_unreadable,
        "observer merges (a)": st.observer_merges, "observer merges failing for another reason": st.observer_other_errors,
        "observer groups (b)": st.obs_groups, "observer groups seen on several peers (b)": st.obs_groups_multi_peer,
        "canon positions checked by index (a)": st.positions_checked, "distinct canon results": st.distinct_cids})
}

struct Printer {
    dict: Dict,
    terms: Vec<String>,
    term_script: Vec<u8>,
    classes: Vec<String>,
    infos: Vec<J>,
    seen: std::collections::HashSet<u64>,
    max_terms: usize,
    enabled: bool,
    per_kind: [usize; 5],
}

impl Printer {
    fn key(rec: &StepRecord) -> u64 {
        use std::hash::{Hash, Hasher};
        let mut h = std::collections::hash_map::DefaultHasher::new();
        rec.input.prev.hash(&mut h);
        rec.input.cur.hash(&mut h);
        rec.input.current_peer_id.hash(&mut h);
        rec.input.air.hash(&mut h);
        for (k, v) in rec.input.call_results.iter() {
            k.hash(&mut h);
            v.hash(&mut h);
        }
        h.finish()
    }
    /// print the run when it involves a canon state (in its inputs or its output) and was not printed yet; quotas per
    /// kind of run: 0 = creates a canon result, 1 = meets an executed result in its inputs, 2 = other, 3 = cross run
    fn offer(&mut self, rec: &StepRecord, which_script: u8) {
        self.offer_kind(rec, which_script, false)
    }
    fn offer_kind(&mut self, rec: &StepRecord, which_script: u8, cross: bool) {
        dict_update(rec, &mut self.dict);
        if !self.enabled || self.max_terms == 0 {
            return;
        }
        if !(has_canon(&rec.input.prev) || has_canon(&rec.input.cur) || has_canon(&rec.out.data)) {
            return;
        }
        let pe = trace_vec(&rec.input.prev).map(|t| executed_canons(&t)).unwrap_or_default();
        let ce = trace_vec(&rec.input.cur).map(|t| executed_canons(&t)).unwrap_or_default();
        let oe = trace_vec(&rec.out.data).map(|t| executed_canons(&t)).unwrap_or_default();
        // a run that re-uses a result while its own stream holds something else (more values arrived, another order)
        let differs = || -> bool {
            // ... and hands the canon value to a service in this very run (the value is then observable in the request)
            if !rec.out.requests.as_ref().map(|r| r.values().any(|q| q.service == "obs" || q.service == "obs0")).unwrap_or(false) {
                return false;
            }
            let d = match decode_data(&rec.out.data) { Ok(d) => d, Err(_) => return false };
            let mut stream_states = 0usize;
            for s in d.data.trace.iter() {
                match s {
                    ExecutedState::Call(CallResult::Executed(ValueRef::Stream { .. })) | ExecutedState::Ap(_) => stream_states += 1,
                    ExecutedState::Canon(CanonResult::Executed(cid)) => {
                        let id = cid.get_inner().to_string();
                        if pe.contains(&id) || ce.contains(&id) {
                            if let Some((_, vals)) = canon_content(&d.data.cid_info, &id) {
                                if vals.len() != stream_states {
                                    return true;
                                }
                            }
                        }
                    }
                    _ => {}
                }
            }
            false
        };
        let kind = if cross { 3 } else if oe.iter().any(|c| !pe.contains(c) && !ce.contains(c)) { 0 }
                   else if !pe.is_empty() || !ce.is_empty() { if differs() { 4 } else { 1 } } else { 2 };
        let quota = match kind {
            0 => (self.max_terms + 1) / 2,
            4 => std::cmp::max(self.max_terms / 2, 1),
            1 => self.max_terms / 4,
            2 => if self.max_terms >= 3 { 1 } else { 0 },
            _ => self.max_terms / 2 + 1,
        };
        if self.per_kind[kind] >= quota {
            return;
        }
        if !self.seen.insert(Self::key(rec)) {
            return;
        }
        if let Some((t, cls, info)) = ecase_term(rec, &self.dict) {
            self.per_kind[kind] += 1;
            self.terms.push(t);
            self.term_script.push(which_script);
            self.classes.push(format!("{}/{}", ["creates", "reuses", "other", "cross", "reuses with another local stream"][kind], cls));
            self.infos.push(info);
        }
    }
}

fn run_case(case: &J) -> J {
    let peers: Vec<String> = case["peers"].as_array().map(|a| a.iter().filter_map(|x| x.as_str().map(String::from)).collect()).unwrap_or_default();
    let script = Net::instantiate(case["script"].as_str().unwrap_or("(null)"), &peers);
    let script_b = case["script_b"].as_str().map(|s| Net::instantiate(s, &peers));
    let services_json = Net::instantiate(&case["services"].to_string(), &peers);
    let services = Services::from_json(&serde_json::from_str(&services_json).unwrap_or(J::Null));
    let init = case["init"].as_u64().unwrap_or(0) as usize;
    let mode = case["mode"].as_str().unwrap_or("history");
    let particle = case["particle_id"].as_str().unwrap_or("particle-1");
    let cfg = Cfg { seq_canons: case["seq_canons"].as_bool().unwrap_or(false), expect_c: case["expect_c"].as_bool().unwrap_or(false) };

    let ast = match air_parser::parse(&script) {
        Ok(a) => a,
        Err(e) => return serde_json::json!({"error": format!("script does not parse: {}", e.chars().take(300).collect::<String>())}),
    };
    let script_term = ast2coq::instr(&ast);
    let script_term_b = match &script_b {
        Some(s) => match air_parser::parse(s) {
            Ok(a) => Some(ast2coq::instr(&a)),
            Err(e) => return serde_json::json!({"error": format!("script_b does not parse: {}", e.chars().take(300).collect::<String>())}),
        },
        None => None,
    };
    let mut pr = Printer { dict: Dict::default(), terms: vec![], term_script: vec![], classes: vec![], infos: vec![], seen: Default::default(),
                           max_terms: case["max_terms"].as_u64().unwrap_or(40) as usize, enabled: case["model"].as_bool().unwrap_or(true), per_kind: [0; 5] };
    let mut st = Stats::default();
    let mut failures: Vec<J> = vec![];
    let mut runs = 0usize;
    let mut invocations = 0usize;
    let mut extra = serde_json::Map::new();
    let init_id = Peer::new(&peers[init.min(peers.len().saturating_sub(1))]).id;

    match mode {
        "history" => {
            let ops = ops_from_json(&case["ops"]);
            let w = run_world(&script, &peers, init, &services, particle, &ops);
            for r in &w.recs {
                pr.offer(r, 0);
            }
            failures.extend(oracles(&w.recs, &logs_of(&w.net), &script, &init_id, particle, &cfg, &mut st));
            runs += w.recs.len();
            invocations += w.net.hosts.iter().map(|h| h.log.len()).sum::<usize>();
            extra.insert("quiescent".into(), J::Bool(w.net.inflight.is_empty() && w.net.hosts.iter().all(|h| h.pending.is_empty())));
        }
        "explore" => {
            // every delivery order: depth-first over "deliver in-flight message i" / "answer the pending calls of peer p",
            // each path replayed from the start (the simulator is not clonable); when the number of complete orders
            // exceeds the budget the rest of the budget is spent on random walks
            let max_paths = case["max_paths"].as_u64().unwrap_or(200) as usize;
            let max_depth = case["max_depth"].as_u64().unwrap_or(14) as usize;
            let choices_of = |w: &World, depth: usize| -> Vec<Op> {
                let mut choices: Vec<Op> = vec![];
                if depth < max_depth {
                    let mut seen_msgs: Vec<(usize, &Vec<u8>)> = vec![];
                    for (i, m) in w.net.inflight.iter().enumerate() {
                        if seen_msgs.iter().any(|(to, d)| *to == m.to && **d == m.data) {
                            continue; // an identical message to the same peer: the same continuation
                        }
                        seen_msgs.push((m.to, &m.data));
                        choices.push(Op::Deliver(i, false));
                    }
                    for (p, h) in w.net.hosts.iter().enumerate() {
                        if !h.pending.is_empty() {
                            choices.push(Op::Return(p, 0));
                        }
                    }
                }
                choices
            };
            let mut paths = 0usize;
            let mut truncated = 0usize;
            let mut all_quiescent = true;
            let mut leaf = |w: &World, pr: &mut Printer, st: &mut Stats, failures: &mut Vec<J>| {
                let quiescent = w.net.inflight.is_empty() && w.net.hosts.iter().all(|h| h.pending.is_empty());
                if !quiescent {
                    truncated += 1;
                    all_quiescent = false;
                }
                for r in &w.recs {
                    pr.offer(r, 0);
                }
                failures.extend(oracles(&w.recs, &logs_of(&w.net), &script, &init_id, particle, &cfg, st));
                runs += w.recs.len();
                invocations += w.net.hosts.iter().map(|h| h.log.len()).sum::<usize>();
            };
            let mut stack: Vec<Vec<Op>> = vec![vec![Op::Start]];
            let mut exhaustive = true;
            while let Some(path) = stack.pop() {
                let w = run_world(&script, &peers, init, &services, particle, &path);
                let choices = choices_of(&w, path.len());
                if choices.is_empty() {
                    paths += 1;
                    leaf(&w, &mut pr, &mut st, &mut failures);
                    if paths >= max_paths / 2 && !stack.is_empty() {
                        exhaustive = false;
                        break;
                    }
                } else {
                    for ch in choices.into_iter().rev() {
                        let mut p2 = path.clone();
                        p2.push(ch);
                        stack.push(p2);
                    }
                }
            }
            if !exhaustive {
                let mut x: u64 = case["seed"].as_u64().unwrap_or(1).wrapping_mul(0x9e3779b97f4a7c15) | 1;
                let mut next = |n: usize| -> usize {
                    x = x.wrapping_mul(6364136223846793005).wrapping_add(1442695040888963407);
                    ((x >> 33) as usize) % n.max(1)
                };
                while paths < max_paths {
                    let mut net = new_net(&script, &peers, init, &services, particle);
                    let mut recs = vec![];
                    if let Some(r) = net.exec(&Op::Start) { recs.push(r); }
                    let mut w = World { net, recs };
                    let mut depth = 1;
                    loop {
                        let choices = choices_of(&w, depth);
                        if choices.is_empty() { break; }
                        let ch = choices[next(choices.len())].clone();
                        if let Some(r) = w.net.exec(&ch) { w.recs.push(r); }
                        depth += 1;
                    }
                    paths += 1;
                    leaf(&w, &mut pr, &mut st, &mut failures);
                }
            }
            extra.insert("paths".into(), J::from(paths));
            extra.insert("exhaustive".into(), J::Bool(exhaustive));
            extra.insert("paths_cut_by_depth".into(), J::from(truncated));
            extra.insert("quiescent".into(), J::Bool(all_quiescent));
        }
        "fork" | "forge" => {
            // two worlds (A: script / ops, B: script_b or script / ops_b); then runs that present data of both to one peer
            let ops_a = ops_from_json(&case["ops"]);
            let ops_b = ops_from_json(&case["ops_b"]);
            let sb = script_b.clone().unwrap_or_else(|| script.clone());
            let wa = run_world(&script, &peers, init, &services, particle, &ops_a);
            let wb = run_world(&sb, &peers, init, &services, particle, &ops_b);
            for r in &wa.recs { pr.offer(r, 0); }
            for r in &wb.recs { pr.offer(r, if script_b.is_some() { 1 } else { 0 }); }
            runs += wa.recs.len() + wb.recs.len();
            // each world on its own is an honest history
            failures.extend(oracles(&wa.recs, &logs_of(&wa.net), &script, &init_id, particle, &cfg, &mut st));
            failures.extend(oracles(&wb.recs, &logs_of(&wb.net), &sb, &init_id, particle, &Cfg { seq_canons: cfg.seq_canons, expect_c: cfg.expect_c }, &mut st));
            // the peer each script designates (names), when the case knows it
            let des_a = case["designated"]["a"].as_str().map(|n| Peer::new(n).id);
            let des_b = case["designated"]["b"].as_str().map(|n| Peer::new(n).id);
            let mut presented = 0usize;
            let mut rejected = 0usize;
            let mut codes: std::collections::BTreeMap<String, usize> = Default::default();
            if let Some(cross) = case["cross"].as_array() {
                for (ci, x) in cross.iter().enumerate() {
                    let p = x["peer"].as_u64().unwrap_or(0) as usize % peers.len();
                    let pick = |sel: &J| -> Vec<u8> {
                        let w = match sel[0].as_str().unwrap_or("none") { "a" => &wa, "b" => &wb, _ => return vec![] };
                        let h = sel[1].as_u64().unwrap_or(0) as usize % peers.len();
                        w.net.hosts[h].prev.clone()
                    };
                    let prev = pick(&x["prev"]);
                    let cur = pick(&x["cur"]);
                    let use_b = x["script"].as_str() == Some("b");
                    let host = &wa.net.hosts[p];
                    let inp = RunInput {
                        air: if use_b { sb.clone() } else { script.clone() }, prev: prev.clone(), cur: cur.clone(), init_peer_id: init_id.clone(),
                        current_peer_id: host.peer.id.clone(), secret: host.peer.secret.clone(), key_format: 0, particle_id: particle.to_string(),
                        timestamp: wa.net.timestamp, ttl: wa.net.ttl, limits: Limits::unlimited(), call_results: Default::default(), call_results_raw: None,
                    };
                    let out = run(&inp);
                    let rec = StepRecord { step: 1000 + ci, peer: p, input: inp, out };
                    runs += 1;
                    pr.offer_kind(&rec, if use_b && script_b.is_some() { 1 } else { 0 }, true);
                    let pe = trace_vec(&prev).map(|t| executed_canons(&t)).unwrap_or_default();
                    let ce = trace_vec(&cur).map(|t| executed_canons(&t)).unwrap_or_default();
                    let refused = rec.out.panic.is_none() && !is_new_code(rec.out.code) && rec.out.data == rec.input.prev;
                    // the scripts of these families hold ONE canon instruction: every data holds at most one canon state
                    if pe.len() == 1 && ce.len() == 1 && pe[0] != ce[0] {
                        presented += 1;
                        *codes.entry(format!("two results for one canon instruction: code {}", rec.out.code)).or_insert(0) += 1;
                        if refused { rejected += 1; } else {
                            failures.push(fail(rec.step, format!("previous data holds the executed canon result {} and current data holds {} for the same canon instruction; the run answered code {} instead of refusing the data",
                                pe[0], ce[0], rec.out.code), "merge-accepts-two-results"));
                        }
                    } else if let Some(des) = if use_b { &des_b } else { &des_a } {
                        // the current data says "executed" under the name of a peer the running script does not designate
                        let cd = decode_data(&cur).ok();
                        let foreign = cd.as_ref().map(|d| ce.iter().any(|id| canon_content(&d.data.cid_info, id).map(|(o, _)| &o != des).unwrap_or(false))).unwrap_or(false);
                        if foreign && pe.is_empty() {
                            presented += 1;
                            *codes.entry(format!("result of a non-designated peer: code {}", rec.out.code)).or_insert(0) += 1;
                            if refused { rejected += 1; } else {
                                failures.push(fail(rec.step, format!("current data holds a canon result executed by a peer that the canon instruction does not designate ({}); the run answered code {} instead of refusing the data",
                                    des, rec.out.code), "result-of-non-designated-peer-accepted"));
                            }
                        }
                    }
                }
            }
            extra.insert("refusal_codes".into(), serde_json::to_value(&codes).unwrap_or(J::Null));
            extra.insert("presented".into(), J::from(presented));
            extra.insert("rejected".into(), J::from(rejected));
        }
        _ => return serde_json::json!({"error": format!("unknown mode {}", mode)}),
    }
    let mut out = serde_json::json!({"script_term": script_term, "script_term_b": script_term_b, "coq": pr.terms, "term_script": pr.term_script,
        "classes": pr.classes, "info": pr.infos, "oracle_failures": failures, "runs": runs, "invocations": invocations, "stats": stats_json(&st)});
    for (k, v) in extra {
        out[k] = v;
    }
    out
}

fn main() {
    quiet_panics();
    for line in std::io::stdin().lock().lines() {
        let line = match line { Ok(l) => l, Err(_) => break };
        if line.trim().is_empty() { continue; }
        let case: J = serde_json::from_str(&line).unwrap_or(J::Null);
        println!("{}", run_case(&case));
    }
}
