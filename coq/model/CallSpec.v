(* CallSpec.v -- specification vocabulary for the call instruction of the executor model
   (model/Exec.v): context relations preserved by execution, the effect of one resolved call on
   the bookkeeping fields of the context (requests, last call request id, next peers, supplied
   call results, run parameters) and on the result trace, and the statements of property C19.

   Rust: air/src/execution_step/instructions/call/{resolved_call.rs, call_result_setter.rs,
   prev_result_handler.rs}, farewell_step/outcome.rs (dedup).
   Definitions only; the proofs are in proofs/ExecInv.v (generic induction principle over [exec])
   and proofs/C19Proofs.v. *)
From Aqua Require Import Base Json Air Trace Handler Values Scalars Lens Exec RunExec.
Open Scope N_scope.
Open Scope list_scope.

(* ------------------------------------------------------------------------------------------ *)
(* relations between the context before and after an execution *)

(* every context an outcome carries (Ok or Err) is R-related to the start context *)
Definition res_sat (R : ctx -> ctx -> Prop) (x : ctx) (r : xres) : Prop :=
  match r with XOk y | XErr _ y => R x y | _ => True end.
Definition pres_sat (R : ctx -> ctx -> Prop) (x : ctx) (r : pres ctx) : Prop :=
  match r with POk y => R x y | _ => True end.

(* the context carried by an outcome *)
Definition outcome_ctx (r : xres) : option ctx :=
  match r with XOk y | XErr _ y => Some y | _ => None end.

(* the stage-2 hook of Exec.v (stream / canon instructions) *)
Definition stream_hook := (instr -> ctx -> xres) -> instr -> ctx -> option xres.

(* "if [run] preserves R then the stream instructions built on [run] preserve R": the shape every
   theorem about [exec] asks of the hook *)
Definition hook_preserves (R : ctx -> ctx -> Prop) (h : stream_hook) : Prop :=
  forall run : instr -> ctx -> xres,
    (forall i x, res_sat R x (run i x)) ->
    forall i x r, h run i x = Some r -> res_sat R x r.

(* a frame step: nothing the host sees about calls changes *)
Definition frame (x y : ctx) : Prop :=
  x_requests y = x_requests x /\ x_lcid y = x_lcid x /\ x_next_peers y = x_next_peers x /\
  x_call_results y = x_call_results x /\ x_params y = x_params x.

(* R is preserved by the primitive context updates of Exec.v that are frames *)
Record frame_invariant (R : ctx -> ctx -> Prop) : Prop := {
  fi_refl : forall x, R x x;
  fi_trans : forall x y z, R x y -> R y z -> R x z;
  fi_set_scalars : forall x m, R x (set_scalars x m);
  fi_set_canons : forall x m, R x (set_canons x m);
  fi_set_iterables : forall x l, R x (set_iterables x l);
  fi_set_last_error : forall x e b, R x (set_last_error x e b);
  fi_set_error : forall x e b, R x (set_error x e b);
  fi_set_complete : forall x b, R x (set_complete x b);
  fi_set_handler : forall x h, R x (set_handler x h);
  fi_set_cids : forall x c t, R x (set_cids x c t);
  fi_set_fold_counter : forall x n, R x (set_fold_counter x n);
  fi_set_ext : forall x e, R x (set_ext x e)
}.

(* ... and by the three updates of the call instruction that are not frames *)
Record exec_invariant (R : ctx -> ctx -> Prop) : Prop := {
  ei_frame : frame_invariant R;
  (* handle_prev_state: a supplied call result is consumed (call_results.remove) *)
  ei_take : forall x id ans rest,
      results_take (x_call_results x) id = (Some ans, rest) ->
      R x (set_calls x (x_lcid x) rest (x_requests x));
  (* handle_remote_call: the target peer, which is not the current peer, is pushed *)
  ei_forward : forall x p,
      String.eqb p (current_peer x) = false ->
      R x (set_next_peers x (x_next_peers x ++ [p]));
  (* ResolvedCall::execute: next_call_request_id + call_requests.insert *)
  ei_request : forall x rq,
      (4294967295 <=? x_lcid x) = false ->
      R x (set_calls x (x_lcid x + 1) (x_call_results x) (x_requests x ++ [(x_lcid x + 1, rq)]))
}.

(* ------------------------------------------------------------------------------------------ *)
(* what one resolved call does *)

Definition tr (x : ctx) : list (state cid) := result_trace cid (x_handler x).

Inductive call_effect :=
| CEFrame                                  (* nothing about calls changes *)
| CEResult (id : N) (ans : service_answer) (* the result supplied under [id] is consumed *)
| CEForward                                (* handle_remote_call *)
| CERequest (id : N) (rq : request).       (* a call request is issued to the host *)

(* the state found in the previous/current data for this call position *)
Definition met_state (x : ctx) (c : call_result cid) : Prop :=
  exists pos src h, meet_call_start cid cid_eqb (x_handler x) = Ok (CallMet cid c pos src, h).

(* bookkeeping fields *)
Definition call_fields (x : ctx) (t : tetraplet) (eff : call_effect) (y : ctx) : Prop :=
  x_params y = x_params x /\
  match eff with
  | CEFrame =>
      x_requests y = x_requests x /\ x_lcid y = x_lcid x /\ x_next_peers y = x_next_peers x /\
      x_call_results y = x_call_results x
  | CEResult id ans =>
      met_state x (RequestSentBy (SPeerCall (current_peer x) id)) /\
      results_take (x_call_results x) id = (Some ans, x_call_results y) /\
      x_requests y = x_requests x /\ x_lcid y = x_lcid x /\ x_next_peers y = x_next_peers x
  | CEForward =>
      String.eqb (tp_peer t) (current_peer x) = false /\
      x_next_peers y = x_next_peers x ++ [tp_peer t] /\
      x_requests y = x_requests x /\ x_lcid y = x_lcid x /\ x_call_results y = x_call_results x
  | CERequest id rq =>
      String.eqb (tp_peer t) (current_peer x) = true /\
      id = x_lcid x + 1 /\ x_lcid x < 4294967295 /\ x_lcid y = id /\
      x_requests y = x_requests x ++ [(id, rq)] /\
      rq_service rq = tp_service t /\ rq_function rq = tp_function t /\
      x_next_peers y = x_next_peers x /\ x_call_results y = x_call_results x
  end.

(* the state written to the result trace *)
Definition call_emission (x : ctx) (eff : call_effect) (y : ctx) : Prop :=
  match eff with
  | CEFrame =>
      (* nothing (an error before the state is written) or the met state again *)
      tr y = tr x \/ exists c, met_state x c /\ tr y = tr x ++ [SCall c]
  | CEResult _ _ =>
      tr y = tr x \/ exists c, tr y = tr x ++ [SCall c] /\
                               match c with RequestSentBy _ => False | _ => True end
  | CEForward => tr y = tr x ++ [SCall (RequestSentBy (SPeer (current_peer x)))]
  | CERequest id _ => tr y = tr x ++ [SCall (RequestSentBy (SPeerCall (current_peer x) id))]
  end.

Definition call_step (x : ctx) (t : tetraplet) (y : ctx) : Prop :=
  exists eff, call_fields x t eff y /\ call_emission x eff y.
