//! Property oracles evaluated on what the IMPLEMENTATION did in a simulated history.
//! Each oracle is written from the property text (properties.jsonl), not from the model.
//! A failure is a JSON object {"property", "step", "what", "key"}.

use crate::sim::*;
use air_interpreter_data::verification::DataVerifier;
use air_interpreter_data::*;
use serde_json::json;
use serde_json::Value as J;
use std::collections::BTreeMap;

pub fn fail(prop: &str, step: usize, what: String, key: &str) -> J {
    json!({"property": prop, "step": step, "what": what, "key": key})
}

fn is_prev_code(c: i64) -> bool {
    (1..=9999).contains(&c) || (20000..=29999).contains(&c)
}
fn is_new_code(c: i64) -> bool {
    c == 0 || (10000..=19999).contains(&c) || c == 30000
}

/// C02: failed runs return the previous data untouched; the other runs return new decodable data.
pub fn c02(rec: &StepRecord) -> Vec<J> {
    let mut v = vec![];
    let o = &rec.out;
    if o.panic.is_some() {
        return v; // C01's business
    }
    if is_prev_code(o.code) {
        if o.data != rec.input.prev {
            v.push(fail("C02", rec.step, format!("code {} but data differs from the previous data ({} vs {} bytes)", o.code, o.data.len(), rec.input.prev.len()), "failed-run-data-not-prev"));
        }
        if !o.next.is_empty() {
            v.push(fail("C02", rec.step, format!("code {} with next peers {:?}", o.code, o.next), "failed-run-next-peers"));
        }
        if o.requests.as_ref().map(|r| !r.is_empty()).unwrap_or(true) {
            v.push(fail("C02", rec.step, format!("code {} with call requests", o.code), "failed-run-requests"));
        }
    } else if is_new_code(o.code) {
        if o.data.is_empty() {
            v.push(fail("C02", rec.step, format!("code {} with empty data", o.code), "new-data-empty"));
        } else if decode_data(&o.data).is_err() {
            v.push(fail("C02", rec.step, format!("code {} with undecodable data", o.code), "new-data-undecodable"));
        }
    } else {
        v.push(fail("C02", rec.step, format!("code {} is in no documented range", o.code), "code-out-of-range"));
    }
    v
}

/// everything referenced by the trace / the aggregates is present in the stores
fn references_closed(d: &InterpreterData) -> Result<(), String> {
    let ci = &d.cid_info;
    for (i, st) in d.trace.iter().enumerate() {
        match st {
            ExecutedState::Call(c) => {
                if let Some(cid) = c.get_cid() {
                    if ci.service_result_store.get(cid).is_none() {
                        return Err(format!("trace[{}]: service result {} not in store", i, cid.get_inner()));
                    }
                }
            }
            ExecutedState::Canon(CanonResult::Executed(cid)) => {
                if ci.canon_result_store.get(cid).is_none() {
                    return Err(format!("trace[{}]: canon result {} not in store", i, cid.get_inner()));
                }
            }
            _ => {}
        }
    }
    Ok(())
}

/// C03: produced data decodes, has a supported version, verifies (stores, references, every
/// signature for this particle) and is accepted by another peer as current data.
pub fn c03(rec: &StepRecord, min_version: &semver::Version, observer: Option<&RunInput>) -> Vec<J> {
    let mut v = vec![];
    let o = &rec.out;
    if o.panic.is_some() || !is_new_code(o.code) || o.data.is_empty() {
        return v;
    }
    let d = match decode_data(&o.data) {
        Ok(d) => d,
        Err(e) => {
            v.push(fail("C03", rec.step, format!("produced data does not decode: {}", e), "undecodable"));
            return v;
        }
    };
    if &d.interpreter_version < min_version {
        v.push(fail("C03", rec.step, format!("produced data carries version {}", d.interpreter_version), "version"));
    }
    if let Err(e) = d.data.cid_info.verify() {
        v.push(fail("C03", rec.step, format!("CID store does not verify: {}", e), "cid-store"));
        return v;
    }
    if let Err(e) = references_closed(&d.data) {
        v.push(fail("C03", rec.step, e, "dangling-reference"));
        return v;
    }
    // every peer with results in the trace has a verifying signature for this particle
    let r = std::panic::catch_unwind(std::panic::AssertUnwindSafe(|| {
        DataVerifier::new(&d.data, &rec.input.particle_id).and_then(|dv| dv.verify())
    }));
    match r {
        Ok(Ok(())) => {}
        Ok(Err(e)) => v.push(fail("C03", rec.step, format!("signatures do not verify: {}", e.to_string().chars().take(300).collect::<String>()), "signature")),
        Err(_) => v.push(fail("C03", rec.step, "DataVerifier panicked on produced data".into(), "verifier-panic")),
    }
    if let Some(obs) = observer {
        let mut i = obs.clone();
        i.cur = o.data.clone();
        let out = run(&i);
        if out.panic.is_some() || (1..=9999).contains(&out.code) {
            v.push(fail("C03", rec.step, format!("another peer rejects the data as current data: code {} {}", out.code, out.msg.chars().take(200).collect::<String>()), "rejected-by-peer"));
        }
    }
    v
}

pub fn trace_of(bytes: &[u8]) -> Option<Vec<ExecutedState>> {
    if bytes.is_empty() {
        return Some(vec![]);
    }
    decode_data(bytes).ok().map(|d| d.data.trace.to_vec())
}

/// multiset of results (by content id): executed / failed calls, executed canons, unused values
pub fn knowledge(trace: &[ExecutedState]) -> BTreeMap<String, usize> {
    let mut m = BTreeMap::new();
    for st in trace {
        let k = match st {
            ExecutedState::Call(CallResult::Executed(ValueRef::Scalar(c))) => Some(format!("call:{}", c.get_inner())),
            ExecutedState::Call(CallResult::Executed(ValueRef::Stream { cid, .. })) => Some(format!("call:{}", cid.get_inner())),
            ExecutedState::Call(CallResult::Executed(ValueRef::Unused(c))) => Some(format!("unused:{}", c.get_inner())),
            ExecutedState::Call(CallResult::Failed(c)) => Some(format!("failed:{}", c.get_inner())),
            ExecutedState::Canon(CanonResult::Executed(c)) => Some(format!("canon:{}", c.get_inner())),
            _ => None,
        };
        if let Some(k) = k {
            *m.entry(k).or_insert(0) += 1;
        }
    }
    m
}

/// C09: after a run that does not fail the data contains every result of prev and of cur
/// (multiset union taking the larger multiplicity).
pub fn c09(rec: &StepRecord) -> Vec<J> {
    let mut v = vec![];
    let o = &rec.out;
    if o.panic.is_some() || !is_new_code(o.code) {
        return v;
    }
    let (p, c, n) = match (trace_of(&rec.input.prev), trace_of(&rec.input.cur), trace_of(&o.data)) {
        (Some(p), Some(c), Some(n)) => (p, c, n),
        _ => return v,
    };
    let kp = knowledge(&p);
    let kc = knowledge(&c);
    let kn = knowledge(&n);
    for (src, k) in [("previous", &kp), ("current", &kc)] {
        for (cid, cnt) in k.iter() {
            let have = kn.get(cid).cloned().unwrap_or(0);
            if have < *cnt {
                v.push(fail("C09", rec.step, format!("result {} is {} time(s) in the {} data but {} time(s) in the produced data", cid, cnt, src, have), "result-forgotten"));
            }
        }
    }
    v
}

/// canonical view of a trace for C07 (the whole trace must be the same)
fn trace_json(t: &[ExecutedState]) -> J {
    sort_json(&serde_json::to_value(t).unwrap_or(J::Null))
}

/// C07: re-delivering already merged data changes nothing.
pub fn c07(rec: &StepRecord) -> Vec<J> {
    let mut v = vec![];
    let o = &rec.out;
    if o.panic.is_some() || !is_new_code(o.code) || o.data.is_empty() {
        return v;
    }
    let tc = match trace_of(&o.data) { Some(t) => trace_json(&t), None => return v };
    let variants: [(&str, Vec<u8>); 4] = [("b", rec.input.cur.clone()), ("a", rec.input.prev.clone()), ("c", o.data.clone()), ("empty", vec![])];
    for (name, cur) in variants.iter() {
        let mut i = rec.input.clone();
        i.prev = o.data.clone();
        i.cur = cur.clone();
        i.call_results.clear();
        i.call_results_raw = None;
        let r = run(&i);
        if r.panic.is_some() {
            v.push(fail("C07", rec.step, format!("re-delivery of {} panics", name), "redelivery-panic"));
            continue;
        }
        // a run that ended in a catchable error re-raises it on replay; the property is about the data
        let t2 = if is_prev_code(r.code) { None } else { trace_of(&r.data).map(|t| trace_json(&t)) };
        match t2 {
            Some(t2) if t2 == tc => {}
            Some(_) => v.push(fail("C07", rec.step, format!("re-delivery of {} changes the trace", name), "redelivery-changes-trace")),
            None => v.push(fail("C07", rec.step, format!("re-delivery of {} fails with code {}: {}", name, r.code, r.msg.chars().take(160).collect::<String>()), "redelivery-fails")),
        }
        if r.requests.as_ref().map(|m| !m.is_empty()).unwrap_or(false) {
            v.push(fail("C07", rec.step, format!("re-delivery of {} issues call requests", name), "redelivery-requests"));
        }
        if !r.next.is_empty() {
            v.push(fail("C07", rec.step, format!("re-delivery of {} sends the particle to {:?}", name, r.next), "redelivery-next-peers"));
        }
    }
    v
}

/// C20: running twice on the same inputs gives the same canonical outcome.
pub fn c20(rec: &StepRecord) -> Vec<J> {
    let mut v = vec![];
    let again = run(&rec.input);
    let a = canon_outcome(&rec.out);
    let b = canon_outcome(&again);
    if a != b {
        let mut what = vec![];
        for k in ["panic", "code", "msg", "data", "next", "requests", "flags"] {
            if a[k] != b[k] {
                what.push(k);
            }
        }
        let key = if what == vec!["msg"] && rec.out.code == 30000 { "unprocessed-results-message-order" } else { "nondeterministic" };
        v.push(fail("C20", rec.step, format!("second execution differs in {:?}", what), key));
    }
    v
}

/// C19 (local part): next peers never contain the current peer or duplicates.
pub fn c19_local(rec: &StepRecord) -> Vec<J> {
    let mut v = vec![];
    let o = &rec.out;
    if o.next.iter().any(|p| p == &rec.input.current_peer_id) {
        v.push(fail("C19", rec.step, "the next peers contain the current peer".into(), "next-contains-self"));
    }
    let mut s = o.next.clone();
    s.sort();
    s.dedup();
    if s.len() != o.next.len() {
        v.push(fail("C19", rec.step, format!("duplicate next peers {:?}", o.next), "next-duplicates"));
    }
    v
}

/// Per-peer bookkeeping across a history for C05 / C06.
#[derive(Default)]
pub struct PeerLedger {
    pub max_id: Option<u32>,
    pub issued: Vec<u32>,
}

/// C06 (per run): ids handed to the host are larger than any id handed out before for this
/// particle on this peer; 30000 exactly when some supplied result matched no pending call.
pub fn c06(rec: &StepRecord, ledger: &mut PeerLedger, pending_before: &[u32]) -> Vec<J> {
    let mut v = vec![];
    let o = &rec.out;
    if o.panic.is_some() {
        return v;
    }
    if let Some(reqs) = &o.requests {
        for id in reqs.keys() {
            if let Some(m) = ledger.max_id {
                if *id <= m {
                    v.push(fail("C06", rec.step, format!("request id {} is not larger than the earlier id {}", id, m), "id-not-fresh"));
                }
            }
        }
        for id in reqs.keys() {
            ledger.max_id = Some(ledger.max_id.map(|m| m.max(*id)).unwrap_or(*id));
            ledger.issued.push(*id);
        }
    }
    if is_new_code(o.code) {
        if let Ok(d) = decode_data(&o.data) {
            if let Some(m) = ledger.max_id {
                if d.data.last_call_request_id < m {
                    v.push(fail("C06", rec.step, format!("last call request id in data is {} but {} was handed out", d.data.last_call_request_id, m), "lcid-behind"));
                }
            }
        }
    }
    // unknown ids: supplied results whose id is not pending
    let unknown: Vec<u32> = rec.input.call_results.keys().filter(|k| !pending_before.contains(k)).cloned().collect();
    if (o.code == 0) && !unknown.is_empty() {
        v.push(fail("C06", rec.step, format!("results under ids {:?} match no pending call but the run reports success", unknown), "unknown-result-not-reported"));
    }
    if o.code == 30000 && unknown.is_empty() {
        v.push(fail("C06", rec.step, "code 30000 although every supplied result was requested".into(), "spurious-30000"));
    }
    v
}

/// key of a call instance as seen by the host and as recorded in data: (service, function, argument hash)
pub fn req_key(r: &Req) -> String {
    use air_interpreter_value::JValue;
    let args: Vec<JValue> = r.args.iter().cloned().map(JValue::from).collect();
    let h = air_interpreter_cid::value_to_json_cid(&args).map(|c| c.get_inner().to_string()).unwrap_or_default();
    format!("{}|{}|{}", r.service, r.function, h)
}

/// C05 (end of history): every invocation the host of `peer` performed is recorded exactly once
/// in that peer's data: per (service, function, argument hash) the number of executed/failed call
/// states attributed to the peer equals the number of invocations.
pub fn c05_final(step: usize, peer_id: &str, log: &[(u32, Req, (i32, String))], data: &[u8]) -> Vec<J> {
    use air_interpreter_value::JValue;
    let mut v = vec![];
    let d = match decode_data(data) { Ok(d) => d, Err(_) => return v };
    let mut invoked: BTreeMap<String, usize> = BTreeMap::new();
    // value cids of the results returned for each key (a call without output leaves Unused(value cid))
    let mut result_cids: BTreeMap<String, Vec<String>> = BTreeMap::new();
    for (_, r, (_, text)) in log {
        let k = req_key(r);
        *invoked.entry(k.clone()).or_insert(0) += 1;
        if let Ok(val) = serde_json::from_str::<JValue>(text) {
            if let Ok(c) = air_interpreter_cid::value_to_json_cid(&val) {
                result_cids.entry(k).or_default().push(c.get_inner().to_string());
            }
        }
    }
    let mut recorded: BTreeMap<String, usize> = BTreeMap::new();
    let mut unused: BTreeMap<String, usize> = BTreeMap::new();
    let ci = &d.data.cid_info;
    for st in d.data.trace.iter() {
        if let ExecutedState::Call(c) = st {
            if let Some(cid) = c.get_cid() {
                if let Some(sr) = ci.service_result_store.get(cid) {
                    if let Some(t) = ci.tetraplet_store.get(&sr.tetraplet_cid) {
                        if t.peer_pk == peer_id {
                            *recorded.entry(format!("{}|{}|{}", t.service_id, t.function_name, sr.argument_hash)).or_insert(0) += 1;
                        }
                    }
                }
            } else if let CallResult::Executed(ValueRef::Unused(c)) = c {
                *unused.entry(c.get_inner().to_string()).or_insert(0) += 1;
            }
        }
    }
    for (k, n) in invoked.iter() {
        let r = recorded.get(k).cloned().unwrap_or(0);
        if r > *n {
            v.push(fail("C05", step, format!("{} recorded state(s) of {} but only {} invocation(s)", r, k, n), "state-without-invocation"));
        }
        if r < *n {
            // the remaining invocations must be visible as Unused states carrying their value id
            let mut cids = result_cids.get(k).cloned().unwrap_or_default();
            cids.sort();
            cids.dedup();
            let u: usize = cids.iter().map(|c| unused.get(c).cloned().unwrap_or(0)).sum();
            if r + u < *n {
                v.push(fail("C05", step, format!("{} invocation(s) of {} but only {} recorded state(s) (+{} unused)", n, k, r, u), "invocation-not-recorded"));
            }
        }
    }
    for (k, r) in recorded.iter() {
        if !invoked.contains_key(k) {
            v.push(fail("C05", step, format!("{} recorded state(s) of {} attributed to this peer without any invocation", r, k), "state-without-invocation"));
        }
    }
    v
}
