//! seq16: honest histories of the REAL interpreter on several peers, observed at the hosts' service
//! invocation logs, for property C16 (coq/model/SeqSem.v, SeqCases.v).
//!
//! input : {"script","peers","init","services","ops" | "explore": {"max_paths": n, "max_len": n}, "drain": bool}
//! output: {"script_term", "coq": [scase...], "classes": [...], "info": [...]}
//!
//! For every history: every service invocation of every host (peer, service, function, arguments, answer),
//! the run in which the interpreter issued the request and the run in which the answer was handed back.
//! With "explore" the driver enumerates delivery / answer orders itself (depth first, from the start of the
//! history for every path): at each point the enabled choices are "deliver in-flight message k" and
//! "answer everything pending at peer p".

use air_interpreter_value::JValue;
use aquah::ast2coq;
use aquah::coqfmt as c;
use aquah::sim::*;
use serde_json::Value as J;
use std::collections::BTreeMap;
use std::io::BufRead;

fn json_term(j: &J) -> String {
    match j {
        J::Null => "JNull".into(),
        J::Bool(b) => format!("(JBool {})", c::b(*b)),
        J::Number(n) => {
            if let Some(i) = n.as_i64() {
                format!("(JInt {})", c::z(i as i128))
            } else if let Some(u) = n.as_u64() {
                format!("(JInt {})", c::z(u as i128))
            } else {
                format!("(JFloat {})", c::s(&n.to_string()))
            }
        }
        J::String(s) => format!("(JStr {})", c::s(s)),
        J::Array(a) => format!("(JArr {})", c::list(a.iter().map(json_term))),
        J::Object(o) => {
            let mut keys: Vec<&String> = o.keys().collect();
            keys.sort_by(|a, b| a.as_bytes().cmp(b.as_bytes()));
            format!("(JObj {})", c::list(keys.iter().map(|k| format!("({}, {})", c::s(k), json_term(&o[*k])))))
        }
    }
}

/// what the interpreter makes of a service's result text (serde_json::from_str::<JValue>)
fn parsed_term(text: &str) -> String {
    let parsed = serde_json::from_str::<JValue>(text).ok().map(|v| json_term(&serde_json::to_value(&v).unwrap_or(J::Null)));
    c::opt(parsed)
}

fn behaviour_term(j: &J) -> Result<String, String> {
    if let Some(v) = j.get("const") {
        Ok(format!("(BConst {})", json_term(v)))
    } else if let Some(k) = j.get("echo") {
        Ok(format!("(BEcho {}%nat)", k.as_u64().unwrap_or(0)))
    } else if j.get("args").is_some() {
        Ok("BArgs".into())
    } else if j.get("peertag").is_some() {
        Ok("BPeerTag".into())
    } else if let Some(e) = j.get("err") {
        Ok(format!("(BErr {} {})", c::z(e[0].as_i64().unwrap_or(1) as i32 as i128), json_term(&e[1])))
    } else if let Some(e) = j.get("raw") {
        Ok(format!("(BRaw {} {})", c::z(e[0].as_i64().unwrap_or(0) as i32 as i128), parsed_term(e[1].as_str().unwrap_or(""))))
    } else {
        Err(format!("service behaviour not supported by the C16 driver: {}", j))
    }
}

struct History {
    net: Net,
    issued: BTreeMap<(usize, u32), usize>,
    answered: BTreeMap<(usize, u32), usize>,
    codes: BTreeMap<i64, usize>,
    panics: usize,
}

impl History {
    fn new(script: &str, peers: &[String], init: usize, services: Services, particle: &str) -> History {
        History { net: Net::new(script, peers, init, services, particle), issued: BTreeMap::new(), answered: BTreeMap::new(), codes: BTreeMap::new(), panics: 0 }
    }
    fn step(&mut self, op: &Op) -> bool {
        let rec = match self.net.exec(op) { Some(r) => r, None => return false };
        if rec.out.panic.is_some() { self.panics += 1; }
        *self.codes.entry(rec.out.code).or_insert(0) += 1;
        for (id, _) in rec.input.call_results.iter() {
            self.answered.insert((rec.peer, *id), rec.step);
        }
        if let Some(reqs) = &rec.out.requests {
            for (id, _) in reqs.iter() {
                self.issued.entry((rec.peer, *id)).or_insert(rec.step);
            }
        }
        true
    }
    fn quiescent(&self) -> bool {
        self.net.inflight.is_empty() && self.net.hosts.iter().all(|h| h.pending.is_empty())
    }
    /// enabled choices: deliver message k, answer everything pending at peer p
    fn choices(&self) -> Vec<Op> {
        let mut v = vec![];
        for k in 0..self.net.inflight.len() { v.push(Op::Deliver(k, false)); }
        for (p, h) in self.net.hosts.iter().enumerate() {
            if !h.pending.is_empty() { v.push(Op::Return(p, 0)); }
        }
        v
    }
    fn term(&self, peers: &[String], table_t: &str) -> (String, J) {
        let mut obs: Vec<(usize, String)> = vec![];
        let mut n = 0usize;
        for (p, h) in self.net.hosts.iter().enumerate() {
            for (id, req, (code, text)) in h.log.iter() {
                let issued = self.issued.get(&(p, *id)).cloned().unwrap_or(0);
                let answered = self.answered.get(&(p, *id)).cloned().unwrap_or(usize::MAX >> 1);
                let call = format!(
                    "{{| c_peer := {}; c_service := {}; c_fn := {}; c_args := {} |}}",
                    c::s(&h.peer.id), c::s(&req.service), c::s(&req.function), c::list(req.args.iter().map(json_term))
                );
                obs.push((answered, format!(
                    "{{| oc_call := {}; oc_issued := {}; oc_answered := {}; oc_code := {}; oc_result := {} |}}",
                    call, issued, answered, c::z(*code as i128), parsed_term(text)
                )));
                n += 1;
            }
        }
        obs.sort_by_key(|x| x.0);
        let drained = self.quiescent();
        let peers_t = c::list(self.net.hosts.iter().map(|h| format!("({}, {})", c::s(&h.peer.id), c::s(&h.peer.name))));
        let t = format!(
            "{{| sc_script := script; sc_init := {}; sc_timestamp := {}; sc_ttl := {}; sc_peers := {}; sc_table := {}; sc_observed := {}; sc_drained := {} |}}",
            c::s(&self.net.hosts[self.net.init_peer].peer.id), self.net.timestamp, self.net.ttl, peers_t, table_t,
            c::list(obs.into_iter().map(|x| x.1)), c::b(drained)
        );
        let _ = peers;
        let bad: Vec<String> = self.codes.iter().filter(|(k, _)| **k != 0).map(|(k, v)| format!("{}x{}", k, v)).collect();
        (t, serde_json::json!({"invocations": n, "drained": drained, "runs": self.net.step, "error_codes": bad, "panics": self.panics,
                               "peers_invoked": self.net.hosts.iter().filter(|h| !h.log.is_empty()).count()}))
    }
}

fn run_case(case: &J) -> J {
    let peers: Vec<String> = case["peers"].as_array().map(|a| a.iter().filter_map(|x| x.as_str().map(String::from)).collect()).unwrap_or_default();
    let script = Net::instantiate(case["script"].as_str().unwrap_or("(null)"), &peers);
    let services_json: J = serde_json::from_str(&Net::instantiate(&case["services"].to_string(), &peers)).unwrap_or(J::Null);
    let init = case["init"].as_u64().unwrap_or(0) as usize;
    let ast = match air_parser::parse(&script) {
        Ok(a) => a,
        Err(e) => return serde_json::json!({"error": format!("script does not parse: {}", e.chars().take(300).collect::<String>())}),
    };
    let script_term = ast2coq::instr(&ast);
    let mut rows = vec![];
    if let Some(a) = services_json.as_array() {
        for e in a {
            match behaviour_term(&e[2]) {
                Ok(b) => rows.push(format!("({}, {}, {})", c::s(e[0].as_str().unwrap_or("")), c::s(e[1].as_str().unwrap_or("")), b)),
                Err(m) => return serde_json::json!({"error": m}),
            }
        }
    }
    let table_t = c::list(rows);
    let particle = case["particle_id"].as_str().unwrap_or("particle-1").to_string();
    let fresh = || History::new(&script, &peers, init, Services::from_json(&services_json), &particle);

    let mut terms = vec![];
    let mut infos = vec![];
    let mut classes = vec![];
    let push = |h: &History, how: &str, terms: &mut Vec<String>, infos: &mut Vec<J>, classes: &mut Vec<String>| {
        let (t, mut info) = h.term(&peers, &table_t);
        info["how"] = J::String(how.to_string());
        classes.push(format!("{}:{}", how, if info["drained"].as_bool().unwrap_or(false) { "drained" } else { "open" }));
        terms.push(t);
        infos.push(info);
    };

    if let Some(ex) = case.get("explore").filter(|x| x.is_object()) {
        let max_paths = ex["max_paths"].as_u64().unwrap_or(50) as usize;
        let max_len = ex["max_len"].as_u64().unwrap_or(40) as usize;
        // odometer over choice indices; every path is replayed from the start
        let mut path: Vec<usize> = vec![];
        let mut paths = 0usize;
        loop {
            let mut h = fresh();
            h.step(&Op::Start);
            let mut arity: Vec<usize> = vec![];
            let mut k = 0usize;
            loop {
                let ch = h.choices();
                if ch.is_empty() || k >= max_len { break; }
                if k >= path.len() { path.push(0); }
                arity.push(ch.len());
                let pick = path[k].min(ch.len() - 1);
                h.step(&ch[pick]);
                k += 1;
            }
            path.truncate(k);
            push(&h, "explore", &mut terms, &mut infos, &mut classes);
            paths += 1;
            if paths >= max_paths { break; }
            // next path: increment the last position that still has an untried choice
            let mut i = path.len();
            let mut found = false;
            while i > 0 {
                i -= 1;
                if path[i] + 1 < arity[i] { path[i] += 1; path.truncate(i + 1); found = true; break; }
            }
            if !found { break; }
        }
        infos.push(serde_json::json!({"paths": paths, "exhausted": paths < max_paths}));
    } else {
        let ops = ops_from_json(&case["ops"]);
        let mut h = fresh();
        for op in ops.iter() { h.step(op); }
        if case["drain"].as_bool().unwrap_or(false) {
            for _ in 0..400 {
                let ch = h.choices();
                if ch.is_empty() { break; }
                // answer first, then deliver the oldest message
                let op = ch.iter().find(|o| matches!(o, Op::Return(_, _))).cloned().unwrap_or_else(|| ch[0].clone());
                h.step(&op);
            }
        }
        push(&h, "schedule", &mut terms, &mut infos, &mut classes);
    }
    serde_json::json!({"script_term": script_term, "coq": terms, "classes": classes, "info": infos})
}

fn main() {
    quiet_panics();
    for line in std::io::stdin().lock().lines() {
        let line = match line { Ok(l) => l, Err(_) => break };
        if line.trim().is_empty() { continue; }
        let case: J = serde_json::from_str(&line).unwrap_or(J::Null);
        println!("{}", run_case(&case));
    }
}
