(* props/C03.v -- every produced data is accepted and verifiable by any other peer.
   Only pinned statements, [exact], non-vacuity examples and Print Assumptions. *)
From Aqua Require Import Base Json Air Trace Handler Values Scalars Lens Exec RunExec ExecStreams ExecCases SignSpec SignProofs.
From Aqua Require Import SignWitness SignWitnessProofs.
From Aqua Require Sig RunTop.
From Coq Require Import Permutation.
Open Scope N_scope.
Open Scope string_scope.
Open Scope list_scope.

(* the executor's stream / canon instructions and the end-of-run compactification keep the invariant
   "tracker = CIDs the trace attributes to the current peer; references of the trace are in the stores" *)
Theorem C03_hooks : C03_hooks_stmt.
Proof. exact (conj hook_ok_stream_instr (conj finish_ok_finish_streams (conj hook_ok_no_streams finish_ok_no_finish))). Qed.

(* for every hook that keeps the invariant (the shape asked of ExecStreams.v) *)
Theorem C03_own_signature_generic : forall esi fin, C03_own_signature_stmt esi fin.
Proof. exact (fun esi fin Hh Hf => C03_own_signature_holds esi fin Hh Hf Hh Hf). Qed.
Theorem C03_store_closed_generic : forall esi fin, C03_store_closed_stmt esi fin.
Proof. exact (fun esi fin Hh Hf => C03_store_closed_holds esi fin Hh Hf Hh Hf). Qed.

(* the current peer signs exactly the CIDs the verifier attributes to it: every script, every pair of data,
   every set of call results, every fuel *)
Theorem C03_own_signature : C03_own_signature_run2_stmt.
Proof.
  exact (C03_own_signature_holds stream_instr finish_streams hook_ok_stream_instr finish_ok_finish_streams
                                 hook_ok_stream_instr finish_ok_finish_streams).
Qed.

(* hence the signature made by sign_result verifies under DataVerifier's rule, whatever the CID text function and the salt *)
Theorem C03_sig_verifies : C03_sig_verifies_run2_stmt.
Proof.
  exact (fun cid_text fuel i code d next reqs signed salt =>
           C03_sig_verifies_holds stream_instr finish_streams hook_ok_stream_instr finish_ok_finish_streams
                                  cid_text fuel i code d next reqs signed salt).
Qed.

(* every CID referenced by the output trace is in the output stores; the stores stay reference-closed *)
Theorem C03_store_closed : C03_store_closed_run2_stmt.
Proof.
  exact (fun fuel i code d next reqs signed E =>
           match C03_store_closed_holds stream_instr finish_streams hook_ok_stream_instr finish_ok_finish_streams
                                        hook_ok_stream_instr finish_ok_finish_streams fuel i code d next reqs signed E with
           | conj A B => conj A (fun V1 V2 => B (conj V1 V2))
           end).
Qed.

(* another peer's verification step accepts the data as current data *)
Theorem C03_accepted : C03_accepted_run2_stmt.
Proof. exact (C03_accepted_holds stream_instr finish_streams). Qed.

(* signatures of other peers carried along *)
Theorem C03_foreign_partial : C03_foreign_partial_stmt.
Proof. exact C03_foreign_partial_holds. Qed.

(* ... and the full statement about them is REFUTED by the faithful model on a real run (the stream-fold cursor hole,
   DESIGN 7-11, known finding stream-fold-cursor-hole): D's produced data attributes 3 results to A, the signature kept for A
   covers 4; the model agrees with the implementation on that run *)
Theorem C03_foreign_refuted : ~ C03_foreign_full stream_instr finish_streams.
Proof. exact SignWitnessProofs.C03_foreign_refuted. Qed.
Theorem C03_full_refuted : ~ C03_full.
Proof. exact (fun H => SignWitnessProofs.C03_foreign_refuted (proj2 (proj2 (proj2 (proj2 H))))). Qed.
Theorem C03_foreign_refuted_is_real :
  check_case hole_case = true /\ Nat.eqb (length (attributed_cids (eo_trace (ec_obs hole_case)) hole_peer_a)) 3 = true.
Proof. exact SignWitnessProofs.hole_is_real. Qed.

(* version of produced data >= minimal supported version; the decisive source lines are the ones read today *)
Theorem C03_version : C03_version_stmt.
Proof. exact C03_version_holds. Qed.
Theorem C03_source_tie : sign_table_agrees = true.
Proof. exact (proj2 C03_version_holds). Qed.

(* ---------------- non-vacuity ---------------- *)
Definition ex_params : run_params := {| rp_init_peer := "A"; rp_current_peer := "A"; rp_timestamp := 1; rp_ttl := 2 |}.
Definition ex_var (n : string) : var := {| v_name := n; v_pos := 0 |}.
Definition ex_call (fn : string) (out : call_output) : instr :=
  ICall "call" {| t_peer := PLiteral "A"; t_service := SLiteral "s"; t_function := SLiteral fn |} [] out.
Definition ex_prev (k : N) : idata :=
  {| d_trace := [SCall (RequestSentBy (SPeerCall "A" k))]; d_lcid := k; d_cids := empty_cids |}.
Definition ex_input (s : instr) (prev : idata) (results : list (N * service_answer)) : run_input :=
  {| ri_script := s; ri_params := ex_params; ri_prev := prev; ri_cur := empty_data; ri_results := results |}.
Definition ex_t (fn : string) : tetraplet := {| tp_peer := "A"; tp_service := "s"; tp_function := fn; tp_lens := "" |}.

(* a service result arrives: one executed state, one signed CID, stores closed *)
Example C03_nonvacuous_executed :
  let i := ex_input (ex_call "f" (OutScalar (ex_var "x"))) (ex_prev 1)
                    [(1, {| sa_ret_code := 0; sa_text := "7"; sa_parsed := Some (JInt 7) |})] in
  let sc := CService (CValue (JInt 7)) (CArgs []) (CTetraplet (ex_t "f")) in
  exists d, run2 10 i = OutNewData 0 d [] [] [sc] /\ d_trace d = [SCall (Executed (VRScalar sc))] /\
            attributed_cids (d_trace d) "A" = [sc] /\ store_closed (d_trace d) (d_cids d) = true.
Proof. vm_compute. eexists. repeat split. Qed.

(* the service result is not JSON (the defect that was fixed): a Failed state, and its CID IS signed; the run ends
   with the catchable error's code *)
Example C03_nonvacuous_not_json :
  let i := ex_input (ex_call "bad" (OutScalar (ex_var "x"))) (ex_prev 1)
                    [(1, {| sa_ret_code := 0; sa_text := "not json {"; sa_parsed := None |})] in
  exists code d sc, run2 10 i = OutNewData code d [] [] [sc] /\ d_trace d = [SCall (Failed sc)] /\
                    attributed_cids (d_trace d) "A" = [sc] /\ code = catchable_code (CLocalServiceError 0 "").
Proof. vm_compute. do 3 eexists. repeat split. Qed.

(* a state of ANOTHER peer re-emitted from current data is not signed by this peer *)
Example C03_nonvacuous_foreign :
  let tb := {| tp_peer := "B"; tp_service := "s"; tp_function := "f"; tp_lens := "" |} in
  let sc := CService (CValue (JInt 7)) (CArgs []) (CTetraplet tb) in
  let cur := {| d_trace := [SCall (Executed (VRScalar sc))]; d_lcid := 0;
                d_cids := {| cs_values := [CValue (JInt 7)]; cs_tetraplets := [CTetraplet tb]; cs_canon_elems := [];
                             cs_canon_results := []; cs_services := [sc] |} |} in
  let i := {| ri_script := ICall "call" {| t_peer := PLiteral "B"; t_service := SLiteral "s"; t_function := SLiteral "f" |} []
                                 (OutScalar (ex_var "x"));
              ri_params := ex_params; ri_prev := empty_data; ri_cur := cur; ri_results := [] |} in
  exists d, run2 10 i = OutNewData 0 d [] [] [] /\ attributed_cids (d_trace d) "B" = [sc] /\ attributed_cids (d_trace d) "A" = [].
Proof. vm_compute. eexists. repeat split. Qed.

(* canon executed here: the canon result CID is signed and its elements / tetraplet are in the stores *)
Example C03_nonvacuous_canon :
  let s := {| v_name := "$s"; v_pos := 10 |} in
  let script := ISeq (IAp "ap" (ALiteral "v") (ApStream s)) (ICanon "canon" (PLiteral "A") s (ex_var "#c")) in
  let i := ex_input script empty_data [] in
  exists d rc, run2 10 i = OutNewData 0 d [] [] [rc] /\ refs (d_trace d) = [(false, rc)] /\
               store_closed (d_trace d) (d_cids d) = true.
Proof. vm_compute. do 2 eexists. repeat split. Qed.

(* the hypotheses of C03_accepted are satisfiable: a receiving peer with empty previous data *)
Example C03_nonvacuous_accepted :
  let i := ex_input (ex_call "f" (OutScalar (ex_var "x"))) (ex_prev 1)
                    [(1, {| sa_ret_code := 0; sa_text := "7"; sa_parsed := Some (JInt 7) |})] in
  let sc := CService (CValue (JInt 7)) (CArgs []) (CTetraplet (ex_t "f")) in
  let cid_text := fun c : cid => match c with CService _ _ _ => "bafy-sc" | _ => "?" end in
  exists d, run2 10 i = OutNewData 0 d [] [] [sc] /\
    let out := produced_data cid_text i d [sc] "particle" [] in
    foreign_ok (fun _ => true) "particle" out "A" /\
    Sig.verification_step (fun _ => true) Sig.id_orders (cid_info_verify (d_cids d)) (Sig.MkData [] []) out "particle"
      = RunTop.ROk [("A", Sig.sign_cids "A" ["bafy-sc"] "particle")].
Proof.
  cbv zeta. eexists. split; [vm_compute; reflexivity|].
  match goal with |- foreign_ok _ _ ?o _ /\ _ => set (out := o) end.
  assert (out = Sig.MkData [("A", "bafy-sc")] [("A", Sig.sign_cids "A" ["bafy-sc"] "particle")]) as Eo by (vm_compute; reflexivity).
  rewrite Eo. clear Eo out. split; [|vm_compute; reflexivity].
  unfold foreign_ok. split; [|split; [|split]].
  - unfold Sig.wf_data. cbn. constructor; [intros []|constructor].
  - intros k _. reflexivity.
  - intros p c. unfold Sig.Mof, Sig.peer_cids. cbn [Sig.d_trace Sig.d_sigs filter fst map snd Sig.map_get].
    rewrite (String.eqb_sym p "A"). destruct (String.eqb "A" p); [intros _; eexists; reflexivity|intros []].
  - intros p s Hne. cbn [Sig.d_sigs Sig.map_get]. destruct (String.eqb_spec p "A") as [E|_]; [contradiction|discriminate].
Qed.

Example C03_version_numbers : produced_version = (0, 64, 1) /\ min_version = (0, 61, 0).
Proof. vm_compute. split; reflexivity. Qed.

Print Assumptions C03_hooks.
Print Assumptions C03_own_signature_generic.
Print Assumptions C03_store_closed_generic.
Print Assumptions C03_own_signature.
Print Assumptions C03_sig_verifies.
Print Assumptions C03_store_closed.
Print Assumptions C03_accepted.
Print Assumptions C03_foreign_partial.
Print Assumptions C03_foreign_refuted.
Print Assumptions C03_full_refuted.
Print Assumptions C03_foreign_refuted_is_real.
Print Assumptions C03_version.
Print Assumptions C03_source_tie.
