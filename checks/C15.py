"""C15 -- a peer cannot present two incompatible versions of its own results."""
import json
import re

import airgen
import vlib

PID = "C15"
MODEL_TARGETS = ["model/SigCases.vo"]
HARNESS_BINS = ["sigs"]
RULE = ("real histories of one particle id run with the network simulator (every peer signs its own results); a case is one "
        "pair (prev, cur) of real data: the inputs of every real run (honest nested pairs), pairs of snapshots of one history, "
        "pairs across FORKED histories (same script, service table differs => the same peer signs diverging results) and "
        "across crafted call sequences (equal-size different sets, duplicate CIDs, set-included but not multiset-included), "
        "plus signature-store edits (swapped / dropped / foreign / extra signatures, malformed key, other salt); each pair is "
        "given to the real DataVerifier (new, new, verify, merge) and to the real execute_air at the owner of prev; "
        "distinct = different (per-peer (|prev|,|cur|,|common|,dup) shape, relation, edit, verifier verdict, run code); "
        "non-trivial = at least one peer has a CID in prev or cur")
PARTIAL = ["the per-peer CID lists (collect_peers_cids_from_trace's reading of the trace and the CID stores) are an input of the model; "
           "the trace model belongs to other components",
           "cur.cid_info.verify() is an input bit of the run-level statement",
           "which peer/key an error message names depends on hash-map iteration order and is not part of the verdict "
           "(C15_order proves the error kind and the merged store are order independent)"]
ASSUMPTIONS = ["Ed25519 (fluence-keypair) is unforgeable and borsh((cids, salt)) is injective: a signature is the term Sig signer cids salt, "
               "verification is term equality (model/Sig.v pk_verify)",
               "PublicKey::to_peer_id is injective on validated keys: a validated key is identified with its peer id "
               "(so the debug_assert_eq on public keys in merge cannot fire)",
               "Ord for str is byte-wise lexicographic = Coq String.leb (validated by every case: the harness prints the Rust-sorted lists)",
               "usize counters/lengths do not overflow (bounded by the vector length)",
               "the harness classifies real signature bytes by verifying them against the candidate (signer, sorted cid list, salt) triples "
               "of the two data, the empty list and both salts; other bytes are GarbageSig"]

TAMPERS = ["cur_swap_sigs", "cur_drop_sig", "prev_drop_sig", "salt", "cur_bad_key", "prev_bad_key", "cur_extra_signer",
           "cur_extra_signer_wrong", "prev_foreign_sig"]
FNS = ["f", "g", "h", "k", "m"]
CRAFT_SERVICES = [["s", f, {"const": i + 1}] for i, f in enumerate(FNS)] + [["s", "e", {"err": [1, "boom"]}]]


def seq_script(calls):
    """calls: list of (peer, fn, out) -> right-nested seq of calls; failing calls under xor"""
    def one(i, c):
        p, fn, out = c
        target = {"scalar": "v%d" % i, "stream": "$st"}.get(out, "v%d" % i)
        call = '(call "@%s" ("s" "%s") [] %s)' % (p, fn, target)
        if fn == "e":
            return "(xor %s (null))" % call
        return call
    if not calls:
        return "(null)"
    parts = [one(i, c) for i, c in enumerate(calls)]
    s = parts[-1]
    for p in reversed(parts[:-1]):
        s = "(seq %s %s)" % (p, s)
    if any(c[2] == "stream" for c in calls):
        s = "(new $st %s)" % s
    return s


def craft_pair(rng, peers):
    """two call sequences whose per-peer multisets have a chosen relation"""
    seqs = [[], []]
    for p in peers:
        kind = rng.choice(["equal", "nested", "nested-dup", "eqsize-diff", "dup-vs-set", "incomparable", "empty-vs-some", "fail"])
        f, g, h = rng.sample(FNS, 3)
        if kind == "equal":
            a = b = [f, g][: rng.randint(1, 2)]
        elif kind == "nested":
            a, b = [f], [f, g] + ([h] if rng.random() < 0.4 else [])
        elif kind == "nested-dup":
            a, b = [f], [f, f] + ([g] if rng.random() < 0.4 else [])
        elif kind == "eqsize-diff":
            a, b = [f, g], [f, h]
        elif kind == "dup-vs-set":
            a, b = [f, f], [f, g, h]
        elif kind == "incomparable":
            a, b = [f, g, g], [f, h]
        elif kind == "empty-vs-some":
            a, b = [], [f]
        else:
            a, b = [f, "e"], [f, "e", g]
        if rng.random() < 0.5:
            a, b = b, a
        out = rng.choice(["scalar", "scalar", "stream"])
        seqs[0] += [(p, x, out) for x in a]
        seqs[1] += [(p, x, out) for x in b]
    # interleave deterministically but differently per world: stable shuffle that keeps each peer's order
    res = []
    for s in seqs:
        keyed = [(rng.random(), i, c) for i, c in enumerate(s)]
        by_peer = {}
        for c in s:
            by_peer.setdefault(c[0], []).append(c)
        order = [c[0] for _, _, c in sorted(keyed)]
        res.append([by_peer[p].pop(0) for p in order])
    return res


def fork_services(rng, peers):
    """a service table that differs from the default one in a few results"""
    sv = json.loads(json.dumps(airgen.DEFAULT_SERVICES))
    changed = 0
    for e in sv:
        if "const" in e[2] and rng.random() < 0.6:
            e[2] = {"const": {"forked": e[1], "n": rng.randint(1, 3)}} if not isinstance(e[2]["const"], list) else {"const": e[2]["const"] + ["forked"]}
            changed += 1
        elif "peertag" in e[2] and rng.random() < 0.5:
            e[2] = {"const": "forked-tag"}
            changed += 1
    if not changed:
        sv[0][2] = {"const": "forked"}
    return sv


def pairs(rng, n, worlds, tampers, p_tamper):
    """[world of prev, snapshot, world of cur, snapshot, edit]; negative snapshot numbers count from the end of
    the history (where forked histories have diverged most)"""
    def idx():
        return -rng.randint(1, 4) if rng.random() < 0.5 else rng.randrange(1 << 20)
    out = []
    for _ in range(n):
        wp = rng.randrange(worlds)
        wc = (wp + 1) % worlds if rng.random() < 0.7 else wp
        t = rng.choice(tampers) if rng.random() < p_tamper else "none"
        out.append([wp, idx(), wc, idx(), t])
    return out


def gen_cases(rng, tier, escalate=False):
    mult = 4 if escalate else 1
    n_honest = {"quick": 8, "thorough": 80}[tier] * mult
    n_fork = {"quick": 10, "thorough": 100}[tier] * mult
    n_craft = {"quick": 24, "thorough": 240}[tier] * mult
    npairs = {"quick": 14, "thorough": 22}[tier]
    cases = []
    peers = airgen.PEERS[:3]
    for k in range(n_honest):
        prof = airgen.Profile(peers=3, depth=rng.choice([2, 3, 4]), canon=rng.random() < 0.5)
        script = airgen.gen_script(rng, prof)
        ops = airgen.gen_schedule(rng, n_ops=rng.choice([8, 14, 20]))
        cases.append({"gen": "honest", "peers": peers, "init": 0, "particle_id": "particle-%d" % k, "step_pairs": True,
                      "worlds": [{"script": script, "services": airgen.DEFAULT_SERVICES, "ops": ops}],
                      "pairs": pairs(rng, npairs, 1, TAMPERS, 0.45)})
    for k in range(n_fork):
        prof = airgen.Profile(peers=3, depth=rng.choice([2, 3]), canon=rng.random() < 0.4, failing=rng.random() < 0.5)
        script = airgen.gen_script(rng, prof)
        ops = airgen.gen_schedule(rng, n_ops=rng.choice([8, 14]))
        worlds = [{"script": script, "services": airgen.DEFAULT_SERVICES, "ops": ops},
                  {"script": script, "services": fork_services(rng, peers), "ops": ops if rng.random() < 0.5 else None}]
        cases.append({"gen": "fork", "peers": peers, "init": 0, "particle_id": "forked-%d" % k, "step_pairs": False,
                      "worlds": worlds, "pairs": pairs(rng, npairs + 6, 2, TAMPERS, 0.1)})
    for k in range(n_craft):
        ps = peers[: rng.choice([1, 2, 3])]
        s1, s2 = craft_pair(rng, ps)
        worlds = [{"script": seq_script(s1), "services": CRAFT_SERVICES, "ops": None},
                  {"script": seq_script(s2), "services": CRAFT_SERVICES, "ops": None}]
        cases.append({"gen": "craft", "peers": peers, "init": 0, "particle_id": "crafted-%d" % k, "step_pairs": False,
                      "worlds": worlds, "pairs": pairs(rng, npairs + 8, 2, TAMPERS, 0.08)})
    return cases


HEADER = "From Aqua Require Import Base RunTop Sig SigCases.\nOpen Scope N_scope.\nOpen Scope string_scope.\n"

_LIT = re.compile(r'"((?:[^"]|"")*)"')


def shorten(terms):
    """Peer ids (52 characters) and CIDs (59 characters) make Coq's parsing and string comparisons the dominant
    cost.  The model only compares strings and sorts CIDs byte-wise, so every literal of 40 or more characters is
    replaced by an ORDER-PRESERVING short name: "s" + its rank (fixed width) in the byte-wise sorted list of all
    long literals of the batch (prefix "BAD:" of refused keys kept).  Rust's sort of the real CIDs (printed inside
    the Sig terms) is thereby still compared with the model's sort."""
    lits = set()
    for t in terms:
        for m in _LIT.finditer(t):
            if len(m.group(1)) >= 40:
                lits.add(m.group(1))
    order = sorted(lits, key=lambda x: x.encode("utf-8"))
    width = max(4, len(str(len(order))))
    name = {}
    for i, l in enumerate(order):
        short = "s%0*d" % (width, i)
        name[l] = ("BAD:" + short) if l.startswith("BAD:") else short
    # "BAD:..." sorts among the other names by its own prefix; refused keys are never sorted or compared by order
    return [_LIT.sub(lambda m: '"%s"' % name.get(m.group(1), m.group(1)), t) for t in terms], name


def evaluate(cases, result, tier):
    if not cases:
        return
    outs = vlib.harness_lines("sigs", [json.dumps(c) for c in cases])
    terms, owner = [], []
    for ci, o in enumerate(outs):
        if "error" in o:
            result["errors"].append(o["error"])
            continue
        gen = cases[ci].get("gen", "replay")
        for ti, t in enumerate(o["coq"]):
            terms.append(t)
            owner.append((ci, ti))
            inf = o["info"][ti]
            cl = gen + "/" + o["classes"][ti]
            result["distribution"][cl] = result["distribution"].get(cl, 0) + 1
            vk = "verdict:" + inf["verdict"]
            result["distribution"][vk] = result["distribution"].get(vk, 0) + 1
            rk = "relation:" + inf["relation"] + ("+dup" if inf["dup"] else "")
            result["distribution"][rk] = result["distribution"].get(rk, 0) + 1
            result["evaluations"] += 1
            if any(s[0] or s[1] for s in inf["shape"]):
                result["distinct"].add(json.dumps([inf["shape"], inf["relation"], inf["tamper"], inf["verdict"], inf["run_code"]]))
            if inf.get("run_panic"):
                result["distribution"]["run-panic"] = result["distribution"].get("run-panic", 0) + 1
        if len(result["samples"]) < 3 and o["coq"]:
            k = min(len(o["coq"]) - 1, 5)
            result["samples"].append({"case": {kk: cases[ci].get(kk) for kk in ("gen", "worlds", "particle_id")}, "info": o["info"][k],
                                      "term": o["coq"][k][:1500]})
    if not terms:
        return
    full_terms = terms
    terms, _names = shorten(full_terms)
    checks = {"model": "check_case", "oracle": "c15_oracle"}
    fails, errs = vlib.coq_eval_cases("sigs", HEADER, "case_t", checks, terms, shard_size=150)
    if any("inconsistent assumptions" in e for e in errs):
        # another check regenerated coq/gen/Generated.v while the shards were running: rebuild and evaluate once more
        vlib.coq_make(MODEL_TARGETS)
        fails, errs = vlib.coq_eval_cases("sigs", HEADER, "case_t", checks, terms, shard_size=150)
    result["errors"].extend(errs)

    def single(ci, ti):
        # the scenario reduced to the one pair that failed (replays exactly: snapshots do not depend on the pair list)
        c = dict(cases[ci])
        o = outs[ci]
        info = o["info"][ti]
        return c, info

    for i in fails["model"]:
        ci, ti = owner[i]
        c, info = single(ci, ti)
        result["mismatch"].append({"case": c, "term_index": ti, "term": terms[i][:6000], "term_full": full_terms[i][:12000], "info": info,
                                   "what": "model/Sig.v (dv_verification / verification_step) disagrees with the real DataVerifier / execute_air on this pair"})
    for i in fails["oracle"]:
        ci, ti = owner[i]
        c, info = single(ci, ti)
        result["oracle_fail"].append({"case": c, "term_index": ti, "term": terms[i][:6000], "term_full": full_terms[i][:12000], "info": info, "key": None,
                                      "what": "c15_oracle is false on the implementation's observation: "
                                              "incomparable per-peer multisets were not rejected with the previous data returned, "
                                              "or the kept signature does not verify against the larger multiset"})
