//! `wire`: the real side of C27 (model/Wire.v, model/WireCases.v).
//! One JSON case per input line -> one JSON line {"coq": [case_t terms], "classes": [...], "info": [...]}.
//!
//! case kinds
//!   {"kind":"varint","numbers":[u32..],"rests":[[u8..]..],"raw":[[u8..]..]}
//!   {"kind":"callmaps","results":[[id,ret,"text"]..],"requests":[[id,"svc","fn",[u8..],[u8..]]..],"tags":[{"c":n}|{"raw":[u8..]}..]}
//!   {"kind":"envelope","dv":"..","iv":"..","inner_len":n,"seed":s,"cuts":[..],"junk":[u8..],"flips":[..]}
//!   {"kind":"data","script":..,"peers":[..],"init":0,"services":[..],"ops":[..],"corrupt":[..],"tags":[..],"seed":s}
//! Everything the implementation does goes through the public API of /repo's crates:
//! air_interpreter_sede::multiformat (the only door to unsigned_varint), the Repr types of
//! air_interpreter_interface, InterpreterDataEnvelope / InterpreterData of air_interpreter_data.

use air_interpreter_data::{InterpreterData, InterpreterDataEnvelope, Versions};
use air_interpreter_interface::{
    CallRequestParams, CallRequests, CallRequestsRepr, CallResults, CallResultsRepr, CallServiceResult, SerializedCallArguments,
    SerializedTetraplets,
};
use air_interpreter_sede::multiformat::{encode_multiformat, parse_multiformat_bytes, DecodeError};
use air_interpreter_sede::{Format, FromSerialized, ToSerialized};
use aquah::coqfmt as c;
use aquah::sim::*;
use serde_json::Value as J;
use std::io::BufRead;

/// A Format that writes nothing: `encode_multiformat(&(), codec, &Empty)` is exactly the varint tag.
#[derive(Default, Clone, Copy)]
struct Empty;
impl Format<()> for Empty {
    type SerializationError = std::io::Error;
    type DeserializationError = std::io::Error;
    type WriteError = std::io::Error;
    fn to_vec(&self, _: &()) -> Result<Vec<u8>, std::io::Error> {
        Ok(vec![])
    }
    fn from_slice(&self, _: &[u8]) -> Result<(), std::io::Error> {
        Ok(())
    }
    fn to_writer<W: std::io::Write>(&self, _: &(), _: &mut W) -> Result<(), std::io::Error> {
        Ok(())
    }
}

fn real_tag(codec: u32) -> Vec<u8> {
    // the crate's codec type is inferred: the driver keeps compiling when the crate narrows or widens it; a number the
    // crate's type cannot hold has no encoding (empty), which the model comparison reports
    #[allow(unreachable_patterns, irrefutable_let_patterns)]
    match codec.try_into() {
        Ok(c) => encode_multiformat(&(), c, &Empty).expect("writing into a Vec"),
        Err(_) => vec![],
    }
}

fn hex_lit(b: &[u8]) -> String {
    // long literals are cut into pieces: Coq's parser recurses on the length of a string literal
    if b.len() <= 2048 {
        format!("(unhex \"{}\")", hex(b))
    } else {
        let parts: Vec<String> = b.chunks(2048).map(|ch| format!("\"{}\"", hex(ch))).collect();
        format!("(unhexs [{}])", parts.join("; "))
    }
}

/// a byte string as a Coq term of type list N; runs of one byte (>= 64) are written `rep n b`
fn hx(b: &[u8]) -> String {
    let mut parts: Vec<String> = vec![];
    let mut lit_start = 0usize;
    let mut i = 0usize;
    while i < b.len() {
        let mut j = i;
        while j < b.len() && b[j] == b[i] {
            j += 1;
        }
        if j - i >= 64 {
            if lit_start < i {
                parts.push(hex_lit(&b[lit_start..i]));
            }
            parts.push(format!("(rep {} {})", j - i, b[i]));
            lit_start = j;
        }
        i = j;
    }
    if lit_start < b.len() || parts.is_empty() {
        parts.push(hex_lit(&b[lit_start..]));
    }
    if parts.len() == 1 {
        parts.pop().unwrap()
    } else {
        format!("({})", parts.join(" ++ "))
    }
}

fn bhash(b: &[u8]) -> u64 {
    let mut h: u64 = 0;
    for x in b {
        h = (h * 257 + *x as u64 + 1) % 4294967291;
    }
    h
}

fn verr(dbg: &str) -> &'static str {
    match dbg {
        "Insufficient" => "VInsufficient",
        "Overflow" => "VOverflow",
        "NotMinimal" => "VNotMinimal",
        _ => "VUnknown", // a new variant of the crate: does not type-check in Coq, i.e. is reported
    }
}

fn vres(bs: &[u8]) -> (String, Option<u32>, String) {
    // the codec number is widened to u64 first: the driver must keep compiling when the crate narrows or widens its integer type
    match std::panic::catch_unwind(|| parse_multiformat_bytes(bs).map(|(n, r)| (u64::from(n) as u32, r.to_vec())).map_err(|e| format!("{:?}", e))) {
        Ok(Ok((n, rest))) => (format!("(VOk {} {})", n, hx(&rest)), Some(n), "ok".into()),
        Ok(Err(e)) => (format!("(VErr {})", verr(&e)), None, e),
        Err(_) => ("VPanic".into(), None, "panic".into()),
    }
}

fn bytes_of(j: &J) -> Vec<u8> {
    j.as_array().map(|a| a.iter().map(|x| x.as_u64().unwrap_or(0) as u8).collect()).unwrap_or_default()
}

fn garbage(n: usize, seed: u64) -> Vec<u8> {
    let mut h = seed.wrapping_mul(0x9e3779b97f4a7c15) | 1;
    (0..n)
        .map(|_| {
            h ^= h << 13;
            h ^= h >> 7;
            h ^= h << 17;
            (h >> 11) as u8
        })
        .collect()
}

struct Out {
    terms: Vec<String>,
    classes: Vec<String>,
    /// classes of the observations grouped inside a term (one per tag / corruption / mutation)
    classes_extra: Vec<String>,
    infos: Vec<J>,
}

impl Out {
    fn push(&mut self, term: String, class: &str, info: J) {
        self.terms.push(term);
        self.classes.push(class.to_string());
        self.infos.push(info);
    }
}

// ---------------------------------------------------------------------------------------------
// varint

fn do_varint(case: &J, out: &mut Out) {
    let rests: Vec<Vec<u8>> = case["rests"].as_array().map(|a| a.iter().map(bytes_of).collect()).unwrap_or_else(|| vec![vec![]]);
    for (k, n) in case["numbers"].as_array().cloned().unwrap_or_default().iter().enumerate() {
        let n = n.as_u64().unwrap_or(0) as u32;
        let enc = real_tag(n);
        let rest = &rests[k % rests.len().max(1)];
        let mut all = enc.clone();
        all.extend_from_slice(rest);
        let (t, _, cls) = vres(&all);
        out.push(
            format!("(WVarint {} {} {} {})", n, hx(&enc), hx(rest), t),
            &format!("varint/roundtrip/len{}/{}", enc.len(), cls),
            serde_json::json!({"kind": "varint", "n": n, "enc": enc}),
        );
    }
    for raw in case["raw"].as_array().cloned().unwrap_or_default().iter() {
        let bs = bytes_of(raw);
        let (t, n, cls) = vres(&bs);
        let reenc = n.map(real_tag).unwrap_or_default();
        out.push(
            format!("(WVarintRaw {} {} {})", hx(&bs), t, hx(&reenc)),
            &format!("varint/raw/{}", cls),
            serde_json::json!({"kind": "varint_raw", "bytes": bs, "result": cls, "n": n}),
        );
    }
}

// ---------------------------------------------------------------------------------------------
// call maps

fn obs_term<T>(r: Result<T, DecodeError<rmp_serde_error::E>>, same: impl Fn(&T) -> bool) -> (String, String) {
    match r {
        Ok(v) => {
            if same(&v) {
                ("MfOkSame".into(), "ok_same".into())
            } else {
                ("MfOkDifferent".into(), "ok_different".into())
            }
        }
        Err(DecodeError::Codec(cd)) => (format!("(MfErrCodec {})", cd), "err_codec".into()),
        Err(DecodeError::VarInt(e)) => {
            let d = format!("{:?}", e);
            (format!("(MfErrVarint {})", verr(&d)), format!("err_varint_{}", d))
        }
        Err(DecodeError::Format(_)) => ("MfErrFormat".into(), "err_format".into()),
    }
}

/// the Format error type of the msgpack multiformat, named through the Repr types (the harness
/// does not depend on rmp-serde itself)
mod rmp_serde_error {
    use air_interpreter_sede::{Format, MsgPackFormat};
    pub type E = <MsgPackFormat as Format<()>>::DeserializationError;
}

fn results_same(a: &CallResults, b: &CallResults) -> bool {
    a.len() == b.len() && a.iter().all(|(k, v)| b.get(k).map(|w| w.ret_code == v.ret_code && w.result == v.result).unwrap_or(false))
}

enum Tag {
    Canon(u32),
    Raw(Vec<u8>),
}

fn tags_of(j: &J) -> Vec<Tag> {
    j.as_array()
        .map(|a| {
            a.iter()
                .map(|t| match t.get("c") {
                    Some(n) => Tag::Canon(n.as_u64().unwrap_or(0) as u32),
                    None => Tag::Raw(bytes_of(&t["raw"])),
                })
                .collect()
        })
        .unwrap_or_default()
}

const MSGPACK: u32 = 0x0201; // only used to label terms: the model reads the number from the source

/// One WMulti term: the serialized map, its own round trip, and the payload under other tags.
fn multi_term(which: &str, ser: &[u8], n_entries: usize, tags: &[Tag], de: &dyn Fn(&[u8]) -> (String, String), out: &mut Out) {
    let canon = real_tag(MSGPACK);
    let (obs, cls) = de(ser);
    // the serializer's own tag: what parse_multiformat_bytes splits off
    let payload: Vec<u8> = match parse_multiformat_bytes(ser) {
        Ok((_, r)) => r.to_vec(),
        Err(_) => vec![],
    };
    let tag_len = ser.len() - payload.len();
    let mut entries = vec![];
    let mut tag_infos = vec![];
    for t in tags {
        let (tagb, tk, label) = match t {
            Tag::Canon(n) => (real_tag(*n), format!("(TagCanonical {})", n), if *n == MSGPACK { "same_codec" } else { "other_codec" }),
            Tag::Raw(b) => (b.clone(), format!("(TagRaw {})", hx(&canon)), "raw_tag"),
        };
        let mut all = tagb.clone();
        all.extend_from_slice(&payload);
        let (o, ocls) = de(&all);
        entries.push(format!("({}, {}, {})", tk, hx(&tagb), o));
        out.classes_extra.push(format!("{}/tag/{}/{}", which, label, ocls));
        tag_infos.push(serde_json::json!({"tag": tagb, "label": label, "obs": ocls, "canon": canon}));
    }
    out.push(
        format!("(WMulti {} {} {} {} {})", MSGPACK, tag_len, hx(ser), obs, c::list(entries)),
        &format!("{}/roundtrip/n{}/{}", which, n_entries.min(4), cls),
        serde_json::json!({"kind": "multi", "which": which, "entries": n_entries, "bytes": ser.len(), "obs": cls, "tags": tag_infos}),
    );
}

fn results_terms(cr: &CallResults, tags: &[Tag], out: &mut Out) {
    let ser: Vec<u8> = match CallResultsRepr.serialize(cr) {
        Ok(s) => s.into(),
        Err(e) => {
            out.push(format!("(WDataRT {} false)", c::s("call_results_serialize_failed")), "results/serialize_failed", serde_json::json!({"error": format!("{e}")}));
            return;
        }
    };
    let de = |b: &[u8]| obs_term(CallResultsRepr.deserialize(b), |v: &CallResults| results_same(v, cr));
    multi_term("results", &ser, cr.len(), tags, &de, out);
}

fn requests_terms(rq: &CallRequests, tags: &[Tag], out: &mut Out) {
    let ser: Vec<u8> = match CallRequestsRepr.serialize(rq) {
        Ok(s) => s.into(),
        Err(e) => {
            out.push(format!("(WDataRT {} false)", c::s("call_requests_serialize_failed")), "requests/serialize_failed", serde_json::json!({"error": format!("{e}")}));
            return;
        }
    };
    let de = |b: &[u8]| obs_term(CallRequestsRepr.deserialize(b), |v: &CallRequests| v == rq);
    multi_term("requests", &ser, rq.len(), tags, &de, out);
}

fn do_callmaps(case: &J, out: &mut Out) {
    let tags = tags_of(&case["tags"]);
    let mut cr = CallResults::new();
    for e in case["results"].as_array().cloned().unwrap_or_default() {
        cr.insert(
            e[0].as_u64().unwrap_or(0).to_string(),
            CallServiceResult { ret_code: e[1].as_i64().unwrap_or(0) as i32, result: e[2].as_str().unwrap_or("").to_string() },
        );
    }
    results_terms(&cr, &tags, out);
    let mut rq = CallRequests::new();
    for e in case["requests"].as_array().cloned().unwrap_or_default() {
        rq.insert(
            e[0].as_u64().unwrap_or(0) as u32,
            CallRequestParams::new(
                e[1].as_str().unwrap_or("").to_string(),
                e[2].as_str().unwrap_or("").to_string(),
                SerializedCallArguments::from(bytes_of(&e[3])),
                SerializedTetraplets::from(bytes_of(&e[4])),
            ),
        );
    }
    requests_terms(&rq, &tags, out);
}

// ---------------------------------------------------------------------------------------------
// envelopes

fn versions_obs(bytes: &[u8]) -> (String, bool) {
    let b = bytes.to_vec();
    match std::panic::catch_unwind(move || InterpreterDataEnvelope::try_get_versions(&b).ok()) {
        Ok(Some(v)) => (format!("(Some ({}, {}))", c::s(&v.data_version.to_string()), c::s(&v.interpreter_version.to_string())), true),
        Ok(None) => ("None".into(), false),
        Err(_) => ("VersionsPanic".into(), false),
    }
}

fn full_obs(bytes: &[u8]) -> (String, bool) {
    let b = bytes.to_vec();
    let r = std::panic::catch_unwind(move || {
        InterpreterDataEnvelope::try_from_slice(&b).ok().map(|e| (e.versions.data_version.to_string(), e.versions.interpreter_version.to_string(), e.inner_data.to_vec()))
    });
    match r {
        Ok(Some((dv, iv, inner))) => (format!("(Some ({}, {}, {}, {}))", c::s(&dv), c::s(&iv), inner.len(), bhash(&inner)), true),
        Ok(None) => ("None".into(), false),
        Err(_) => ("EnvelopePanic".into(), false),
    }
}

/// One WEnv term: the envelope, its own round trip, `try_get_versions` under corrupted inner data,
/// and both readers on the cut / extended / bit-flipped bytes.
fn envelope_terms(dv: &semver::Version, iv: &semver::Version, inner: &[u8], label: &str, raw_muts: &J, corrupt: &J, seed: u64, out: &mut Out) -> Option<Vec<u8>> {
    let mk = |i: &[u8]| InterpreterDataEnvelope { versions: Versions { data_version: dv.clone(), interpreter_version: iv.clone() }, inner_data: i.to_vec().into() };
    let real = match mk(inner).serialize() {
        Ok(r) => r,
        Err(e) => {
            out.push(format!("(WDataRT {} false)", c::s("envelope_serialize_failed")), "envelope/serialize_failed", serde_json::json!({"error": format!("{e}")}));
            return None;
        }
    };
    if real.len() < inner.len() || &real[real.len() - inner.len()..] != inner {
        // the term format relies on it; anything else is a finding in itself
        out.push(format!("(WDataRT {} false)", c::s("inner_data_is_not_the_tail_of_the_envelope")), "envelope/LAYOUT", serde_json::json!({"label": label}));
        return Some(real);
    }
    let same = match InterpreterDataEnvelope::try_from_slice(&real) {
        Ok(e2) => e2.versions.data_version == *dv && e2.versions.interpreter_version == *iv && e2.inner_data.as_ref() == inner,
        Err(_) => false,
    };
    let sz = if inner.len() < 256 { "bin8" } else if inner.len() < 65536 { "bin16" } else { "bin32" };

    // corrupted inner data, re-serialized by the real code
    let mut vers = vec![];
    let mut vinfo = vec![];
    for (k, cj) in corrupt.as_array().cloned().unwrap_or_default().iter().enumerate() {
        let s = seed.wrapping_add(k as u64 * 7919);
        let (name, cterm, bad): (String, String, Vec<u8>) = if let Some(n) = cj.get("garbage") {
            let g = garbage(n.as_u64().unwrap_or(0) as usize, s);
            ("garbage".into(), format!("(CBytes {})", hx(&g)), g)
        } else if let Some(n) = cj.get("flip") {
            if inner.is_empty() {
                continue;
            }
            let mut b = inner.to_vec();
            let i = (n.as_u64().unwrap_or(0) as usize) % b.len();
            let bit = s % 8;
            b[i] ^= 1 << bit;
            ("flip".into(), format!("(CFlip {} {})", i, bit), b)
        } else if let Some(n) = cj.get("truncate") {
            if inner.is_empty() {
                continue;
            }
            let i = (n.as_u64().unwrap_or(0) as usize) % inner.len();
            ("truncate".into(), format!("(CTruncate {})", i), inner[..i].to_vec())
        } else if cj.get("empty").is_some() {
            ("empty".into(), "(CTruncate 0)".into(), vec![])
        } else {
            continue;
        };
        let bytes = match mk(&bad).serialize() {
            Ok(b) => b,
            Err(_) => continue,
        };
        if bytes.len() < bad.len() || bytes[bytes.len() - bad.len()..] != bad[..] {
            out.push(format!("(WDataRT {} false)", c::s("inner_data_is_not_the_tail_of_the_envelope")), "envelope/LAYOUT", serde_json::json!({"label": label}));
            continue;
        }
        let prefix = &bytes[..bytes.len() - bad.len()];
        let inner_readable = {
            let b2 = bad.clone();
            std::panic::catch_unwind(move || InterpreterData::try_from_slice(&b2).is_ok()).unwrap_or(false)
        };
        let (vo, vok) = versions_obs(&bytes);
        vers.push(format!("({}, {}, {})", cterm, hx(prefix), vo));
        out.classes_extra.push(format!("versions/{}/inner_{}/{}", name, if inner_readable { "readable" } else { "unreadable" }, if vok { "ok" } else { "NOT_READABLE" }));
        vinfo.push(serde_json::json!({"corruption": name, "inner_len": bad.len(), "inner_readable": inner_readable, "versions_ok": vok}));
    }

    // mutations of the serialized bytes: correspondence of the two readers only
    let hdr = if inner.len() < 256 { 2 } else if inner.len() < 65536 { 3 } else { 5 };
    let off = real.len().saturating_sub(inner.len() + hdr);
    let mut raws = vec![];
    let mut push_raw = |name: &str, mterm: String, b: Vec<u8>, out: &mut Out| {
        let (vo, vok) = versions_obs(&b);
        let (fo, fok) = full_obs(&b);
        raws.push(format!("({}, {}, {})", mterm, vo, fo));
        out.classes_extra.push(format!("envelope_raw/{}/versions_{}/full_{}", name, if vok { "ok" } else { "err" }, if fok { "ok" } else { "err" }));
    };
    for cut in raw_muts["cuts"].as_array().cloned().unwrap_or_default() {
        let k = (cut.as_u64().unwrap_or(0) as usize) % (real.len() + 1);
        push_raw("cut", format!("(MCut {})", k), real[..k].to_vec(), out);
    }
    let junk = bytes_of(&raw_muts["junk"]);
    if !junk.is_empty() {
        let mut b = real.clone();
        b.extend_from_slice(&junk);
        push_raw("junk", format!("(MJunk {})", hx(&junk)), b, out);
    }
    for f in raw_muts["flips"].as_array().cloned().unwrap_or_default() {
        // only at or behind the inner_data value: the version texts stay valid semver
        let span = real.len() - off;
        if span == 0 {
            continue;
        }
        let k = off + (f.as_u64().unwrap_or(0) as usize) % span;
        let bit = (seed.wrapping_add(k as u64)) % 8;
        let mut b = real.clone();
        b[k] ^= 1 << bit;
        push_raw("flip", format!("(MFlip {} {})", k, bit), b, out);
    }
    out.push(
        format!(
            "(WEnv {} {} {} {} {} {} {})",
            c::s(&dv.to_string()),
            c::s(&iv.to_string()),
            inner.len(),
            hx(&real),
            c::b(same),
            c::list(vers),
            c::list(raws)
        ),
        &format!("envelope/{}/{}/{}", label, sz, if same { "same" } else { "DIFFERENT" }),
        serde_json::json!({"kind": "envelope", "label": label, "inner_len": inner.len(), "len": real.len(), "same": same, "vers": vinfo}),
    );
    Some(real)
}

fn do_envelope(case: &J, out: &mut Out) {
    let dv = semver::Version::parse(case["dv"].as_str().unwrap_or("0.6.3")).unwrap_or(semver::Version::new(0, 6, 3));
    let iv = semver::Version::parse(case["iv"].as_str().unwrap_or("0.61.0")).unwrap_or(semver::Version::new(0, 61, 0));
    let seed = case["seed"].as_u64().unwrap_or(1);
    let n = case["inner_len"].as_u64().unwrap_or(0) as usize;
    // big inner data: random head and tail around one long run (keeps the Coq term small)
    let inner = if n > 4096 {
        let mut v = garbage(48, seed);
        v.extend(std::iter::repeat((seed % 251) as u8).take(n - 96));
        v.extend(garbage(48, seed ^ 0x5555));
        v
    } else {
        garbage(n, seed)
    };
    envelope_terms(&dv, &iv, &inner, "synthetic", case, &case["corrupt"], seed, out);
}

// ---------------------------------------------------------------------------------------------
// data of real runs

fn do_data(case: &J, out: &mut Out) {
    let peers: Vec<String> = case["peers"].as_array().map(|a| a.iter().filter_map(|x| x.as_str().map(String::from)).collect()).unwrap_or_default();
    let script = Net::instantiate(case["script"].as_str().unwrap_or("(null)"), &peers);
    let init = case["init"].as_u64().unwrap_or(0) as usize;
    let services = Services::from_json(&case["services"]);
    let ops = ops_from_json(&case["ops"]);
    let seed = case["seed"].as_u64().unwrap_or(1);
    let tags = tags_of(&case["tags"]);
    let probe: Option<Vec<u64>> = case["probe_steps"].as_array().map(|a| a.iter().filter_map(|x| x.as_u64()).collect());
    let mut net = Net::new(&script, &peers, init, services, case["particle_id"].as_str().unwrap_or("particle-1"));
    for op in &ops {
        let rec = match net.exec(op) {
            Some(r) => r,
            None => continue,
        };
        if let Some(p) = &probe {
            if !p.contains(&(rec.step as u64)) {
                continue;
            }
        }
        let s = seed.wrapping_add(rec.step as u64 * 104729);
        // call results handed to this run, call requests it produced
        if !rec.input.call_results.is_empty() {
            let mut cr = CallResults::new();
            for (k, (rc, res)) in &rec.input.call_results {
                cr.insert(k.to_string(), CallServiceResult { ret_code: *rc, result: res.clone() });
            }
            results_terms(&cr, &tags, out);
        }
        if rec.out.panic.is_none() && !rec.out.requests_raw.is_empty() {
            match CallRequestsRepr.deserialize(&rec.out.requests_raw) {
                Ok(rq) => {
                    if !rq.is_empty() {
                        requests_terms(&rq, &tags, out)
                    }
                }
                Err(e) => out.push(format!("(WDataRT {} false)", c::s("produced_call_requests_unreadable")), "requests/produced_unreadable", serde_json::json!({"error": format!("{e}")})),
            }
        }
        // the data it produced
        let data = &rec.out.data;
        if rec.out.panic.is_some() || data.is_empty() {
            continue;
        }
        let env = match InterpreterDataEnvelope::try_from_slice(data) {
            Ok(e) => e,
            Err(e) => {
                out.push(format!("(WDataRT {} false)", c::s("produced_envelope_unreadable")), "data/produced_envelope_unreadable", serde_json::json!({"error": format!("{e}"), "step": rec.step}));
                continue;
            }
        };
        let dv = env.versions.data_version.clone();
        let iv = env.versions.interpreter_version.clone();
        let inner: Vec<u8> = env.inner_data.to_vec();
        let real = envelope_terms(&dv, &iv, &inner, "run", &case["raw_muts"], &case["corrupt"], s, out);
        if let Some(real) = &real {
            out.push(
                format!("(WDataRT {} {})", c::s("envelope_reencoded_bytes_equal"), c::b(real == data)),
                if real == data { "data/envelope_bytes/equal" } else { "data/envelope_bytes/DIFFERENT" },
                serde_json::json!({"kind": "envelope_bytes", "step": rec.step}),
            );
        }
        // InterpreterData: decode, re-encode, decode again, compare the canonical views
        let same = {
            let inner2 = inner.clone();
            let data2 = data.clone();
            let (dv2, iv2) = (dv.clone(), iv.clone());
            std::panic::catch_unwind(move || {
                let d = InterpreterData::try_from_slice(&inner2).ok()?;
                let b2 = d.serialize().ok()?;
                let env2 = InterpreterDataEnvelope { versions: Versions { data_version: dv2, interpreter_version: iv2 }, inner_data: b2.into() };
                let bytes2 = env2.serialize().ok()?;
                let a = canon_data(&data2)?;
                let b = canon_data(&bytes2)?;
                Some(a == b)
            })
            .unwrap_or(None)
        };
        out.push(
            format!("(WDataRT {} {})", c::s("interpreter_data"), c::b(same == Some(true))),
            &format!("data/interpreter_data/{}", match same { Some(true) => "same", Some(false) => "DIFFERENT", None => "UNREADABLE" }),
            serde_json::json!({"kind": "data_rt", "step": rec.step, "inner_len": inner.len()}),
        );
    }
}

fn main() {
    quiet_panics();
    let stdin = std::io::stdin();
    for line in stdin.lock().lines() {
        let line = match line {
            Ok(l) => l,
            Err(_) => break,
        };
        if line.trim().is_empty() {
            continue;
        }
        let case: J = match serde_json::from_str(&line) {
            Ok(cs) => cs,
            Err(e) => {
                println!("{}", serde_json::json!({"error": format!("bad case: {e}")}));
                continue;
            }
        };
        let mut out = Out { terms: vec![], classes: vec![], classes_extra: vec![], infos: vec![] };
        match case["kind"].as_str().unwrap_or("") {
            "varint" => do_varint(&case, &mut out),
            "callmaps" => do_callmaps(&case, &mut out),
            "envelope" => do_envelope(&case, &mut out),
            "data" => do_data(&case, &mut out),
            k => {
                println!("{}", serde_json::json!({"error": format!("unknown case kind {k:?}")}));
                continue;
            }
        }
        println!("{}", serde_json::json!({"coq": out.terms, "classes": out.classes, "classes_extra": out.classes_extra, "info": out.infos}));
    }
}
