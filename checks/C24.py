"""C24 -- lens selection agrees with plain JSON selection.

Cases are (JSON target, lens text, scalar environment) triples; the harness driver `lens` runs each
through the real `air::execute_air` with a purpose-built script and prints the observation as a Coq
term of `LensCases.case_t`; Coq then evaluates the model (`check_case`), the property oracle
(`c24_oracle`, plain navigation only) and the deviation detector (`deviation_free`)."""
import json
import re

import vlib

PID = "C24"
MODEL_TARGETS = ["model/LensCases.vo"]
HARNESS_BINS = ["lens"]
RULE = ("a case is one (target, lens, scalar environment) triple run through the real execute_air; target = JSON value in a scalar "
        "or fold iterator, canon stream, or canon stream map; quick: random structured values with paths derived from the value's "
        "own structure (valid) or ending in a probe accessor (missing field, index out of range, field on array, index on object, "
        "accessor on an atom, scalar-held index/key of every JSON type, uninitialised / undefined scalar), `.length` on arrays and "
        "non-arrays; thorough adds ALL values of size <= 4 over atoms {1,\"s\"} and keys {a,b,c} x ALL paths of length <= 3 over "
        "{.[0] .[1] .a .b .[ki] .[ks]} (ki=1, ks=\"a\"; paths whose first accessor already fails are continued by one accessor only), all canon streams of <= 2 elements of size <= 2 x paths of length <= 2, all canon maps of "
        "<= 2 pairs x paths of length <= 2; distinct = distinct (target, lens, environment) triples whose target is a container "
        "(array, object, stream, map)")
PARTIAL = [
    "canon maps: the reading 'an absent key is an empty group navigated like any other' is REFUTED for the code "
    "(C24_canon_map_full_refuted: `#%m.$.nokey.[0]` gives [] instead of an error); proved instead: C24_canon_map (exact behaviour) "
    "and C24_canon_map_partial (full reading when the key is present or nothing follows it)",
    "canon maps: a key held by a fold iterator is always refused (C24_canon_map_iterable_key) although the same key in a plain scalar is accepted",
    "tetraplets / provenance attached to a selection are not part of this model (C17)",
    "the lambda lexer/parser is not modelled: lenses reach the model as the syntax tree the real parser produced",
]
ASSUMPTIONS = [
    "a LambdaError variant is recognised by the fixed parts of its #[error] message (tied to the source by C24_source_tie: "
    "lambda_error_messages_agree); payloads of errors are not compared",
    "a run that succeeds without requesting the final call is read as the join behaviour of `call` on VariableNotFound",
    "JSON numbers: integers in [-2^63, 2^64-1] are JInt, everything else is JFloat carrying serde_json's text; floats are only compared as text",
]
HEADER = "From Aqua Require Import Base Json Air Lens LensCases.\nOpen Scope N_scope.\n"
KNOWN_KEYS = {
    "absent": "canon-map-absent-key-rest-ignored",
    "iterable": "canon-map-iterable-key-refused",
}

FIELD_RE = re.compile(r"^[A-Za-z_][A-Za-z0-9_-]*$")          # what a lens can spell (ASCII only: the lexer panics on non-ASCII)
LIT_KEY_RE = re.compile(r"^[A-Za-z0-9_ -]*$")

# ------------------------------------------------------------------------------------------------
# exhaustive small worlds (thorough)

_SMALL = {}
SMALL_ATOMS = [1, "s"]
SMALL_KEYS = ["a", "b", "c"]


def compositions(n, k):
    """k positive integers summing to n."""
    if k == 1:
        if n >= 1:
            yield (n,)
        return
    for first in range(1, n - k + 2):
        for rest in compositions(n - first, k - 1):
            yield (first,) + rest


def small_values(n):
    """All values of json_size exactly n over SMALL_ATOMS; object keys are the first k of SMALL_KEYS."""
    if n in _SMALL:
        return _SMALL[n]
    out = []
    if n == 1:
        out = list(SMALL_ATOMS) + [[], {}]
    else:
        for k in range(1, min(n - 1, len(SMALL_KEYS)) + 1):
            for comp in compositions(n - 1, k):
                combos = [[]]
                for size in comp:
                    combos = [c + [v] for c in combos for v in small_values(size)]
                for c in combos:
                    out.append(list(c))
                    out.append({SMALL_KEYS[i]: c[i] for i in range(k)})
    _SMALL[n] = out
    return out


SMALL_ACC = [".[0]", ".[1]", ".a", ".b", ".[ki]", ".[ks]"]
SMALL_ENV = [["ki", "value", 1], ["ks", "value", "a"]]


def small_paths(maxlen):
    paths = []
    level = [""]
    for _ in range(maxlen):
        level = [p + a for p in level for a in SMALL_ACC]
        paths.extend(level)
    return paths


def _follow(v, a):
    """Generator-side helper (pruning only): the value one small accessor leads to, or None."""
    if a in (".[0]", ".[1]", ".[ki]"):
        i = 0 if a == ".[0]" else 1
        return v[i] if isinstance(v, list) and i < len(v) else None
    return v.get("a" if a != ".b" else "b") if isinstance(v, dict) else None


def small_paths_pruned(v):
    paths = []
    for a in SMALL_ACC:
        paths.append(a)
        ok = _follow(v, a) is not None
        for b in SMALL_ACC:
            paths.append(a + b)
            if ok:
                paths.extend(a + b + c for c in SMALL_ACC)
    return paths


def env_for(lens, env):
    return [e for e in env if ("[" + e[0] + "]") in lens]


def exhaustive_cases():
    cases = []
    values = [v for n in range(1, 5) for v in small_values(n)]
    for v in values:
        # every path of length <= 3, except that a path whose FIRST accessor cannot be followed is not
        # continued for two more accessors (one more is kept: "the rest is not looked at")
        for p in small_paths_pruned(v):
            cases.append({"target": {"kind": "scalar", "value": v}, "lens": ".$" + p, "env": env_for(p, SMALL_ENV), "gen": "exh/scalar"})
        cases.append({"target": {"kind": "scalar", "value": v}, "lens": ".length", "env": [], "gen": "exh/length"})
    p2 = small_paths(2)
    elems = [v for n in range(1, 3) for v in small_values(n)]
    streams = [[]] + [[a] for a in elems] + [[a, b] for a in elems for b in elems]
    for s in streams:
        for p in p2:
            cases.append({"target": {"kind": "stream", "elems": s}, "lens": ".$" + p, "env": env_for(p, SMALL_ENV), "gen": "exh/stream"})
        cases.append({"target": {"kind": "stream", "elems": s}, "lens": ".length", "env": [], "gen": "exh/length"})
    kv = [[k, v, "lit"] for k in ("a", 1) for v in small_values(1)]
    maps = [[]] + [[a] for a in kv] + [[a, b] for a in kv for b in kv]
    for m in maps:
        for p in p2:
            cases.append({"target": {"kind": "map", "pairs": m}, "lens": ".$" + p, "env": env_for(p, SMALL_ENV), "gen": "exh/map"})
        cases.append({"target": {"kind": "map", "pairs": m}, "lens": ".length", "env": [], "gen": "exh/length"})
    return cases


# ------------------------------------------------------------------------------------------------
# random structured worlds

ATOMS = [None, True, False, 0, 1, -1, 7, 2.5, 1.0, 1e300, -0.0, 1.5e-7, 4294967295, 4294967296, 2 ** 63, 2 ** 64 - 1, -2 ** 63,
         "", "a", "x y", "0", 'q"uote', "é", "back\\slash", "two\nlines"]
KEYS = ["a", "b", "c_1", "d-e", "A1", "length", "", "0", "x y", "é", 'q"']
BAD_ACCESSORS = [None, True, False, 2.5, 1.0, -1, -2 ** 63, 4294967296, 2 ** 63, 2 ** 64 - 1, 1e300, [0], [], {"a": 0}, {}]


def rand_value(rng, depth):
    r = rng.random()
    if depth <= 0 or r < 0.25:
        return rng.choice(ATOMS)
    n = rng.choice([0, 1, 1, 2, 2, 3, 4])
    if r < 0.62:
        return [rand_value(rng, depth - 1) for _ in range(n)]
    ks = rng.sample(KEYS, n)
    return {k: rand_value(rng, depth - 1) for k in ks}


class PathBuilder:
    def __init__(self, rng):
        self.rng = rng
        self.text = ""
        self.env = []

    def scalar(self, val, mode=None):
        name = "k%d" % len(self.env)
        if mode is None:
            mode = "iter" if self.rng.random() < 0.15 else "value"
        self.env.append([name, mode, val])
        return name

    def index(self, i, allow_scalar=True):
        r = self.rng.random()
        if allow_scalar and r < 0.35:
            self.text += ".[%s]" % self.scalar(i)
        elif r < 0.45:
            self.text += "[%d]" % i          # the dot is optional before a bracket
        else:
            self.text += ".[%d]" % i

    def field(self, k, allow_scalar=True):
        if FIELD_RE.match(k) and (not allow_scalar or self.rng.random() < 0.65):
            self.text += "." + k
        else:
            self.text += ".[%s]" % self.scalar(k)

    def raw(self, t):
        self.text += t


def walk_valid(rng, pb, v, stop_p=0.3):
    """Extend pb with a valid path inside v; returns the value reached."""
    while True:
        if isinstance(v, list) and v and rng.random() > stop_p:
            i = rng.randrange(len(v))
            pb.index(i)
            v = v[i]
        elif isinstance(v, dict) and v and rng.random() > stop_p:
            k = rng.choice(sorted(v.keys()))
            pb.field(k)
            v = v[k]
        else:
            return v


def probe(rng, pb, v):
    """Append one accessor chosen without regard to (or against) the shape of v."""
    kind = rng.choice(["missing_field", "missing_field_scalar", "oob", "oob_scalar", "big_index", "field_any", "index_any",
                       "bad_type", "bad_type", "uninit", "notfound", "string_digit", "neg_index", "float_index"])
    if kind == "missing_field":
        pb.raw(".zz")
    elif kind == "missing_field_scalar":
        pb.raw(".[%s]" % pb.scalar(rng.choice(["zz", "", "0", "1"])))
    elif kind == "oob":
        pb.raw(".[%d]" % (len(v) if isinstance(v, list) else rng.choice([0, 1, 5])))
    elif kind == "oob_scalar":
        pb.raw(".[%s]" % pb.scalar(len(v) + rng.choice([0, 1, 100]) if isinstance(v, list) else 0))
    elif kind == "big_index":
        pb.raw(".[%d]" % rng.choice([4294967295, 4294967294, 65536]))
    elif kind == "field_any":
        pb.raw("." + rng.choice(["a", "b", "length", "c_1"]))
    elif kind == "index_any":
        pb.raw(".[%d]" % rng.choice([0, 1, 2]))
    elif kind == "bad_type":
        pb.raw(".[%s]" % pb.scalar(rng.choice(BAD_ACCESSORS)))
    elif kind == "uninit":
        pb.raw(".[%s]" % pb.scalar(rng.choice([0, "a"]), mode="uninit"))
    elif kind == "notfound":
        pb.raw(".[%s]" % pb.scalar(rng.choice([0, "a"]), mode="notfound"))
    elif kind == "neg_index":                                   # -i where i is a valid index
        pb.raw(".[%s]" % pb.scalar(-rng.randrange(1, len(v)) if isinstance(v, list) and len(v) > 1 else -1))
    elif kind == "float_index":                                 # i.0 where i is a valid index
        pb.raw(".[%s]" % pb.scalar(float(rng.randrange(len(v))) if isinstance(v, list) and v else 0.0))
    elif kind == "string_digit":
        pb.raw(".[%s]" % pb.scalar(rng.choice(["0", "1"])))     # a string that looks like an index
    if rng.random() < 0.3:                                      # something after the (probable) failure
        pb.raw(rng.choice([".a", ".[0]", ".[%s]" % pb.scalar(rng.choice([0, "a", None]))]))
    return "probe/" + kind


def key_via(rng, k):
    if isinstance(k, str):
        return "lit" if (LIT_KEY_RE.match(k) and rng.random() < 0.7) else "scalar"
    return "lit" if (-2 ** 63 <= k < 2 ** 63 and rng.random() < 0.7) else "scalar"


MAP_KEYS = ["a", "b", "x y", "", "A1", "é", 0, 1, 5, -3, 4294967295, 4294967296, 2 ** 63 - 1, 2 ** 63, 2 ** 64 - 1, -2 ** 63]


def random_case(rng):
    pb = PathBuilder(rng)
    r = rng.random()
    tk = "scalar" if r < 0.62 else "iter" if r < 0.67 else "stream" if r < 0.83 else "map"
    mode = rng.choice(["valid", "valid", "probe", "probe", "length"] if tk in ("scalar", "iter") else ["valid", "valid", "probe", "probe", "probe", "length"])
    gen = tk + "/" + mode
    if tk in ("scalar", "iter"):
        v = rand_value(rng, rng.choice([1, 2, 3, 4]))
        if mode == "length":
            if rng.random() < 0.6 and not isinstance(v, list):
                v = [rand_value(rng, 1) for _ in range(rng.choice([0, 1, 3]))]
            return {"target": {"kind": tk, "value": v}, "lens": ".length", "env": [], "gen": gen}
        reached = walk_valid(rng, pb, v, stop_p=0.25 if mode == "valid" else 0.4)
        if mode == "probe" or not pb.text:
            gen = tk + "/" + probe(rng, pb, reached)
        return {"target": {"kind": tk, "value": v}, "lens": ".$" + pb.text, "env": pb.env, "gen": gen}
    if tk == "stream":
        elems = [rand_value(rng, rng.choice([0, 1, 2, 3])) for _ in range(rng.choice([0, 1, 2, 3, 4]))]
        t = {"kind": "stream", "elems": elems}
        if mode == "length":
            return {"target": t, "lens": ".length", "env": [], "gen": gen}
        if mode == "valid" and elems:
            i = rng.randrange(len(elems))
            pb.index(i)
            walk_valid(rng, pb, elems[i])
        else:
            k = rng.choice(["field", "oob", "bad_type", "string", "inner_probe", "uninit", "notfound"])
            gen = "stream/probe/" + k
            if k == "field":
                pb.raw("." + rng.choice(["a", "length", "zz"]))
            elif k == "oob":
                pb.index(len(elems) + rng.choice([0, 1, 7]))
            elif k == "bad_type":
                pb.raw(".[%s]" % pb.scalar(rng.choice(BAD_ACCESSORS)))
            elif k == "string":
                pb.raw(".[%s]" % pb.scalar(rng.choice(["0", "a", ""])))
            elif k == "uninit":
                pb.raw(".[%s]" % pb.scalar(0, mode="uninit"))
            elif k == "notfound":
                pb.raw(".[%s]" % pb.scalar(0, mode="notfound"))
            elif elems:
                i = rng.randrange(len(elems))
                pb.index(i)
                reached = walk_valid(rng, pb, elems[i], stop_p=0.5)
                probe(rng, pb, reached)
            else:
                pb.index(0)
            if rng.random() < 0.3:
                pb.raw(rng.choice([".a", ".[0]"]))
        return {"target": t, "lens": ".$" + pb.text, "env": pb.env, "gen": gen}
    # canon stream map
    pairs = []
    for _ in range(rng.choice([0, 1, 2, 3, 4, 5])):
        k = rng.choice(MAP_KEYS[:6] + MAP_KEYS if not pairs or rng.random() < 0.6 else [p[0] for p in pairs])
        pairs.append([k, rand_value(rng, rng.choice([0, 1, 2])), key_via(rng, k)])
    t = {"kind": "map", "pairs": pairs}
    if mode == "length":
        return {"target": t, "lens": ".length", "env": [], "gen": gen}

    def key_accessor(k, force_scalar_mode=None):
        if force_scalar_mode:
            pb.raw(".[%s]" % pb.scalar(k, mode=force_scalar_mode))
        elif isinstance(k, str):
            if FIELD_RE.match(k) and rng.random() < 0.6:
                pb.raw("." + k)
            else:
                pb.raw(".[%s]" % pb.scalar(k, mode="value"))
        elif 0 <= k < 2 ** 32 and rng.random() < 0.6:
            pb.raw(".[%d]" % k)
        else:
            pb.raw(".[%s]" % pb.scalar(k, mode="value"))

    present = [p[0] for p in pairs]
    if mode == "valid" and present:
        k = rng.choice(present)
        key_accessor(k)
        group = [p[1] for p in pairs if p[0] == k and type(p[0]) is type(k)]
        if rng.random() < 0.7:
            i = rng.randrange(len(group))
            pb.index(i)
            walk_valid(rng, pb, group[i])
    else:
        k = rng.choice(["absent", "absent_rest", "iterable", "bad_type", "group_oob", "group_field", "inner_probe", "uninit", "notfound",
                        "string_vs_int"])
        gen = "map/probe/" + k
        absent = rng.choice([x for x in ["zz", "nokey", 77, -9] if x not in present])
        if k == "absent":
            key_accessor(absent)
        elif k == "absent_rest":
            key_accessor(absent)
            pb.raw(rng.choice([".[0]", ".[0].a", ".zz", ".[%s]" % pb.scalar(rng.choice([0, None, "a"]))]))
        elif k == "iterable":
            key_accessor(rng.choice(present) if present else "a", force_scalar_mode="iter")
            if rng.random() < 0.5:
                pb.raw(".[0]")
        elif k == "bad_type":
            pb.raw(".[%s]" % pb.scalar(rng.choice([None, True, 2.5, 1.0, 1e300, [0], {"a": 0}])))
        elif k == "uninit":
            pb.raw(".[%s]" % pb.scalar("a", mode="uninit"))
        elif k == "notfound":
            pb.raw(".[%s]" % pb.scalar("a", mode="notfound"))
        elif k == "string_vs_int":
            # the key "5" (string) and the key 5 (number) are different keys
            kk = rng.choice(present) if present else 5
            key_accessor(str(kk) if not isinstance(kk, str) else (int(kk) if kk.isdigit() else kk + "_"))
        elif present:
            kk = rng.choice(present)
            key_accessor(kk)
            group = [p[1] for p in pairs if p[0] == kk and type(p[0]) is type(kk)]
            if k == "group_oob":
                pb.index(len(group) + rng.choice([0, 3]))
            elif k == "group_field":
                pb.raw(rng.choice([".a", ".length", ".[%s]" % pb.scalar(rng.choice(["a", "0", 2.5, None]))]))
            else:
                i = rng.randrange(len(group))
                pb.index(i)
                reached = walk_valid(rng, pb, group[i], stop_p=0.5)
                probe(rng, pb, reached)
        else:
            key_accessor(absent)
    return {"target": t, "lens": ".$" + pb.text, "env": pb.env, "gen": gen}


# a few fixed cases that must always be there (each outcome class at least once)
FIXED = [
    {"target": {"kind": "scalar", "value": {"a": [1, 2.5, {"b": None}], "c": "x"}}, "lens": ".$.a.[2].b", "env": []},
    {"target": {"kind": "scalar", "value": {"a": [1, 2.5, {"b": None}], "c": "x"}}, "lens": ".$.a.[k]", "env": [["k", "value", 1.0]]},
    {"target": {"kind": "scalar", "value": {"a": [1, 2.5, {"b": None}], "c": "x"}}, "lens": ".$.a.[k]", "env": [["k", "value", -1]]},
    {"target": {"kind": "scalar", "value": [1, 2]}, "lens": ".$.[k]", "env": [["k", "value", "0"]]},
    {"target": {"kind": "scalar", "value": {"1": 0}}, "lens": ".$.[k]", "env": [["k", "value", 1]]},
    {"target": {"kind": "scalar", "value": [1, 2]}, "lens": ".$.[4294967295]", "env": []},
    {"target": {"kind": "scalar", "value": [1, 2]}, "lens": ".$.[k]", "env": [["k", "value", 4294967296]]},
    {"target": {"kind": "scalar", "value": [1, 2]}, "lens": ".$.[k]", "env": [["k", "uninit", 0]]},
    {"target": {"kind": "scalar", "value": [1, 2]}, "lens": ".$.[k]", "env": [["k", "notfound", 0]]},
    {"target": {"kind": "scalar", "value": [1, 2]}, "lens": ".$.[9].[k]", "env": [["k", "notfound", 0]]},
    {"target": {"kind": "scalar", "value": [1, 2, 3]}, "lens": ".length", "env": []},
    {"target": {"kind": "scalar", "value": {"length": 3}}, "lens": ".length", "env": []},
    {"target": {"kind": "scalar", "value": {"length": 3}}, "lens": ".$.length", "env": []},
    {"target": {"kind": "iter", "value": {"a": [7]}}, "lens": ".$.a.[0]", "env": []},
    {"target": {"kind": "stream", "elems": [{"a": 1}, [5, 6]]}, "lens": ".$.[1].[0]", "env": []},
    {"target": {"kind": "stream", "elems": [{"a": 1}, [5, 6]]}, "lens": ".$.[2]", "env": []},
    {"target": {"kind": "stream", "elems": [{"a": 1}, [5, 6]]}, "lens": ".$.a", "env": []},
    {"target": {"kind": "stream", "elems": [{"a": 1}, [5, 6]]}, "lens": ".$.[k]", "env": [["k", "value", "a"]]},
    {"target": {"kind": "stream", "elems": []}, "lens": ".length", "env": []},
    {"target": {"kind": "map", "pairs": [["x", {"a": 1}, "lit"], [5, [5, 6], "lit"], ["x", 7, "scalar"], [2 ** 64 - 1, 8, "scalar"], [-3, 9, "scalar"]]},
     "lens": ".$.x.[0].a", "env": []},
    {"target": {"kind": "map", "pairs": [["x", {"a": 1}, "lit"], [5, [5, 6], "lit"], ["x", 7, "scalar"], [2 ** 64 - 1, 8, "scalar"], [-3, 9, "scalar"]]},
     "lens": ".$.[k]", "env": [["k", "value", 2 ** 64 - 1]]},
    {"target": {"kind": "map", "pairs": [["x", 1, "lit"]]}, "lens": ".$.nokey", "env": []},
    {"target": {"kind": "map", "pairs": [["x", 1, "lit"]]}, "lens": ".$.nokey.[3].zz", "env": []},
    {"target": {"kind": "map", "pairs": [["x", 1, "lit"]]}, "lens": ".$.[k]", "env": [["k", "iter", "x"]]},
    {"target": {"kind": "map", "pairs": [["x", 1, "lit"]]}, "lens": ".$.[k]", "env": [["k", "value", 1.5]]},
    {"target": {"kind": "map", "pairs": [["5", 1, "lit"], [5, 2, "lit"]]}, "lens": ".$.[5]", "env": []},
    {"target": {"kind": "map", "pairs": [["x", 1, "lit"], ["x", 2, "lit"], ["y", 3, "lit"]]}, "lens": ".length", "env": []},
]


def gen_cases(rng, tier, escalate=False):
    n = {"quick": 600, "thorough": 4000}[tier] * (4 if escalate else 1)
    cases = [dict(c, gen="fixed") for c in FIXED]
    for _ in range(n):
        c = random_case(rng)
        if c["lens"] != ".length" and rng.random() < 0.05:
            c["lens"] += "!"              # a final flattening sign is accepted and ignored
        cases.append(c)
    if tier == "thorough":
        cases += exhaustive_cases()
    return cases


def is_container_target(c):
    t = c["target"]
    return t["kind"] in ("stream", "map") or isinstance(t.get("value"), (list, dict))


def evaluate(cases, result, tier):
    if not cases:
        return
    outs = vlib.harness_lines("lens", [json.dumps({k: c[k] for k in ("target", "lens", "env")}) for c in cases])
    terms, owner = [], []
    dist = result["distribution"]
    for ci, o in enumerate(outs):
        c = cases[ci]
        if "error" in o:
            result["errors"].append(o["error"][:600])
            continue
        terms.append(o["coq"][0])
        owner.append(ci)
        cls = o["classes"][0]
        dist["outcome/" + cls] = dist.get("outcome/" + cls, 0) + 1
        g = "gen/" + c.get("gen", "replay")
        dist[g] = dist.get(g, 0) + 1
        result["evaluations"] += 1
        if is_container_target(c):
            result["distinct"].add(json.dumps([c["target"], c["lens"], c["env"]], sort_keys=True))
        if len(result["samples"]) < 3 and ci % 7 == 3:
            result["samples"].append({"case": c, "class": cls, "script": o["info"][0]["script"], "term": o["coq"][0][:1200]})
    if not terms:
        return
    fails, errs = vlib.coq_eval_cases("lens", HEADER, "case_t",
                                      {"model": "check_case", "oracle": "c24_oracle", "dev": "deviation_free"}, terms, shard_size=800)
    result["errors"].extend(errs)
    for i in fails["model"]:
        ci = owner[i]
        result["mismatch"].append({"case": cases[ci], "term": terms[i][:4000], "info": outs[ci]["info"][0],
                                   "what": "model/Lens.v disagrees with the implementation's observation on this case"})
    for i in fails["oracle"]:
        ci = owner[i]
        result["oracle_fail"].append({"case": cases[ci], "term": terms[i][:4000], "info": outs[ci]["info"][0], "key": None,
                                      "what": "c24_oracle is false: the implementation's selection is not what plain navigation gives"})
    # the two documented deviations on canon maps: counted on every run; reported through the
    # known-findings mechanism when /verif/known_findings.txt lists their keys
    known = {k["key"] for k in vlib.known_findings(PID)}
    for i in fails["dev"]:
        ci = owner[i]
        which = "absent" if outs[ci]["classes"][0].endswith("/ok") else "iterable"
        key = KNOWN_KEYS[which]
        dist["deviation/" + key] = dist.get("deviation/" + key, 0) + 1
        if key in known:
            result["oracle_fail"].append({"case": cases[ci], "term": terms[i][:4000], "info": outs[ci]["info"][0], "key": key,
                                          "what": "strict reading of C24 on canon maps fails (documented deviation)"})
        elif not [k for k in result["known"] if k.get("key") == key]:
            result["known"].append({"key": key, "case": cases[ci], "term": terms[i][:2000]})
