(* props/C04.v -- honest executions never hit data-consistency errors, whatever the schedule.
   Statements: model/KeepSpec.v; proofs: proofs/KeepProofs.v. *)
From Aqua Require Import Base Json Air Trace Handler Values Scalars Lens Exec RunExec ExecCases KeepSpec.
From Aqua Require Import KeepProofs.
From Aqua Require SeqLocal NetLin NetLinCases NetLinProofs.
Open Scope N_scope.
Open Scope list_scope.

(* the whole property over the model: no run of any honest history ends with a data-consistency error.
   Kept as a definition: decided by the state-level theorems below + exploration (checks/C04.py). *)
Definition C04_full : Prop := KeepSpec.C04_full.

(* state level, all inputs, any representation of content ids whose comparison decides equality:
   two call / canon states that approximate one full state merge without an error, and the merged
   state still approximates it *)
Theorem C04_state_compat_call : forall C ceqb, C04_call_compat_stmt C ceqb.
Proof. exact (fun C ceqb H => call_compat C ceqb H H). Qed.
Theorem C04_state_compat_canon : forall C ceqb, C04_canon_compat_stmt C ceqb.
Proof. exact (fun C ceqb H => canon_compat C ceqb H H). Qed.
(* at the merger functions (call, canon, ap), on any keeper: when the two states popped from the
   sliders approximate one state, try_merge_next_state_as_* returns Ok: no MergeError and no panic *)
Theorem C04_state_compat : forall C ceqb, C04_merger_compat_stmt C ceqb.
Proof. exact (fun C ceqb H => merger_compat C ceqb H H). Qed.
(* for the symbolic content ids of the executor model the premise holds *)
Theorem C04_cid_eqb_decides : ceqb_spec cid cid_eqb.
Proof. exact cid_ceqb_spec. Qed.

(* the data-consistency error set: the generated list (names, codes) is the one the model names,
   every trace-merge error variant of the sources is an [herr] of the model, and a model run ends
   with a consistency error exactly when its code is in the generated set *)
Theorem C04_codes_tie : C04_codes_tie_stmt.
Proof. exact codes_tie. Qed.
Theorem C04_codes_distinct : NoDup c04_generated_codes.
Proof. exact codes_distinct. Qed.

(* non-vacuity *)
Example C04_compat_nonvacuous :
  exists p c f : call_result string,
    p <> c /\ call_le string String.eqb p f = true /\ call_le string String.eqb c f = true /\
    merge_call_results string String.eqb p c = Ok (f, SchCurrent).
Proof.
  exists (RequestSentBy (SPeer "A")), (Executed (VRScalar "cid1")), (Executed (VRScalar "cid1")).
  repeat split; try discriminate; vm_compute; reflexivity.
Qed.
Example C04_incompatible_states_do_fail :
  merge_call_results string String.eqb (Executed (VRScalar "cid1")) (Failed "cid2") = Err IncompatibleCallResults /\
  merge_call_results string String.eqb (Executed (VRScalar "cid1")) (Executed (VRScalar "cid2")) = Err ValuesNotEqual /\
  merge_canon_results string String.eqb (CanonExecuted "c1") (CanonExecuted "c2") = Err CanonIncompatibleState.
Proof. vm_compute. repeat split; reflexivity. Qed.
Example C04_oracle_rejects_mismatch :
  code_is_consistency_error 20017 = true /\ code_is_consistency_error 20000 = true /\ code_is_consistency_error 9 = true /\
  code_is_consistency_error 0 = false /\ code_is_consistency_error 10000 = false /\ code_is_consistency_error 30000 = false.
Proof. vm_compute. repeat split; reflexivity. Qed.

(* ---- history level, straight-line scripts on several peers (model/NetLin.v: the approximation invariant) ----
   In EVERY honest history (the network of model/SeqLocal.v: start, every delivery order, duplication, re-delivery,
   delayed answers) of a straight-line script, every run returns new data and its code is not in the generated
   data-consistency error set: C04_full for this fragment (stated over SeqLocal's histories, for run1 and run2). *)
Theorem C04_linear_histories : forall svc init ts ttl,
    NetLin.lin_no_consistency_error svc init ts ttl RunExec.run1 /\
    NetLin.lin_no_consistency_error svc init ts ttl ExecStreams.run2.
Proof.
  intros. split; apply NetLinProofs.no_consistency_error_gen; [apply NetLinProofs.run1_step | apply NetLinProofs.run2_step].
Qed.

(* non-vacuity: the ten runs of a concrete history (a caught service failure, a duplicate, a re-delivery) *)
Example C04_linear_histories_example :
  forallb (fun k =>
    match NetLin.op_outcome NetLinCases.nlx_svc "A" 0 0 ExecStreams.run2 20 NetLinCases.nlx_script
                            (NetLinCases.nlx_history k) (nth k NetLinCases.nlx_ops SeqLocal.OStart) with
    | Some (OutNewData c _ _ _ _) => negb (code_is_consistency_error c)
    | _ => false
    end) (seq 0 10) = true.
Proof. vm_compute. reflexivity. Qed.

Print Assumptions C04_state_compat_call.
Print Assumptions C04_state_compat_canon.
Print Assumptions C04_state_compat.
Print Assumptions C04_cid_eqb_decides.
Print Assumptions C04_codes_tie.
Print Assumptions C04_codes_distinct.
Print Assumptions C04_linear_histories.
