"""C08 -- merge results do not depend on delivery order or grouping.

Two levels:
  handler   lib/mergegen.py cases through the `handler` driver (the real TraceHandler): every round is compared with
            model/Handler.v (MergeCases.check_rounds) and the oracle MergeCases.c08_oracle is evaluated in Coq on the
            implementation's result traces (both orders of two states / two traces agree up to senders and generation
            numbers and carry the same knowledge, both groupings of three states agree, definedness does not depend on the order);
  history   the driver `merge08`: an honest history is run and drained, D = every distinct data produced on the way;
            sub-multisets of D are merged at an observer (fresh peer, empty previous data) and at participants (previous
            data = their own final data) in all permutations (<= 4 items) / several permutations (beyond) and three
            groupings (left fold; pairs merged at a second observer first; the tail merged at the second observer first);
            knowledge (executed / failed call ids, unused value ids, executed canon ids carried by the inputs) must be equal,
            stream-free scripts must give traces identical up to the sender inside pending states (when a grouping reaches a
            participant through the second observer, whose own pending requests travel with its data, the executed / failed
            states in trace order), scripts with streams the same multiset of states up to senders / generation numbers /
            fold lores; no order may fail where another merges."""
import airgen
import exec_common
import merge_common
import mergegen
import vlib

PID = "C08"
MODEL_TARGETS = ["model/MergeCases.vo"]
HARNESS_BINS = ["handler", "merge08"]
RULE = ("handler level: as for C07 (kind 1: pairs of the 14 call / 4 canon / 3 ap states: quick a random half of the call pairs with a random third "
        "state, thorough all triples; kind 2: one trace as previous and as current data; kind 3: two traces of one script at "
        "different progress in both orders, then the two merges merged); evaluations = rounds of the real TraceHandler; "
        "history level: a case is one honest history (airgen scripts over 3-4 peers: par, xor, scalar and stream folds, "
        "canon, recursive stream folds, failing services; schedules with duplication / re-delivery / batched results) with 6 "
        "merge plans (observer and participant; 2-4 items with all permutations, all items with 5 permutations; each of the "
        "first three orders also in two groupings); evaluations = runs of execute_air (history + merges); distinct "
        "non-trivial = (script, schedule) of histories that produced at least 3 distinct data and whose plans merged")
PARTIAL = [
    "C08_full (every set of data of an honest history, every two merge plans, over RunExec.run) is a Definition only: it "
    "needs the approximation invariant of DESIGN appendix B (all data of one history approximate one full trace), not proved",
    "proved unconditionally for every content-id type with a correct equality: commutativity of the call / canon join up to "
    "the sender of a pending request AND the generation of a stream value (the reading 'up to the sender only' is refuted: "
    "C08_call_join_comm_mod_sender_refuted, and holds without stream values), same error variant in both orders, "
    "associativity with definedness, defined iff the two states have an upper bound in the information order, least upper "
    "bound, congruence; ap states: previous wins, defined iff it carries one generation (naive commutativity refuted on "
    "malformed ap states); at the level of the TraceHandler: on two traces of call / canon / ap states under nested par states "
    "for which the pointwise join is defined (then they have the same shape) the handler computes that join, par sizes rebuilt "
    "by ParFSM included (C08_replay_join_partial), hence swapping previous and current data changes senders / generations "
    "only (C08_replay_comm_partial); the pointwise join is commutative / associative up to those (C08_tjoin_*)",
    "traces of DIFFERENT shape (one peer ahead in the left branch, another in the right; folds with different numbers of "
    "iterations) and fold states are covered by the correspondence and the history-level oracle only",
    "KNOWN FINDING pending-request-then-lens-error: a remote call emits RequestSentBy while an argument is unknown and nothing once "
    "the argument is known and its lens fails; under an xor with a non-call right branch the later data then meet the stale call "
    "state (TraceError incompatible states) in one delivery order and merge in the other",
    "KNOWN FINDING stream-fold-cursor-hole: with a recursive stream fold (the body appends to the folded stream) the number "
    "of fold iterations in the merged trace depends on the delivery order (one iteration, with the states under it, is lost "
    "in some orders): the property allows only the ORDER of iterations to differ",
]
ASSUMPTIONS = [
    "content ids are compared by a correct equality (ceqb_correct); the correspondence instantiates them with the CID text",
    "services are deterministic; the host follows air/README.md; the observer is a peer no script mentions",
    "results a participant itself creates while merging (a canon addressed to it that it can now execute) are execution, "
    "not merging: knowledge is compared on the results the merged data carry",
]
KNOWN_KEY = "stream-fold-cursor-hole"


def history_profile(rng, recursive=None):
    kw = dict(peers=rng.choice([3, 3, 4]), depth=rng.choice([3, 3, 4]))
    r = rng.random()
    if recursive:
        kw.update(recursive_streams=True, stream_folds=True, streams=True)
    elif r < 0.35:
        kw.update(streams=False, canon=False, stream_folds=False, par_weight=rng.choice([3, 5, 7]))
    elif r < 0.65 or recursive is False:
        kw.update(recursive_streams=False)
    return airgen.Profile(**kw)


def keys64(rng):
    return [rng.randrange(1 << 30) for _ in range(64)]


def plans_for(rng, peers):
    ps = []
    for _ in range(2):
        ps.append({"keys": keys64(rng), "take": rng.choice([2, 3, 3, 4, 4]), "at": "observer"})
    ps.append({"keys": keys64(rng), "take": 0, "perms": [keys64(rng) for _ in range(3)], "at": "observer"})
    ps.append({"keys": keys64(rng), "take": rng.choice([2, 3, 4]), "at": "participant", "who": rng.randrange(peers)})
    ps.append({"keys": keys64(rng), "take": rng.choice([3, 4]), "at": "participant", "who": rng.randrange(peers)})
    ps.append({"keys": keys64(rng), "take": 0, "perms": [keys64(rng) for _ in range(3)], "at": "participant", "who": rng.randrange(peers)})
    return ps


def history_case(rng, prof, gen):
    c = exec_common.history_case(rng, prof, n_ops=rng.choice([8, 14, 24]))
    c.pop("oracles", None)
    c["level"] = "history"
    c["stream_free"] = merge_common.stream_free(c["script"])
    c["plans"] = plans_for(rng, prof.peers)
    c["gen"] = gen
    return c


def gen_cases(rng, tier, escalate=False):
    cases = []
    for c in mergegen.gen_cases(rng, tier, escalate):
        c["level"] = "handler"
        cases.append(c)
    n_hist = {"quick": 260, "thorough": 4000}[tier] * (3 if escalate else 1)
    for _ in range(n_hist):
        cases.append(history_case(rng, history_profile(rng), "airgen"))
    # a separate stream of recursive stream folds (known finding stream-fold-cursor-hole)
    for _ in range({"quick": 40, "thorough": 600}[tier]):
        prof = history_profile(rng, recursive=True)
        c = history_case(rng, prof, "airgen/recursive-stream-folds")
        cases.append(c)
    return cases


def classify(case, failure):
    """key of the known finding this failure is an instance of, or None (= a violation)"""
    if failure.get("key") in ("states-differ", "knowledge-differs") and merge_common.recursive_stream_folds(case.get("script", "")):
        return KNOWN_KEY
    if failure.get("key") == "order-dependent-failure" and "incompatible states: 'Call(RequestSentBy(" in failure.get("what", ""):
        return "pending-request-then-lens-error"
    return None


def evaluate(cases, result, tier):
    handler = [c for c in cases if c.get("level") == "handler"]
    merge_common.evaluate_handler(handler, result, "c08_oracle", "C08", "C08 on traces")
    hist = [c for c in cases if c.get("level", "history") == "history"]
    if not hist:
        return
    import json
    keep = ("script", "peers", "init", "services", "ops", "stream_free", "plans", "particle_id")
    outs = vlib.harness_lines("merge08", [json.dumps({k: c[k] for k in keep if k in c}) for c in hist], timeout=2400)
    dist = result["distribution"]

    def bump(k, n=1):
        dist[k] = dist.get(k, 0) + n

    for c, o in zip(hist, outs):
        if "error" in o:
            result["errors"].append(str(o["error"])[:600])
            continue
        result["evaluations"] += int(o.get("runs", 0))
        bump("history/histories")
        bump("history/merge plans evaluated (orders x groupings)", int(o.get("merges", 0)))
        bump("history/" + ("stream-free" if c.get("stream_free") else
                           "recursive stream fold" if merge_common.recursive_stream_folds(c["script"]) else "streams"))
        bump("history/data items per history: %s" % ("1-2" if o.get("data_items", 0) <= 2 else "3-6" if o.get("data_items", 0) <= 6 else "7+"))
        if not o.get("quiescent", True):
            bump("history/not quiescent after the drain")
        if o.get("history_failed"):
            bump("history/a run of the history itself failed (not C08's business)")
        for cl in o.get("classes", []):
            bump("history/plan " + cl.rsplit(":", 1)[0] + ":" + ("<=4 items" if cl.rsplit(":", 1)[1] in "01234" else "5+ items"))
        if o.get("data_items", 0) >= 3 and any(cl.split(":")[1] == "all-merge" for cl in o.get("classes", [])):
            result["distinct"].add(c["script"] + "|" + json.dumps(c["ops"]))
        for f in o.get("oracle_failures", []):
            key = classify(c, f)
            bump("history/oracle " + f.get("key", "?") + (" (known: %s)" % key if key else ""))
            plan = f.get("step", 0)
            small = dict(c, plans=[c["plans"][plan]] if isinstance(plan, int) and plan < len(c["plans"]) else c["plans"])
            result["oracle_fail"].append({"case": small, "detail": f, "key": key,
                                          "what": "C08 oracle false on the implementation: %s" % f.get("what", "")[:600]})
        if len([s for s in result["samples"] if s.get("level") == "history"]) < 1 and o.get("data_items", 0) >= 4:
            result["samples"].append({"level": "history", "case": {k: c[k] for k in ("script", "peers", "ops")},
                                      "info": o.get("info", [])[:2]})
