(* ForgeExecProofs.v -- proofs of the "use" half of C14 (model/ForgeExec.v) over model/Exec.v.
   No proof looks inside the record [ctx]. *)
From Coq Require Import Lia.
From Aqua Require Import Base Json Air Trace Handler Values Scalars Lens Exec RunExec ExecStreams ForgeExec.
Open Scope N_scope.
Open Scope list_scope.

(* verify_call: passes exactly when both stored parameters equal the instruction's *)
Lemma verify_call_spec ah t si :
  (params_match ah t si = true /\ verify_call ah t (si_arg_hash si) (si_tetraplet si) = POk tt) \/
  (params_match ah t si = false /\
   exists p, verify_call ah t (si_arg_hash si) (si_tetraplet si) = PErr (EUncatch (UInstructionParametersMismatch p))).
Proof.
  unfold params_match, verify_call.
  destruct (cid_eqb ah (si_arg_hash si)); cbn [negb andb].
  - destruct (tetraplet_eqb t (si_tetraplet si)); cbn [negb].
    + left. split; reflexivity.
    + right. split; [reflexivity|]. eexists. reflexivity.
  - right. split; [reflexivity|]. eexists. reflexivity.
Qed.

(* resolve_service_info fails only uncatchably *)
Lemma resolve_err_uncatchable x c e : resolve_service_info x c = PErr e -> exists u, e = EUncatch u.
Proof.
  unfold resolve_service_info.
  repeat match goal with
         | |- context [if ?b then _ else _] => destruct b
         | |- context [match ?v with _ => _ end] => destruct v
         end; intros H; try discriminate; injection H as <-; eexists; reflexivity.
Qed.

(* populate_context_from_data on a result that carries a service-result CID: unless it ends
   uncatchably (or the model gives up), the stored parameters were compared and are equal *)
Definition vr_cid (v : value_ref cid) : option cid :=
  match v with VRScalar c => Some c | VRStream c _ => Some c | VRUnused _ => None end.

Lemma populate_checked x v ah t pos src out c :
  vr_cid v = Some c ->
  match populate_from_data x v ah t pos src out with
  | POk _ | PErr (ECatch _) => exists si, resolve_service_info x c = POk si /\ params_match ah t si = true
  | _ => True
  end.
Proof.
  intros Hc. unfold populate_from_data.
  destruct out as [sv|sv|], v as [c0|c0 g|c0]; cbn [vr_cid] in Hc; try discriminate; try exact I;
    injection Hc as ->.
  - destruct (resolve_service_info x c) as [si|e|s|w] eqn:Er; cbn [pbind].
    + destruct (verify_call_spec ah t si) as [(Hm & ->)|(Hm & p & ->)]; cbn [pbind]; [|exact I].
      destruct (set_scalar_value x (v_name sv) _) as [x1|[e|u]|s|w]; try exact I; exists si; split; [reflexivity|exact Hm|reflexivity|exact Hm].
    + destruct (resolve_err_uncatchable _ _ _ Er) as (u & ->). exact I.
    + exact I.
    + exact I.
  - destruct (resolve_service_info x c) as [si|e|s|w] eqn:Er; cbn [pbind].
    + destruct (verify_call_spec ah t si) as [(Hm & ->)|(Hm & p & ->)]; cbn [pbind]; [|exact I].
      destruct (add_stream_value x (v_name sv) _ _ _) as [x1|[e|u]|s|w]; try exact I; exists si; split; [reflexivity|exact Hm|reflexivity|exact Hm].
    + destruct (resolve_err_uncatchable _ _ _ Er) as (u & ->). exact I.
    + exact I.
    + exact I.
Qed.

Lemma C14_use_bound : C14_use_bound_stmt.
Proof.
  intros x met pos src t ah out r sd c H Hc Hg.
  destruct met as [s|v|fc]; cbn [met_cid] in Hc; try discriminate.
  - (* Executed *)
    assert (vr_cid v = Some c) as Hv by (destruct v; [exact Hc|exact Hc|discriminate]).
    pose proof (populate_checked x v ah t pos src out c Hv) as P.
    unfold handle_prev_state in H.
    destruct (populate_from_data x v ah t pos src out) as [x1|[e|u]|s|w]; injection H as <- _; cbn [goes_on] in Hg;
      try discriminate; exact P.
  - (* Failed *)
    injection Hc as ->. unfold handle_prev_state in H.
    destruct (resolve_service_info x c) as [si|e|s|w] eqn:Er.
    + destruct (verify_call_spec ah t si) as [(Hm & Ev)|(Hm & p & Ev)]; rewrite Ev in H.
      * exists si. split; [reflexivity|exact Hm].
      * injection H as <- _. discriminate.
    + destruct (resolve_err_uncatchable _ _ _ Er) as (u & ->). injection H as <- _. discriminate.
    + injection H as <- _. discriminate.
    + injection H as <- _. discriminate.
Qed.

Lemma C14_use_failed : C14_use_failed_stmt.
Proof.
  intros x fc pos src t ah out e x' sd H. unfold handle_prev_state in H.
  destruct (resolve_service_info x fc) as [si|e0|s|w] eqn:Er.
  - destruct (verify_call_spec ah t si) as [(Hm & Ev)|(Hm & p & Ev)]; rewrite Ev in H; [|discriminate].
    destruct (si_value si) as [| | | | | |kvs]; try discriminate.
    destruct (obj_get "ret_code" kvs) as [[| | | | | |]|]; try discriminate.
    destruct (obj_get "message" kvs) as [[| | | | | |]|]; try discriminate.
    match type of H with context [if ?b then _ else _] => destruct b end; [|discriminate].
    injection H as <- _ _. eexists. eexists. reflexivity.
  - destruct (resolve_err_uncatchable _ _ _ Er) as (u & ->). discriminate.
  - discriminate.
  - discriminate.
Qed.

Lemma C14_use_mismatch : C14_use_mismatch_stmt.
Proof.
  intros x met pos src t ah out c si Hc Hk Er Hm.
  destruct (verify_call_spec ah t si) as [(Hm' & _)|(_ & p & Ev)]; [congruence|].
  exists p.
  destruct met as [s|v|fc]; cbn [met_cid] in Hc; try discriminate.
  - destruct v as [c0|c0 g|c0]; cbn [met_cid] in Hc; try discriminate; injection Hc as ->;
      destruct out as [sv|sv|]; cbn [kind_fits] in Hk; try discriminate;
      unfold handle_prev_state, populate_from_data; rewrite Er; cbn [pbind]; rewrite Ev; cbn [pbind]; reflexivity.
  - injection Hc as ->. unfold handle_prev_state. rewrite Er, Ev. reflexivity.
Qed.

Lemma C14_use_kind : C14_use_kind_stmt.
Proof.
  intros x v pos src t ah out Hk. unfold handle_prev_state, populate_from_data.
  destruct v, out; cbn [kind_fits] in Hk; try discriminate; reflexivity.
Qed.

Lemma C14_use_call : C14_use_call_stmt.
Proof.
  intros x text tr args out t vals tets h' met pos src u x' sd Ht Ho Ha Hm Hp.
  unfold exec_call. rewrite Ht. cbn [pbind]. rewrite Ho. cbn [pbind].
  unfold resolved_call_execute. rewrite Ha. unfold with_handler. rewrite Hm. cbn [fst snd].
  rewrite Hp. cbn [is_joinable]. reflexivity.
Qed.

Lemma C14_use_run : C14_use_run_stmt.
Proof. intros esi fin fuel i u x H. unfold run. rewrite H. reflexivity. Qed.

Lemma C14_use_code : C14_use_code_stmt.
Proof. intros param. split; vm_compute; reflexivity. Qed.

Lemma C14_unused_unchecked : C14_unused_unchecked_stmt.
Proof. intros x c pos src t ah. reflexivity. Qed.

Lemma tetraplet_eqb_eq a b : tetraplet_eqb a b = true <-> a = b.
Proof.
  unfold tetraplet_eqb. rewrite !andb_true_iff, !String.eqb_eq. destruct a, b; cbn. split.
  - intros (((-> & ->) & ->) & ->). reflexivity.
  - intros [= -> -> -> ->]. auto.
Qed.

Lemma C14_use_canon_bound : C14_use_canon_bound_stmt.
Proof.
  intros k x p c x' H. unfold handle_canon_executed in H.
  destruct (resolve_peer_id_to_string x p) as [peer|e|s|w]; cbn [lift] in H; try discriminate.
  destruct (negb (cid_mem c (cs_canon_results (x_cids x)))); [discriminate|].
  destruct c as [| | | | |tc vcs|]; try discriminate.
  destruct (negb (cid_mem tc (cs_tetraplets (x_cids x)))); [discriminate|].
  destruct tc as [|t| | | | |]; try discriminate.
  unfold verify_canon in H. destruct (tetraplet_eqb (canon_tetraplet peer) t) eqn:E; cbn [lift] in H; [|discriminate].
  apply tetraplet_eqb_eq in E. subst t. exists peer, vcs. split; reflexivity.
Qed.

Lemma C14_use_canon_mismatch : C14_use_canon_mismatch_stmt.
Proof.
  intros k x p peer t vcs Hp Hr Ht Hne. unfold handle_canon_executed. rewrite Hp. cbn [lift]. rewrite Hr, Ht. cbn [negb].
  unfold verify_canon. destruct (tetraplet_eqb (canon_tetraplet peer) t) eqn:E.
  - apply tetraplet_eqb_eq in E. congruence.
  - reflexivity.
Qed.

Lemma C14_use_canon : C14_use_canon_stmt.
Proof. exact (conj C14_use_canon_bound C14_use_canon_mismatch). Qed.

Lemma forge_exec_source_ok : forge_exec_source_agrees = true.
Proof. vm_compute. reflexivity. Qed.
