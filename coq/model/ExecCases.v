(* ExecCases.v -- one real run of `air::execute_air` (inputs decoded and canonicalised by the
   harness, harness/src/bin/exec.rs) against the executor model. *)
From Aqua Require Import Base Json Air Trace Handler Values Scalars Lens Exec RunExec ExecStreams.
Open Scope N_scope.
Open Scope list_scope.

Record eobs := {
  eo_kind : N;                      (* 0 new data; 1 previous data returned byte for byte; 2 panic; 3 empty data *)
  eo_code : Z;
  eo_trace : list (state cid);
  eo_lcid : N;
  eo_next : list string;
  eo_requests : list (N * request);
  eo_signed : list cid;             (* cids the output trace attributes to the current peer (verification.rs rule) *)
  eo_cids : cid_state
}.

Record ecase := { ec_input : run_input; ec_obs : eobs }.
Definition case_t := ecase.

Definition fuel : nat := 4000.

(* set / multiset comparisons *)
Definition subset_str (a b : list string) : bool := forallb (fun x => existsb (String.eqb x) b) a.
Definition set_eq_str (a b : list string) : bool := subset_str a b && subset_str b a.
Definition subset_cid (a b : list cid) : bool := forallb (fun x => cid_mem x b) a.
Definition set_eq_cid (a b : list cid) : bool := subset_cid a b && subset_cid b a.
Fixpoint remove_one (c : cid) (l : list cid) : option (list cid) :=
  match l with
  | [] => None
  | x :: r => if cid_eqb c x then Some r else option_map (cons x) (remove_one c r)
  end.
Fixpoint multiset_eq_cid (a b : list cid) : bool :=
  match a with
  | [] => match b with [] => true | _ => false end
  | x :: r => match remove_one x b with Some b' => multiset_eq_cid r b' | None => false end
  end.

Definition request_eqb (a b : request) : bool :=
  String.eqb (rq_service a) (rq_service b) && String.eqb (rq_function a) (rq_function b) &&
  list_eqb json_eqb (rq_args a) (rq_args b) &&
  list_eqb (list_eqb tetraplet_eqb) (rq_tetraplets a) (rq_tetraplets b).

Definition cid_state_eq (a b : cid_state) : bool :=
  set_eq_cid (cs_values a) (cs_values b) && set_eq_cid (cs_tetraplets a) (cs_tetraplets b) &&
  set_eq_cid (cs_canon_elems a) (cs_canon_elems b) && set_eq_cid (cs_canon_results a) (cs_canon_results b) &&
  set_eq_cid (cs_services a) (cs_services b).

Definition model_outcome (c : case_t) : outcome := run2 fuel (ec_input c).

(* An id whose content the harness could not resolve (COpaque) cannot be compared with the content the model
   computes.  It happens when a call's arguments differ between the run that requested it and the run that
   recorded its result (e.g. a `%last_error%` argument): the stored argument hash then has no known preimage.
   Such inputs are not comparable; they are counted through [is_supported]. *)
Fixpoint cid_opaque (c : cid) : bool :=
  match c with
  | COpaque _ => true
  | CService a b d => cid_opaque a || cid_opaque b || cid_opaque d
  | CCanonElem a b p => cid_opaque a || cid_opaque b || match p with Some (_, q) => cid_opaque q | None => false end
  | CCanonResult t vs => cid_opaque t || (fix go (l : list cid) : bool := match l with [] => false | x :: r => cid_opaque x || go r end) vs
  | _ => false
  end.
Definition state_opaque (st : state cid) : bool :=
  match st with
  | SCall (Executed (VRScalar c)) | SCall (Executed (VRStream c _)) | SCall (Executed (VRUnused c)) | SCall (Failed c) => cid_opaque c
  | SCanon (CanonExecuted c) => cid_opaque c
  | _ => false
  end.
Definition data_opaque (d : idata) : bool :=
  existsb state_opaque (d_trace d) || existsb cid_opaque (cs_services (d_cids d)) || existsb cid_opaque (cs_canon_results (d_cids d))
  || existsb cid_opaque (cs_canon_elems (d_cids d)).
(* ... but only for scripts that can make a call's arguments differ between two runs on one peer: those that read
   %last_error% / :error: (values that depend on what else happened in the run).  For every other script an
   unresolvable id stays a disagreement (e.g. an argument hash computed over something else than the arguments). *)
Definition value_is_error (v : value) : bool := match v with VError _ | VLastError _ => true | _ => false end.
Definition ap_arg_is_error (a : ap_arg) : bool := match a with AError _ | ALastError _ => true | _ => false end.
Fixpoint instr_reads_errors (i : instr) : bool :=
  match i with
  | ICall _ _ args _ => existsb value_is_error args
  | IAp _ a _ | IApMap _ _ a _ => ap_arg_is_error a
  | IMatch _ l r b | IMisMatch _ l r b => value_is_error l || value_is_error r || instr_reads_errors b
  | IFail _ f => match f with FLastError | FError => true | _ => false end
  | ISeq a b | IPar a b | IXor a b => instr_reads_errors a || instr_reads_errors b
  | INew _ _ b _ => instr_reads_errors b
  | IFoldScalar _ _ _ b l _ | IFoldStream _ _ _ b l _ | IFoldStreamMap _ _ _ b l _ =>
      instr_reads_errors b || match l with Some x => instr_reads_errors x | None => false end
  | _ => false
  end.
Definition input_opaque (c : case_t) : bool :=
  instr_reads_errors (ri_script (ec_input c)) &&
  (data_opaque (ri_prev (ec_input c)) || data_opaque (ri_cur (ec_input c))).

Definition is_supported (c : case_t) : bool :=
  negb (input_opaque c) && match model_outcome c with OutUnsupported _ => false | _ => true end.

(* full comparison; cases the stage-1 model does not support compare as equal (they are counted
   separately through [is_supported]) *)
Definition check_case (c : case_t) : bool :=
  let o := ec_obs c in
  if input_opaque c then true else
  match model_outcome c with
  | OutUnsupported _ => true
  | OutFuel => false
  | OutCrash _ => eo_kind o =? 2
  | OutPrevData code => (eo_kind o =? 1) && (code =? eo_code o)%Z
  | OutNewData code d next reqs signed =>
      (eo_kind o =? 0) && (code =? eo_code o)%Z &&
      trace_eqb cid cid_eqb (d_trace d) (eo_trace o) &&
      (d_lcid d =? eo_lcid o) &&
      set_eq_str next (eo_next o) &&
      list_eqb (pair_eqb N.eqb request_eqb) reqs (eo_requests o) &&
      multiset_eq_cid signed (eo_signed o) &&
      cid_state_eq (d_cids d) (eo_cids o)
  end.

(* component-wise verdicts, to localise a disagreement in replay files: bit i set = component i differs
   (1 kind/code, 2 trace, 4 lcid, 8 next, 16 requests, 32 signed, 64 stores) *)
Definition diff_mask (c : case_t) : N :=
  let o := ec_obs c in
  if input_opaque c then 0 else
  match model_outcome c with
  | OutNewData code d next reqs signed =>
      (if (eo_kind o =? 0) && (code =? eo_code o)%Z then 0 else 1) +
      (if trace_eqb cid cid_eqb (d_trace d) (eo_trace o) then 0 else 2) +
      (if d_lcid d =? eo_lcid o then 0 else 4) +
      (if set_eq_str next (eo_next o) then 0 else 8) +
      (if list_eqb (pair_eqb N.eqb request_eqb) reqs (eo_requests o) then 0 else 16) +
      (if multiset_eq_cid signed (eo_signed o) then 0 else 32) +
      (if cid_state_eq (d_cids d) (eo_cids o) then 0 else 64)
  | OutPrevData code => if (eo_kind o =? 1) && (code =? eo_code o)%Z then 0 else 1
  | OutCrash _ => if eo_kind o =? 2 then 0 else 1
  | OutFuel => 128
  | OutUnsupported _ => 0
  end.
