//! exec: per-run lock-step of the executor model (coq/model/Exec.v, RunExec.v, ExecCases.v).
//! A case is a history (script, peers, services, schedule); for every run of the history the real
//! inputs and outputs are decoded and canonicalised into terms of the model:
//! content ids are resolved through the CID stores into content terms, argument hashes and
//! unused-value ids through dictionaries of everything the hosts computed in this history.
//!
//! input : {"script","peers","init","services","ops","seed", "probe_steps": [..]|null}
//! output: {"coq": [ecase...], "classes": [...], "info": [...], "oracles": {...}}

use air_interpreter_cid::value_to_json_cid;
use air_interpreter_data::*;
use air_interpreter_value::JValue;
use aquah::ast2coq;
use aquah::coqfmt as c;
use aquah::oracles;
use aquah::sim::*;
use serde_json::Value as J;
use std::collections::HashMap;
use std::io::BufRead;

pub fn json_term(j: &J) -> String {
    match j {
        J::Null => "JNull".into(),
        J::Bool(b) => format!("(JBool {})", c::b(*b)),
        J::Number(n) => {
            if let Some(i) = n.as_i64() {
                format!("(JInt {})", c::z(i as i128))
            } else if let Some(u) = n.as_u64() {
                format!("(JInt {})", c::z(u as i128))
            } else {
                format!("(JFloat {})", c::s(&n.to_string()))
            }
        }
        J::String(s) => format!("(JStr {})", c::s(s)),
        J::Array(a) => format!("(JArr {})", c::list(a.iter().map(json_term))),
        J::Object(o) => {
            let mut keys: Vec<&String> = o.keys().collect();
            keys.sort_by(|a, b| a.as_bytes().cmp(b.as_bytes()));
            format!("(JObj {})", c::list(keys.iter().map(|k| format!("({}, {})", c::s(k), json_term(&o[*k])))))
        }
    }
}

fn jvalue_to_json(v: &JValue) -> J {
    serde_json::to_value(v).unwrap_or(J::Null)
}

fn tetraplet_term(t: &polyplets::SecurityTetraplet) -> String {
    format!(
        "{{| tp_peer := {}; tp_service := {}; tp_function := {}; tp_lens := {} |}}",
        c::s(&t.peer_pk),
        c::s(&t.service_id),
        c::s(&t.function_name),
        c::s(&t.lens)
    )
}

#[derive(Default)]
struct Dict {
    /// value cid -> JSON (service results the hosts produced)
    values: HashMap<String, J>,
    /// argument hash -> arguments
    args: HashMap<String, Vec<J>>,
}

struct Resolver<'a> {
    dict: &'a Dict,
    infos: Vec<&'a CidInfo>,
    memo: HashMap<String, String>,
}

impl<'a> Resolver<'a> {
    fn value(&mut self, cid: &str) -> String {
        for ci in &self.infos {
            if let Some(v) = ci.value_store.get(&air_interpreter_cid::CID::new(cid)) {
                return format!("(CValue {})", json_term(&jvalue_to_json(&v.get_value())));
            }
        }
        if let Some(v) = self.dict.values.get(cid) {
            return format!("(CValue {})", json_term(v));
        }
        format!("(COpaque {})", c::s(cid))
    }
    fn tetraplet(&mut self, cid: &str) -> String {
        for ci in &self.infos {
            if let Some(t) = ci.tetraplet_store.get(&air_interpreter_cid::CID::new(cid)) {
                return format!("(CTetraplet {})", tetraplet_term(&t));
            }
        }
        format!("(COpaque {})", c::s(cid))
    }
    fn args(&mut self, hash: &str) -> String {
        match self.dict.args.get(hash) {
            Some(a) => format!("(CArgs {})", c::list(a.iter().map(json_term))),
            None => format!("(COpaque {})", c::s(hash)),
        }
    }
    fn service(&mut self, cid: &str) -> String {
        if let Some(m) = self.memo.get(cid) {
            return m.clone();
        }
        let mut out = format!("(COpaque {})", c::s(cid));
        let infos = self.infos.clone();
        for ci in infos {
            if let Some(a) = ci.service_result_store.get(&air_interpreter_cid::CID::new(cid)) {
                out = format!(
                    "(CService {} {} {})",
                    self.value(&a.value_cid.get_inner()),
                    self.args(&a.argument_hash),
                    self.tetraplet(&a.tetraplet_cid.get_inner())
                );
                break;
            }
        }
        self.memo.insert(cid.to_string(), out.clone());
        out
    }
    fn provenance(&mut self, p: &Provenance) -> String {
        match p {
            Provenance::Literal => "None".into(),
            Provenance::ServiceResult { cid } => format!("(Some (true, {}))", self.service(&cid.get_inner())),
            Provenance::Canon { cid } => format!("(Some (false, {}))", self.canon_result(&cid.get_inner())),
        }
    }
    fn canon_elem(&mut self, cid: &str) -> String {
        let infos = self.infos.clone();
        for ci in infos {
            if let Some(a) = ci.canon_element_store.get(&air_interpreter_cid::CID::new(cid)) {
                return format!(
                    "(CCanonElem {} {} {})",
                    self.value(&a.value.get_inner()),
                    self.tetraplet(&a.tetraplet.get_inner()),
                    self.provenance(&a.provenance)
                );
            }
        }
        format!("(COpaque {})", c::s(cid))
    }
    fn canon_result(&mut self, cid: &str) -> String {
        if let Some(m) = self.memo.get(cid) {
            return m.clone();
        }
        let mut out = format!("(COpaque {})", c::s(cid));
        let infos = self.infos.clone();
        for ci in infos {
            if let Some(a) = ci.canon_result_store.get(&air_interpreter_cid::CID::new(cid)) {
                let vals: Vec<String> = a.values.iter().map(|v| self.canon_elem(&v.get_inner())).collect();
                out = format!("(CCanonResult {} {})", self.tetraplet(&a.tetraplet.get_inner()), c::list(vals));
                break;
            }
        }
        self.memo.insert(cid.to_string(), out.clone());
        out
    }

    fn gen_u32(g: &GenerationIdx) -> u32 {
        let u: usize = (*g).into();
        u as u32
    }
    fn pos_u32(p: TracePos) -> u32 {
        let u: usize = p.into();
        u as u32
    }

    fn state(&mut self, s: &ExecutedState) -> String {
        match s {
            ExecutedState::Par(p) => format!("(SPar {} {})", p.left_size, p.right_size),
            ExecutedState::Call(CallResult::RequestSentBy(Sender::PeerId(p))) => format!("(SCall (RequestSentBy (SPeer {})))", c::s(p)),
            ExecutedState::Call(CallResult::RequestSentBy(Sender::PeerIdWithCallId { peer_id, call_id })) => {
                format!("(SCall (RequestSentBy (SPeerCall {} {})))", c::s(peer_id), call_id)
            }
            ExecutedState::Call(CallResult::Executed(ValueRef::Scalar(cid))) => format!("(SCall (Executed (VRScalar {})))", self.service(&cid.get_inner())),
            ExecutedState::Call(CallResult::Executed(ValueRef::Stream { cid, generation })) => {
                format!("(SCall (Executed (VRStream {} {})))", self.service(&cid.get_inner()), Self::gen_u32(generation))
            }
            ExecutedState::Call(CallResult::Executed(ValueRef::Unused(cid))) => format!("(SCall (Executed (VRUnused {})))", self.value(&cid.get_inner())),
            ExecutedState::Call(CallResult::Failed(cid)) => format!("(SCall (Failed {}))", self.service(&cid.get_inner())),
            ExecutedState::Ap(a) => format!("(SAp {})", c::list(a.res_generations.iter().map(|g| format!("{}", Self::gen_u32(g))))),
            ExecutedState::Canon(CanonResult::RequestSentBy(p)) => format!("(SCanon (CanonRequestSentBy {}))", c::s(p)),
            ExecutedState::Canon(CanonResult::Executed(cid)) => format!("(SCanon (CanonExecuted {}))", self.canon_result(&cid.get_inner())),
            ExecutedState::Fold(f) => format!(
                "(SFold {})",
                c::list(f.lore.iter().map(|e| format!(
                    "{{| fl_value_pos := {}; fl_descs := {} |}}",
                    Self::pos_u32(e.value_pos),
                    c::list(e.subtraces_desc.iter().map(|d| format!("{{| sd_pos := {}; sd_len := {} |}}", Self::pos_u32(d.begin_pos), d.subtrace_len)))
                )))
            ),
        }
    }

    fn cid_state(&mut self, ci: &CidInfo) -> String {
        let mut vs: Vec<String> = ci.value_store.iter().map(|(k, _)| k.get_inner().to_string()).collect();
        vs.sort();
        let mut ts: Vec<String> = ci.tetraplet_store.iter().map(|(k, _)| k.get_inner().to_string()).collect();
        ts.sort();
        let mut ce: Vec<String> = ci.canon_element_store.iter().map(|(k, _)| k.get_inner().to_string()).collect();
        ce.sort();
        let mut cr: Vec<String> = ci.canon_result_store.iter().map(|(k, _)| k.get_inner().to_string()).collect();
        cr.sort();
        let mut ss: Vec<String> = ci.service_result_store.iter().map(|(k, _)| k.get_inner().to_string()).collect();
        ss.sort();
        format!(
            "{{| cs_values := {}; cs_tetraplets := {}; cs_canon_elems := {}; cs_canon_results := {}; cs_services := {} |}}",
            c::list(vs.iter().map(|k| self.value(k))),
            c::list(ts.iter().map(|k| self.tetraplet(k))),
            c::list(ce.iter().map(|k| self.canon_elem(k))),
            c::list(cr.iter().map(|k| self.canon_result(k))),
            c::list(ss.iter().map(|k| self.service(k)))
        )
    }

    fn data(&mut self, d: &InterpreterData) -> String {
        let trace: Vec<String> = d.trace.iter().map(|s| self.state(s)).collect();
        format!("{{| d_trace := {}; d_lcid := {}; d_cids := {} |}}", c::list(trace), d.last_call_request_id, self.cid_state(&d.cid_info))
    }
}

fn empty_data_term() -> String {
    "empty_data".into()
}

fn request_term(r: &Req) -> String {
    let tets: Vec<Vec<polyplets::SecurityTetraplet>> = serde_json::from_value(r.tetraplets.clone()).unwrap_or_default();
    format!(
        "{{| rq_service := {}; rq_function := {}; rq_args := {}; rq_tetraplets := {} |}}",
        c::s(&r.service),
        c::s(&r.function),
        c::list(r.args.iter().map(json_term)),
        c::list(tets.iter().map(|ts| c::list(ts.iter().map(tetraplet_term))))
    )
}

/// CIDs the trace attributes to `peer` (interpreter-data verification.rs: collect_peers_cids_from_trace)
fn attributed(trace: &ExecutionTrace, ci: &CidInfo, peer: &str) -> Vec<(bool, String)> {
    let mut out = vec![];
    for st in trace.iter() {
        match st {
            ExecutedState::Call(call) => {
                if let Some(cid) = call.get_cid() {
                    if let Some(sr) = ci.service_result_store.get(cid) {
                        if let Some(t) = ci.tetraplet_store.get(&sr.tetraplet_cid) {
                            if t.peer_pk == peer {
                                out.push((true, cid.get_inner().to_string()));
                            }
                        }
                    }
                }
            }
            ExecutedState::Canon(CanonResult::Executed(cid)) => {
                if let Some(cr) = ci.canon_result_store.get(cid) {
                    if let Some(t) = ci.tetraplet_store.get(&cr.tetraplet) {
                        if t.peer_pk == peer {
                            out.push((false, cid.get_inner().to_string()));
                        }
                    }
                }
            }
            _ => {}
        }
    }
    out
}

fn run_case(case: &J) -> J {
    let peers: Vec<String> = case["peers"].as_array().map(|a| a.iter().filter_map(|x| x.as_str().map(String::from)).collect()).unwrap_or_default();
    let script = Net::instantiate(case["script"].as_str().unwrap_or("(null)"), &peers);
    let services_json = Net::instantiate(&case["services"].to_string(), &peers);
    let services = Services::from_json(&serde_json::from_str(&services_json).unwrap_or(J::Null));
    let init = case["init"].as_u64().unwrap_or(0) as usize;
    let ops = ops_from_json(&case["ops"]);
    let probe_steps: Option<Vec<u64>> = case["probe_steps"].as_array().map(|a| a.iter().filter_map(|x| x.as_u64()).collect());

    let ast = match air_parser::parse(&script) {
        Ok(a) => a,
        Err(e) => return serde_json::json!({"error": format!("script does not parse: {}", e.chars().take(300).collect::<String>())}),
    };
    let script_term = ast2coq::instr(&ast);

    let mut net = Net::new(&script, &peers, init, services, case["particle_id"].as_str().unwrap_or("particle-1"));
    let mut dict = Dict::default();
    let mut terms = vec![];
    let mut classes = vec![];
    let mut infos = vec![];
    let want: Vec<String> = case["oracles"].as_array().map(|a| a.iter().filter_map(|x| x.as_str().map(String::from)).collect()).unwrap_or_default();
    let wants = |p: &str| want.iter().any(|w| w == p);
    let model = case["model"].as_bool().unwrap_or(true);
    let mut failures: Vec<J> = vec![];
    let mut ledgers: Vec<oracles::PeerLedger> = peers.iter().map(|_| oracles::PeerLedger::default()).collect();
    let min_version = air::min_supported_version().clone();
    let observer = {
        let obs = Peer::new("observer-peer");
        RunInput {
            air: script.clone(), prev: vec![], cur: vec![], init_peer_id: net.hosts[init].peer.id.clone(),
            current_peer_id: obs.id.clone(), secret: obs.secret.clone(), key_format: 0, particle_id: net.particle_id.clone(),
            timestamp: net.timestamp, ttl: net.ttl, limits: Limits::unlimited(), call_results: Default::default(), call_results_raw: None,
        }
    };
    let mut all_ops = ops.clone();
    if wants("C05") || case["drain"].as_bool().unwrap_or(false) {
        // bring the history to quiescence: deliver everything, answer everything
        for _ in 0..60 {
            for p in 0..peers.len() { all_ops.push(Op::Return(p, 0)); }
            all_ops.push(Op::Deliver(0, false));
        }
    }
    let scheduled = ops.len();
    for (opi, op) in all_ops.iter().enumerate() {
        let pending_before: Vec<Vec<u32>> = net.hosts.iter().map(|h| h.pending.keys().cloned().collect()).collect();
        let rec = match net.exec(op) { Some(r) => r, None => continue };
        if wants("C02") { failures.extend(oracles::c02(&rec)); }
        if wants("C03") { failures.extend(oracles::c03(&rec, &min_version, Some(&observer))); }
        if wants("C06") { failures.extend(oracles::c06(&rec, &mut ledgers[rec.peer], &pending_before[rec.peer])); }
        if wants("C07") { failures.extend(oracles::c07(&rec)); }
        if wants("C09") { failures.extend(oracles::c09(&rec)); }
        if wants("C19") { failures.extend(oracles::c19_local(&rec)); }
        if wants("C20") { failures.extend(oracles::c20(&rec)); }
        if !model { classes.push(format!("p{}:code:{}:{}", rec.peer, rec.out.code, rec.out.msg.chars().take(120).collect::<String>())); continue; }
        if opi >= scheduled && !case["model_drain"].as_bool().unwrap_or(false) { continue; }
        // dictionaries: everything the hosts computed so far
        for (_, (_, text)) in rec.input.call_results.iter() {
            if let Ok(v) = serde_json::from_str::<JValue>(text) {
                if let Ok(cid) = value_to_json_cid(&v) {
                    dict.values.insert(cid.get_inner().to_string(), jvalue_to_json(&v));
                }
            }
        }
        if let Some(reqs) = &rec.out.requests {
            for (_, r) in reqs {
                let args: Vec<JValue> = r.args.iter().cloned().map(JValue::from).collect();
                if let Ok(cid) = value_to_json_cid(&args) {
                    dict.args.insert(cid.get_inner().to_string(), r.args.clone());
                }
            }
        }
        let probe_here = match &probe_steps { None => true, Some(v) => v.contains(&(rec.step as u64)) };
        if !probe_here { continue; }

        let prev = decode_data(&rec.input.prev).ok();
        let cur = decode_data(&rec.input.cur).ok();
        if (!rec.input.prev.is_empty() && prev.is_none()) || (!rec.input.cur.is_empty() && cur.is_none()) {
            continue;
        }
        let new = decode_data(&rec.out.data).ok();
        let mut infos_ci: Vec<&CidInfo> = vec![];
        if let Some(d) = &prev { infos_ci.push(&d.data.cid_info); }
        if let Some(d) = &cur { infos_ci.push(&d.data.cid_info); }
        if let Some(d) = &new { infos_ci.push(&d.data.cid_info); }
        let mut rs = Resolver { dict: &dict, infos: infos_ci, memo: HashMap::new() };

        let prev_t = prev.as_ref().map(|d| rs.data(&d.data)).unwrap_or_else(empty_data_term);
        let cur_t = cur.as_ref().map(|d| rs.data(&d.data)).unwrap_or_else(empty_data_term);
        let results_t = c::list(rec.input.call_results.iter().map(|(id, (code, text))| {
            let parsed = serde_json::from_str::<JValue>(text).ok().map(|v| json_term(&jvalue_to_json(&v)));
            format!("({}, {{| sa_ret_code := {}; sa_text := {}; sa_parsed := {} |}})", id, c::z(*code as i128), c::s(text), c::opt(parsed))
        }));
        let params_t = format!(
            "{{| rp_init_peer := {}; rp_current_peer := {}; rp_timestamp := {}; rp_ttl := {} |}}",
            c::s(&rec.input.init_peer_id), c::s(&rec.input.current_peer_id), rec.input.timestamp, rec.input.ttl
        );
        let input_t = format!(
            "{{| ri_script := script; ri_params := {}; ri_prev := {}; ri_cur := {}; ri_results := {} |}}",
            params_t, prev_t, cur_t, results_t
        );

        // observation
        let out = &rec.out;
        let (kind, cls): (u32, String) = if out.panic.is_some() {
            (2, "panic".into())
        } else if out.data == rec.input.prev && ((1..10000).contains(&out.code) || (20000..30000).contains(&out.code)) {
            (1, format!("prev:{}", out.code))
        } else if out.data.is_empty() {
            (3, format!("empty:{}", out.code))
        } else {
            (0, format!("new:{}", out.code))
        };
        let mut next = out.next.clone();
        next.sort();
        let (trace_t, lcid, cids_t, signed_t, sig_ok) = match (&new, kind) {
            (Some(d), 0) => {
                let att = attributed(&d.data.trace, &d.data.cid_info, &rec.input.current_peer_id);
                let signed: Vec<String> = att.iter().map(|(is_call, cid)| if *is_call { rs.service(cid) } else { rs.canon_result(cid) }).collect();
                // C03 oracle ingredient: the current peer's signature verifies over exactly these cids
                let mut cids: Vec<std::rc::Rc<air_interpreter_cid::CidRef>> = att.iter().map(|(_, c)| std::rc::Rc::from(c.as_str())).collect();
                cids.sort_unstable();
                let sig_ok = d.data.signatures.iter().any(|(pk, sg)| {
                    pk.to_peer_id().map(|p| p == rec.input.current_peer_id).unwrap_or(false)
                        && pk.verify(&cids, &rec.input.particle_id, sg).is_ok()
                });
                let tr: Vec<String> = d.data.trace.iter().map(|s| rs.state(s)).collect();
                (c::list(tr), d.data.last_call_request_id, rs.cid_state(&d.data.cid_info), c::list(signed), sig_ok)
            }
            _ => ("[]".into(), 0, "empty_cids".into(), "[]".into(), true),
        };
        let reqs_t = match &out.requests {
            Some(m) => c::list(m.iter().map(|(id, r)| format!("({}, {})", id, request_term(r)))),
            None => "[]".into(),
        };
        let obs_t = format!(
            "{{| eo_kind := {}; eo_code := {}; eo_trace := {}; eo_lcid := {}; eo_next := {}; eo_requests := {}; eo_signed := {}; eo_cids := {} |}}",
            kind, c::z(out.code as i128), trace_t, lcid, c::list(next.iter().map(|p| c::s(p))), reqs_t, signed_t, cids_t
        );
        terms.push(format!("{{| ec_input := {}; ec_obs := {} |}}", input_t, obs_t));
        classes.push(cls);
        infos.push(serde_json::json!({"step": rec.step, "peer": rec.peer, "code": out.code, "sig_ok": sig_ok,
            "trace_len": new.as_ref().map(|d| d.data.trace.len()), "requests": out.requests.as_ref().map(|r| r.len()), "next": out.next.len()}));
    }
    if wants("C05") {
        let quiescent = net.inflight.is_empty() && net.hosts.iter().all(|h| h.pending.is_empty());
        if quiescent {
            for h in &net.hosts {
                failures.extend(oracles::c05_final(net.step, &h.peer.id, &h.log, &h.prev));
            }
        }
        infos.push(serde_json::json!({"quiescent": quiescent, "invocations": net.hosts.iter().map(|h| h.log.len()).sum::<usize>()}));
    }
    let invocations: usize = net.hosts.iter().map(|h| h.log.len()).sum();
    serde_json::json!({"script_term": script_term, "coq": terms, "classes": classes, "info": infos, "oracle_failures": failures,
                       "runs": net.step, "invocations": invocations})
}

fn main() {
    quiet_panics();
    for line in std::io::stdin().lock().lines() {
        let line = match line { Ok(l) => l, Err(_) => break };
        if line.trim().is_empty() { continue; }
        let case: J = serde_json::from_str(&line).unwrap_or(J::Null);
        println!("{}", run_case(&case));
    }
}
