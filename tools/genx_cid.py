"""Translator extension for model/Cid.v (property C25): which multihash codes verify.rs supports and
their numbers (from the multihash-codetable version /repo's Cargo.lock pins), which hash and CID
version value_to_json_cid uses, and the shape of the digest comparison."""
import glob
import os
import re

import gen_model as g


def _codetable_codes():
    lock = g.read("Cargo.lock")
    vs = re.findall(r'name = "multihash-codetable"\nversion = "([^"]+)"', lock)
    if len(vs) != 1:
        raise g.TranslationError("cannot determine the multihash-codetable version from Cargo.lock")
    ver = vs[0]
    home = os.environ.get("CARGO_HOME", os.path.expanduser("~/.cargo"))
    dirs = sorted(glob.glob(os.path.join(home, "registry", "src", "*", "multihash-codetable-" + ver)))
    if not dirs:
        raise g.TranslationError(f"source of multihash-codetable {ver} not found under {home}/registry/src")
    try:
        src = g.strip_comments(open(os.path.join(dirs[0], "src", "lib.rs"), encoding="utf-8").read())
    except OSError as e:
        raise g.TranslationError(f"cannot read multihash-codetable {ver}: {e}")
    codes = {}
    for m in re.finditer(r"#\[mh\(code\s*=\s*(0x[0-9a-fA-F]+|\d+)\s*,\s*hasher\s*=\s*[^)]*\)\]\s*(\w+)\s*,", src):
        codes[m.group(2)] = int(m.group(1), 0)
    if not codes:
        raise g.TranslationError("multihash-codetable: no #[mh(code = ..)] entries recognised")
    return ver, codes


def _supported(fn_name):
    """Variant names of `match code { Code::A => .., Code::B => .., _ => return Err(UnsupportedHashCode..) }`."""
    src = g.strip_comments(g.read("crates/air-lib/interpreter-cid/src/verify.rs"))
    m = re.search(r"fn\s+" + fn_name + r"\b.*?\n\}", src, flags=re.S)
    if not m:
        raise g.TranslationError(f"{fn_name} not found in verify.rs")
    body = m.group(0)
    mm = re.search(r"let expected_hash = match code \{(.*?)\n    \};", body, flags=re.S)
    if not mm:
        raise g.TranslationError(f"{fn_name}: `match code` not recognised")
    arms = re.findall(r"Code::(\w+)\s*=>", mm.group(1))
    if not re.search(r"_\s*=>\s*return Err\(CidVerificationError::UnsupportedHashCode\(raw_code\)\)", mm.group(1)):
        raise g.TranslationError(f"{fn_name}: default arm is not UnsupportedHashCode(raw_code)")
    flat = re.sub(r"\s+", " ", body)
    full_cmp = "if expected_hash == mhash.digest() { Ok(()) } else { Err(CidVerificationError::ValueMismatch {" in flat
    try_from = ".try_into() .map_err(|_| CidVerificationError::UnsupportedHashCode(raw_code))?;" in flat
    return arms, full_cmp and try_from


def _verify_value_shape():
    src = g.strip_comments(g.read("crates/air-lib/interpreter-cid/src/verify.rs"))
    m = re.search(r"pub fn verify_value\b.*?\n\}", src, flags=re.S)
    r = re.search(r"pub fn verify_raw_value\b.*?\n\}", src, flags=re.S)
    if not m or not r:
        raise g.TranslationError("verify_value / verify_raw_value not found")
    a = re.sub(r"\s+", " ", m.group(0))
    b = re.sub(r"\s+", " ", r.group(0))
    ok = ("let real_cid: cid::Cid = cid.try_into()?;" in a and "JSON_CODEC => verify_json_value(real_cid.hash(), value, cid)," in a
          and "_ => Err(CidVerificationError::UnsupportedCidCodec(codec))," in a)
    ok = ok and ("let real_cid: cid::Cid = cid.try_into()?;" in b
                 and "if codec != JSON_CODEC { return Err(CidVerificationError::UnsupportedCidCodec(codec)); }" in b)
    return ok


def _id_construction():
    src = g.strip_comments(g.read("crates/air-lib/interpreter-cid/src/lib.rs"))
    res = []
    for fn in ("value_to_json_cid", "raw_value_to_json_cid"):
        m = re.search(r"pub fn " + fn + r"\b.*?\n\}", src, flags=re.S)
        if not m:
            raise g.TranslationError(f"{fn} not found")
        body = m.group(0)
        h = re.search(r"Code::(\w+)\s*\.wrap\(&hash\)", body)
        v = re.search(r"Cid::(new_v\d)\(JSON_CODEC, digest\)", body)
        hh = re.search(r"(?:value_json_hash|raw_value_hash)::<(\w+)::Hasher", body)
        if not h or not v or not hh:
            raise g.TranslationError(f"{fn}: construction of the id not recognised")
        res.append((h.group(1), v.group(1), hh.group(1)))
    if res[0] != res[1]:
        raise g.TranslationError("value_to_json_cid and raw_value_to_json_cid build their ids differently")
    return res[0]


def generate():
    out = []
    w = out.append
    w("(* ---- tools/genx_cid.py (C25) ---- *)")
    ver, codes = _codetable_codes()
    a1, ok1 = _supported("verify_json_value")
    a2, ok2 = _supported("verify_raw_value")
    for a in set(a1 + a2):
        if a not in codes:
            raise g.TranslationError(f"verify.rs supports Code::{a}, unknown to multihash-codetable {ver}")
    w(f"Definition cid_codetable_version : string := {g.coq_str(ver)}.")
    w("Definition cid_verify_value_hashes : list (string * N) := "
      + g.coq_list([f"({g.coq_str(a)}, {codes[a]}%N)" for a in a1]) + ".")
    w("Definition cid_verify_raw_value_hashes : list (string * N) := "
      + g.coq_list([f"({g.coq_str(a)}, {codes[a]}%N)" for a in a2]) + ".")
    w(f"Definition cid_digest_compared_in_full : bool := {'true' if ok1 and ok2 else 'false'}.")
    w(f"Definition cid_verify_shape_is_standard : bool := {'true' if _verify_value_shape() else 'false'}.")
    h, v, hasher = _id_construction()
    if h not in codes:
        raise g.TranslationError(f"value_to_json_cid wraps Code::{h}, unknown to multihash-codetable {ver}")
    w(f"Definition cid_id_hash : string * N := ({g.coq_str(h)}, {codes[h]}%N).")
    w(f"Definition cid_id_hasher_crate : string := {g.coq_str(hasher)}.")
    w(f"Definition cid_id_version : string := {g.coq_str(v)}.")
    w("")
    return out
