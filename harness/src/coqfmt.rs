//! Printing of Coq terms (the harness writes the inputs and the implementation's observations
//! directly in the concrete syntax of the model's types).

pub fn s(x: &str) -> String {
    // Coq string literal: the only escape is "" for a double quote. Non-ASCII bytes are kept as
    // they are (a Coq string is a byte sequence; the model never inspects them except in Json*.v).
    let mut out = String::with_capacity(x.len() + 2);
    out.push('"');
    for c in x.chars() {
        if c == '"' {
            out.push_str("\"\"");
        } else {
            out.push(c);
        }
    }
    out.push('"');
    out
}

pub fn n<T: std::fmt::Display>(x: T) -> String {
    format!("{}", x)
}

pub fn z(x: i128) -> String {
    if x < 0 {
        format!("({})%Z", x)
    } else {
        format!("{}%Z", x)
    }
}

pub fn b(x: bool) -> String {
    if x { "true".into() } else { "false".into() }
}

pub fn list<I: IntoIterator<Item = String>>(xs: I) -> String {
    let v: Vec<String> = xs.into_iter().collect();
    format!("[{}]", v.join("; "))
}

pub fn opt(x: Option<String>) -> String {
    match x {
        Some(v) => format!("(Some {})", v),
        None => "None".into(),
    }
}

pub fn pair(a: &str, b: &str) -> String {
    format!("({}, {})", a, b)
}

pub fn app(f: &str, args: &[String]) -> String {
    if args.is_empty() {
        f.to_string()
    } else {
        format!("({} {})", f, args.join(" "))
    }
}
