(* WfTrace.v -- structural well-formedness of traces (property C10) and the driver trees of the
   TraceHandler (DESIGN appendix A, "Driver protocol").

   Part 1: [wf_trace_b] / [wf_trace]: what "structurally well formed" means for a trace
           (crates/air-lib/interpreter-data/src/executed_state.rs: ParResult, FoldResult, FoldSubTraceLore,
            SubTraceDesc; the reader of this layout is trace-handler/src/merger/fold_merger/fold_lore_resolver.rs
            and state_automata/par_fsm/state_handler/new_states_calculation.rs).
   Part 2: driver trees and [drive]: the sequences of meet_* calls that the instruction executor
           (air/src/execution_step/instructions/{call,ap,canon,par,fold_stream,next}.rs) issues.
   Part 3: the statements of C10.
   Definitions only. *)
From Aqua Require Import Base Trace Handler.
Open Scope N_scope.
Open Scope list_scope.

Section Wf.
  Variable C : Type.
  Notation state := (state C).
  Notation trace := (list state).

  (* ================= Part 1: well-formedness ================= *)

  (* a "stream value entry": Ap, or a call whose result went into a stream *)
  Definition is_stream_state (s : state) : bool :=
    match s with SAp _ => true | SCall (Executed (VRStream _ _)) => true | _ => false end.
  Definition is_stream_at (t : trace) (p : N) : bool :=
    match nth_N t p with Some s => is_stream_state s | None => false end.

  (* ---- fold lore: the iteration ranges ----
     An entry carries exactly two descriptors (before, after) (SUBTRACE_DESC_COUNT).  The FoldFSM emits
     the entries of one generation (one meet_generation_end) as a group x1..xk whose intervals are laid
     out  before1 before2 .. beforek afterk .. after2 after1  contiguously; groups follow each other. *)
  Definition entry_descs (x : fold_sub_lore) : option (sub_desc * sub_desc) :=
    match fl_descs x with [b; a] => Some (b, a) | _ => None end.

  Fixpoint befores_end (e : N) (g : list fold_sub_lore) : option N :=
    match g with
    | [] => Some e
    | x :: r => match entry_descs x with
                | Some (b, _) => if sd_pos b =? e then befores_end (e + sd_len b) r else None
                | None => None
                end
    end.
  (* [g] is given in REVERSE order of emission *)
  Fixpoint afters_end (e : N) (g : list fold_sub_lore) : option N :=
    match g with
    | [] => Some e
    | x :: r => match entry_descs x with
                | Some (_, a) => if sd_pos a =? e then afters_end (e + sd_len a) r else None
                | None => None
                end
    end.
  Definition group_end (e : N) (g : list fold_sub_lore) : option N :=
    match befores_end e g with Some m => afters_end m (rev g) | None => None end.

  (* the lore splits into non-empty groups that tile [e, e') *)
  Inductive lore_ok : N -> list fold_sub_lore -> N -> Prop :=
  | LoreNil e : lore_ok e [] e
  | LoreGroup e g rest e1 e2 : g <> [] -> group_end e g = Some e1 -> lore_ok e1 rest e2 -> lore_ok e (g ++ rest) e2.

  Definition entry_len (x : fold_sub_lore) : N :=
    match entry_descs x with Some (b, a) => sd_len b + sd_len a | None => 0 end.
  Definition lore_span (l : list fold_sub_lore) : N := fold_right (fun x acc => entry_len x + acc) 0 l.

  Fixpoint lore_ok_b (fuel : nat) (e : N) (l : list fold_sub_lore) : bool :=
    match l with
    | [] => true
    | _ :: _ =>
        match fuel with
        | O => false
        | S f => existsb (fun k => match group_end e (firstn k l) with
                                   | Some e1 => lore_ok_b f e1 (skipn k l)
                                   | None => false
                                   end) (seq 1 (length l))
        end
    end.

  (* ---- the forest of pars and folds ----
     [forest t a b]: the entries [a, b) of t are a sequence of items, each item being a leaf (call, ap,
     canon), a par header followed by its left and right sub-forests of exactly the announced sizes, or a
     fold header followed by the entries its lore intervals tile, which are themselves a forest (iteration
     intervals need not be aligned with the pars inside: `(fold $s i (par body (next i)))`). *)
  Definition is_leaf (s : state) : bool :=
    match s with SPar _ _ => false | SFold _ => false | _ => true end.

  Inductive forest (t : trace) : N -> N -> Prop :=
  | FNil a : forest t a a
  | FLeaf a b s : nth_N t a = Some s -> is_leaf s = true -> forest t (a + 1) b -> forest t a b
  | FPar a b l r : nth_N t a = Some (SPar l r) ->
                   forest t (a + 1) (a + 1 + l) -> forest t (a + 1 + l) (a + 1 + l + r) ->
                   forest t (a + 1 + l + r) b -> forest t a b
  | FFold a b lore e : nth_N t a = Some (SFold lore) -> lore_ok (a + 1) lore e ->
                       forest t (a + 1) e -> forest t e b -> forest t a b.

  Fixpoint forest_b (fuel : nat) (t : trace) (a b : N) : bool :=
    match fuel with
    | O => false
    | S f =>
        if a =? b then true else
        if b <? a then false else
        match nth_N t a with
        | None => false
        | Some (SPar l r) =>
            (a + 1 + l + r <=? b) && forest_b f t (a + 1) (a + 1 + l) &&
            forest_b f t (a + 1 + l) (a + 1 + l + r) && forest_b f t (a + 1 + l + r) b
        | Some (SFold lore) =>
            let e := a + 1 + lore_span lore in
            lore_ok_b (length lore) (a + 1) lore && (e <=? b) && forest_b f t (a + 1) e && forest_b f t e b
        | Some _ => forest_b f t (a + 1) b
        end
    end.

  Definition wf_struct (t : trace) : Prop := forest t 0 (len_N t).
  Definition wf_struct_b (t : trace) : bool := forest_b (S (length t)) t 0 (len_N t).

  (* ---- every fold iteration points to an earlier stream value entry ---- *)
  Definition entry_vp_ok (t : trace) (x : fold_sub_lore) : bool :=
    match fl_descs x with
    | b :: _ => (fl_value_pos x <? sd_pos b) && is_stream_at t (fl_value_pos x)
    | [] => false
    end.
  Definition state_vp_ok (t : trace) (s : state) : bool :=
    match s with SFold lore => forallb (entry_vp_ok t) lore | _ => true end.
  Definition vp_ok_b (t : trace) : bool := forallb (state_vp_ok t) t.
  Definition vp_ok (t : trace) : Prop :=
    forall p lore x, nth_N t p = Some (SFold lore) -> In x lore ->
      exists b rest, fl_descs x = b :: rest /\ fl_value_pos x < sd_pos b /\ is_stream_at t (fl_value_pos x) = true.

  (* ---- no stream value entry carries the placeholder generation (GenerationIdx::stub) ---- *)
  Definition state_no_stub (s : state) : bool :=
    match s with
    | SAp gens => forallb (fun g => negb (g =? generation_stub)) gens
    | SCall (Executed (VRStream _ g)) => negb (g =? generation_stub)
    | _ => true
    end.
  Definition no_stub_b (t : trace) : bool := forallb state_no_stub t.
  Definition no_stub (t : trace) : Prop := forall s, In s t -> state_no_stub s = true.

  Definition wf_trace (t : trace) : Prop := wf_struct t /\ vp_ok t /\ no_stub t.
  Definition wf_trace_b (t : trace) : bool := wf_struct_b t && vp_ok_b t && no_stub_b t.

  (* ---- informative, NOT part of C10: the reader's grouping (lens_convolution groups consecutive lore
     entries by the generation found at value_pos) coincides with a tiling; value positions distinct ---- *)
  Definition gen_at (t : trace) (p : N) : option N :=
    match nth_N t p with
    | Some (SAp (g :: _)) => Some g
    | Some (SCall (Executed (VRStream _ g))) => Some g
    | _ => None
    end.
  (* split into maximal runs of equal generation *)
  Fixpoint runs_by_gen (t : trace) (l : list fold_sub_lore) (cur : option N) (acc : list fold_sub_lore)
    : list (list fold_sub_lore) :=
    match l with
    | [] => match acc with [] => [] | _ => [rev acc] end
    | x :: r =>
        let g := gen_at t (fl_value_pos x) in
        match acc with
        | [] => runs_by_gen t r g [x]
        | _ => if option_eqb N.eqb g cur then runs_by_gen t r cur (x :: acc)
               else rev acc :: runs_by_gen t r g [x]
        end
    end.
  Fixpoint groups_end (e : N) (gs : list (list fold_sub_lore)) : option N :=
    match gs with
    | [] => Some e
    | g :: r => match group_end e g with Some e1 => groups_end e1 r | None => None end
    end.
  Fixpoint distinct_N (l : list N) : bool :=
    match l with [] => true | x :: r => negb (existsb (N.eqb x) r) && distinct_N r end.
  Definition state_reader_ok (t : trace) (p : N) (s : state) : bool :=
    match s with
    | SFold lore =>
        match groups_end (p + 1) (runs_by_gen t lore None []) with Some _ => true | None => false end
        && distinct_N (map fl_value_pos lore)
    | _ => true
    end.
  Fixpoint reader_ok_from (t : trace) (p : N) (l : trace) : bool :=
    match l with [] => true | s :: r => state_reader_ok t p s && reader_ok_from t (p + 1) r end.
  Definition reader_ok_b (t : trace) : bool := reader_ok_from t 0 t.

  (* ================= Part 2: driver trees ================= *)

  (* which position an iteration is started with: explicit, or "the k-th stream value entry of the result
     so far" (as OpIterStartNth of HandlerCases.v; both are arbitrary as far as the handler is concerned) *)
  Inductive vsel := VPos (p : N) | VNth (k : N).

  Inductive call_drive :=
  | CallAuto (d : option (call_result C)) (upgrade : bool)   (* OpCallAuto *)
  | CallRaw (st : option (call_result C)).                   (* meet_call_start; [meet_call_end st] *)
  Inductive ap_drive := ApAuto (d : N) | ApRaw (gens : list N).
  Inductive canon_drive :=
  | CanonAuto (d : canon_result C) (upgrade : bool)
  | CanonRaw (st : option (canon_result C)).

  (* dt: one instruction's interaction; dts: a sequence (seq/xor/match/new/scalar folds are transparent);
     gens: the generations of one stream fold; body: one execution of the fold's body for one value;
     hole: the place in the body where `next` is reached -- directly, or inside the left or right branch
     of a par. *)
  Inductive dt :=
  | DCall (c : call_drive)
  | DAp (a : ap_drive)
  | DCanon (c : canon_drive)
  | DPar (l r : dts)
  | DFold (id : N) (gs : gens)
  | DGens (us : list (N * N))   (* update_generation calls made while the run goes on: Streams::meet_scope_end
                                   compacts a `new`-scoped stream when its scope ends *)
  with dts :=
  | DNil
  | DCons (d : dt) (ds : dts)
  with gens :=
  | GNil
  | GCons (v : vsel) (b : body) (gs : gens)      (* meet_iteration_start v; body; meet_generation_end *)
  with body :=
  | BPlain (ds : dts)                            (* `next` not reached (no next, or a catchable error before it) *)
  | BHole (ds : dts) (h : hole) (after : dts)    (* before `next`; the hole; after `next` (possibly cut short) *)
  with hole :=
  | HNextMore (v : vsel) (b : body) (back : bool) (* meet_iteration_end; meet_iteration_start v; body; [meet_back_iterator] *)
  | HNextEnd (last : dts)                         (* meet_iteration_end; meet_back_iterator; last instruction *)
  | HParL (b : body) (r : dts)                    (* par whose left branch reaches `next` *)
  | HParR (l : dts) (b : body).                   (* par whose right branch reaches `next` *)

  Variable ceqb : C -> C -> bool.
  Notation handler := (handler C).

  Definition is_sent (c : call_result C) : bool := match c with RequestSentBy _ => true | _ => false end.
  Definition is_canon_sent (c : canon_result C) : bool := match c with CanonRequestSentBy _ => true | _ => false end.

  Fixpoint stream_positions (t : trace) (i : N) : list N :=
    match t with
    | [] => []
    | s :: r => if is_stream_state s then i :: stream_positions r (i + 1) else stream_positions r (i + 1)
    end.
  Definition nth_stream_pos (t : trace) (k : N) : N :=
    let ps := stream_positions t 0 in
    match ps with
    | [] => k
    | _ => match nth_N ps (k mod len_N ps) with Some p => p | None => k end
    end.
  Definition vsel_pos (h : handler) (v : vsel) : N :=
    match v with VPos p => p | VNth k => nth_stream_pos (result_trace C h) k end.

  Definition drive_call (c : call_drive) (h : handler) : res handler :=
    do rh <- meet_call_start C ceqb h;
    let '(r, h1) := rh in
    match c with
    | CallRaw None => Ok h1
    | CallRaw (Some st) => Ok (meet_call_end C h1 st)
    | CallAuto d up =>
        match r with
        | CallNotMet _ => Ok (match d with Some st => meet_call_end C h1 st | None => h1 end)
        | CallMet _ m _ _ => Ok (meet_call_end C h1 (match d with Some st => if up && is_sent m then st else m | None => m end))
        end
    end.
  Definition drive_ap (a : ap_drive) (h : handler) : res handler :=
    do rh <- meet_ap_start C h;
    let '(r, h1) := rh in
    match a with
    | ApRaw gens => Ok (meet_ap_end C h1 gens)
    | ApAuto d => match r with
                  | ApNotMet => Ok (meet_ap_end C h1 [d])
                  | ApMet g _ => Ok (meet_ap_end C h1 [g])
                  end
    end.
  Definition drive_canon (c : canon_drive) (h : handler) : res handler :=
    do rh <- meet_canon_start C ceqb h;
    let '(r, h1) := rh in
    match c with
    | CanonRaw None => Ok h1
    | CanonRaw (Some st) => Ok (meet_canon_end C h1 st)
    | CanonAuto d up =>
        match r with
        | CanonEmpty _ => Ok (meet_canon_end C h1 d)
        | CanonMet _ m => Ok (meet_canon_end C h1 (if up && is_canon_sent m then d else m))
        end
    end.

  (* [chk = true]: additionally insist that every iteration is started at an EARLIER STREAM VALUE ENTRY of the
     result trace (what the executor does: the position is that of a value held by the stream); the run
     is otherwise identical ([drive_chk_drive]) *)
  Definition iteration_start (chk : bool) (h : handler) (id : N) (v : vsel) : res handler :=
    let p := vsel_pos h v in
    if chk && negb (is_stream_at (result_trace C h) p) then Err NoStreamState
    else meet_iteration_start C h id p.

  (* a failing update is left without effect (as `step` of HandlerCases.v; the executor aborts the run) *)
  Fixpoint drive_updates (us : list (N * N)) (h : handler) : handler :=
    match us with
    | [] => h
    | (p, g) :: r => drive_updates r (match update_generation C h p g with inl h1 => h1 | inr _ => h end)
    end.

  Section Drive.
  Variable chk : bool.
  Fixpoint drive_dt (d : dt) (h : handler) {struct d} : res handler :=
    match d with
    | DCall c => drive_call c h
    | DAp a => drive_ap a h
    | DCanon c => drive_canon c h
    | DPar l r =>
        do h1 <- meet_par_start C h;
        do h2 <- drive_dts l h1;
        do h3 <- meet_par_subgraph_end C h2 SLeft;
        do h4 <- drive_dts r h3;
        meet_par_subgraph_end C h4 SRight
    | DFold id gs =>
        do h1 <- meet_fold_start C h id;
        do h2 <- drive_gens id gs h1;
        meet_fold_end C h2 id
    | DGens us => Ok (drive_updates us h)
    end
  with drive_dts (ds : dts) (h : handler) {struct ds} : res handler :=
    match ds with
    | DNil => Ok h
    | DCons d r => do h1 <- drive_dt d h; drive_dts r h1
    end
  with drive_gens (id : N) (gs : gens) (h : handler) {struct gs} : res handler :=
    match gs with
    | GNil => Ok h
    | GCons v b r =>
        do h1 <- iteration_start chk h id v;
        do h2 <- drive_body id b h1;
        do h3 <- meet_generation_end C h2 id;
        drive_gens id r h3
    end
  with drive_body (id : N) (b : body) (h : handler) {struct b} : res handler :=
    match b with
    | BPlain ds => drive_dts ds h
    | BHole ds hl after =>
        do h1 <- drive_dts ds h;
        do h2 <- drive_hole id hl h1;
        drive_dts after h2
    end
  with drive_hole (id : N) (hl : hole) (h : handler) {struct hl} : res handler :=
    match hl with
    | HNextMore v b back =>
        do h1 <- meet_iteration_end C h id;
        do h2 <- iteration_start chk h1 id v;
        do h3 <- drive_body id b h2;
        if back then meet_back_iterator C h3 id else Ok h3
    | HNextEnd last =>
        do h1 <- meet_iteration_end C h id;
        do h2 <- meet_back_iterator C h1 id;
        drive_dts last h2
    | HParL b r =>
        do h1 <- meet_par_start C h;
        do h2 <- drive_body id b h1;
        do h3 <- meet_par_subgraph_end C h2 SLeft;
        do h4 <- drive_dts r h3;
        meet_par_subgraph_end C h4 SRight
    | HParR l b =>
        do h1 <- meet_par_start C h;
        do h2 <- drive_dts l h1;
        do h3 <- meet_par_subgraph_end C h2 SLeft;
        do h4 <- drive_body id b h3;
        meet_par_subgraph_end C h4 SRight
    end.
  End Drive.

  Definition drive (ds : dts) (h : handler) : res handler := drive_dts false ds h.
  Definition drive_chk (ds : dts) (h : handler) : res handler := drive_dts true ds h.

  (* the end of a run: Streams::compactify calls update_generation for every value of every stream *)
  Fixpoint apply_generations (us : list (N * N)) (h : handler) : option handler :=
    match us with
    | [] => Some h
    | (p, g) :: r => match update_generation C h p g with inl h1 => apply_generations r h1 | inr _ => None end
    end.

  (* ================= Part 3: statements ================= *)
  Definition C10_wf_bool_stmt : Prop := forall t, wf_trace_b t = true <-> wf_trace t.

  (* the par clause and the fold-partition clause, for every driver forest and ALL prev/current traces *)
  Definition C10_wf_drive_stmt : Prop :=
    forall ds prev cur h, drive ds (handler_from C prev cur) = Ok h -> wf_struct (result_trace C h).

  (* value_pos clause, under the executor fact it needs *)
  Definition C10_wf_drive_value_pos_stmt : Prop :=
    forall ds prev cur h, drive_chk ds (handler_from C prev cur) = Ok h ->
      drive ds (handler_from C prev cur) = Ok h /\ vp_ok (result_trace C h).

  (* generation clause: update_generation keeps the structure and the value_pos clause; if it was applied
     to every stream value entry with real generations, no placeholder is left *)
  Definition C10_generations_stmt : Prop :=
    forall h us h',
      apply_generations us h = Some h' ->
      (wf_struct (result_trace C h) -> wf_struct (result_trace C h')) /\
      (vp_ok (result_trace C h) -> vp_ok (result_trace C h')) /\
      ((forall p, is_stream_at (result_trace C h) p = true -> exists g, In (p, g) us) ->
       (forall p g, In (p, g) us -> g <> generation_stub) ->
       no_stub (result_trace C h')).

  (* everything together: a run = a driver forest followed by the compaction's generation updates *)
  Definition C10_full : Prop :=
    forall ds prev cur h us h',
      drive_chk ds (handler_from C prev cur) = Ok h ->
      apply_generations us h = Some h' ->
      (forall p, is_stream_at (result_trace C h) p = true -> exists g, In (p, g) us) ->
      (forall p g, In (p, g) us -> g <> generation_stub) ->
      wf_trace (result_trace C h').
End Wf.

Arguments CallAuto {C}. Arguments CallRaw {C}. Arguments CanonAuto {C}. Arguments CanonRaw {C}.
Arguments DCall {C}. Arguments DAp {C}. Arguments DCanon {C}. Arguments DPar {C}. Arguments DFold {C}. Arguments DGens {C}.
Arguments DNil {C}. Arguments DCons {C}. Arguments GNil {C}. Arguments GCons {C}.
Arguments BPlain {C}. Arguments BHole {C}.
Arguments HNextMore {C}. Arguments HNextEnd {C}. Arguments HParL {C}. Arguments HParR {C}.
