(* DetSpec.v -- C20 "execution is deterministic": every place where the Rust code walks a
   HashMap / HashSet (or consults any other source of nondeterminism) is an explicit ORDER PARAMETER
   of the model; the statements say that the canonical observation does not depend on it.

   A Gallina function is deterministic by construction, so the content of C20 is order independence.
   What a theorem cannot express (RandomState seeds, addresses, thread-locals of the real process) is
   covered by re-execution in the harness (harness/src/bin/det20.rs).

   Parts:
     1. the catalogue of nondeterminism sources found in the sources (tools/genx_det.py -> Generated.det_sites)
        and its hand-written classification; [catalogue_closed] must compute to true
     2. farewell_step/outcome.rs dedup (Vec -> HashSet -> Vec)
     3. Streams::compactify / StreamMaps::compactify (order of update_generation calls over stream names)
     4. CidTracker::from_cid_stores (merge of the CID stores)
     5. CanonStreamMap::as_jvalue (HashMap<StreamMapKey,_> collected into a string-keyed map)
     6. FarewellError::UnprocessedCallResult: the text of the 30000 message
     7. the whole run with its order parameters
   Definitions and statements only; proofs in proofs/DetProofs.v. *)
From Coq Require Import Permutation.
From Aqua Require Import Base Json JsonText Air Trace Handler Values Scalars Lens Exec RunExec ExecStreams.
From Aqua Require Stream.
Open Scope N_scope.
Open Scope list_scope.

(* an iteration order of a hash container: any function that permutes what it is given *)
Definition is_perm {A} (f : list A -> list A) : Prop := forall l, Permutation (f l) l.
Definition id_order {A} : list A -> list A := fun l => l.

(* ====================================================================================== *)
(* 1. catalogue                                                                            *)

Inductive det_class :=
| Modelled (param : string)      (* an order parameter of the model; the statement named here shows it irrelevant *)
| OrderFree (why : string)       (* the result goes back into a map / set, or is folded with a commutative operation *)
| MessageOnly (what : string)    (* changes at most the text of an error message *)
| AllowedBytes (what : string)   (* only the byte order of a map inside encoded data / encoded requests *)
| LookupOnly                     (* declaration / construction: the container is only probed by key *)
| NotAHash (what : string)       (* the scan's name match hit a Vec / slice *)
| CompileTime (what : string)    (* env!(..) constants, static assertions *)
| NotOnRunPath (what : string)   (* Display / conversion code no outcome of execute_air goes through *)
| KnownFinding (key : string).   (* genuine order dependence of the outcome: known_findings.txt *)

Definition site : Type := (string * string * string * N)%type.
Definition site_eqb (a b : site) : bool :=
  let '(f, i, k, n) := a in let '(f', i', k', n') := b in
  String.eqb f f' && String.eqb i i' && String.eqb k k' && (n =? n').

Local Open Scope string_scope.
Definition ctxdir := "air/src/execution_step/execution_context/".
Definition idata_dir := "crates/air-lib/interpreter-data/src/".
Definition verif_rs := "crates/air-lib/interpreter-data/src/interpreter_data/verification.rs".
Definition at_ (f i k : string) (n : N) (c : det_class) : site * det_class := ((f, i, k, n), c).

Definition classification : list (site * det_class) := [
  (* ---- air: execution context ---- *)
  at_ (ctxdir ++ "context.rs") "ExecutionCtx" "decl" 0 LookupOnly;                     (* call_results: remove(&call_id), is_empty, clone *)
  at_ (ctxdir ++ "context.rs") "ExecutionCtx" "decl" 1 (AllowedBytes "call_requests: insert only; serialised by CallRequestsRepr (MsgPack map) in hash order; compared after decoding");
  at_ (ctxdir ++ "context.rs") "new" "decl" 0 LookupOnly;
  at_ (ctxdir ++ "instruction_error/instruction_error_definition.rs") "error_from_raw_fields_w_peerid" "decl" 0 (OrderFree "maplit::hashmap! literal with distinct constant keys, converted into the BTreeMap-backed JSON object (From<HashMap> for JValue)");
  at_ (ctxdir ++ "instruction_error/instruction_error_definition.rs") "error_from_raw_fields" "decl" 0 (OrderFree "maplit::hashmap! literal with distinct constant keys, converted into the BTreeMap-backed JSON object (From<HashMap> for JValue)");
  at_ (ctxdir ++ "instruction_error/instruction_error_definition.rs") "no_error_object" "decl" 0 (OrderFree "maplit::hashmap! literal with distinct constant keys, converted into the BTreeMap-backed JSON object (From<HashMap> for JValue)");
  at_ (ctxdir ++ "scalar_variables.rs") "Scalars" "decl" 0 LookupOnly;                 (* iterable_variables: get / insert / remove *)
  at_ (ctxdir ++ "scalar_variables.rs") "new" "decl" 0 LookupOnly;
  at_ (ctxdir ++ "scalar_variables.rs") "fmt" "iter" 0 (NotOnRunPath "Display for Scalars (trace logging)");
  at_ (ctxdir ++ "scalar_variables/values_sparse_matrix.rs") "ValuesSparseMatrix" "decl" 0 LookupOnly;
  at_ (ctxdir ++ "scalar_variables/values_sparse_matrix.rs") "ValuesSparseMatrix" "decl" 1 LookupOnly;   (* allowed_depths: insert/remove/contains *)
  at_ (ctxdir ++ "scalar_variables/values_sparse_matrix.rs") "new" "decl" 0 LookupOnly;
  at_ (ctxdir ++ "scalar_variables/values_sparse_matrix.rs") "new" "decl" 1 LookupOnly;
  at_ (ctxdir ++ "scalar_variables/values_sparse_matrix.rs") "cleanup_obsolete_values" "iter" 0
      (OrderFree "per-name cleanup: each entry is trimmed on its own, emptied names are collected and removed by key");
  at_ (ctxdir ++ "scalar_variables/values_sparse_matrix.rs") "fmt" "iter" 0 (NotOnRunPath "Display (trace logging)");
  at_ (ctxdir ++ "stream_maps_variables.rs") "StreamMaps" "decl" 0 LookupOnly;
  at_ (ctxdir ++ "stream_maps_variables.rs") "compactify" "iter" 0 (Modelled "o_stream_maps / C20_compactify_order");
  at_ (ctxdir ++ "stream_maps_variables.rs") "fmt" "iter" 0 (NotOnRunPath "Display (trace logging)");
  at_ (ctxdir ++ "streams_variables.rs") "Streams" "decl" 0 LookupOnly;
  at_ (ctxdir ++ "streams_variables.rs") "compactify" "iter" 0 (Modelled "o_streams / C20_compactify_order");
  at_ (ctxdir ++ "streams_variables.rs") "fmt" "iter" 0 (NotOnRunPath "Display (trace logging)");
  at_ "air/src/execution_step/instructions/fold/utils.rs" "create_canon_stream_map_iterable_value" "decl" 0 LookupOnly;   (* met_keys: insert / contains *)
  (* ---- air: values ---- *)
  at_ "air/src/execution_step/value_types/canon_stream_map.rs" "CanonStreamMap" "decl" 0 LookupOnly;
  at_ "air/src/execution_step/value_types/canon_stream_map.rs" "from_canon_stream" "decl" 0 LookupOnly;
  at_ "air/src/execution_step/value_types/canon_stream_map.rs" "from_canon_stream" "decl" 1 LookupOnly;
  at_ "air/src/execution_step/value_types/canon_stream_map.rs" "as_jvalue" "iter" 0 (KnownFinding "canon-map-colliding-keys");
  at_ "air/src/execution_step/value_types/canon_stream_map.rs" "fmt" "iter" 0 (NotOnRunPath "Display (trace logging, error text of no outcome)");
  at_ "air/src/execution_step/value_types/stream_map.rs" "from_key_value" "decl" 0 (OrderFree "maplit::hashmap! literal with distinct constant keys, converted into the BTreeMap-backed JSON object (From<HashMap> for JValue)");
  at_ "air/src/execution_step/value_types/stream_map.rs" "iter_unique_key_object" "decl" 0 LookupOnly;                     (* met_keys *)
  (* ---- air: farewell, preparation, runner ---- *)
  at_ "air/src/farewell_step/errors.rs" "FarewellError" "decl" 0 LookupOnly;
  at_ "air/src/farewell_step/errors.rs" "sorted_call_results" "decl" 0 LookupOnly;
  at_ "air/src/farewell_step/errors.rs" "sorted_call_results" "iter" 0 (OrderFree "collected into a BTreeMap before rendering: C20_message_order");
  at_ "air/src/farewell_step/outcome.rs" "from_uncatchable_error" "decl" 0 (AllowedBytes "empty CallRequests map");
  at_ "air/src/farewell_step/outcome.rs" "populate_outcome_from_contexts" "env" 0 (CompileTime "env!(CARGO_PKG_VERSION)");
  at_ "air/src/farewell_step/outcome.rs" "dedup" "decl" 0 (Modelled "o_next / C20_dedup_order");
  at_ "air/src/farewell_step/outcome.rs" "dedup" "iter" 0 (Modelled "o_next / C20_dedup_order");
  at_ "air/src/preparation_step/interpreter_versions.rs" "<top>" "env" 0 (CompileTime "env!(CARGO_PKG_VERSION)");
  at_ "air/src/preparation_step/interpreter_versions.rs" "<top>" "thread_local" 0 (CompileTime "static type assertion, never read");
  at_ "air/src/preparation_step/preparation.rs" "make_exec_ctx" "iter" 0 (OrderFree "call_results.values().any(..): a disjunction");
  at_ "air/src/runner.rs" "execute_air" "env" 0 (CompileTime "env!(CARGO_PKG_VERSION) in a log line");
  (* ---- interpreter-data ---- *)
  at_ (idata_dir ++ "cid_info.rs") "verify_service_result_store" "iter" 0 (MessageOnly "which dangling reference the code-8 text names: preparation-error-first-culprit-uncovered-sites");
  at_ (idata_dir ++ "cid_info.rs") "verify_canon_result_store" "iter" 0 (MessageOnly "as above");
  at_ (idata_dir ++ "cid_info.rs") "verify_canon_result_store" "iter" 1 (MessageOnly "as above (the loop over canon_element_store)");
  at_ (idata_dir ++ "cid_store.rs") "CidStore" "serialize" 0 (AllowedBytes "rkyv AsVec: store entries in hash order inside the encoded data (the property allows it)");
  at_ (idata_dir ++ "cid_store.rs") "CidStore" "decl" 0 LookupOnly;
  at_ (idata_dir ++ "cid_store.rs") "iter" "iter" 0 (OrderFree "accessor; its callers are the cid_info.rs verify_* sites");
  at_ (idata_dir ++ "cid_store.rs") "verify" "iter" 0 (OrderFree "visited in key order (sorted copy of the entries): Generated.first_culprit_sorted");
  at_ (idata_dir ++ "cid_store.rs") "verify_raw_value" "iter" 0 (OrderFree "visited in key order (sorted copy of the entries): Generated.first_culprit_sorted");
  at_ (idata_dir ++ "cid_store.rs") "CidTracker" "decl" 0 LookupOnly;
  at_ (idata_dir ++ "cid_store.rs") "from_cid_stores" "iter" 0 (OrderFree "every entry is inserted into the previous map: C20_stores_order");
  at_ (idata_dir ++ "cid_store.rs") "into_iter" "iter" 0 (OrderFree "accessor; its caller is from_cid_stores");
  at_ (idata_dir ++ "executed_state/impls.rs") "fmt" "iter" 0 (NotAHash "FoldResult.lore is a Vec");
  at_ verif_rs "DataVerifier" "decl" 0 LookupOnly;
  at_ verif_rs "new" "iter" 0 (MessageOnly "which malformed key the code-9 text names (C15: o_new_*): preparation-error-first-culprit-uncovered-sites");
  at_ verif_rs "new" "decl" 0 LookupOnly;
  at_ verif_rs "new" "iter" 1 (OrderFree "collected into a HashMap by peer id (C15_order)");
  at_ verif_rs "new" "iter" 2 (OrderFree "each peer's list is sorted on its own (C15_order)");
  at_ verif_rs "verify" "iter" 0 (OrderFree "visited in peer id order (sorted copy of the entries): Generated.first_culprit_sorted; verdict: C15_order (o_verify)");
  at_ verif_rs "merge" "iter" 0 (MessageOnly "which peer MergeMismatch names: C15_order (o_merge); preparation-error-first-culprit-uncovered-sites");
  at_ verif_rs "merge" "iter" 1 (OrderFree "put into the SignatureStore map: C15_order (o_store)");
  at_ verif_rs "collect_peers_cids_from_trace" "decl" 0 LookupOnly;
  at_ verif_rs "try_push_cid" "decl" 0 LookupOnly;
  at_ verif_rs "to_count_map" "decl" 0 LookupOnly;
  at_ verif_rs "to_count_map" "decl" 1 LookupOnly;
  at_ verif_rs "to_count_map" "iter" 0 (NotAHash "`for cid in cids`: a Vec");
  at_ verif_rs "is_multisubset" "decl" 0 LookupOnly;
  at_ verif_rs "is_multisubset" "decl" 1 LookupOnly;
  at_ verif_rs "is_multisubset" "iter" 0 (OrderFree "a conjunction over the entries: C15_order (o_sub)");
  at_ (idata_dir ++ "lib.rs") "<top>" "env" 0 (CompileTime "env!(CARGO_PKG_VERSION)");
  (* ---- interpreter-interface ---- *)
  at_ "crates/air-lib/interpreter-interface/src/call_request_parameters.rs" "CallRequests" "decl" 0 (AllowedBytes "the request map handed to the host: compared after decoding");
  at_ "crates/air-lib/interpreter-interface/src/call_request_parameters.rs" "CallRequests" "decl" 1 (AllowedBytes "as above");
  at_ "crates/air-lib/interpreter-interface/src/call_request_parameters.rs" "TetrapletDeserializeError" "decl" 0 (AllowedBytes "as above (representation macro)");
  at_ "crates/air-lib/interpreter-interface/src/call_service_result.rs" "CallResults" "decl" 0 LookupOnly;
  at_ "crates/air-lib/interpreter-interface/src/call_service_result.rs" "CallResults" "decl" 1 LookupOnly;
  at_ "crates/air-lib/interpreter-interface/src/call_service_result.rs" "CallResultsFormat" "decl" 0 LookupOnly;
  (* ---- interpreter-signatures ---- *)
  at_ "crates/air-lib/interpreter-signatures/src/stores.rs" "SignatureStore" "serialize" 0 (AllowedBytes "rkyv AsVec: signatures in hash order inside the encoded data (the property allows it)");
  at_ "crates/air-lib/interpreter-signatures/src/stores.rs" "SignatureStore" "decl" 0 LookupOnly;
  at_ "crates/air-lib/interpreter-signatures/src/stores.rs" "iter" "decl" 0 LookupOnly;
  at_ "crates/air-lib/interpreter-signatures/src/stores.rs" "iter" "iter" 0 (OrderFree "accessor; its callers are the DataVerifier::new sites");
  (* ---- interpreter-value ---- *)
  at_ "crates/air-lib/interpreter-value/src/value/from.rs" "from" "decl" 0 (OrderFree "From<HashMap<K,V>> for JValue: object_from_pairs collects into the BTreeMap-backed Map; callers pass literals with distinct keys");
  at_ "crates/air-lib/interpreter-value/src/value/from.rs" "from" "decl" 1 (OrderFree "From<HashMap<K,V>> for JValue: object_from_pairs collects into the BTreeMap-backed Map; callers pass literals with distinct keys");
  at_ "crates/air-lib/interpreter-value/src/value/from.rs" "from" "iter" 0 (OrderFree "From<HashMap<K,V>> for JValue: object_from_pairs collects into the BTreeMap-backed Map; callers pass literals with distinct keys");
  at_ "crates/air-lib/interpreter-value/src/value/from.rs" "from" "iter" 1 (OrderFree "From<HashMap<K,V>> for JValue: object_from_pairs collects into the BTreeMap-backed Map; callers pass literals with distinct keys");
  (* ---- trace-handler ---- *)
  at_ "crates/air-lib/trace-handler/src/data_keeper/keeper.rs" "DataKeeper" "decl" 0 LookupOnly;        (* BiHashMap: insert / get_by_left *)
  at_ "crates/air-lib/trace-handler/src/data_keeper/keeper.rs" "DataKeeper" "decl" 1 LookupOnly;
  at_ "crates/air-lib/trace-handler/src/merger/fold_merger/fold_lore_resolver.rs" "ResolvedFold" "decl" 0 LookupOnly;   (* lore: insert / remove by position *)
  at_ "crates/air-lib/trace-handler/src/merger/fold_merger/fold_lore_resolver.rs" "resolve_fold_lore" "iter" 0 (NotAHash "fold.lore is the Vec of the FoldResult");
  at_ "crates/air-lib/trace-handler/src/merger/fold_merger/fold_lore_resolver.rs" "resolve_fold_lore" "decl" 0 LookupOnly;
  at_ "crates/air-lib/trace-handler/src/merger/fold_merger/fold_lore_resolver.rs" "new" "decl" 0 LookupOnly;
  at_ "crates/air-lib/trace-handler/src/state_automata/fsm_queue.rs" "FSMKeeper" "decl" 0 LookupOnly    (* fold_map: insert / remove / get by fold id *)
].
Local Close Scope string_scope.

Definition site_in (s : site) (l : list site) : bool := existsb (site_eqb s) l.
Fixpoint sites_nodup (l : list site) : bool :=
  match l with [] => true | s :: r => negb (site_in s r) && sites_nodup r end.
(* every site found in the sources today is classified, every classified site still exists, none twice *)
Definition catalogue_closed : bool :=
  forallb (fun s => site_in s (map fst classification)) det_sites &&
  forallb (fun s => site_in s det_sites) (map fst classification) &&
  sites_nodup (map fst classification) && sites_nodup det_sites.
(* no clock, no random source, no address formatting anywhere in the scanned sources *)
Definition no_external_sources : bool :=
  forallb (fun s => let '(_, _, k, _) := s in
                    negb (String.eqb k "clock" || String.eqb k "rand" || String.eqb k "addr")%string) det_sites.
(* the verification loops whose error names a culprit visit their map in key order (read from the source) *)
Definition first_culprit_fixed : bool :=
  list_eqb (fun a b => String.eqb (fst a) (fst b) && Bool.eqb (snd a) (snd b)) first_culprit_sorted
           [("DataVerifier::verify", true); ("CidStore::verify", true); ("CidStore::verify_raw_value", true)]%string.
(* the sites that still name the culprit met first in hash order (message only) *)
Definition message_only_sites : list site :=
  flat_map (fun e => match snd e with MessageOnly _ => [fst e] | _ => [] end) classification.
(* the findings named by the classification *)
Definition classified_findings : list string :=
  flat_map (fun e => match snd e with KnownFinding k => [k] | _ => [] end) classification.

(* ====================================================================================== *)
(* 2. farewell_step/outcome.rs: dedup                                                      *)
(*    let set: HashSet<_> = vec.drain(..).collect(); set.into_iter().collect()             *)
(* the HashSet as the list of its distinct elements (first occurrences: RunExec.dedup) *)
Definition set_of (l : list string) : list string := dedup l [].
Definition dedup_real (order : list string -> list string) (l : list string) : list string := order (set_of l).

Definition C20_dedup_order_stmt : Prop :=
  forall (o o' : list string -> list string) l, is_perm o -> is_perm o' ->
    Permutation (dedup_real o l) (dedup_real o' l) /\
    NoDup (dedup_real o l) /\
    (forall p, In p (dedup_real o l) <-> In p l) /\
    dedup_real id_order l = dedup l [].

(* ====================================================================================== *)
(* 3. Streams::compactify                                                                  *)
Section Compact.
  Variable V : Type.
  Variable pos_of : V -> N.
  Notation streams := (Stream.streams V).
  Notation plan := (Stream.compact_plan).

  Definition plan_empty : plan := {| Stream.cp_updates := []; Stream.cp_crash := None |}.
  Fixpoint plans_seq (ps : list plan) : plan :=
    match ps with [] => plan_empty | p :: t => Stream.plan_seq p (fun _ => plans_seq t) end.
  (* what Stream::compactify ×descriptors does for one name *)
  Definition key_plan (m : streams) (k : string) : plan :=
    match Stream.map_get V m k with
    | Some ds => snd (Stream.descriptors_compactify V pos_of ds)
    | None => plan_empty
    end.
  Definition compact_entry (kd : string * list (Stream.descriptor V)) : string * list (Stream.descriptor V) :=
    (fst kd, fst (Stream.descriptors_compactify V pos_of (snd kd))).
  Definition compact_map (m : streams) : streams := map compact_entry m.
  (* every update_generation call of a whole compactification, names in map order *)
  Definition all_updates (m : streams) : list (N * N) :=
    concat (map (fun kd => Stream.cp_updates (snd (Stream.descriptors_compactify V pos_of (snd kd)))) m).
  (* hypothesis of the theorem: the values of the streams sit at pairwise different trace positions
     (every value is appended together with its own Ap / Call state) *)
  Definition positions_disjoint (m : streams) : Prop := NoDup (map fst (all_updates m)).
  Definition keys_unique (m : streams) : Prop := NoDup (Stream.streams_keys V m).

  Definition C20_compactify_order_stmt : Prop :=
    forall (m : streams) order order', keys_unique m ->
      Permutation order (Stream.streams_keys V m) -> Permutation order' (Stream.streams_keys V m) ->
      let r := Stream.streams_compactify V pos_of order m in
      let r' := Stream.streams_compactify V pos_of order' m in
      (* the streams afterwards are the same map, entry by entry *)
      fst r = compact_map m /\ fst r' = compact_map m /\
      (* a panic is reached under one order iff under the other *)
      (Stream.cp_crash (snd r) = None <-> Stream.cp_crash (snd r') = None) /\
      (* without panic: the same multiset of (trace position, generation) updates, namely all of them *)
      (Stream.cp_crash (snd r) = None ->
         Permutation (Stream.cp_updates (snd r)) (Stream.cp_updates (snd r')) /\
         Permutation (Stream.cp_updates (snd r)) (all_updates m)).

  (* applying the updates: TraceHandler::update_generation at different positions commutes *)
  Section Apply.
    Variables H E : Type.
    Variable upd : H -> N -> N -> H + E.
    Definition sum_equiv (a b : H + E) : Prop :=
      match a, b with inl x, inl y => x = y | inr _, inr _ => True | _, _ => False end.
    Definition two_updates (h : H) (p g q g' : N) : H + E :=
      match upd h p g with inl h1 => upd h1 q g' | inr e => inr e end.
    Definition upd_commutes : Prop :=
      forall h p g q g', p <> q -> sum_equiv (two_updates h p g q g') (two_updates h q g' p g).
    Definition C20_apply_updates_order_stmt : Prop :=
      upd_commutes -> forall ups ups', Permutation ups ups' -> NoDup (map fst ups) ->
        forall h, sum_equiv (Stream.apply_updates upd h ups) (Stream.apply_updates upd h ups').
  End Apply.
End Compact.

(* the real update function of the model's trace handler *)
Definition upd_gen := update_generation cid.
Definition C20_update_generation_commutes_stmt : Prop := upd_commutes (handler cid) gen_err upd_gen.

(* ExecStreams.compactify_table / finish_streams with the iteration orders of `self.streams.iter_mut()` and
   `self.stream_maps.iter_mut()` as parameters *)
Definition compactify_table_ord (order : list string -> list string) (t : table) (x : ctx) : xres :=
  let '(m, pl) := Stream.streams_compactify vagg va_pos (order (Stream.streams_keys vagg (table_of t x))) (table_of t x) in
  run_compact_plan (with_table t x m) pl.
Definition finish_streams_ord (os om : list string -> list string) (x : ctx) : ctx + uncatchable :=
  match compactify_table_ord os TStreams x with
  | XOk y => match compactify_table_ord om TMaps y with
             | XOk z => inl z
             | XErr (EUncatch u) _ => inr u
             | _ => inr UGenerationCompactificationError
             end
  | XErr (EUncatch u) _ => inr u
  | _ => inr UGenerationCompactificationError
  end.

Definition table_ok (t : table) (x : ctx) : Prop :=
  keys_unique vagg (table_of t x) /\ positions_disjoint vagg va_pos (table_of t x).
Definition streams_ok (x : ctx) : Prop := table_ok TStreams x /\ table_ok TMaps x.

(* one table: the same context afterwards, or no context under both orders *)
Definition C20_compactify_table_order_stmt : Prop :=
  forall o o' t x, is_perm o -> is_perm o' -> table_ok t x ->
    forall y, compactify_table_ord o t x = XOk y <-> compactify_table_ord o' t x = XOk y.
Definition C20_finish_streams_order_stmt : Prop :=
  forall os os' om om' x, is_perm os -> is_perm os' -> is_perm om -> is_perm om' -> streams_ok x ->
    finish_streams_ord os om x = finish_streams_ord os' om' x.
Definition C20_finish_streams_tie_stmt : Prop :=
  forall x, finish_streams_ord id_order id_order x = finish_streams x.

(* ====================================================================================== *)
(* 4. CidTracker::from_cid_stores: `for (cid, val) in current_cid_map.0 { cids.insert(cid, val) }` *)
Definition C20_stores_order_stmt : Prop :=
  forall a a' b b' : list cid, NoDup a -> Permutation a a' -> Permutation b b' ->
    Permutation (union_cids a b) (union_cids a' b') /\
    NoDup (union_cids a b) /\
    (forall c, In c (union_cids a b) <-> In c a \/ In c b).
Definition cid_state_equiv (s t : cid_state) : Prop :=
  Permutation (cs_values s) (cs_values t) /\ Permutation (cs_tetraplets s) (cs_tetraplets t) /\
  Permutation (cs_canon_elems s) (cs_canon_elems t) /\ Permutation (cs_canon_results s) (cs_canon_results t) /\
  Permutation (cs_services s) (cs_services t).
Definition cid_state_nodup (s : cid_state) : Prop :=
  NoDup (cs_values s) /\ NoDup (cs_tetraplets s) /\ NoDup (cs_canon_elems s) /\ NoDup (cs_canon_results s) /\
  NoDup (cs_services s).
Definition C20_merge_cid_states_order_stmt : Prop :=
  forall p p' c c', cid_state_nodup p -> cid_state_equiv p p' -> cid_state_equiv c c' ->
    cid_state_equiv (merge_cid_states p c) (merge_cid_states p' c') /\ cid_state_nodup (merge_cid_states p c).

(* ====================================================================================== *)
(* 5. CanonStreamMap::as_jvalue                                                            *)
(* execution_context/stream_maps_variables/stream_map_key.rs: StreamMapKey (I64 and U64 are one integer domain) *)
Inductive map_key := KStr (s : string) | KInt (z : Z).
Definition map_key_eqb (a b : map_key) : bool :=
  match a, b with KStr x, KStr y => String.eqb x y | KInt x, KInt y => Z.eqb x y | _, _ => false end.
(* StreamMapKey::to_key: format!("{n}") for numbers *)
Definition to_key (k : map_key) : string :=
  match k with KStr s => s | KInt z => print_Z_k z EmptyString end.

(* CanonStreamMap::from_canon_stream: map.entry(key).or_insert(empty).push(value) *)
Fixpoint group_add {X} (k : map_key) (v : X) (g : list (map_key * list X)) : list (map_key * list X) :=
  match g with
  | [] => [(k, [v])]
  | (k', vs) :: r => if map_key_eqb k k' then (k', vs ++ [v]) :: r else (k', vs) :: group_add k v r
  end.
Definition groups_of {X} (kvs : list (map_key * X)) : list (map_key * list X) :=
  fold_left (fun g kv => group_add (fst kv) (snd kv) g) kvs [].

(* self.map.iter().map(|(k, v)| (k.to_key(), v.as_jvalue())).collect::<BTreeMap<_,_>>().into():
   a later entry with the same string key replaces an earlier one *)
Definition as_jvalue (order : list (map_key * list json) -> list (map_key * list json))
           (groups : list (map_key * list json)) : json :=
  jobj_of (map (fun kv => (to_key (fst kv), JArr (snd kv))) (order groups)).

Definition keys_collision_free (groups : list (map_key * list json)) : Prop :=
  NoDup (map (fun kv => to_key (fst kv)) groups).
Definition C20_canon_map_order_stmt : Prop :=
  forall o o' groups, is_perm o -> is_perm o' -> keys_collision_free groups ->
    as_jvalue o groups = as_jvalue o' groups.
(* the full statement (no hypothesis on the keys) is false: keys 42 and "42" *)
Definition C20_canon_map_full : Prop :=
  forall o o' groups, is_perm o -> is_perm o' -> NoDup (map fst groups) ->
    as_jvalue o groups = as_jvalue o' groups.
Definition C20_canon_map_refuted_stmt : Prop :=
  exists o o' groups, is_perm o /\ is_perm o' /\ NoDup (map fst groups) /\
    as_jvalue o groups <> as_jvalue o' groups.

(* ====================================================================================== *)
(* 6. FarewellError::UnprocessedCallResult: Debug of the call results                      *)
(* <str as Debug>::fmt on printable ASCII: only the double quote (34) and the backslash (92) are escaped *)
Fixpoint escape_debug (s : string) : string :=
  match s with
  | EmptyString => EmptyString
  | String c r =>
      if (N_of_ascii c =? 34) || (N_of_ascii c =? 92) then String (ascii_of_N 92) (String c (escape_debug r))
      else String c (escape_debug r)
  end.
Definition debug_str (s : string) : string := (String (ascii_of_N 34) (escape_debug s) ++ String (ascii_of_N 34) EmptyString)%string.
Fixpoint printable (s : string) : bool :=
  match s with EmptyString => true | String c r => (32 <=? N_of_ascii c) && (N_of_ascii c <=? 126) && printable r end.

Definition call_result := (string * (Z * string))%type.       (* call id (as text), ret_code, result *)
(* #[derive(Debug)] struct CallServiceResult { ret_code, result } inside a map's Debug *)
Definition render_entry (e : call_result) : string :=
  (debug_str (fst e) ++ ": CallServiceResult { ret_code: " ++ print_Z_k (fst (snd e)) EmptyString ++
   ", result: " ++ debug_str (snd (snd e)) ++ " }")%string.
Fixpoint join_comma (l : list string) : string :=
  match l with
  | [] => EmptyString
  | [x] => x
  | x :: r => (x ++ ", " ++ join_comma r)%string
  end.
Definition render_map (texts : list string) : string := ("{" ++ join_comma texts ++ "}")%string.
(* BTreeMap<&String, &CallServiceResult>: entries by byte-wise key order, one per key *)
Definition sorted_texts (r : list call_result) : list string :=
  match jobj_of (map (fun e => (fst e, JStr (render_entry e))) r) with
  | JObj l => map (fun kv => match snd kv with JStr t => t | _ => EmptyString end) l
  | _ => []
  end.
(* the message of code 30000; [order] is the iteration order of the HashMap<String, CallServiceResult>;
   whether it is consulted is read from the source (Generated.farewell_unprocessed_sorted) *)
Definition unprocessed_msg (order : list call_result -> list call_result) (r : list call_result) : string :=
  (farewell_unprocessed_prefix ++
   render_map (if farewell_unprocessed_sorted then sorted_texts (order r) else map render_entry (order r)) ++
   farewell_unprocessed_suffix)%string.

Definition C20_message_order_stmt : Prop :=
  forall o o' r, is_perm o -> is_perm o' -> NoDup (map fst r) -> unprocessed_msg o r = unprocessed_msg o' r.

(* ====================================================================================== *)
(* 7. the run with its order parameters                                                    *)
Record det_orders := {
  o_streams : list string -> list string;       (* Streams::compactify: self.streams.iter_mut() *)
  o_stream_maps : list string -> list string;   (* StreamMaps::compactify: self.stream_maps.iter_mut() *)
  o_next : list string -> list string }.        (* outcome.rs dedup: set.into_iter() *)
Definition valid_orders (o : det_orders) : Prop :=
  is_perm (o_streams o) /\ is_perm (o_stream_maps o) /\ is_perm (o_next o).
Definition id_orders : det_orders := {| o_streams := id_order; o_stream_maps := id_order; o_next := id_order |}.

(* the next peers leave `run` deduplicated in first-occurrence order; the real order is the HashSet's *)
Definition reorder_next (f : list string -> list string) (r : outcome) : outcome :=
  match r with
  | OutNewData code d next requests signed => OutNewData code d (f next) requests signed
  | other => other
  end.
Definition run_det (o : det_orders) (fuel : nat) (i : run_input) : outcome :=
  reorder_next (o_next o) (run stream_instr (finish_streams_ord (o_streams o) (o_stream_maps o)) fuel i).

(* the canonical observation: everything but the order of the next peers *)
Definition outcome_equiv (a b : outcome) : Prop :=
  match a, b with
  | OutNewData c d n r s, OutNewData c' d' n' r' s' =>
      c = c' /\ d = d' /\ r = r' /\ s = s' /\ Permutation n n' /\ NoDup n /\ NoDup n'
  | _, _ => a = b
  end.
(* the context in which the farewell step starts *)
Definition end_ctx (r : xres) : option ctx :=
  match r with XOk x => Some x | XErr (ECatch _) x => Some x | _ => None end.

Definition C20_order_irrelevant_stmt : Prop :=
  forall o o' fuel i, valid_orders o -> valid_orders o' ->
    (forall x, end_ctx (exec stream_instr fuel (ri_script i) (initial_ctx i)) = Some x -> streams_ok x) ->
    outcome_equiv (run_det o fuel i) (run_det o' fuel i).
(* with the identity orders the parameterised run is the lead's run2 *)
Definition C20_function_stmt : Prop :=
  (forall fuel i, run_det id_orders fuel i = run2 fuel i) /\
  (forall o fuel i i', i = i' -> run_det o fuel i = run_det o fuel i').

(* the statement without the hypothesis on the reached context (an invariant of [exec] that is not proved:
   stream names are unique keys and every stream value sits at its own trace position) *)
Definition C20_full : Prop :=
  forall o o' fuel i, valid_orders o -> valid_orders o' ->
    outcome_equiv (run_det o fuel i) (run_det o' fuel i).
(* the hypothesis of C20_finish_streams_order cannot be dropped *)
Definition C20_finish_needs_disjoint_stmt : Prop :=
  exists o o' x, is_perm o /\ is_perm o' /\ keys_unique vagg (table_of TStreams x) /\ table_ok TMaps x /\
    finish_streams_ord o id_order x <> finish_streams_ord o' id_order x.
