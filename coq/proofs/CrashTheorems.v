(* CrashTheorems.v -- C01: the statements of model/CrashSpec.v and model/Catalogue.v from the lemmas of
   CrashProofs.v (trace handler) and CrashExecProofs.v (executor, streams), and the table that pairs
   every lemma name used by an `Unreachable` entry of the catalogue with its proof. *)
From Coq Require Import Lia.
From Aqua Require Import Base Json Air Trace Handler HandlerCases Values Scalars Lens Stream Exec CrashCases Catalogue CrashSpec.
From Aqua Require Import CrashProofs CrashExecProofs.
Open Scope N_scope.
Open Scope list_scope.

(* ---- catalogue ---- *)
Lemma catalogue_closed_proof : C01_catalogue_closed_stmt.
Proof. unfold C01_catalogue_closed_stmt. vm_compute. reflexivity. Qed.

Record proved_lemma := { pl_name : string; pl_stmt : Prop; pl_proof : pl_stmt }.

Definition unreachable_lemmas : list proved_lemma := [
  {| pl_name := "slider_next_state_index_defined"; pl_proof := slider_next_state_index_defined |};
  {| pl_name := "slider_next_state_no_overflow"; pl_proof := slider_next_state_no_overflow |};
  {| pl_name := "slider_subtrace_len_defined"; pl_proof := slider_subtrace_len_defined |};
  {| pl_name := "ap_generation_guarded"; pl_proof := ap_generation_guarded |};
  {| pl_name := "fold_descs_checked"; pl_proof := fold_descs_checked |};
  {| pl_name := "fold_lens_bounded"; pl_proof := fold_lens_bounded |};
  {| pl_name := "handler_pos_minus_one_unreachable"; pl_proof := handler_pos_minus_one_unreachable |};
  {| pl_name := "handler_inserter_index_unreachable"; pl_proof := handler_inserter_index_unreachable |};
  {| pl_name := "handler_traverse_back_unreachable"; pl_proof := handler_traverse_back_unreachable |};
  {| pl_name := "handler_par_track_unreachable"; pl_proof := handler_par_track_unreachable |};
  {| pl_name := "fail_tetraplets_nonempty"; pl_proof := fail_tetraplets_nonempty |};
  {| pl_name := "ap_tetraplets_nonempty"; pl_proof := ap_tetraplets_nonempty |}
].

Lemma unreachable_named_proof : C01_unreachable_named_stmt (map pl_name unreachable_lemmas).
Proof. unfold C01_unreachable_named_stmt. vm_compute. reflexivity. Qed.

(* ---- trace handler ---- *)
Lemma handler_no_crash_except_proof : C01_handler_no_crash_except_stmt.
Proof. exact handler_no_crash_except. Qed.

Lemma handler_sites_unreachable_proof : C01_handler_sites_unreachable_stmt.
Proof.
  intros prev cur ops s H. apply site_not_reachable. intro K.
  simpl in H, K. intuition (subst; discriminate).
Qed.

Lemma handler_full_refuted_proof : C01_handler_full_refuted_stmt.
Proof. eexists. eexists. exact C01_api_misuse_queue_current. Qed.

Lemma apply_op_is_step_proof : C01_apply_op_is_step_stmt.
Proof. exact apply_op_step. Qed.

Lemma slider_total_proof : C01_slider_total_stmt.
Proof.
  intros C s p l. repeat split.
  - pose proof (set_position_and_len_no_crash C s p l) as G. destruct (set_position_and_len C s p l); simpl in *; tauto.
  - pose proof (set_subtrace_len_no_crash C s l) as G. destruct (set_subtrace_len C s l); simpl in *; tauto.
  - pose proof (try_get_generation_no_crash C s p) as G. destruct (try_get_generation C s p); simpl in *; tauto.
Qed.

(* ---- streams ---- *)
Lemma alloc_proof : C01_alloc_stmt.
Proof. intros V s s' v g H. eapply stream_add_value_rows_bounded. exact H. Qed.

Lemma alloc_matrix_proof : C01_alloc_matrix_stmt.
Proof. intros V. split; [apply matrix_rows_le_generation|apply matrix_rows_attained]. Qed.

Lemma stream_add_total_proof : C01_stream_add_total_stmt.
Proof.
  intros V s v g. split; [apply stream_add_value_no_crash|].
  intros n H. apply stream_add_value_refuses_crafted_generation. exact H.
Qed.

(* ---- executor ---- *)
Lemma exec_repaired_proof : C01_exec_repaired_stmt.
Proof.
  repeat split.
  - intros x name. pose proof (scalars_get_value_no_crash x name) as G.
    destruct (scalars_get_value x name); simpl in *; tauto.
  - intros x c. pose proof (resolve_service_info_no_crash x c) as G.
    destruct (resolve_service_info x c); simpl in *; tauto.
  - intros x met pos src t out. pose proof (handle_prev_state_unresolved_no_crash x met pos src t out) as G.
    destruct (fst (handle_prev_state x met pos src t None out)); simpl in *; tauto.
Qed.

Lemma iterable_peek_proof : C01_iterable_peek_stmt.
Proof.
  repeat split.
  - apply it_peek_defined.
  - apply (proj1 (it_next_in_range _ _ _ H H0)).
  - apply (proj2 (it_next_in_range _ _ _ H H0)).
  - apply (proj1 (it_prev_in_range _ _ _ H H0)).
  - apply (proj2 (it_prev_in_range _ _ _ H H0)).
  - apply (proj1 (from_value_wf _ _ _ H)).
  - apply (proj2 (from_value_wf _ _ _ H)).
  - apply (proj1 (from_jvalue_wf _ _ _ _ _ H)).
  - apply (proj2 (from_jvalue_wf _ _ _ _ _ H)).
Qed.
