"""Shared evaluation of the handler-level cases of C07 / C08 (lib/mergegen.py, coq/model/MergeCases.v):
the real TraceHandler is driven by the `handler` binary, every round is compared with the model
(HandlerCases.check_case through MergeCases.check_rounds) and the property oracle is evaluated in Coq
on the implementation's result traces."""
import json

import vlib

HEADER = ("From Aqua Require Import Base Trace Handler HandlerCases MergeCases.\n"
          "Open Scope N_scope.\nOpen Scope list_scope.\n")
TYPE = "case_t"


def evaluate_handler(cases, result, oracle_fn, tag, what, shard_size=80):
    if not cases:
        return
    outs = vlib.harness_lines("handler", [json.dumps({"rounds": c["rounds"]}) for c in cases], timeout=1800)
    terms, owner = [], []
    dist = result["distribution"]
    for ci, o in enumerate(outs):
        c = cases[ci]
        if "error" in o:
            result["errors"].append(str(o["error"])[:600])
            continue
        terms.append("{| mc_kind := %d; mc_rounds := [%s] |}" % (c.get("kind", 0), "; ".join(o["coq"])))
        owner.append(ci)
        g = "handler/" + c.get("gen", "replayed").split("/")[0] + "/kind%d" % c.get("kind", 0)
        dist[g] = dist.get(g, 0) + 1
        for cl in o["classes"]:
            k = "handler/round/" + cl
            dist[k] = dist.get(k, 0) + 1
        result["evaluations"] += len(o["classes"])
        merged = [i for i in o["info"] if i.get("prev_len") and i.get("cur_len") and i.get("result_len") is not None]
        if merged:
            result["distinct"].add(json.dumps(c.get("key", c["rounds"]), sort_keys=True))
            dist["handler/rounds merging two non-empty traces"] = dist.get("handler/rounds merging two non-empty traces", 0) + len(merged)
        if c.get("kind") in (2, 3):
            shape = c.get("gen", "")
            dist["handler/shape/" + shape] = dist.get("handler/shape/" + shape, 0) + 1
        if len([s for s in result["samples"] if s.get("level") == "handler"]) < 2 and c.get("kind") in (1, 3) and ci % 11 == 5:
            result["samples"].append({"level": "handler", "case": {k: c[k] for k in ("kind", "rounds", "gen") if k in c},
                                      "first_round": o["coq"][0][:600]})
    if not terms:
        return
    fails, errs = vlib.coq_eval_cases(tag, HEADER, TYPE, {"model": "check_rounds", "oracle": oracle_fn}, terms, shard_size=shard_size)
    result["errors"].extend(errs)
    for i in fails["model"]:
        ci = owner[i]
        result["mismatch"].append({"case": handler_case(cases[ci]), "term": terms[i][:3000],
                                   "what": "model/Handler.v disagrees with the real TraceHandler on a round of this case"})
    for i in fails["oracle"]:
        ci = owner[i]
        result["oracle_fail"].append({"case": handler_case(cases[ci]), "term": terms[i][:3000], "key": None,
                                      "what": "%s (%s) is false on the real TraceHandler's result traces" % (oracle_fn, what)})


def handler_case(c):
    return {"level": "handler", "kind": c.get("kind", 0), "rounds": c["rounds"], "gen": c.get("gen", "replayed"), "key": c.get("key")}


# ------------------------------------------------------------------------------------------------
# script shapes (classification of known findings)

def _parse_sexp(s):
    toks = s.replace("(", " ( ").replace(")", " ) ").replace("[", " [ ").replace("]", " ] ").split()

    def rd(i):
        if i < len(toks) and toks[i] in "([":
            close = ")" if toks[i] == "(" else "]"
            out = [toks[i]]
            i += 1
            while i < len(toks) and toks[i] != close:
                x, i = rd(i)
                out.append(x)
            return out, i + 1
        return toks[i], i + 1
    try:
        return rd(0)[0]
    except IndexError:
        return []


def _walk(t):
    if isinstance(t, list):
        yield t
        for x in t[1:]:
            yield from _walk(x)


def _appends_to(t, stream):
    for n in _walk(t):
        if len(n) >= 3 and n[0] == "(" and n[1] in ("ap", "call") and n[-1] == stream:
            return True
    return False


def recursive_stream_folds(script):
    """streams folded over by a fold whose own body appends to them (the shape of DESIGN section 7-11)"""
    res = []
    for n in _walk(_parse_sexp(script)):
        if len(n) >= 5 and n[0] == "(" and n[1] == "fold" and isinstance(n[2], str) and n[2].startswith("$"):
            if any(_appends_to(b, n[2]) for b in n[4:]):
                res.append(n[2])
    return res


def stream_free(script):
    """no stream, canon stream or stream map is mentioned ($name, #name, %name other than the %...% keywords)"""
    import re
    if "$" in re.sub(r"\.\$", "", script) or "#" in script:
        return False
    return "%" not in re.sub(r"%[a-z_]+%", "", script)
