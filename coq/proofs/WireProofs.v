(* WireProofs.v -- lemmas about model/Wire.v (property C27): the u32 varint round trip,
   injectivity, length bound, what the decoder accepts (canonical encodings, and -- as the crate
   does -- five-byte strings that overflow 32 bits, read modulo 2^32), the multiformat tag, and
   the MessagePack framing of the data envelope (versions readable whatever the inner bytes are). *)
From Coq Require Import Lia.
From Aqua Require Import Base Wire.
Open Scope list_scope.
Open Scope N_scope.

Ltac Zify.zify_post_hook ::= Z.to_euclidean_division_equations.

(* ---- bits ---- *)
Lemma land_low_shifted : forall a k s, a < 2 ^ s -> N.land a (k * 2 ^ s) = 0.
Proof.
  intros a k s Ha. apply N.bits_inj. intro m. rewrite N.land_spec, N.bits_0.
  destruct (N.lt_ge_cases m s) as [Hm|Hm].
  - rewrite <- N.shiftl_mul_pow2, N.shiftl_spec_low by exact Hm. apply andb_false_r.
  - rewrite <- (N.mod_small a (2 ^ s)) by exact Ha.
    rewrite N.mod_pow2_bits_high by exact Hm. reflexivity.
Qed.

Lemma lor_disjoint : forall a k s, a < 2 ^ s -> N.lor a (k * 2 ^ s) = a + k * 2 ^ s.
Proof.
  intros a k s Ha. rewrite N.add_nocarry_lxor by (apply land_low_shifted; exact Ha).
  symmetry. apply N.lxor_lor. apply land_low_shifted. exact Ha.
Qed.

Fixpoint all_below (n : nat) (p : N -> bool) : bool :=
  match n with O => true | S k => p (N.of_nat k) && all_below k p end.

Lemma all_below_spec : forall n p, all_below n p = true -> forall b, b < N.of_nat n -> p b = true.
Proof.
  induction n as [|k IH]; intros p H b Hb.
  - simpl in Hb. lia.
  - simpl in H. apply andb_prop in H. destruct H as [H1 H2].
    destruct (N.eq_dec b (N.of_nat k)) as [E|E].
    + subst b. exact H1.
    + apply IH; [exact H2|]. rewrite Nat2N.inj_succ in Hb. lia.
Qed.

Lemma byte_facts : forall b, b < 256 ->
  (N.land b 128 =? 0) = (b <? 128) /\ N.land b 127 = b mod 128 /\
  N.lor b 128 = b mod 128 + 128 /\ N.land (N.lor b 128) 127 = b mod 128.
Proof.
  intros b Hb.
  pose (p := fun b => Bool.eqb (N.land b 128 =? 0) (b <? 128) && (N.land b 127 =? b mod 128) &&
                  (N.lor b 128 =? b mod 128 + 128) && (N.land (N.lor b 128) 127 =? b mod 128)).
  assert (H : p b = true).
  { apply (all_below_spec 256 p); [vm_compute; reflexivity| exact Hb]. }
  unfold p in H.
  repeat (apply andb_prop in H; destruct H as [H ?]).
  repeat match goal with X : (_ =? _) = true |- _ => apply N.eqb_eq in X end.
  apply Bool.eqb_prop in H. auto.
Qed.

Lemma shiftr7 : forall n, N.shiftr n 7 = n / 128.
Proof. intro n. rewrite N.shiftr_div_pow2. reflexivity. Qed.

Lemma enc_byte : forall n, N.lor (n mod 256) 128 = n mod 128 + 128 /\ N.land (N.lor (n mod 256) 128) 127 = n mod 128.
Proof.
  intro n. assert (Hb : n mod 256 < 256) by (apply N.mod_lt; lia).
  destruct (byte_facts _ Hb) as (_ & _ & H3 & H4).
  assert (E : (n mod 256) mod 128 = n mod 128) by lia.
  split; [rewrite H3, E|rewrite H4, E]; reflexivity.
Qed.

(* ---- encoder ---- *)
Lemma enc_loop_unfold : forall f n,
  varint_encode_loop (S f) n =
  if n / 128 =? 0 then Some [n mod 128]
  else match varint_encode_loop f (n / 128) with Some r => Some ((n mod 128 + 128) :: r) | None => None end.
Proof.
  intros f n. cbn [varint_encode_loop]. cbv zeta. rewrite shiftr7.
  destruct (enc_byte n) as [E1 E2]. rewrite E2, E1. reflexivity.
Qed.

Lemma enc_loop_length : forall f n bs, varint_encode_loop f n = Some bs -> (1 <= length bs <= f)%nat.
Proof.
  induction f as [|f IH]; intros n bs H.
  - discriminate H.
  - rewrite enc_loop_unfold in H. destruct (n / 128 =? 0).
    + inversion H. simpl. lia.
    + destruct (varint_encode_loop f (n / 128)) as [r|] eqn:E; [|discriminate H].
      inversion H. apply IH in E. simpl. lia.
Qed.

Lemma enc_loop_total : forall f n, n < 2 ^ (7 * N.of_nat f) -> (0 < f)%nat -> exists bs, varint_encode_loop f n = Some bs.
Proof.
  induction f as [|f IH]; intros n Hn Hf.
  - lia.
  - rewrite enc_loop_unfold. destruct (n / 128 =? 0) eqn:E.
    + eexists; reflexivity.
    + apply N.eqb_neq in E.
      assert (Hq : n / 128 < 2 ^ (7 * N.of_nat f)).
      { rewrite Nat2N.inj_succ in Hn. replace (7 * N.succ (N.of_nat f)) with (7 + 7 * N.of_nat f) in Hn by lia.
        rewrite N.pow_add_r in Hn. change (2 ^ 7) with 128 in Hn.
        apply N.div_lt_upper_bound; lia. }
      destruct f as [|f'].
      * simpl in Hq. lia.
      * destruct (IH _ Hq) as [r Hr]; [lia|]. rewrite Hr. eexists; reflexivity.
Qed.

Lemma enc_loop_bytes : forall f n bs, varint_encode_loop f n = Some bs -> forallb is_byte bs = true.
Proof.
  induction f as [|f IH]; intros n bs H.
  - discriminate H.
  - rewrite enc_loop_unfold in H. destruct (n / 128 =? 0).
    + inversion H. cbn [forallb]. unfold is_byte. rewrite andb_true_r. apply N.ltb_lt. lia.
    + destruct (varint_encode_loop f (n / 128)) as [r|] eqn:E; [|discriminate H].
      inversion H. cbn [forallb]. rewrite (IH _ _ E), andb_true_r. unfold is_byte. apply N.ltb_lt. lia.
Qed.

(* ---- decoder on the encoder's output ---- *)
Lemma dec_step : forall i acc b rest,
  varint_decode_from i acc (b :: rest) =
    let acc' := N.lor acc ((N.shiftl (N.land b 127) (7 * N.of_nat i)) mod u32_bound) in
    if N.land b 128 =? 0 then
      if (b =? 0) && negb (Nat.eqb i 0) then VErr VNotMinimal else VOk acc' rest
    else if Nat.eqb i u32_max_index then VErr VOverflow
    else varint_decode_from (S i) acc' rest.
Proof. reflexivity. Qed.

Lemma pow7_succ : forall i, 2 ^ (7 * N.of_nat (S i)) = 128 * 2 ^ (7 * N.of_nat i).
Proof.
  intro i. rewrite Nat2N.inj_succ. replace (7 * N.succ (N.of_nat i)) with (7 + 7 * N.of_nat i) by lia.
  rewrite N.pow_add_r. reflexivity.
Qed.

Lemma dec_of_enc : forall f n bs, varint_encode_loop f n = Some bs ->
  forall i acc rest, acc < 2 ^ (7 * N.of_nat i) -> n * 2 ^ (7 * N.of_nat i) < u32_bound ->
    (i + length bs <= 5)%nat -> (n <> 0 \/ i = 0%nat) ->
    varint_decode_from i acc (bs ++ rest) = VOk (acc + n * 2 ^ (7 * N.of_nat i)) rest.
Proof.
  induction f as [|f IH]; intros n bs H i acc rest Hacc Hn Hlen Hnz.
  - discriminate H.
  - rewrite enc_loop_unfold in H.
    set (P := 2 ^ (7 * N.of_nat i)) in *.
    assert (HP : 0 < P) by (unfold P; apply N.neq_0_lt_0, N.pow_nonzero; lia).
    destruct (n / 128 =? 0) eqn:E.
    + apply N.eqb_eq in E. inversion H as [Hbs]. clear H.
      assert (Hsmall : n < 128) by lia.
      assert (Hm : n mod 128 = n) by lia. rewrite Hm.
      cbn [app]. rewrite dec_step. cbv zeta.
      assert (Hb : n < 256) by lia.
      destruct (byte_facts _ Hb) as (B1 & B2 & _ & _).
      rewrite B1, B2, Hm. replace (n <? 128) with true by (symmetry; apply N.ltb_lt; exact Hsmall).
      replace ((n =? 0) && negb (Nat.eqb i 0)) with false.
      2:{ destruct Hnz as [Hnz|Hnz].
          - apply N.eqb_neq in Hnz. rewrite Hnz. reflexivity.
          - subst i. rewrite andb_false_r. reflexivity. }
      rewrite N.shiftl_mul_pow2. fold P. rewrite (N.mod_small _ _ Hn).
      unfold P at 1. rewrite lor_disjoint by exact Hacc. reflexivity.
    + apply N.eqb_neq in E.
      destruct (varint_encode_loop f (n / 128)) as [r|] eqn:Er; [|discriminate H].
      inversion H as [Hbs]. clear H. subst bs.
      pose proof (enc_loop_length _ _ _ Er) as Hlr.
      cbn [length] in Hlen.
      cbn [app]. rewrite dec_step. cbv zeta.
      assert (Hb : n mod 128 + 128 < 256) by lia.
      destruct (byte_facts _ Hb) as (B1 & B2 & _ & _).
      rewrite B1, B2.
      replace (n mod 128 + 128 <? 128) with false by (symmetry; apply N.ltb_ge; lia).
      replace ((n mod 128 + 128) mod 128) with (n mod 128) by lia.
      replace (Nat.eqb i u32_max_index) with false by (symmetry; apply Nat.eqb_neq; unfold u32_max_index; lia).
      rewrite N.shiftl_mul_pow2. fold P.
      assert (Hk : n mod 128 * P <= n * P) by (apply N.mul_le_mono_r; lia).
      rewrite N.mod_small by lia.
      unfold P at 1. rewrite lor_disjoint by exact Hacc. fold P.
      assert (Hk2 : n mod 128 * P <= 127 * P) by (apply N.mul_le_mono_r; lia).
      rewrite (IH _ _ Er (S i) (acc + n mod 128 * P) rest).
      * f_equal. rewrite pow7_succ. fold P.
        assert (Hd : n = 128 * (n / 128) + n mod 128) by lia.
        rewrite Hd at 3. lia.
      * rewrite pow7_succ. fold P. lia.
      * rewrite pow7_succ. fold P.
        assert (Hd : 128 * (n / 128) <= n) by lia.
        assert (Hd2 : 128 * (n / 128) * P <= n * P) by (apply N.mul_le_mono_r; exact Hd).
        lia.
      * lia.
      * left. exact E.
Qed.

Lemma u32_enc_some : forall n, n < u32_bound -> exists bs, varint_encode_u32 n = Some bs.
Proof.
  intros n Hn. unfold varint_encode_u32. replace (n <? u32_bound) with true by (symmetry; apply N.ltb_lt; exact Hn).
  apply enc_loop_total; [|unfold u32_len; lia].
  unfold u32_bound in Hn. unfold u32_len. change (2 ^ (7 * N.of_nat 5)) with 34359738368. lia.
Qed.

Lemma u32_enc_inv : forall n bs, varint_encode_u32 n = Some bs -> n < u32_bound /\ varint_encode_loop u32_len n = Some bs.
Proof.
  intros n bs H. unfold varint_encode_u32 in H. destruct (n <? u32_bound) eqn:E; [|discriminate H].
  apply N.ltb_lt in E. auto.
Qed.

Theorem varint_roundtrip : forall n tag rest,
  varint_encode_u32 n = Some tag -> varint_decode_u32 (tag ++ rest) = VOk n rest.
Proof.
  intros n tag rest H. apply u32_enc_inv in H. destruct H as [Hn H].
  unfold varint_decode_u32.
  pose proof (enc_loop_length _ _ _ H) as Hl. unfold u32_len in Hl.
  rewrite (dec_of_enc _ _ _ H 0%nat 0 rest).
  - f_equal. simpl. lia.
  - simpl. lia.
  - simpl. change (2 ^ 0) with 1. lia.
  - lia.
  - right. reflexivity.
Qed.

Theorem varint_encode_injective : forall n m tag,
  varint_encode_u32 n = Some tag -> varint_encode_u32 m = Some tag -> n = m.
Proof.
  intros n m tag Hn Hm.
  pose proof (varint_roundtrip _ _ [] Hn) as R1. pose proof (varint_roundtrip _ _ [] Hm) as R2.
  rewrite R1 in R2. inversion R2. reflexivity.
Qed.

Theorem varint_encode_length : forall n tag, varint_encode_u32 n = Some tag ->
  (1 <= length tag <= 5)%nat /\ forallb is_byte tag = true.
Proof.
  intros n tag H. apply u32_enc_inv in H. destruct H as [_ H]. split.
  - exact (enc_loop_length _ _ _ H).
  - exact (enc_loop_bytes _ _ _ H).
Qed.

(* no proper prefix ambiguity: the encoding of one number followed by anything never decodes to another *)
Theorem varint_prefix_free : forall n m t1 t2 r1 r2,
  varint_encode_u32 n = Some t1 -> varint_encode_u32 m = Some t2 -> t1 ++ r1 = t2 ++ r2 -> n = m /\ r1 = r2.
Proof.
  intros n m t1 t2 r1 r2 H1 H2 E.
  pose proof (varint_roundtrip _ _ r1 H1) as R1. pose proof (varint_roundtrip _ _ r2 H2) as R2.
  rewrite E in R1. rewrite R1 in R2. inversion R2. auto.
Qed.

(* ---- what the decoder accepts ---- *)
Lemma shape_value_nonzero : forall r, leb_shape false r = true -> leb_value r <> 0.
Proof.
  induction r as [|b r IH]; intro H.
  - discriminate H.
  - destruct r as [|b' r'].
    + cbn [leb_shape] in H. apply andb_prop in H. destruct H as [H1 H2]. cbn [orb] in H2.
      apply N.ltb_lt in H1. apply negb_true_iff, N.eqb_neq in H2. cbn [leb_value]. lia.
    + cbn [leb_shape] in H. apply andb_prop in H. destruct H as [_ H].
      specialize (IH H). cbn [leb_value] in *. lia.
Qed.

Lemma enc_of_shape : forall pre first f, leb_shape first pre = true -> (length pre <= f)%nat ->
  varint_encode_loop f (leb_value pre) = Some pre.
Proof.
  induction pre as [|b r IH]; intros first f Hs Hl.
  - discriminate Hs.
  - destruct f as [|f]; [simpl in Hl; lia|]. rewrite enc_loop_unfold.
    destruct r as [|b' r'].
    + cbn [leb_shape] in Hs. apply andb_prop in Hs. destruct Hs as [H1 _]. apply N.ltb_lt in H1.
      cbn [leb_value]. replace ((b mod 128 + 128 * 0) / 128 =? 0) with true by (symmetry; apply N.eqb_eq; lia).
      f_equal. f_equal. lia.
    + remember (b' :: r') as r eqn:Er.
      assert (Hs' : (128 <=? b) && is_byte b && leb_shape false r = true) by (rewrite Er; rewrite Er in Hs; exact Hs).
      apply andb_prop in Hs'. destruct Hs' as [Hs1 Hs2]. apply andb_prop in Hs1. destruct Hs1 as [Hb1 Hb2].
      apply N.leb_le in Hb1. unfold is_byte in Hb2. apply N.ltb_lt in Hb2.
      pose proof (shape_value_nonzero _ Hs2) as Hnz.
      cbn [leb_value].
      replace ((b mod 128 + 128 * leb_value r) / 128) with (leb_value r) by lia.
      replace (leb_value r =? 0) with false by (symmetry; apply N.eqb_neq; exact Hnz).
      rewrite (IH false f Hs2) by (simpl in Hl; lia).
      f_equal. f_equal. lia.
Qed.

Lemma leb_shape_cons : forall first b p0 r,
  leb_shape first (b :: p0 :: r) = (128 <=? b) && is_byte b && leb_shape false (p0 :: r).
Proof. reflexivity. Qed.

Lemma dec_consumes : forall bs i acc v rest, forallb is_byte bs = true ->
  acc < 2 ^ (7 * N.of_nat i) -> (i <= 4)%nat ->
  varint_decode_from i acc bs = VOk v rest ->
  exists pre, bs = pre ++ rest /\ leb_shape (Nat.eqb i 0) pre = true /\ (i + length pre <= 5)%nat /\
              v = (acc + leb_value pre * 2 ^ (7 * N.of_nat i)) mod u32_bound.
Proof.
  induction bs as [|b bs IH]; intros i acc v rest Hbytes Hacc Hi H.
  - discriminate H.
  - cbn [forallb] in Hbytes. apply andb_prop in Hbytes. destruct Hbytes as [Hb Hbs].
    unfold is_byte in Hb. apply N.ltb_lt in Hb.
    rewrite dec_step in H. cbv zeta in H.
    destruct (byte_facts _ Hb) as (B1 & B2 & _ & _). rewrite B1, B2 in H.
    rewrite N.shiftl_mul_pow2 in H.
    set (P := 2 ^ (7 * N.of_nat i)) in *.
    assert (HP : 0 < P) by (unfold P; apply N.neq_0_lt_0, N.pow_nonzero; lia).
    assert (HP28 : P <= 268435456).
    { unfold P. change 268435456 with (2 ^ 28). apply N.pow_le_mono_r; lia. }
    (* the value OR-ed in, in arithmetic form *)
    assert (Hor : N.lor acc ((b mod 128 * P) mod u32_bound) = (acc + b mod 128 * P) mod u32_bound
                  /\ (acc + b mod 128 * P) mod u32_bound < u32_bound
                  /\ ((i < 4)%nat -> (acc + b mod 128 * P) mod u32_bound = acc + b mod 128 * P)).
    { assert (Hdiv : exists Q, u32_bound = Q * P /\ 0 < Q).
      { exists (2 ^ (32 - 7 * N.of_nat i)). split.
        - unfold P. rewrite <- N.pow_add_r. replace (32 - 7 * N.of_nat i + 7 * N.of_nat i) with 32 by lia. reflexivity.
        - apply N.neq_0_lt_0, N.pow_nonzero; lia. }
      destruct Hdiv as (Q & HQ & HQ0).
      assert (Hm : (b mod 128 * P) mod u32_bound = (b mod 128) mod Q * P).
      { rewrite HQ. apply N.mul_mod_distr_r; lia. }
      rewrite Hm. unfold P at 1. rewrite lor_disjoint by exact Hacc. fold P.
      assert (Hlt : acc + (b mod 128) mod Q * P < u32_bound).
      { rewrite HQ. assert ((b mod 128) mod Q < Q) by (apply N.mod_lt; lia).
        assert ((b mod 128) mod Q * P + P <= Q * P).
        { replace ((b mod 128) mod Q * P + P) with (((b mod 128) mod Q + 1) * P) by lia.
          apply N.mul_le_mono_r. lia. }
        lia. }
      assert (Heq : (acc + b mod 128 * P) mod u32_bound = acc + (b mod 128) mod Q * P).
      { symmetry. apply (N.mod_unique _ _ ((b mod 128) / Q)); [exact Hlt|].
        rewrite HQ.
        assert (Hd : b mod 128 = Q * ((b mod 128) / Q) + (b mod 128) mod Q) by (apply N.div_mod; lia).
        rewrite Hd at 1. lia. }
      rewrite Heq. split; [reflexivity|]. split; [exact Hlt|].
      intro Hi4. 
      assert (HPle : 128 * P <= u32_bound).
      { unfold P. rewrite <- pow7_succ. change u32_bound with (2 ^ 32). apply N.pow_le_mono_r; lia. }
      assert (Hk : b mod 128 * P <= 127 * P) by (apply N.mul_le_mono_r; lia).
      rewrite <- Heq. apply N.mod_small. lia. }
    destruct Hor as (Hor & Hlt & Hsmall). rewrite Hor in H.
    destruct (b <? 128) eqn:Elast.
    + (* final byte *)
      destruct ((b =? 0) && negb (Nat.eqb i 0)) eqn:Enm; [discriminate H|].
      inversion H. subst rest. exists [b]. split; [reflexivity|].
      split.
      { cbn [leb_shape]. rewrite Elast. cbn [andb]. destruct (Nat.eqb i 0); [reflexivity|].
        cbn [orb]. rewrite andb_true_r in Enm. rewrite Enm. reflexivity. }
      split; [simpl; lia|]. cbn [leb_value]. f_equal. lia.
    + apply N.ltb_ge in Elast.
      destruct (Nat.eqb i u32_max_index) eqn:E4; [discriminate H|].
      apply Nat.eqb_neq in E4. unfold u32_max_index in E4.
      assert (Hi4 : (i < 4)%nat) by lia.
      rewrite (Hsmall Hi4) in H.
      assert (Hk : b mod 128 * P <= 127 * P) by (apply N.mul_le_mono_r; lia).
      apply IH in H; [|exact Hbs| rewrite pow7_succ; fold P; lia | lia].
      destruct H as (pre & Hpre & Hshape & Hlen & Hv).
      exists (b :: pre). split; [rewrite Hpre; reflexivity|]. split.
      { destruct pre as [|p0 pre']; [discriminate Hshape|].
        rewrite leb_shape_cons. change (Nat.eqb (S i) 0) with false in Hshape.
        rewrite Hshape. unfold is_byte.
        replace (128 <=? b) with true by (symmetry; apply N.leb_le; exact Elast).
        replace (b <? 256) with true by (symmetry; apply N.ltb_lt; exact Hb). reflexivity. }
      split; [simpl; lia|].
      rewrite Hv. f_equal. cbn [leb_value]. rewrite pow7_succ. fold P. lia.
Qed.

(* the decoder accepts exactly: canonical encodings of u32 numbers, plus five-byte strings whose
   LEB128 value does not fit in 32 bits, which it reads modulo 2^32 *)
Theorem varint_decode_canonical_partial : forall bs n rest, forallb is_byte bs = true ->
  varint_decode_u32 bs = VOk n rest ->
  exists pre, bs = pre ++ rest /\ (1 <= length pre <= 5)%nat /\ n = leb_value pre mod u32_bound /\
    (leb_value pre < u32_bound -> varint_encode_u32 n = Some pre).
Proof.
  intros bs n rest Hb H. unfold varint_decode_u32 in H.
  apply dec_consumes in H; [|exact Hb|simpl; lia|lia].
  destruct H as (pre & Hpre & Hshape & Hlen & Hv).
  exists pre. split; [exact Hpre|].
  assert (Hl1 : (1 <= length pre)%nat) by (destruct pre; [discriminate Hshape|simpl; lia]).
  split; [simpl in Hlen; lia|].
  assert (Hn : n = leb_value pre mod u32_bound).
  { rewrite Hv. f_equal. simpl. change (2 ^ 0) with 1. lia. }
  split; [exact Hn|]. clear Hv.
  intro Hsmall. rewrite N.mod_small in Hn by exact Hsmall. subst n.
  unfold varint_encode_u32. replace (leb_value pre <? u32_bound) with true by (symmetry; apply N.ltb_lt; exact Hsmall).
  apply (enc_of_shape pre (Nat.eqb 0 0)); [exact Hshape|]. unfold u32_len. simpl in Hlen. lia.
Qed.

Theorem varint_decode_canonical_refuted : ~ C27_varint_canonical_full.
Proof.
  intro H. specialize (H [128; 128; 128; 128; 16] 0 []).
  destruct H as (tag & Ht & Hb); [reflexivity|reflexivity|].
  vm_compute in Ht. inversion Ht. subst tag. discriminate Hb.
Qed.

(* ---- multiformat ---- *)
Section MultiformatProofs.
  Variable A : Type.
  Variable enc : A -> option (list N).
  Variable dec : list N -> option A.
  Hypothesis format_roundtrip : forall x bs, enc x = Some bs -> dec bs = Some x.

  Lemma encode_multiformat_inv : forall c x bs, encode_multiformat A enc c x = Some bs ->
    exists tag payload, varint_encode_u32 c = Some tag /\ enc x = Some payload /\ bs = tag ++ payload.
  Proof.
    intros c x bs H. unfold encode_multiformat in H.
    destruct (varint_encode_u32 c) as [tag|]; [|discriminate H].
    destruct (enc x) as [payload|]; [|discriminate H].
    inversion H. eauto.
  Qed.

  Theorem multiformat_roundtrip : forall c x bs,
    encode_multiformat A enc c x = Some bs -> decode_multiformat A dec c bs = MOk x.
  Proof.
    intros c x bs H. apply encode_multiformat_inv in H. destruct H as (tag & payload & Ht & Hp & Hbs).
    subst bs. unfold decode_multiformat. rewrite (varint_roundtrip _ _ payload Ht).
    rewrite N.eqb_refl. cbn [negb]. rewrite (format_roundtrip _ _ Hp). reflexivity.
  Qed.

  Theorem multiformat_rejects_other_codec : forall c c' x bs, c <> c' ->
    encode_multiformat A enc c x = Some bs -> decode_multiformat A dec c' bs = MErr (DCodec c).
  Proof.
    intros c c' x bs Hne H. apply encode_multiformat_inv in H. destruct H as (tag & payload & Ht & Hp & Hbs).
    subst bs. unfold decode_multiformat. rewrite (varint_roundtrip _ _ payload Ht).
    replace (c =? c') with false by (symmetry; apply N.eqb_neq; exact Hne). reflexivity.
  Qed.

  (* the encoder fails only for a codec that is not a u32 or when the inner writer fails *)
  Theorem encode_multiformat_total : forall c x payload, c < u32_bound -> enc x = Some payload ->
    exists bs, encode_multiformat A enc c x = Some bs.
  Proof.
    intros c x payload Hc Hp. destruct (u32_enc_some _ Hc) as [tag Ht].
    unfold encode_multiformat. rewrite Ht, Hp. eauto.
  Qed.

  (* whatever is accepted carries a tag that denotes the expected codec modulo 2^32, and a
     payload the inner format accepts; when the tag's LEB128 value fits u32 the tag is canonical *)
  Theorem multiformat_accepts_only_tagged : forall c bs x, forallb is_byte bs = true ->
    decode_multiformat A dec c bs = MOk x ->
    exists tag payload, bs = tag ++ payload /\ dec payload = Some x /\ c = leb_value tag mod u32_bound /\
      (leb_value tag < u32_bound -> varint_encode_u32 c = Some tag).
  Proof.
    intros c bs x Hb H. unfold decode_multiformat in H.
    destruct (varint_decode_u32 bs) as [n rest|e] eqn:E; [|discriminate H].
    destruct (n =? c) eqn:Ec; cbn [negb] in H; [|discriminate H].
    apply N.eqb_eq in Ec. subst n.
    destruct (dec rest) as [y|] eqn:Ed; [|discriminate H]. inversion H. subst y.
    destruct (varint_decode_canonical_partial _ _ _ Hb E) as (pre & Hpre & _ & Hv & Hc).
    exists pre, rest. auto.
  Qed.
End MultiformatProofs.

(* ---- MessagePack framing ---- *)
Lemma lenN_length : forall A (l : list A), lenN l = N.of_nat (length l).
Proof. induction l as [|x l IH]; [reflexivity|]. cbn [lenN length]. rewrite IH, Nat2N.inj_succ. reflexivity. Qed.

Lemma take_app : forall p r, take (lenN p) (p ++ r) = Some (p, r).
Proof.
  intros p r. unfold take. rewrite !lenN_length, app_length, Nat2N.inj_add.
  replace (N.of_nat (length p) <=? N.of_nat (length p) + N.of_nat (length r)) with true by (symmetry; apply N.leb_le; lia).
  rewrite Nat2N.id. rewrite firstn_app, Nat.sub_diag, firstn_all, skipn_app, Nat.sub_diag, skipn_all.
  cbn [firstn skipn app]. rewrite app_nil_r. reflexivity.
Qed.

Lemma take_app_len : forall n p r, n = lenN p -> take n (p ++ r) = Some (p, r).
Proof. intros n p r ->. apply take_app. Qed.

Lemma read_len_1 : forall n r, read_len 1 (n :: r) = Some (n, r).
Proof.
  intros n r. unfold read_len. change (n :: r) with ([n] ++ r). rewrite (take_app_len _ [n] r) by reflexivity.
  unfold of_be. cbn [fold_left].
  match goal with |- Some (?x, _) = _ => replace x with n by lia end. reflexivity.
Qed.

Lemma read_len_2 : forall n r, read_len 2 (be2 n ++ r) = Some (n, r).
Proof.
  intros n r. unfold read_len. rewrite (take_app_len _ (be2 n) r) by reflexivity.
  unfold of_be, be2. cbn [fold_left].
  match goal with |- Some (?x, _) = _ => replace x with n by lia end. reflexivity.
Qed.

Lemma read_len_4 : forall n r, read_len 4 (be4 n ++ r) = Some (n, r).
Proof.
  intros n r. unfold read_len. rewrite (take_app_len _ (be4 n) r) by reflexivity.
  unfold of_be, be4. cbn [fold_left].
  match goal with |- Some (?x, _) = _ => replace x with n by lia end. reflexivity.
Qed.

Lemma read_blob_cons : forall m r, read_blob (m :: r) =
  match blob_kind m with
  | None => MpUnsupported
  | Some (is_str, inl len) => match take len r with Some (p, r') => MpOk (is_str, p) r' | None => MpErr end
  | Some (is_str, inr k) =>
      match read_len k r with
      | Some (len, r1) => match take len r1 with Some (p, r') => MpOk (is_str, p) r' | None => MpErr end
      | None => MpErr
      end
  end.
Proof. reflexivity. Qed.

Lemma some_inj : forall A (a b : A), Some a = Some b -> a = b.
Proof. intros A a b H. congruence. Qed.

Lemma read_str_ok : forall s bs rest, mp_str s = Some bs -> read_blob (bs ++ rest) = MpOk (true, s) rest.
Proof.
  intros s bs rest H. unfold mp_str in H.
  destruct (mp_str_header (lenN s)) as [h|] eqn:Eh; [|discriminate H]. inversion H. subst bs. clear H.
  unfold mp_str_header in Eh. rewrite <- app_assoc.
  destruct (lenN s <? 32) eqn:E1.
  { apply some_inj in Eh. subst h. apply N.ltb_lt in E1. cbn [app]. rewrite read_blob_cons.
    assert (K : blob_kind (160 + lenN s) = Some (true, inl (lenN s))).
    { unfold blob_kind. replace (160 <=? 160 + lenN s) with true by (symmetry; apply N.leb_le; lia).
      replace (160 + lenN s <? 192) with true by (symmetry; apply N.ltb_lt; lia).
      cbn [andb]. f_equal. f_equal. f_equal. lia. }
    rewrite K, take_app. reflexivity. }
  destruct (lenN s <? 256) eqn:E2.
  { apply some_inj in Eh. subst h. cbn [app]. rewrite read_blob_cons.
    change (blob_kind 217) with (Some (true, @inr N nat 1%nat)). cbv beta iota. rewrite read_len_1, take_app. reflexivity. }
  destruct (lenN s <? 65536) eqn:E3.
  { apply some_inj in Eh. subst h. cbn [app]. rewrite read_blob_cons.
    change (blob_kind 218) with (Some (true, @inr N nat 2%nat)). cbv beta iota.
    change (be2 (lenN s) ++ s ++ rest) with (be2 (lenN s) ++ (s ++ rest)).
    rewrite read_len_2, take_app. reflexivity. }
  destruct (lenN s <? u32_bound) eqn:E4; [|discriminate Eh].
  apply some_inj in Eh. subst h. cbn [app]. rewrite read_blob_cons.
  change (blob_kind 219) with (Some (true, @inr N nat 4%nat)). cbv beta iota.
  change (be4 (lenN s) ++ s ++ rest) with (be4 (lenN s) ++ (s ++ rest)).
  rewrite read_len_4, take_app. reflexivity.
Qed.

Lemma read_bin_ok : forall s bs rest, mp_bin s = Some bs -> read_blob (bs ++ rest) = MpOk (false, s) rest.
Proof.
  intros s bs rest H. unfold mp_bin in H.
  destruct (mp_bin_header (lenN s)) as [h|] eqn:Eh; [|discriminate H]. inversion H. subst bs. clear H.
  unfold mp_bin_header in Eh. rewrite <- app_assoc.
  destruct (lenN s <? 256) eqn:E2.
  { apply some_inj in Eh. subst h. cbn [app]. rewrite read_blob_cons.
    change (blob_kind 196) with (Some (false, @inr N nat 1%nat)). cbv beta iota. rewrite read_len_1, take_app. reflexivity. }
  destruct (lenN s <? 65536) eqn:E3.
  { apply some_inj in Eh. subst h. cbn [app]. rewrite read_blob_cons.
    change (blob_kind 197) with (Some (false, @inr N nat 2%nat)). cbv beta iota.
    change (be2 (lenN s) ++ s ++ rest) with (be2 (lenN s) ++ (s ++ rest)).
    rewrite read_len_2, take_app. reflexivity. }
  destruct (lenN s <? u32_bound) eqn:E4; [|discriminate Eh].
  apply some_inj in Eh. subst h. cbn [app]. rewrite read_blob_cons.
  change (blob_kind 198) with (Some (false, @inr N nat 4%nat)). cbv beta iota.
  change (be4 (lenN s) ++ s ++ rest) with (be4 (lenN s) ++ (s ++ rest)).
  rewrite read_len_4, take_app. reflexivity.
Qed.

Lemma string_bytes_roundtrip : forall s, string_of_bytes (bytes_of_string s) = s.
Proof.
  induction s as [|a s IH]; [reflexivity|]. cbn [bytes_of_string string_of_bytes].
  rewrite ascii_N_embedding, IH. reflexivity.
Qed.

(* ---- the envelope ---- *)
Lemma mp_str_nonempty : forall s bs, mp_str s = Some bs -> (1 <= length bs)%nat.
Proof.
  intros s bs H. unfold mp_str in H. destruct (mp_str_header (lenN s)) as [h|] eqn:Eh; [|discriminate H].
  apply some_inj in H. subst bs. unfold mp_str_header in Eh.
  repeat match type of Eh with (if ?c then _ else _) = _ => destruct c end;
    try discriminate Eh; apply some_inj in Eh; subst h; rewrite app_length; simpl; lia.
Qed.

Lemma read_entries_zero : forall w f a l, read_entries w f 0 a l = EOk a.
Proof. intros w f a l. destruct f; reflexivity. Qed.

Lemma read_entries_step : forall w f n a kb vb rest key val a',
  n <> 0 ->
  read_blob (kb ++ vb ++ rest) = MpOk key (vb ++ rest) ->
  read_blob (vb ++ rest) = MpOk val rest ->
  entry_step w a key val = EOk a' ->
  read_entries w (S f) n a (kb ++ vb ++ rest) = read_entries w f (n - 1) a' rest.
Proof.
  intros w f n a kb vb rest key val a' Hn Hk Hv Hs.
  cbn [read_entries]. replace (n =? 0) with false by (symmetry; apply N.eqb_neq; exact Hn).
  rewrite Hk, Hv, Hs. reflexivity.
Qed.

Lemma entry_version : forall w a v, a_ver a = None ->
  entry_step w a (true, key_version) (true, v) = EOk {| a_ver := Some v; a_iver := a_iver a; a_inner := a_inner a |}.
Proof.
  intros w a v H. unfold entry_step. cbn [fst snd negb].
  change (bytes_eqb key_version key_version) with true. cbv iota. rewrite H. reflexivity.
Qed.

Lemma entry_iversion : forall w a v, a_iver a = None ->
  entry_step w a (true, key_interpreter_version) (true, v) = EOk {| a_ver := a_ver a; a_iver := Some v; a_inner := a_inner a |}.
Proof.
  intros w a v H. unfold entry_step. cbn [fst snd negb].
  change (bytes_eqb key_interpreter_version key_version) with false.
  change (bytes_eqb key_interpreter_version key_interpreter_version) with true. cbv iota. rewrite H. reflexivity.
Qed.

Lemma entry_inner_skipped : forall a v,
  entry_step false a (true, key_inner_data) (false, v) = EOk a.
Proof.
  intros a v. unfold entry_step. cbn [fst snd negb andb].
  change (bytes_eqb key_inner_data key_version) with false.
  change (bytes_eqb key_inner_data key_interpreter_version) with false. reflexivity.
Qed.

Lemma entry_inner_taken : forall a v, a_inner a = None ->
  entry_step true a (true, key_inner_data) (false, v) = EOk {| a_ver := a_ver a; a_iver := a_iver a; a_inner := Some v |}.
Proof.
  intros a v H. unfold entry_step. cbn [fst snd negb andb].
  change (bytes_eqb key_inner_data key_version) with false.
  change (bytes_eqb key_inner_data key_interpreter_version) with false.
  change (bytes_eqb key_inner_data key_inner_data) with true. cbv iota. rewrite H. reflexivity.
Qed.

(* serialization fails only when a length does not fit u32 *)
Theorem envelope_serialize_total : forall (V : Type) (print_ver : V -> string) dv iv inner,
  lenN (bytes_of_string (print_ver dv)) < u32_bound -> lenN (bytes_of_string (print_ver iv)) < u32_bound ->
  lenN inner < u32_bound -> exists bs, envelope_serialize V print_ver dv iv inner = Some bs.
Proof.
  intros V print_ver dv iv inner H1 H2 H3. unfold envelope_serialize.
  assert (S : forall s, lenN s < u32_bound -> exists b, mp_str s = Some b).
  { intros s Hs. unfold mp_str, mp_str_header.
    repeat match goal with |- context [if ?c then _ else _] => destruct c eqn:? end; eauto.
    apply N.ltb_ge in Heqb2. lia. }
  assert (B : forall s, lenN s < u32_bound -> exists b, mp_bin s = Some b).
  { intros s Hs. unfold mp_bin, mp_bin_header.
    repeat match goal with |- context [if ?c then _ else _] => destruct c eqn:? end; eauto.
    apply N.ltb_ge in Heqb1. lia. }
  change (mp_str key_version) with (Some (167 :: key_version)).
  change (mp_str key_interpreter_version) with (Some (179 :: key_interpreter_version)).
  change (mp_str key_inner_data) with (Some (170 :: key_inner_data)).
  destruct (S _ H1) as [b1 E1]. destruct (S _ H2) as [b2 E2]. destruct (B _ H3) as [b3 E3].
  rewrite E1, E2, E3. eauto.
Qed.

Section EnvelopeProofs.
  Variable V : Type.
  Variable print_ver : V -> string.
  Variable parse_ver : string -> option V.
  Hypothesis ver_roundtrip : forall v, parse_ver (print_ver v) = Some v.

  Lemma envelope_serialize_inv : forall dv iv inner bs, envelope_serialize V print_ver dv iv inner = Some bs ->
    exists k1 v1 k2 v2 k3 v3,
      mp_str key_version = Some k1 /\ mp_str (bytes_of_string (print_ver dv)) = Some v1 /\
      mp_str key_interpreter_version = Some k2 /\ mp_str (bytes_of_string (print_ver iv)) = Some v2 /\
      mp_str key_inner_data = Some k3 /\ mp_bin inner = Some v3 /\
      bs = 131 :: k1 ++ v1 ++ k2 ++ v2 ++ k3 ++ v3.
  Proof.
    intros dv iv inner bs H. unfold envelope_serialize in H.
    destruct (mp_str key_version) as [k1|]; [|discriminate H].
    destruct (mp_str (bytes_of_string (print_ver dv))) as [v1|]; [|discriminate H].
    destruct (mp_str key_interpreter_version) as [k2|]; [|discriminate H].
    destruct (mp_str (bytes_of_string (print_ver iv))) as [v2|]; [|discriminate H].
    destruct (mp_str key_inner_data) as [k3|]; [|discriminate H].
    destruct (mp_bin inner) as [v3|]; [|discriminate H].
    apply some_inj in H. exists k1, v1, k2, v2, k3, v3. repeat split; auto.
  Qed.

  (* the map of a serialized envelope, read entry by entry; [junk] is anything that follows *)
  Lemma read_serialized : forall w dv iv inner bs junk, envelope_serialize V print_ver dv iv inner = Some bs ->
    read_envelope_map w (bs ++ junk) =
      EOk {| a_ver := Some (bytes_of_string (print_ver dv)); a_iver := Some (bytes_of_string (print_ver iv));
             a_inner := if w then Some inner else None |}.
  Proof.
    intros w dv iv inner bs junk H. apply envelope_serialize_inv in H.
    destruct H as (k1 & v1 & k2 & v2 & k3 & v3 & Hk1 & Hv1 & Hk2 & Hv2 & Hk3 & Hv3 & Hbs). subst bs.
    unfold read_envelope_map. cbn [app read_map_len].
    change ((128 <=? 131) && (131 <? 144)) with true. cbv iota.
    change (131 - 128) with 3.
    repeat rewrite <- app_assoc.
    pose proof (mp_str_nonempty _ _ Hk1) as L1. pose proof (mp_str_nonempty _ _ Hk2) as L2.
    pose proof (mp_str_nonempty _ _ Hk3) as L3.
    remember (length (k1 ++ v1 ++ k2 ++ v2 ++ k3 ++ v3 ++ junk)) as fuel eqn:Ef.
    assert (Hf : (3 <= fuel)%nat) by (rewrite Ef; repeat rewrite app_length; lia).
    destruct fuel as [|[|[|f]]]; try lia. clear Ef Hf.
    erewrite (read_entries_step w _ 3 acc0 k1 v1);
      [ | lia | apply read_str_ok; exact Hk1 | apply read_str_ok; exact Hv1 | apply entry_version; reflexivity ].
    change (3 - 1) with 2.
    erewrite (read_entries_step w _ 2 _ k2 v2);
      [ | lia | apply read_str_ok; exact Hk2 | apply read_str_ok; exact Hv2 | apply entry_iversion; reflexivity ].
    change (2 - 1) with 1. cbn [a_ver a_iver a_inner acc0].
    destruct w.
    - erewrite (read_entries_step true _ 1 _ k3 v3);
        [ | lia | apply read_str_ok; exact Hk3 | apply read_bin_ok; exact Hv3 | apply entry_inner_taken; reflexivity ].
      change (1 - 1) with 0. rewrite read_entries_zero. reflexivity.
    - erewrite (read_entries_step false _ 1 _ k3 v3);
        [ | lia | apply read_str_ok; exact Hk3 | apply read_bin_ok; exact Hv3 | apply entry_inner_skipped ].
      change (1 - 1) with 0. rewrite read_entries_zero. reflexivity.
  Qed.

  Lemma parse_two_printed : forall dv iv,
    parse_two V parse_ver (Some (bytes_of_string (print_ver dv))) (Some (bytes_of_string (print_ver iv))) = EOk (dv, iv).
  Proof.
    intros dv iv. unfold parse_two. rewrite !string_bytes_roundtrip, !ver_roundtrip. reflexivity.
  Qed.

  (* the version part is readable whatever the inner data is, and whatever follows the envelope *)
  Theorem envelope_versions_independent : forall dv iv inner bs junk,
    envelope_serialize V print_ver dv iv inner = Some bs ->
    try_get_versions V parse_ver (bs ++ junk) = EOk (dv, iv).
  Proof.
    intros dv iv inner bs junk H. unfold try_get_versions. rewrite (read_serialized false _ _ _ _ junk H).
    cbn [a_ver a_iver]. apply parse_two_printed.
  Qed.

  Theorem envelope_roundtrip : forall dv iv inner bs junk,
    envelope_serialize V print_ver dv iv inner = Some bs ->
    envelope_try_from_slice V parse_ver (bs ++ junk) = EOk (dv, iv, inner).
  Proof.
    intros dv iv inner bs junk H. unfold envelope_try_from_slice. rewrite (read_serialized true _ _ _ _ junk H).
    cbn [a_ver a_iver a_inner]. rewrite parse_two_printed. reflexivity.
  Qed.

  Variable D : Type.
  Variable data_enc : D -> option (list N).
  Variable data_dec : list N -> option D.
  Hypothesis data_roundtrip : forall d bs, data_enc d = Some bs -> data_dec bs = Some d.

  Theorem data_envelope_roundtrip : forall dv iv d bs,
    data_to_bytes V print_ver D data_enc dv iv d = Some bs ->
    data_from_bytes V parse_ver D data_dec bs = EOk (dv, iv, d).
  Proof.
    intros dv iv d bs H. unfold data_to_bytes in H. destruct (data_enc d) as [inner|] eqn:Ed; [|discriminate H].
    unfold data_from_bytes. rewrite <- (app_nil_r bs). rewrite (envelope_roundtrip _ _ _ _ [] H).
    rewrite (data_roundtrip _ _ Ed). reflexivity.
  Qed.
End EnvelopeProofs.

Lemma wire_constants_ok : wire_constants_agree = true.
Proof. vm_compute. reflexivity. Qed.
