"""Grammar-directed generator of well-scoped AIR scripts, service tables and schedules.

Scripts mention peers as @A, @B, ... (the harness substitutes the real peer ids).  Every random
choice comes from the `random.Random` passed in, so a seed replays exactly."""

PEERS = ["A", "B", "C", "D", "E"]

DEFAULT_SERVICES = [
    ["s", "id", {"echo": 0}],
    ["s", "arr", {"const": ["a", "b", "c"]}],
    ["s", "arr2", {"const": [["x", "y"], ["z"]]}],
    ["s", "obj", {"const": {"f": "v", "n": 7, "l": ["p", "q"], "o": {"k": "w"}}}],
    ["s", "num", {"const": 1}],
    ["s", "args", {"args": 1}],
    ["s", "tag", {"peertag": 1}],
    ["s", "fail", {"err": [1, "boom"]}],
    ["s", "fail2", {"err": [42, {"why": "bad"}]}],
    ["s", "empty", {"const": []}],
    ["s", "peer_b", {"const": "@B"}],
    ["s", "peer_c", {"const": "@C"}],
    ["s", "peers", {"const": ["@A", "@B", "@C"]}],
]


class Profile:
    def __init__(self, **kw):
        self.peers = 3
        self.depth = 4
        self.streams = True
        self.canon = True
        self.folds = True
        self.stream_folds = True
        self.new = True
        self.failing = True
        self.match = True
        self.lenses = True
        self.var_targets = True
        self.last_error = False
        self.maps = False          # stream maps / canon stream maps
        self.par_weight = 3
        self.xor_weight = 2
        self.fragment = False      # the C16 fragment: no streams, no canon, every fallible instruction under xor
        for k, v in kw.items():
            setattr(self, k, v)


class Gen:
    def __init__(self, rng, profile):
        self.r = rng
        self.p = profile
        self.n = 0
        self.peers = PEERS[: profile.peers]

    def fresh(self, prefix):
        self.n += 1
        return "%s%d" % (prefix, self.n)

    # scope: dict with scalars {name: kind}, streams [names], canons [names], iters [names]
    def empty_scope(self):
        return {"scalars": {}, "streams": [], "canons": [], "iters": {}, "in_xor": False, "maps": [], "cmaps": []}

    def peer_lit(self):
        return '"@%s"' % self.r.choice(self.peers)

    def target(self, sc):
        r = self.r
        if self.p.var_targets and r.random() < 0.15:
            ps = [n for n, k in sc["scalars"].items() if k == "peer"]
            if ps:
                return r.choice(ps)
        if r.random() < 0.07:
            return "%init_peer_id%"
        return self.peer_lit()

    def arg(self, sc):
        r = self.r
        opts = ['"lit"', "1", "true", "[]", "%init_peer_id%"]
        w = [2, 1, 1, 1, 1]
        for n, k in sc["scalars"].items():
            opts.append(n)
            w.append(4)
            if self.p.lenses and k == "obj":
                opts += [n + ".$.f", n + ".$.l.[0]", n + ".$.o.k", n + ".$.l.length"]
                w += [2, 2, 1, 1]
            if self.p.lenses and k == "arr":
                opts += [n + ".$.[0]", n + ".$.length"]
                w += [2, 1]
        for n, k in sc["iters"].items():
            opts.append(n)
            w.append(4)
        for n in sc["canons"]:
            opts.append(n)
            w.append(3)
            if self.p.lenses:
                opts.append(n + ".$.[0]")
                w.append(1)
        for n in sc.get("cmaps", []):
            opts += [n, n + ".$.k1", n + ".$.k1.[0]", n + ".$.[7]", n + ".length"]
            w += [2, 2, 1, 1, 1]
        if self.p.last_error:
            opts += ["%last_error%.$.error_code", "%last_error%.$.instruction"]
            w += [1, 1]
        return r.choices(opts, w)[0]

    def args(self, sc):
        k = self.r.choice([0, 1, 1, 2, 3])
        return "[" + " ".join(self.arg(sc) for _ in range(k)) + "]"

    def call(self, sc, fn=None, out=None, failing_ok=True):
        r = self.r
        if fn is None:
            fns = [("id", "any"), ("arr", "arr"), ("obj", "obj"), ("num", "any"), ("args", "arr"), ("tag", "any"), ("arr2", "arr")]
            if self.p.var_targets:
                fns += [("peer_b", "peer"), ("peer_c", "peer")]
            fn, kind = r.choice(fns)
            if fn == "id":
                # echo needs an argument
                a = self.arg(sc)
                argl = "[" + a + "]"
                kind = "any"
            else:
                argl = self.args(sc)
        else:
            kind = "any"
            argl = self.args(sc)
        tgt = self.target(sc)
        outs = ""
        if out is None:
            c = r.random()
            if c < 0.55:
                name = self.fresh("v")
                if name in sc["iters"]:
                    name = self.fresh("w")
                outs = " " + name
                sc["scalars"][name] = kind
            elif c < 0.75 and self.p.streams and not self.p.fragment:
                if sc["streams"] and r.random() < 0.7:
                    outs = " " + r.choice(sc["streams"])
                else:
                    s = self.fresh("$s")
                    sc["streams"].append(s)
                    outs = " " + s
        else:
            outs = " " + out if out else ""
        return '(call %s ("s" "%s") %s%s)' % (tgt, fn, argl, outs)

    def instr(self, sc, d):
        r = self.r
        p = self.p
        if d <= 0:
            return self.leaf(sc)
        opts = [("seq", 6), ("par", p.par_weight), ("xor", p.xor_weight), ("leaf", 4)]
        if p.folds:
            opts.append(("fold_scalar", 2))
        if p.stream_folds and p.streams and not p.fragment and sc["streams"]:
            opts.append(("fold_stream", 2))
        if p.maps and not p.fragment and sc.get("maps"):
            opts.append(("fold_map", 2))
        if p.new and not p.fragment:
            opts.append(("new", 1))
        if p.match:
            opts.append(("match", 1))
        k = r.choices([o[0] for o in opts], [o[1] for o in opts])[0]
        if k == "leaf":
            return self.leaf(sc)
        if k == "seq":
            a = self.instr(sc, d - 1)
            b = self.instr(sc, d - 1)
            return "(seq %s %s)" % (a, b)
        if k == "par":
            # a branch must not depend on what its sibling defines (that is a data race between the
            # branches: whether the value is known depends on the schedule); both branches' definitions
            # are visible after the par
            sa = dict(sc, scalars=dict(sc["scalars"]), streams=list(sc["streams"]), canons=list(sc["canons"]), maps=list(sc["maps"]), cmaps=list(sc["cmaps"]))
            sb = dict(sc, scalars=dict(sc["scalars"]), streams=list(sc["streams"]), canons=list(sc["canons"]), maps=list(sc["maps"]), cmaps=list(sc["cmaps"]))
            a = self.instr(sa, d - 1)
            b = self.instr(sb, d - 1)
            if not getattr(p, "par_exports", True):
                pass
            else:
                for src in (sa, sb):
                    for n, kk in src["scalars"].items():
                        sc["scalars"].setdefault(n, kk)
                    for n in src["streams"]:
                        if n not in sc["streams"]:
                            sc["streams"].append(n)
                    for n in src["canons"]:
                        if n not in sc["canons"]:
                            sc["canons"].append(n)
                    for n in src["maps"]:
                        if n not in sc["maps"]:
                            sc["maps"].append(n)
                    for n in src["cmaps"]:
                        if n not in sc["cmaps"]:
                            sc["cmaps"].append(n)
            return "(par %s %s)" % (a, b)
        if k == "xor":
            inner = dict(sc, scalars=dict(sc["scalars"]), streams=list(sc["streams"]), canons=list(sc["canons"]), in_xor=True)
            if p.failing and r.random() < 0.6:
                left = self.failing(inner, d - 1)
            else:
                left = self.instr(inner, d - 1)
            rsc = dict(sc, scalars=dict(sc["scalars"]), streams=list(sc["streams"]), canons=list(sc["canons"]))
            right = self.instr(rsc, d - 1)
            # names defined inside either branch stay local to it (conservative)
            for s in inner["streams"] + rsc["streams"]:
                if s not in sc["streams"]:
                    sc["streams"].append(s)
            return "(xor %s %s)" % (left, right)
        if k == "fold_scalar":
            arrs = [n for n, kk in sc["scalars"].items() if kk == "arr"]
            pre = ""
            if not arrs:
                name = self.fresh("v")
                pre = '(call %s ("s" "arr") [] %s)' % (self.peer_lit(), name)
                sc["scalars"][name] = "arr"
                arrs = [name]
            it = self.fresh("i")
            inner = dict(sc, scalars=dict(sc["scalars"]), iters=dict(sc["iters"]), streams=list(sc["streams"]), canons=list(sc["canons"]))
            inner["iters"][it] = "any"
            body = self.instr(inner, d - 1)
            for s in inner["streams"]:
                if s not in sc["streams"]:
                    sc["streams"].append(s)
            mode = r.random()
            if mode < 0.5:
                b = "(seq %s (next %s))" % (body, it)
            elif mode < 0.8:
                b = "(par %s (next %s))" % (body, it)
            else:
                b = "(seq (next %s) %s)" % (it, body)
            last = ""
            if r.random() < 0.2:
                last = " " + self.leaf(dict(sc, scalars=dict(sc["scalars"])))
            f = "(fold %s %s %s%s)" % (r.choice(arrs), it, b, last)
            return "(seq %s %s)" % (pre, f) if pre else f
        if k == "fold_stream":
            s = r.choice(sc["streams"])
            it = self.fresh("i")
            # the body must not append to the stream it iterates unconditionally (that recursion only
            # stops at the stream size limit); a guarded recursive append is generated separately
            inner = dict(sc, scalars=dict(sc["scalars"]), iters=dict(sc["iters"]),
                         streams=[x for x in sc["streams"] if x != s], canons=list(sc["canons"]))
            inner["iters"][it] = "any"
            inner["no_new_streams"] = True
            body = self.instr(inner, max(d - 2, 0))
            if getattr(p, "recursive_streams", True) and r.random() < 0.25:
                guard = r.choice(['"a"', '"x"', "1", '"s.tag"', '"p"'])
                body = '(seq (xor (match %s %s (ap "rec" %s)) (null)) %s)' % (it, guard, s, body)
            if r.random() < 0.6:
                b = "(seq %s (next %s))" % (body, it)
            else:
                b = "(par %s (next %s))" % (body, it)
            last = ""
            if r.random() < 0.3:
                last = " (null)"
            return "(fold %s %s %s%s)" % (s, it, b, last)
        if k == "fold_map":
            m = r.choice(sc["maps"])
            it = self.fresh("i")
            inner = dict(sc, scalars=dict(sc["scalars"]), iters=dict(sc["iters"]), streams=list(sc["streams"]),
                         canons=list(sc["canons"]), maps=[x for x in sc["maps"] if x != m], cmaps=list(sc["cmaps"]))
            inner["iters"][it] = "any"
            body = self.instr(inner, max(d - 2, 0))
            b = "(seq %s (next %s))" % (body, it) if r.random() < 0.6 else "(par %s (next %s))" % (body, it)
            return "(fold %s %s %s%s)" % (m, it, b, " (null)" if r.random() < 0.3 else "")
        if k == "new":
            if p.maps and r.random() < 0.25:
                m = r.choice(sc["maps"]) if sc["maps"] and r.random() < 0.5 else self.fresh("%m")
                inner = dict(sc, scalars=dict(sc["scalars"]), streams=list(sc["streams"]), canons=list(sc["canons"]),
                             maps=list(sc["maps"]), cmaps=list(sc["cmaps"]))
                if m not in inner["maps"]:
                    inner["maps"].append(m)
                return "(new %s %s)" % (m, self.instr(inner, d - 1))
            if p.streams and r.random() < 0.6:
                s = r.choice(sc["streams"]) if sc["streams"] and r.random() < 0.5 else self.fresh("$s")
                inner = dict(sc, scalars=dict(sc["scalars"]), streams=list(sc["streams"]), canons=list(sc["canons"]))
                if s not in inner["streams"]:
                    inner["streams"].append(s)
                body = self.instr(inner, d - 1)
                return "(new %s %s)" % (s, body)
            v = self.fresh("v")
            inner = dict(sc, scalars=dict(sc["scalars"]), streams=list(sc["streams"]), canons=list(sc["canons"]))
            first = '(call %s ("s" "tag") [] %s)' % (self.peer_lit(), v)
            inner["scalars"][v] = "any"
            body = self.instr(inner, d - 1)
            return "(new %s (seq %s %s))" % (v, first, body)
        if k == "match":
            xs = list(sc["scalars"].keys()) + list(sc["iters"].keys())
            a = r.choice(xs) if xs else '"a"'
            b = r.choice(['"a"', '"b"', "1", a] + xs[:2])
            kw = r.choice(["match", "mismatch"])
            inner = dict(sc, scalars=dict(sc["scalars"]), streams=list(sc["streams"]), canons=list(sc["canons"]))
            body = self.instr(inner, d - 1)
            m = "(%s %s %s %s)" % (kw, a, b, body)
            if p.fragment or r.random() < 0.7:
                return "(xor %s %s)" % (m, self.leaf(dict(sc, scalars=dict(sc["scalars"]))))
            return m
        return self.leaf(sc)

    def failing(self, sc, d):
        r = self.r
        k = r.choice(["svc", "svc", "fail_lit", "match", "lens"] if self.p.lenses else ["svc", "fail_lit", "match"])
        if k == "svc":
            fn = r.choice(["fail", "fail2"])
            c = '(call %s ("s" "%s") %s)' % (self.target(sc), fn, self.args(sc))
            if r.random() < 0.5:
                return "(seq %s %s)" % (self.leaf(sc), c)
            return c
        if k == "fail_lit":
            return '(seq %s (fail %d "user error"))' % (self.leaf(sc), r.choice([1, 7, 1337]))
        if k == "match":
            return '(seq %s (match "a" "b" (null)))' % self.leaf(sc)
        objs = [n for n, kk in sc["scalars"].items() if kk == "obj"]
        if objs:
            return '(call %s ("s" "id") [%s.$.nonexistent])' % (self.peer_lit(), r.choice(objs))
        return '(seq %s (fail 9 "no obj"))' % self.leaf(sc)

    def leaf(self, sc):
        r = self.r
        p = self.p
        opts = [("call", 10), ("null", 1)]
        if sc["scalars"] or sc["iters"]:
            opts.append(("ap_scalar", 1))
        if p.streams and not p.fragment:
            opts.append(("ap_stream", 2))
            if p.canon and sc["streams"]:
                opts.append(("canon", 2))
        if p.maps and not p.fragment:
            opts.append(("ap_map", 3))
            if sc.get("maps"):
                opts.append(("canon_map", 2))
                opts.append(("canon_map_scalar", 1))
        k = r.choices([o[0] for o in opts], [o[1] for o in opts])[0]
        if k == "call":
            return self.call(sc)
        if k == "null":
            return "(null)"
        if k == "ap_map":
            vals = ['"x"', "1"] + list(sc["scalars"].keys()) + list(sc["iters"].keys())
            if sc["maps"] and r.random() < 0.75:
                m = r.choice(sc["maps"])
            else:
                m = self.fresh("%m")
                sc["maps"].append(m)
            key = r.choice(['"k1"', '"k2"', "7", '"k1"'])
            return "(ap (%s %s) %s)" % (key, r.choice(vals), m)
        if k == "canon_map":
            m = r.choice(sc["maps"])
            c = "#%" + self.fresh("cm")
            sc["cmaps"].append(c)
            return "(canon %s %s %s)" % (self.peer_lit(), m, c)
        if k == "canon_map_scalar":
            m = r.choice(sc["maps"])
            name = self.fresh("v")
            sc["scalars"][name] = "obj"
            return "(canon %s %s %s)" % (self.peer_lit(), m, name)
        if k == "ap_scalar":
            src = r.choice(list(sc["scalars"].keys()) + list(sc["iters"].keys()))
            name = self.fresh("v")
            kind = sc["scalars"].get(src, "any")
            sc["scalars"][name] = kind
            return "(ap %s %s)" % (src, name)
        if k == "ap_stream":
            vals = ['"x"', "1"] + list(sc["scalars"].keys()) + list(sc["iters"].keys())
            if sc["streams"] and r.random() < 0.7:
                s = r.choice(sc["streams"])
            else:
                s = self.fresh("$s")
                sc["streams"].append(s)
            return "(ap %s %s)" % (r.choice(vals), s)
        if k == "canon":
            s = r.choice(sc["streams"])
            c = "#" + self.fresh("canon")
            sc["canons"].append(c)
            return "(canon %s %s %s)" % (self.peer_lit(), s, c)
        return "(null)"

    def script(self):
        sc = self.empty_scope()
        return self.instr(sc, self.p.depth)


def gen_script(rng, profile):
    return Gen(rng, profile).script()


def gen_schedule(rng, n_ops=30, dup=0.1, redeliver=0.05, batch=0.3):
    """Random schedule; ops refer to in-flight messages / pending calls by index modulo what exists."""
    ops = [["start"]]
    for _ in range(n_ops):
        x = rng.random()
        if x < 0.45:
            ops.append(["d", rng.randrange(8)])
        elif x < 0.45 + dup:
            ops.append(["dup", rng.randrange(8)])
        elif x < 0.45 + dup + redeliver:
            ops.append(["re", rng.randrange(8)])
        else:
            mask = 0 if rng.random() > batch else rng.randrange(1, 16)
            ops.append(["r", rng.randrange(5), mask])
    # then drain deterministically so that most histories finish
    for _ in range(12):
        for p in range(5):
            ops.append(["r", p, 0])
        ops.append(["d", 0])
    return ops


def fifo_schedule(n=40):
    ops = [["start"]]
    for _ in range(n):
        for p in range(5):
            ops.append(["r", p, 0])
        ops.append(["d", 0])
    return ops
