(* StreamTie.v -- interpretation of the tables that tools/genx_stream.py reads from the Rust sources of
   the stream component (coq/gen/Generated.v, names starting with src_).  Each function below rebuilds one function
   of model/Stream.v FROM THE TABLE; proofs/StreamTieProofs.v proves that the result is the hand-written
   function the C12 / C13 theorems are about.  When the source changes the order of a chain, a
   comparison, the guard, the numbering order of compactify or the cursor protocol, the table changes
   and the equality no longer holds (C12_source_tie / C13_source_tie break).  Definitions only. *)
From Aqua Require Import Base Stream.
Open Scope N_scope.
Open Scope list_scope.

Section Tie.
  Variable V : Type.
  Notation stream := (stream V).
  Notation matrix := (matrix V).

  (* the fields of `struct Stream<T>` and of `struct StreamCursor` by their source names *)
  Definition mfield (name : string) (s : stream) : matrix :=
    if String.eqb name "previous_values" then s_prev s
    else if String.eqb name "current_values" then s_cur s else s_new s.
  Definition set_mfield (name : string) (s : stream) (m : matrix) : stream :=
    if String.eqb name "previous_values" then {| s_prev := m; s_cur := s_cur s; s_new := s_new s |}
    else if String.eqb name "current_values" then {| s_prev := s_prev s; s_cur := m; s_new := s_new s |}
    else {| s_prev := s_prev s; s_cur := s_cur s; s_new := m |}.
  Definition known_fields : list string := ["previous_values"; "current_values"; "new_values"].
  Definition known_field (name : string) : bool := existsb (String.eqb name) known_fields.
  Definition cfield (name : string) (c : stream_cursor) : N :=
    if String.eqb name "previous_start_idx" then c_prev c
    else if String.eqb name "current_start_idx" then c_cur c else c_new c.
  Definition known_cfields : list string := ["previous_start_idx"; "current_start_idx"; "new_start_idx"].

  (* Stream::iter: a.iter().chain(b.iter()).chain(c.iter()) *)
  Definition iter_by (chain : list string) (s : stream) : list V :=
    concat (map (fun n => matrix_iter V (mfield n s)) chain).
  (* Stream::slice_iter *)
  Definition slice_iter_by (chain : list (string * string)) (s : stream) (c : stream_cursor) : list (list V) :=
    concat (map (fun p => matrix_slice_iter V (mfield (fst p) s) (cfield (snd p) c)) chain).

  (* Stream::cursor: StreamCursor::new(<count of args_0>, <count of args_1>, <count of args_2>), the
     parameters of `new` are copied to the fields of the same name *)
  Fixpoint counts_by (args : list string) (s : stream) : sres (list N) :=
    match args with
    | [] => SOk []
    | a :: t => sbind (generations_count V (mfield a s)) (fun x => sbind (counts_by t s) (fun r => SOk (x :: r)))
    end.
  Fixpoint lookup_str (k : string) (l : list (string * N)) : N :=
    match l with [] => 0 | (j, x) :: t => if String.eqb j k then x else lookup_str k t end.
  Definition cursor_of (al : list (string * N)) : stream_cursor :=
    {| c_prev := lookup_str "previous_start_idx" al; c_cur := lookup_str "current_start_idx" al;
       c_new := lookup_str "new_start_idx" al |}.
  Definition cursor_by (args params : list string) (s : stream) : sres stream_cursor :=
    sbind (counts_by args s) (fun l => SOk (cursor_of (combine params l))).

  (* check_stream_size_limit: `if <sum of sizes> <cmp> STREAM_MAX_SIZE { Err(..) } else { Ok(()) }` *)
  Definition size_by (terms : list string) (s : stream) : N :=
    fold_right (fun t acc => matrix_get_size V (mfield t s) + acc) 0 terms.
  Definition check_by (terms : list string) (cmp : cmp_op) (s : stream) : sres unit :=
    if cmp_apply cmp (size_by terms s) stream_max_size then SErr StreamSizeLimitExceeded else SOk tt.

  (* add_value: the guard `Variant(g) | .. if g <cmp> STREAM_MAX_SIZE => return Err(..)` *)
  Definition refused_by (guard : list string * cmp_op * string * string) (g : generation) : bool :=
    let '(variants, cmp, _, _) := guard in
    match g with
    | GPrevious n => existsb (String.eqb "Previous") variants && cmp_apply cmp n stream_max_size
    | GCurrent n => existsb (String.eqb "Current") variants && cmp_apply cmp n stream_max_size
    | GNew => false
    end.
  (* add_value: the inserting match; an arm is (variant, matrix, method) *)
  Fixpoint arm_of (variant : string) (arms : list (string * string * string)) : option (string * string) :=
    match arms with
    | [] => None
    | (v, f, m) :: t => if String.eqb v variant then Some (f, m) else arm_of variant t
    end.
  Definition insert_by (arms : list (string * string * string)) (s : stream) (v : V) (g : generation) : sres stream :=
    let variant := match g with GPrevious _ => "Previous" | GCurrent _ => "Current" | GNew => "New" end in
    match arm_of variant arms, g with
    | Some (f, "add_value_to_generation"), GPrevious n | Some (f, "add_value_to_generation"), GCurrent n =>
        sbind (add_value_to_generation V (mfield f s) v n) (fun m => SOk (set_mfield f s m))
    | Some (f, "add_to_last_generation"), GNew =>
        sbind (new_add_to_last_generation V (mfield f s) v) (fun m => SOk (set_mfield f s m))
    | _, _ => SCrash SiteScopeEndNoStream      (* table not understood: never equal to the model *)
    end.
  (* add_value: the statements in source order *)
  Fixpoint add_by (order : list string) (guard : list string * cmp_op * string * string)
           (arms : list (string * string * string)) (terms : list string) (cmp : cmp_op)
           (s : stream) (v : V) (g : generation) : sres stream :=
    match order with
    | [] => SOk s
    | x :: t =>
        if String.eqb x "guard" then
          if refused_by guard g then SErr StreamSizeLimitExceeded else add_by t guard arms terms cmp s v g
        else if String.eqb x "insert" then
          sbind (insert_by arms s v g) (fun s1 => add_by t guard arms terms cmp s1 v g)
        else if String.eqb x "check_stream_size_limit" then
          sbind (check_by terms cmp s) (fun _ => add_by t guard arms terms cmp s v g)
        else SCrash SiteScopeEndNoStream
    end.

  (* compactify: matrices are numbered in the order of the steps; the start index of a step is the sum
     of the generation counts (after remove_empty_generations: the non-empty rows) of the listed matrices *)
  Definition source_of_field (name : string) : source :=
    if String.eqb name "previous_values" then FromPrev
    else if String.eqb name "current_values" then FromCur else FromNew.
  Definition tagged_by (steps : list (string * list string)) (s : stream) : list (tagged4 V) :=
    concat (map (fun st =>
      retag_cells V (source_of_field (fst st)) (m_cells (mfield (fst st) s))
                  (fold_right (fun n acc => count_nonempty V (mfield n s) + acc) 0 (snd st))) steps).

  (* ValuesMatrix::slice_iter: the adaptors in source order, applied to the rows *)
  Fixpoint slice_ops_by (ops : list string) (rows : list (list V)) (skip : N) : list (list V) :=
    match ops with
    | [] => rows
    | x :: t =>
        if String.eqb x "filter_non_empty" then slice_ops_by t (filter (row_nonempty V) rows) skip
        else if String.eqb x "skip" then slice_ops_by t (skipN skip rows) skip
        else slice_ops_by t rows skip        (* iter, map(as_ref) *)
    end.

  (* the cursor protocol: the statements of met_fold_start / met_iteration_end in source order; the state
     computed by `cursor_state` is the value returned *)
  Fixpoint cursor_steps (steps : list string) (st : cursor_state V) (rc : rcursor) (s : stream)
    : sres (cursor_state V * rcursor * stream) :=
    match steps with
    | [] => SOk (st, rc, s)
    | x :: t =>
        if String.eqb x "cursor_state" then cursor_steps t (cursor_state_of V rc s) rc s
        else if String.eqb x "cursor" then sbind (stream_get_cursor V s) (fun rc' => cursor_steps t st rc' s)
        else if String.eqb x "remove_last_generation_if_empty" then
          sbind (remove_last_generation_if_empty V s) (fun s1 => cursor_steps t st rc s1)
        else if String.eqb x "add_new_empty_generation" then
          cursor_steps t st rc (with_new V s (new_add_new_empty_generation V (s_new s)))
        else if String.eqb x "if_continue:add_new_empty_generation" then
          if should_continue V st then cursor_steps t st rc (with_new V s (new_add_new_empty_generation V (s_new s)))
          else cursor_steps t st rc s
        else SCrash SiteScopeEndNoStream
    end.
End Tie.

(* Generation::from_data *)
Fixpoint lookup_ss (k : string) (l : list (string * string)) : string :=
  match l with [] => "" | (j, x) :: t => if String.eqb j k then x else lookup_ss k t end.
Definition generation_by (table : list (string * string)) (src : stream_value_source) (g : N) : option generation :=
  let v := lookup_ss (match src with SrcPreviousData => "PreviousData" | SrcCurrentData => "CurrentData" end) table in
  if String.eqb v "Previous" then Some (GPrevious g) else if String.eqb v "Current" then Some (GCurrent g) else None.

(* the rule by which the harness driver `streams` reconstructs the Generation of a replayed append:
   state executed in the previous data => Previous; else executed in the current data => Current.
   In terms of the merger: scheme Previous / Both / Current and its ValueSource. *)
Definition driver_source_rule (in_prev in_cur : bool) : option stream_value_source :=
  if in_prev then Some SrcPreviousData else if in_cur then Some SrcCurrentData else None.
Definition scheme_name (in_prev in_cur : bool) : string :=
  if in_prev then (if in_cur then "Both" else "Previous") else (if in_cur then "Current" else "").
Definition source_by (table : list (string * string)) (in_prev in_cur : bool) : option stream_value_source :=
  let v := lookup_ss (scheme_name in_prev in_cur) table in
  if String.eqb v "PreviousData" then Some SrcPreviousData else if String.eqb v "CurrentData" then Some SrcCurrentData else None.
