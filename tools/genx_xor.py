"""Translator piece for C18 (xor catches exactly the catchable failures and reports them faithfully).

Re-reads from /repo, on every run, the decisive lines of

  air/src/execution_step/instructions/xor.rs          which arm runs the right branch, under which guard, and the
                                                       order of the error-descriptor bookkeeping around it
  air/src/execution_step/errors/execution_errors.rs   ExecutionError::is_catchable / affects_error
  air/src/execution_step/errors/catchable_errors.rs   affects_last_error (the two variants that do not)
  air/src/execution_step/instructions/mod.rs          the execute! macro (set_errors on Err, error re-thrown), which
                                                       instructions go through it (all but Call)
  air/src/execution_step/execution_context/context.rs set_errors: order of the three descriptor operations
  .../instruction_error/error_descriptor.rs           the guard of try_to_set_error_from_exec_error, clear_error_object_if_needed
  .../instruction_error/errors_utils.rs               the error object is built from error.to_error_code() / error.to_string()
  .../instruction_error/instruction_error_definition.rs  field names, NO_ERROR constants, fields of the two constructors
  air/src/farewell_step/outcome.rs                    from_execution_error reports error.to_error_code() / error.to_string()
  every file under instructions/                      where a catchable error is turned into Ok (is_catchable guards) and
                                                       where ErrorDescriptor::enable_error_setting is called

model/XorSpec.v states what the model assumes about each of them; props/C18.v proves the agreement
(C18_source_tie) by computation, so a change of any of these lines breaks the obligation."""
import os
import re

import gen_model
from gen_model import TranslationError, coq_list, coq_str, read, strip_comments

XOR = "air/src/execution_step/instructions/xor.rs"
MOD = "air/src/execution_step/instructions/mod.rs"
EXEC_ERRORS = "air/src/execution_step/errors/execution_errors.rs"
CATCHABLE = "air/src/execution_step/errors/catchable_errors.rs"
CONTEXT = "air/src/execution_step/execution_context/context.rs"
ERR_DESC = "air/src/execution_step/execution_context/instruction_error/error_descriptor.rs"
ERR_UTILS = "air/src/execution_step/execution_context/instruction_error/errors_utils.rs"
ERR_DEF = "air/src/execution_step/execution_context/instruction_error/instruction_error_definition.rs"
OUTCOME = "air/src/farewell_step/outcome.rs"
INSTR_DIR = "air/src/execution_step/instructions"


def fn_body(src, name, rel):
    """Text between the braces of `fn <name>`."""
    m = re.search(r"\bfn\s+" + re.escape(name) + r"\b", src)
    if not m:
        raise TranslationError("fn %s not found in %s" % (name, rel))
    i = src.index("{", m.end())
    depth, j = 1, i + 1
    while j < len(src) and depth > 0:
        depth += {"{": 1, "}": -1}.get(src[j], 0)
        j += 1
    return src[i + 1:j - 1]


def block_after(src, start):
    """Text of the brace block that starts at or after `start`."""
    i = src.index("{", start)
    depth, j = 1, i + 1
    while j < len(src) and depth > 0:
        depth += {"{": 1, "}": -1}.get(src[j], 0)
        j += 1
    return src[i + 1:j - 1], j


def xor_shape():
    src = strip_comments(read(XOR))
    body = fn_body(src, "execute", XOR)
    m = re.search(r"match\s+self\.0\.execute\(exec_ctx,\s*trace_ctx\)\s*\{", body)
    if not m:
        raise TranslationError("xor.rs: `match self.0.execute(exec_ctx, trace_ctx)` not found")
    before = body[:m.start()]
    pre = re.findall(r"exec_ctx\.(\w+)\(\)", before)
    arms_text, _ = block_after(body, m.start())
    # first arm: pattern [if guard] => { block }
    am = re.match(r"\s*(.+?)\s*=>\s*\{", arms_text, flags=re.S)
    if not am:
        raise TranslationError("xor.rs: first match arm not readable")
    pat = am.group(1)
    gm = re.match(r"Err\((\w+)\)\s+if\s+(\w+)\.(\w+)\(\)$", pat.strip())
    if not gm or gm.group(1) != gm.group(2):
        raise TranslationError("xor.rs: first arm is not `Err(e) if e.<guard>()`: %r" % pat)
    guard = gm.group(3)
    block, end = block_after(arms_text, am.start())
    rest = arms_text[end:].strip().rstrip(",").strip()
    rest = re.sub(r"^,\s*", "", rest)
    # the statements of the catching arm, in order
    seq = []
    for st in [s.strip() for s in block.split(";")]:
        if not st:
            continue
        if st.startswith("print_xor_log"):
            continue
        m1 = re.match(r"exec_ctx\.(?:(\w+)\.)?(\w+)\((.*)\)$", st, flags=re.S)
        m2 = re.match(r"let\s+(\w+)\s*=\s*self\.1\.execute\(exec_ctx,\s*trace_ctx\)$", st)
        m3 = re.match(r"if\s+(\w+)\.is_ok\(\)\s*\{\s*exec_ctx\.error_descriptor\.enable_error_setting\(\)$", st, flags=re.S)
        if m2:
            seq.append("execute_right")
            res_var = m2.group(1)
        elif m3:
            seq.append("enable_error_setting_if_ok")
        elif m1:
            seq.append(m1.group(2))
        elif st.startswith("}"):
            tail = st.lstrip("} \n")
            if tail:
                seq.append("return:" + tail)
        else:
            seq.append("?" + st[:40])
    other_arms = [a.strip() for a in re.split(r",\s*\n", rest) if a.strip()]
    n_right = len(re.findall(r"self\.1\.execute\(", src))
    n_right_in_arm = len(re.findall(r"self\.1\.execute\(", block))
    return pre, guard, seq, other_arms, n_right, n_right_in_arm


def is_catchable_variants():
    src = strip_comments(read(EXEC_ERRORS))
    body = fn_body(src, "is_catchable", EXEC_ERRORS)
    m = re.search(r"matches!\(\s*self\s*,\s*(.+?)\)\s*$", body.strip(), flags=re.S)
    if not m:
        raise TranslationError("is_catchable is not a single matches!(self, ...)")
    pats = [p.strip() for p in m.group(1).split("|")]
    out = []
    for p in pats:
        pm = re.match(r"ExecutionError::(\w+)\(_\)$", p)
        if not pm:
            raise TranslationError("is_catchable: unexpected pattern %r" % p)
        out.append(pm.group(1))
    # affects_error of ExecutionError: which variants map to true
    im = re.search(r"impl\s+ErrorAffectable\s+for\s+ExecutionError\s*\{", src)
    if not im:
        raise TranslationError("impl ErrorAffectable for ExecutionError not found")
    blk, _ = block_after(src, im.start())
    ab = fn_body(blk, "affects_error", EXEC_ERRORS)
    true_arms = re.findall(r"ExecutionError::(\w+)\(_\)\s*=>\s*true", ab)
    false_arms = re.findall(r"ExecutionError::(\w+)\(_\)\s*=>\s*false", ab)
    return out, true_arms, false_arms


def not_affecting_last_error():
    src = strip_comments(read(CATCHABLE))
    im = re.search(r"impl\s+ErrorAffectable\s+for\s+CatchableError\s*\{", src)
    if not im:
        raise TranslationError("impl ErrorAffectable for CatchableError not found")
    blk, _ = block_after(src, im.start())
    body = fn_body(blk, "affects_last_error", CATCHABLE)
    m = re.search(r"!\s*matches!\(\s*self\s*,\s*(.+?)\)\s*$", body.strip(), flags=re.S)
    if not m:
        raise TranslationError("CatchableError::affects_last_error is not `!matches!(self, ...)`")
    names = []
    for p in m.group(1).split("|"):
        pm = re.match(r"\s*CatchableError::(\w+)\s*,?\s*$", p)
        if not pm:
            raise TranslationError("affects_last_error: unexpected pattern %r" % p)
        names.append(pm.group(1))
    ae = fn_body(blk, "affects_error", CATCHABLE).strip()
    return names, ae


def execute_macro():
    src = strip_comments(read(MOD))
    m = re.search(r"macro_rules!\s*execute\s*\{", src)
    if not m:
        raise TranslationError("macro execute! not found in mod.rs")
    blk, _ = block_after(src, m.start())
    norm = re.sub(r"\s+", " ", blk)
    std = ("match $instr.execute($exec_ctx, $trace_ctx) { Err(e) => { "
           "$exec_ctx.set_errors(&e, &$instr.to_string(), None, $instr.log_errors_with_peer_id()); Err(e) } v => v, }")
    is_std = std in norm
    disp = re.search(r"impl<'i>\s+ExecutableInstruction<'i>\s+for\s+Instruction<'i>\s*\{", src)
    if not disp:
        raise TranslationError("impl ExecutableInstruction for Instruction not found")
    dblk, _ = block_after(src, disp.start())
    wrapped = re.findall(r"Instruction::(\w+)\(\w+\)\s*=>\s*execute!\(", dblk)
    unwrapped = re.findall(r"Instruction::(\w+)\((\w+)\)\s*=>\s*\2\.execute\(exec_ctx,\s*trace_ctx\)", dblk)
    return is_std, wrapped, [u[0] for u in unwrapped]


def set_errors_sequence():
    src = strip_comments(read(CONTEXT))
    body = fn_body(src, "set_errors", CONTEXT)
    calls = re.findall(r"self\s*\.\s*(last_error_descriptor|error_descriptor)\s*\.\s*(\w+)\(", body)
    peer_rule = re.sub(r"\s+", " ", body)
    uses_tetraplet_peer = "Some(tetraplet) if use_tetraplet_and_log_peer_id => Some(tetraplet.peer_pk.as_str())" in peer_rule
    none_unless_logged = "let peer_id = if use_tetraplet_and_log_peer_id { last_error_peer_id } else { None };" in peer_rule
    return ["%s.%s" % c for c in calls], uses_tetraplet_peer and none_unless_logged


def descriptor_guards():
    src = strip_comments(read(ERR_DESC))
    b = re.sub(r"\s+", " ", fn_body(src, "try_to_set_error_from_exec_error", ERR_DESC))
    guard_std = "if !self.error_can_be_set || !error.affects_error() { return; }" in b and \
                "self.error = get_instruction_error_from_exec_error(error, instruction, peer_id_option, tetraplet);" in b
    c = re.sub(r"\s+", " ", fn_body(src, "clear_error_object_if_needed", ERR_DESC)).strip()
    clear_std = c == "if self.error_can_be_set { self.error = no_error(); }"
    dflt = re.search(r"impl\s+Default\s+for\s+ErrorDescriptor\s*\{", src)
    if not dflt:
        raise TranslationError("impl Default for ErrorDescriptor not found")
    d, _ = block_after(src, dflt.start())
    d = re.sub(r"\s+", " ", d)
    default_std = "let error = no_error();" in d and "let error_can_be_set = true;" in d
    return guard_std, clear_std, default_std


def object_ingredients():
    src = strip_comments(read(ERR_UTILS))
    b = re.sub(r"\s+", " ", fn_body(src, "get_instruction_error_from_exec_error", ERR_UTILS))
    m = re.search(r"get_instruction_error_from_ingredients\(\s*(.+?),\s*(.+?),\s*instruction,", b)
    if not m:
        raise TranslationError("errors_utils.rs: ingredients of the error object not readable")
    obj = [m.group(1).strip(), m.group(2).strip()]
    o = strip_comments(read(OUTCOME))
    fb = re.sub(r"\s+", " ", fn_body(o, "from_execution_error", OUTCOME))
    m2 = re.search(r"populate_outcome_from_contexts\(\s*exec_ctx,\s*trace_handler,\s*(.+?),\s*(.+?),\s*keypair", fb)
    if not m2:
        raise TranslationError("outcome.rs: from_execution_error not readable")
    run = [m2.group(1).strip(), m2.group(2).strip()]
    return obj, run


def object_fields():
    src = strip_comments(read(ERR_DEF))
    consts = dict(re.findall(r'pub\s+const\s+(\w+)\s*:\s*&str\s*=\s*"([^"]*)"\s*;', src))
    for k in ("ERROR_CODE_FIELD_NAME", "MESSAGE_FIELD_NAME", "INSTRUCTION_FIELD_NAME", "PEER_ID_FIELD_NAME", "NO_ERROR_MESSAGE"):
        if k not in consts:
            raise TranslationError("constant %s not found in %s" % (k, ERR_DEF))
    code = gen_model.const_int(ERR_DEF, "NO_ERROR_ERROR_CODE") if hasattr(gen_model, "const_int") else None
    out = {}
    for fn in ("error_from_raw_fields_w_peerid", "error_from_raw_fields", "no_error_object"):
        b = fn_body(src, fn, ERR_DEF)
        keys = re.findall(r"(\w+_FIELD_NAME)\s*=>", b)
        if not keys:
            raise TranslationError("%s: no hashmap! keys found" % fn)
        out[fn] = [consts[k] for k in keys]
    return consts, code, out


def instruction_files():
    base = os.path.join(gen_model.REPO, INSTR_DIR)
    rels = []
    for root, _, files in os.walk(base):
        for f in sorted(files):
            if f.endswith(".rs"):
                rels.append(os.path.relpath(os.path.join(root, f), base))
    if not rels:
        raise TranslationError("no instruction sources under " + INSTR_DIR)
    return sorted(rels)


def swallow_and_enable_sites():
    swallow, enable = [], []
    for rel in instruction_files():
        src = strip_comments(read(os.path.join(INSTR_DIR, rel)))
        if re.search(r"\.is_catchable\(\)", src):
            swallow.append(rel)
        if re.search(r"\.enable_error_setting\(\)", src):
            enable.append(rel)
    return swallow, enable


def generate():
    lines = ["(* --- tools/genx_xor.py: xor / error descriptors (C18) --- *)"]
    pre, guard, seq, other, n_right, n_in_arm = xor_shape()
    lines.append("Definition c18_xor_before_left : list string := %s." % coq_list([coq_str(s) for s in pre]))
    lines.append("Definition c18_xor_catch_guard : string := %s." % coq_str(guard))
    lines.append("Definition c18_xor_catch_arm : list string := %s." % coq_list([coq_str(s) for s in seq]))
    lines.append("Definition c18_xor_other_arms : list string := %s." % coq_list([coq_str(s) for s in other]))
    lines.append("Definition c18_xor_right_executions : N * N := (%d%%N, %d%%N)." % (n_right, n_in_arm))
    cat, t_arms, f_arms = is_catchable_variants()
    lines.append("Definition c18_is_catchable_variants : list string := %s." % coq_list([coq_str(s) for s in cat]))
    lines.append("Definition c18_affects_error_arms : list string * list string := (%s, %s)." %
                 (coq_list([coq_str(s) for s in t_arms]), coq_list([coq_str(s) for s in f_arms])))
    nal, ae = not_affecting_last_error()
    lines.append("Definition c18_not_affecting_last_error : list string := %s." % coq_list([coq_str(s) for s in nal]))
    lines.append("Definition c18_catchable_affects_error : string := %s." % coq_str(ae))
    std, wrapped, unwrapped = execute_macro()
    lines.append("Definition c18_execute_macro_is_standard : bool := %s." % ("true" if std else "false"))
    lines.append("Definition c18_execute_macro_wrapped : list string := %s." % coq_list([coq_str(s) for s in wrapped]))
    lines.append("Definition c18_execute_macro_unwrapped : list string := %s." % coq_list([coq_str(s) for s in unwrapped]))
    sseq, peer_std = set_errors_sequence()
    lines.append("Definition c18_set_errors_sequence : list string := %s." % coq_list([coq_str(s) for s in sseq]))
    lines.append("Definition c18_set_errors_peer_rule_is_standard : bool := %s." % ("true" if peer_std else "false"))
    g, c, d = descriptor_guards()
    lines.append("Definition c18_error_descriptor_is_standard : bool * bool * bool := (%s, %s, %s)." %
                 tuple("true" if b else "false" for b in (g, c, d)))
    obj, run = object_ingredients()
    lines.append("Definition c18_error_object_from : list string := %s." % coq_list([coq_str(s) for s in obj]))
    lines.append("Definition c18_run_outcome_from : list string := %s." % coq_list([coq_str(s) for s in run]))
    consts, code, fields = object_fields()
    lines.append("Definition c18_error_object_fields_w_peerid : list string := %s." %
                 coq_list([coq_str(s) for s in fields["error_from_raw_fields_w_peerid"]]))
    lines.append("Definition c18_error_object_fields : list string := %s." %
                 coq_list([coq_str(s) for s in fields["error_from_raw_fields"]]))
    lines.append("Definition c18_no_error_object_fields : list string := %s." %
                 coq_list([coq_str(s) for s in fields["no_error_object"]]))
    lines.append("Definition c18_no_error_message : string := %s." % coq_str(consts["NO_ERROR_MESSAGE"]))
    m = re.search(r"pub\s+const\s+NO_ERROR_ERROR_CODE\s*:\s*i64\s*=\s*(-?\d+)\s*;", strip_comments(read(ERR_DEF)))
    if not m:
        raise TranslationError("NO_ERROR_ERROR_CODE not found")
    lines.append("Definition c18_no_error_code : Z := (%s)%%Z." % m.group(1))
    sw, en = swallow_and_enable_sites()
    lines.append("Definition c18_is_catchable_guard_sites : list string := %s." % coq_list([coq_str(s) for s in sw]))
    lines.append("Definition c18_enable_error_setting_sites : list string := %s." % coq_list([coq_str(s) for s in en]))
    lines.append("")
    return lines


if __name__ == "__main__":
    print("\n".join(generate()))
