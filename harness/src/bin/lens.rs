//! `lens`: driver of the lambda applier (air/src/execution_step/lambda_applier) for C24.
//!
//! The applier is private to the `air` crate, so it is driven through the public
//! `air::execute_air`: a purpose-built script puts the JSON value under test into a scalar
//! (or a canon stream / canon stream map), puts the scalar environment in place, and a last
//! call `("s" "id")` receives the selection as its only argument.  What the implementation did
//! is read from that call request's argument, or from the error code + message of the run.
//!
//! One JSON case per input line:
//!   { "target": {"kind": "scalar"|"iter", "value": J}
//!             | {"kind": "stream", "elems": [J..]}
//!             | {"kind": "map", "pairs": [[KEY, J, "lit"|"scalar"]..]},     KEY: string or integer
//!     "lens": ".$.a.[0].[k]" | ".length",
//!     "env": [[name, "value"|"iter"|"uninit"|"notfound", J]..] }
//! One JSON line per case: {"coq": [case_t term], "classes": [class], "info": [{script, code, msg, ..}]}.

use air_lambda_ast::LambdaAST;
use air_parser::ast::{ImmutableValue, ImmutableVariableWithLambda, Instruction, ResolvableToStringVariable};
use aquah::coqfmt as c;
use aquah::sim::*;
use serde_json::Value as J;
use std::io::BufRead;

// ------------------------------------------------------------------------------------------
// JSON -> term of coq/model/Json.v

fn j2coq(j: &J) -> String {
    match j {
        J::Null => "JNull".into(),
        J::Bool(b) => format!("(JBool {})", c::b(*b)),
        J::Number(n) => {
            if let Some(u) = n.as_u64() {
                format!("(JInt {})", c::z(u as i128))
            } else if let Some(i) = n.as_i64() {
                format!("(JInt {})", c::z(i as i128))
            } else {
                format!("(JFloat {})", c::s(&n.to_string()))
            }
        }
        J::String(s) => format!("(JStr {})", c::s(s)),
        J::Array(a) => format!("(JArr {})", c::list(a.iter().map(j2coq))),
        J::Object(o) => {
            // bytewise key order = the order of BTreeMap<String, _> and of Json.v's [wf_json]
            let mut ks: Vec<&String> = o.keys().collect();
            ks.sort_by(|a, b| a.as_bytes().cmp(b.as_bytes()));
            format!("(JObj {})", c::list(ks.into_iter().map(|k| format!("({}, {})", c::s(k), j2coq(&o[k])))))
        }
    }
}

fn key2coq(k: &J) -> Option<String> {
    match k {
        J::String(s) => Some(format!("(MKStr {})", c::s(s))),
        J::Number(n) => {
            if let Some(u) = n.as_u64() {
                Some(format!("(MKInt {})", c::z(u as i128)))
            } else {
                n.as_i64().map(|i| format!("(MKInt {})", c::z(i as i128)))
            }
        }
        _ => None,
    }
}

// ------------------------------------------------------------------------------------------
// script construction

enum Item {
    Seq(String),
    New(String),
    Fold(String, String),
}

fn wrap(items: &[Item], body: String) -> String {
    let mut b = body;
    for it in items.iter().rev() {
        b = match it {
            Item::Seq(i) => format!("(seq {} {})", i, b),
            Item::New(n) => format!("(new {} {})", n, b),
            Item::Fold(a, n) => format!("(fold {} {} {})", a, n, b),
        };
    }
    b
}

struct Built {
    script: String,
    services: Vec<J>,
    /// number of service invocations that must have happened before the final call is reached
    prelude_calls: usize,
    target_term: String,
    env_term: String,
}

fn svc(services: &mut Vec<J>, name: &str, v: &J) {
    services.push(serde_json::json!(["s", name, {"const": v}]));
}

fn build(case: &J) -> Result<Built, String> {
    let mut items: Vec<Item> = vec![];
    let mut services: Vec<J> = vec![];
    let mut calls = 0usize;
    services.push(serde_json::json!(["s", "id", {"echo": 0}]));
    services.push(serde_json::json!(["s", "boom", {"err": [1, "boom"]}]));

    // ---- scalar environment
    let mut env_terms = vec![];
    let empty = vec![];
    for (i, e) in case["env"].as_array().unwrap_or(&empty).iter().enumerate() {
        let name = e[0].as_str().ok_or("env name")?.to_string();
        let mode = e[1].as_str().ok_or("env mode")?;
        let val = &e[2];
        let f = format!("e{}", i);
        match mode {
            "value" => {
                svc(&mut services, &f, val);
                items.push(Item::Seq(format!("(call \"@A\" (\"s\" \"{}\") [] {})", f, name)));
                calls += 1;
                env_terms.push(format!("({}, EnvRef (SrValue {}))", c::s(&name), j2coq(val)));
            }
            "iter" => {
                svc(&mut services, &f, &J::Array(vec![val.clone()]));
                items.push(Item::Seq(format!("(call \"@A\" (\"s\" \"{}\") [] {}_arr)", f, name)));
                items.push(Item::Fold(format!("{}_arr", name), name.clone()));
                calls += 1;
                env_terms.push(format!("({}, EnvRef (SrIterable {}))", c::s(&name), j2coq(val)));
            }
            "uninit" => {
                svc(&mut services, &f, val);
                items.push(Item::Seq(format!("(call \"@A\" (\"s\" \"{}\") [] {})", f, name)));
                items.push(Item::New(name.clone()));
                calls += 1;
                env_terms.push(format!("({}, EnvUninit)", c::s(&name)));
            }
            "notfound" => {
                svc(&mut services, &f, val);
                items.push(Item::Seq(format!(
                    "(xor (seq (call \"@A\" (\"s\" \"boom\") []) (call \"@A\" (\"s\" \"{}\") [] {})) (null))",
                    f, name
                )));
                calls += 1; // boom is invoked, the definition after it is not
                env_terms.push(format!("({}, EnvNotFound)", c::s(&name)));
            }
            _ => return Err(format!("bad env mode {mode}")),
        }
    }

    // ---- target
    let t = &case["target"];
    let kind = t["kind"].as_str().ok_or("target kind")?;
    let (var, target_term) = match kind {
        "scalar" => {
            svc(&mut services, "val", &t["value"]);
            items.push(Item::Seq("(call \"@A\" (\"s\" \"val\") [] t_v)".into()));
            calls += 1;
            ("t_v".to_string(), format!("(TScalar {})", j2coq(&t["value"])))
        }
        "iter" => {
            svc(&mut services, "val", &J::Array(vec![t["value"].clone()]));
            items.push(Item::Seq("(call \"@A\" (\"s\" \"val\") [] t_arr)".into()));
            items.push(Item::Fold("t_arr".into(), "t_v".into()));
            calls += 1;
            ("t_v".to_string(), format!("(TScalar {})", j2coq(&t["value"])))
        }
        "stream" => {
            let els = t["elems"].as_array().ok_or("elems")?;
            for (i, e) in els.iter().enumerate() {
                let f = format!("el{}", i);
                svc(&mut services, &f, e);
                items.push(Item::Seq(format!("(call \"@A\" (\"s\" \"{}\") [] $t_s)", f)));
                calls += 1;
            }
            items.push(Item::Seq("(canon \"@A\" $t_s #t_canon)".into()));
            ("#t_canon".to_string(), format!("(TStream {})", c::list(els.iter().map(j2coq))))
        }
        "map" => {
            let ps = t["pairs"].as_array().ok_or("pairs")?;
            let mut terms = vec![];
            for (i, p) in ps.iter().enumerate() {
                let f = format!("el{}", i);
                svc(&mut services, &f, &p[1]);
                items.push(Item::Seq(format!("(call \"@A\" (\"s\" \"{}\") [] t_pv{})", f, i)));
                calls += 1;
                let via = p[2].as_str().unwrap_or("lit");
                let key = &p[0];
                let kt = key2coq(key).ok_or("map key must be a string or an integer")?;
                if via == "scalar" {
                    let kf = format!("ke{}", i);
                    svc(&mut services, &kf, key);
                    items.push(Item::Seq(format!("(call \"@A\" (\"s\" \"{}\") [] t_pk{})", kf, i)));
                    calls += 1;
                    items.push(Item::Seq(format!("(ap (t_pk{} t_pv{}) %t_m)", i, i)));
                } else {
                    let lit = match key {
                        J::String(s) => format!("\"{}\"", s),
                        other => other.to_string(),
                    };
                    items.push(Item::Seq(format!("(ap ({} t_pv{}) %t_m)", lit, i)));
                }
                terms.push(format!("({}, {})", kt, j2coq(&p[1])));
            }
            items.push(Item::Seq("(canon \"@A\" %t_m #%t_cm)".into()));
            ("#%t_cm".to_string(), format!("(TMap {})", c::list(terms)))
        }
        _ => return Err(format!("bad target kind {kind}")),
    };
    let lens = case["lens"].as_str().ok_or("lens")?;
    let fin = format!("(call \"@A\" (\"s\" \"id\") [{}{}])", var, lens);
    Ok(Built {
        script: wrap(&items, fin),
        services,
        prelude_calls: calls,
        target_term,
        env_term: c::list(env_terms),
    })
}

// ------------------------------------------------------------------------------------------
// the lens as the REAL parser read it: the lambda of the argument of the call to function "id"

fn find_lens(i: &Instruction<'_>) -> Option<String> {
    match i {
        Instruction::Call(call) => {
            let is_id = matches!(&call.triplet.function_name, ResolvableToStringVariable::Literal(s) if &**s == "id");
            if !is_id {
                return None;
            }
            match call.args.first()? {
                ImmutableValue::VariableWithLambda(v) => {
                    let l: &LambdaAST<'_> = match v {
                        ImmutableVariableWithLambda::Scalar(s) => &s.lambda,
                        ImmutableVariableWithLambda::CanonStream(s) => &s.lambda,
                        ImmutableVariableWithLambda::CanonStreamMap(s) => &s.lambda,
                    };
                    Some(aquah::ast2coq::lambda(l))
                }
                _ => None,
            }
        }
        Instruction::Seq(s) => find_lens(&s.1).or_else(|| find_lens(&s.0)),
        Instruction::Xor(s) => find_lens(&s.0).or_else(|| find_lens(&s.1)),
        Instruction::New(n) => find_lens(&n.instruction),
        Instruction::FoldScalar(f) => find_lens(&f.instruction),
        _ => None,
    }
}

// ------------------------------------------------------------------------------------------
// classification of the error of a failed run

const CATCHABLE: &[&str] = &[
    "LocalServiceError", "MatchValuesNotEqual", "MismatchValuesEqual", "VariableNotFound", "IncompatibleJValueType",
    "FoldIteratesOverNonArray", "UserError", "LambdaApplierError", "InvalidErrorObjectError",
    "VariableWasNotInitializedAfterNew", "LengthFunctorAppliedToNotArray", "NonStringValueInTripletResolution", "StreamMapError",
];

/// The LambdaError variant, identified by the fixed part of its message (errors.rs).
fn lambda_kind(msg: &str) -> Option<&'static str> {
    let m = msg;
    if m.starts_with("lambda is applied to a stream that have only '") {
        Some("KCanonStreamNotHaveEnoughValues")
    } else if m.starts_with("lambda is applied to an empty stream") {
        Some("KEmptyStream")
    } else if m.starts_with("field accessor (with field name = '") && m.ends_with("') can't be applied to a stream") {
        Some("KFieldAccessorAppliedToStream")
    } else if m.starts_with("canon stream map accessor must not be iterable") {
        Some("KCanonStreamMapAccessorMustNotBeIterable")
    } else if m.starts_with("canon stream map accessor `") {
        Some("KCanonStreamMapAccessorHasInvalidType")
    } else if m.starts_with("index accessor `") {
        Some("KIndexAccessNotU32")
    } else if m.starts_with("scalar accessor `") {
        Some("KScalarAccessorHasInvalidType")
    } else if m.starts_with("stream accessor `") {
        Some("KStreamAccessorHasInvalidType")
    } else if m.starts_with("value '") {
        // the value is printed first; the fixed part is the tail
        let tail = |pat: &str| m.rfind(pat).map(|p| !m[p + pat.len()..].contains("' ")).unwrap_or(false);
        if tail("' is not an array-type to match array accessor with idx = '") {
            Some("KArrayAccessorNotMatchValue")
        } else if tail("' does not contain element for idx = '") {
            Some("KValueNotContainSuchArrayIdx")
        } else if tail("' does not contain element with field name = '") {
            Some("KValueNotContainSuchField")
        } else if tail("' is not an map-type to match field accessor with field_name = '") {
            Some("KFieldAccessorNotMatchValue")
        } else {
            None
        }
    } else {
        None
    }
}

fn classify(code: i64, msg: &str) -> (String, String) {
    let other = || (format!("(ObsOther {})", c::z(code as i128)), format!("other/{}", code));
    if !(10000..10000 + CATCHABLE.len() as i64).contains(&code) {
        return other();
    }
    let k: Option<&str> = match CATCHABLE[(code - 10000) as usize] {
        "LambdaApplierError" => lambda_kind(msg),
        "LengthFunctorAppliedToNotArray" => Some("KLengthFunctorAppliedToNotArray"),
        "VariableNotFound" => Some("KVariableNotFound"),
        "VariableWasNotInitializedAfterNew" => Some("KVariableWasNotInitializedAfterNew"),
        _ => None,
    };
    match k {
        Some(k) => (format!("(ObsErr {})", k), format!("err/{}", &k[1..])),
        None => other(),
    }
}

// ------------------------------------------------------------------------------------------

fn run_case(case: &J) -> J {
    let b = match build(case) {
        Ok(b) => b,
        Err(e) => return serde_json::json!({"error": format!("bad case: {e}")}),
    };
    let peers = vec!["A".to_string()];
    let script = Net::instantiate(&b.script, &peers);
    let parsed = std::panic::catch_unwind(|| match air_parser::parse(&script) {
        Ok(ast) => find_lens(&ast).ok_or_else(|| format!("no lens found in the parsed script: {}", b.script)),
        Err(e) => Err(format!("script does not parse: {} :: {}", e, b.script)),
    });
    let lens_term = match parsed {
        Ok(Ok(t)) => t,
        Ok(Err(e)) => return serde_json::json!({"error": e}),
        Err(p) => {
            let m = p.downcast_ref::<&str>().map(|s| s.to_string()).or_else(|| p.downcast_ref::<String>().cloned()).unwrap_or_default();
            // not a lens observation (the script never runs); say what execute_air itself does with it
            let services = Services::from_json(&J::Array(b.services.clone()));
            let mut net = Net::new(&script, &peers, 0, services, "particle-lens");
            let ex = net.exec(&Op::Start).map(|r| format!("execute_air: panic={:?} code={}", r.out.panic, r.out.code)).unwrap_or_default();
            return serde_json::json!({"error": format!("air_parser::parse panicked: {} :: {} :: {}", m, ex, b.script)});
        }
    };
    let services = Services::from_json(&J::Array(b.services.clone()));
    let mut net = Net::new(&script, &peers, 0, services, "particle-lens");
    let mut recs = vec![];
    if let Some(r) = net.exec(&Op::Start) {
        recs.push(r);
    }
    recs.extend(net.drain(400));
    let panicked = recs.iter().any(|r| r.out.panic.is_some());
    let last = recs.last();
    let code = last.map(|r| r.out.code).unwrap_or(-2);
    let msg = last.map(|r| r.out.msg.clone()).unwrap_or_default();
    let log = &net.hosts[0].log;
    let ids: Vec<&Req> = log.iter().filter(|(_, q, _)| q.function == "id").map(|(_, q, _)| q).collect();
    let prelude_done = log.iter().filter(|(_, q, _)| q.function != "id").count();

    let (obs, class) = if panicked {
        ("ObsPanic".to_string(), "panic".to_string())
    } else if prelude_done != b.prelude_calls {
        // the purpose-built prelude did not run as intended: not an observation of the lens
        (format!("(ObsOther {})", c::z(code as i128)), format!("prelude-incomplete/{}", code))
    } else if code != 0 {
        classify(code, &msg)
    } else if ids.len() == 1 && ids[0].args.len() == 1 {
        (format!("(ObsOk {})", j2coq(&ids[0].args[0])), "ok".to_string())
    } else if ids.is_empty() {
        ("ObsJoined".to_string(), "joined".to_string())
    } else {
        ("(ObsOther 0%Z)".to_string(), "other/0".to_string())
    };
    let kind = case["target"]["kind"].as_str().unwrap_or("?");
    let term = format!(
        "{{| c_target := {}; c_lens := {}; c_env := {}; c_obs := {} |}}",
        b.target_term, lens_term, b.env_term, obs
    );
    serde_json::json!({
        "coq": [term],
        "classes": [format!("{}/{}", kind, class)],
        "info": [{"script": b.script, "code": code, "msg": msg, "runs": recs.len(), "class": class}],
    })
}

fn main() {
    quiet_panics();
    let stdin = std::io::stdin();
    for line in stdin.lock().lines() {
        let line = match line { Ok(l) => l, Err(_) => break };
        if line.trim().is_empty() { continue; }
        let case: J = match serde_json::from_str(&line) {
            Ok(c) => c,
            Err(e) => { println!("{}", serde_json::json!({"error": format!("bad case: {e}")})); continue; }
        };
        println!("{}", run_case(&case));
    }
}
