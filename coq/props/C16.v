(* C16 -- distributed execution agrees with the sequential meaning of the script.

   The sequential reading is model/SeqSem.v (seq_eval), the fragment model/SeqFrag.v (in_fragment), the
   statements model/SeqLocal.v:
     C16_full         every honest history on several peers  -- a Definition, NOT proved (it needs the
                      approximation invariant of DESIGN appendix B); decided by exploration with the
                      Coq-evaluated reading (checks/C16.py);
     C16_local_full   one peer, the whole fragment            -- a Definition;
   proved here:
     C16_local_partial  one peer, STRAIGHT-LINE scripts (SeqLocal.linear: call with literal target / service /
                      function and literal or scalar arguments, ap of a literal or a scalar, seq, xor, match, mismatch, fail,
                      null, never):
                      the executor model (Exec.exec through RunExec.run1, with the real trace handler model)
                      -- and likewise the complete executor ExecStreams.run2 -- iterated on the peer (run, hand
                      every requested answer back, run again) reaches
                      quiescence and has requested exactly the calls of the sequential reading, one per round,
                      in its order, with its argument values.  The key lemma (SeqLocalProofs.exec_lin): one run
                      whose previous data holds k-1 executed calls and the pending k-th, with the k-th answer
                      among the call results, replays the k-1, executes the k-th and requests exactly the next
                      ready call;
     facts about the reading itself (it is a function of script and services; its answer does not depend on
     the fuel);
     SEVERAL PEERS, straight-line scripts (model/NetLin.v, proofs/NetLinProofs.v) -- the approximation invariant of
     DESIGN appendix B for this fragment:
     C16_step_two_data  one run (run1 and run2) at ANY peer on a previous and a current data that both approximate
                      the full sequential trace F (a prefix of F plus at most one RequestSentBy state), with no call
                      result or the answer to the own pending request: returns new data with code 0 or the catchable
                      code the reading ends with, whose trace is the longer prefix (one state longer when the answer
                      was supplied) followed by exactly the state NetLin.frontier_at prescribes; issues a request
                      exactly when the next call of F is addressed to this peer and is not pending here; names the
                      addressed peer as next peer exactly when it forwards;
     C16_net_invariant  by induction over the honest histories of model/SeqLocal.v (start anywhere in the history,
                      every delivery order, duplication, re-delivery, delayed answers): every stored and every
                      in-flight data approximates F, the pending request of a host <-> the RequestSentBy(p, id) state
                      at the end of its data, the service log is a PREFIX of the calls of the reading;
     C16_full_linear  C16_full restricted to straight-line scripts: in every honest history the invocations are a
                      prefix of the calls of SeqSem.seq_eval, in its order (hence a sub-multiset);
     C16_reading_has_full / C16_full_is_reading  the full trace F is defined exactly when the reading is (on straight-line
                      scripts), with the reading's calls and status. *)
From Aqua Require Import Base Json Air Trace Values Exec RunExec ExecStreams SeqSem SeqFrag SeqLocal SeqProofs SeqLocalProofs NetLin NetLinProofs.
Open Scope N_scope.
Open Scope list_scope.

Theorem C16_reading_fuel_monotone : C16_reading_fuel_monotone_stmt.
Proof. exact seq_eval_fuel_mono. Qed.

Theorem C16_reading_function_of_services : C16_reading_function_of_services_stmt.
Proof. exact seq_eval_ext. Qed.

Theorem C16_local_partial : forall svc ts ttl, C16_local_linear_stmt svc ts ttl.
Proof. exact C16_local_linear. Qed.

(* ---- non-vacuity ---- *)
Definition ex_var (n : string) : var := {| v_name := n; v_pos := 0 |}.
Definition ex_call (p f : string) (args : list value) (out : call_output) : instr :=
  ICall "" {| t_peer := PLiteral p; t_service := SLiteral "s"; t_function := SLiteral f |} args out.
Definition ex_svc (p s f : string) (args : list json) : answer :=
  if String.eqb f "fail" then {| an_code := 1; an_value := Some (JStr "boom") |}
  else {| an_code := 0; an_value := Some (JArr (JStr (f ++ "@" ++ p) :: args)) |}.
(* (seq (call A f [] x) (xor (call B fail [x]) (par (call C g [x]) (call A h [])))) *)
Definition ex_script : instr :=
  ISeq (ex_call "A" "f" [] (OutScalar (ex_var "x")))
       (IXor (ex_call "B" "fail" [VScalar (ex_var "x")] OutNone)
             (IPar (ex_call "C" "g" [VScalar (ex_var "x")] OutNone) (ex_call "A" "h" [] OutNone))).

Example C16_reading_example :
  calls_of (seq_eval ex_svc everything_known "A" 0 0 20 empty_env ex_script) =
  [ {| c_peer := "A"; c_service := "s"; c_fn := "f"; c_args := [] |};
    {| c_peer := "B"; c_service := "s"; c_fn := "fail"; c_args := [JArr [JStr "f@A"]] |};
    {| c_peer := "C"; c_service := "s"; c_fn := "g"; c_args := [JArr [JStr "f@A"]] |};
    {| c_peer := "A"; c_service := "s"; c_fn := "h"; c_args := [] |} ].
Proof. vm_compute. reflexivity. Qed.

(* with nothing known the reading stops at the first call *)
Example C16_reading_nothing_known :
  calls_of (seq_eval ex_svc (known_in []) "A" 0 0 20 empty_env ex_script) =
  [ {| c_peer := "A"; c_service := "s"; c_fn := "f"; c_args := [] |} ].
Proof. vm_compute. reflexivity. Qed.

(* the fragment: the failing call is under an xor; the same script with the xor replaced by a seq is outside *)
Example C16_fragment_example :
  in_fragment (fun _ f => String.eqb f "fail") ex_script = true /\
  in_fragment (fun _ f => String.eqb f "fail")
    (ISeq (ex_call "B" "fail" [] OutNone) (ex_call "A" "h" [] OutNone)) = false /\
  in_fragment (fun _ f => String.eqb f "fail")
    (IXor (IPar (ex_call "B" "fail" [] OutNone) INull) INull) = false.
Proof. vm_compute. repeat split; reflexivity. Qed.

(* the single-peer theorem on a concrete straight-line script: three rounds request the three calls the reading
   makes (f; the failing call with f's result; the handler), the fourth requests nothing *)
Definition ex_svc_full (p s f : string) (args : list json) : service_answer :=
  if String.eqb f "fail" then {| sa_ret_code := 1; sa_text := """boom"""; sa_parsed := Some (JStr "boom") |}
  else {| sa_ret_code := 0; sa_text := ""; sa_parsed := Some (JArr (JStr (f ++ "@" ++ p) :: args)) |}.
Definition ex_linear : instr :=
  ISeq (ex_call "A" "f" [] (OutScalar (ex_var "x")))
       (IXor (ex_call "A" "fail" [VScalar (ex_var "x")] OutNone)
             (ISeq (IAp "" (AScalar (ex_var "x")) (ApScalar (ex_var "z")))
                   (ex_call "A" "h" [VScalar (ex_var "z")] (OutScalar (ex_var "y"))))).
Example C16_local_example :
  linear "A" ex_linear = true /\
  local_rounds ex_svc_full 0 0 4 20 "A" ex_linear empty_data [] =
  Some (map (fun c => [c])
            (calls_of (reading ex_svc_full 0 0 everything_known "A" 20 ex_linear))) /\
  local_rounds2 ex_svc_full 0 0 4 20 "A" ex_linear empty_data [] =
  Some (map (fun c => [c])
            (calls_of (reading ex_svc_full 0 0 everything_known "A" 20 ex_linear))) /\
  length (calls_of (reading ex_svc_full 0 0 everything_known "A" 20 ex_linear)) = 3%nat.
Proof. vm_compute. repeat split; reflexivity. Qed.

(* ---- several peers ---- *)
Theorem C16_step_two_data : forall svc init ts ttl, step_two_data_stmt svc init ts ttl.
Proof. exact step_two_data. Qed.

Theorem C16_net_invariant : forall svc init ts ttl, net_invariant_stmt svc init ts ttl.
Proof. exact net_invariant. Qed.

Theorem C16_log_is_prefix : forall svc init ts ttl,
    lin_log_is_prefix svc init ts ttl run1 /\ lin_log_is_prefix svc init ts ttl run2.
Proof. intros. split; apply log_is_prefix_gen; [apply run1_step | apply run2_step]. Qed.

Theorem C16_history_is_seqlocal : forall svc init ts ttl, history_is_seqlocal_stmt svc init ts ttl.
Proof. exact history_is_seqlocal. Qed.

Theorem C16_reading_has_full : forall svc init ts ttl, reading_has_full_stmt svc init ts ttl.
Proof. exact reading_has_full. Qed.

Theorem C16_full_is_reading : forall svc init ts ttl, full_is_reading_stmt svc init ts ttl.
Proof. exact full_is_reading. Qed.

Theorem C16_full_linear : forall svc init ts ttl, C16_full_linear_stmt svc init ts ttl.
Proof. exact NetLinProofs.C16_full_linear. Qed.

(* non-vacuity: three calls on two peers, (seq (call A f [] x) (seq (call B g [x] y) (call A h [y] z))) *)
Definition ex_two_peers : instr :=
  ISeq (ex_call "A" "f" [] (OutScalar (ex_var "x")))
       (ISeq (ex_call "B" "g" [VScalar (ex_var "x")] (OutScalar (ex_var "y")))
             (ex_call "A" "h" [VScalar (ex_var "y")] (OutScalar (ex_var "z")))).
Definition ex_full : option nout := full_trace ex_svc_full "A" 0 0 20 ex_two_peers.
Definition ex_prefix (n : nat) : list (state cid) := match ex_full with Some F => firstn n (o_exec F) | None => [] end.
Definition ex_params (p : string) : run_params := nparams "A" 0 0 p.
Definition ex_data (o : RunExec.outcome) : idata := match o with OutNewData _ d _ _ _ => d | _ => empty_data end.
(* A starts and is answered: its data holds f's result and the forwarding mark; B merges it and requests g *)
Definition ex_a0 := run2 20 {| ri_script := ex_two_peers; ri_params := ex_params "A"; ri_prev := empty_data; ri_cur := empty_data; ri_results := [] |}.
Definition ex_a1 := run2 20 {| ri_script := ex_two_peers; ri_params := ex_params "A"; ri_prev := ex_data ex_a0; ri_cur := empty_data;
                               ri_results := [(1, ex_svc_full "A" "s" "f" [])] |}.
Definition ex_b0 := run2 20 {| ri_script := ex_two_peers; ri_params := ex_params "B"; ri_prev := empty_data; ri_cur := ex_data ex_a1; ri_results := [] |}.
(* a stale duplicate of A's first particle reaches B after B executed g: two data, both prefixes of F *)
Definition ex_b1 := run2 20 {| ri_script := ex_two_peers; ri_params := ex_params "B"; ri_prev := ex_data ex_b0; ri_cur := empty_data;
                               ri_results := [(1, ex_svc_full "B" "s" "g" [JArr [JStr "f@A"]])] |}.
Definition ex_b2 := run2 20 {| ri_script := ex_two_peers; ri_params := ex_params "B"; ri_prev := ex_data ex_b1; ri_cur := ex_data ex_a1; ri_results := [] |}.
Example C16_step_two_data_example :
  nlinear "A" ex_two_peers = true /\ names_ok [] ex_two_peers <> None /\
  (exists F, ex_full = Some F /\ length (o_exec F) = 3%nat /\ map c_peer (o_calls F) = ["A"; "B"; "A"]) /\
  d_trace (ex_data ex_a0) = ex_prefix 0 ++ [pend_state (SPeerCall "A" 1)] /\
  d_trace (ex_data ex_a1) = ex_prefix 1 ++ [pend_state (SPeer "A")] /\
  (exists c d rq s, ex_a1 = OutNewData c d ["B"] rq s /\ rq = []) /\
  d_trace (ex_data ex_b0) = ex_prefix 1 ++ [pend_state (SPeerCall "B" 1)] /\
  (exists c d rq s, ex_b0 = OutNewData c d [] rq s /\ map fst rq = [1]) /\
  d_trace (ex_data ex_b1) = ex_prefix 2 ++ [pend_state (SPeer "B")] /\
  (* the stale particle changes nothing: the longer prefix and its own mark stay, nothing is requested or sent *)
  (exists c s, ex_b2 = OutNewData c (ex_data ex_b1) [] [] s).
Proof. vm_compute. repeat split; try discriminate; repeat eexists. Qed.

(* every honest history of that script: here a delivery order with a duplicate and a re-delivery *)
Example C16_net_example :
  let ops := [OStart; OAnswer "A" [1]; ODeliver 0 true; OAnswer "B" [1]; ODeliver 0 false; ORedeliver 0;
              ODeliver 0 false; OAnswer "A" [2]; OStart] in
  let n := history_with ex_svc_full "A" 0 0 run2 20 ex_two_peers ["A"; "B"] ops in
  match ex_full with Some F => n_log n = o_calls F | None => False end /\
  n_log (history ex_svc_full 0 0 20 ex_two_peers "A" ["A"; "B"] ops) = n_log n.
Proof. vm_compute. split; reflexivity. Qed.

Print Assumptions C16_local_partial.
Print Assumptions C16_step_two_data.
Print Assumptions C16_net_invariant.
Print Assumptions C16_log_is_prefix.
Print Assumptions C16_history_is_seqlocal.
Print Assumptions C16_reading_has_full.
Print Assumptions C16_full_is_reading.
Print Assumptions C16_full_linear.
Print Assumptions C16_reading_fuel_monotone.
Print Assumptions C16_reading_function_of_services.
