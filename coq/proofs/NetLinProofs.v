(* NetLinProofs.v -- the approximation invariant for straight-line scripts on several peers (model/NetLin.v).

   Part 1  the trace handler on two traces of call states: what the executor meets is their pointwise JOIN
           ([joined], [hrel2]); the join of two approximations of F is an approximation of F ([approx_join]).
   Part 2  one call instruction of the executor at any peer, for every state the join can hold there.
   Part 3  [exec_nlin]: one run of [exec] against the reading with a credit ([nlin]) -- the generalisation of
           SeqLocalProofs.exec_lin from "previous data only, one peer" to "two data, several peers".
   Part 4  [nlin] with a credit against the full reading ([nlin_cut]); the full reading against SeqSem.seq_eval.
   Part 5  the run-level step lemma [step_two_data].
   Part 6  the network invariant by induction over honest histories, and its corollaries. *)
From Coq Require Import Lia.
From Aqua Require Import Base Json Air Trace Handler Values Scalars Lens Exec RunExec ExecStreams SeqSem SeqFrag SeqLocal JsonFacts KeepSpec KeepProofs SeqLocalProofs NetLin.
Open Scope N_scope.
Open Scope list_scope.

(* ------------------------------------------------------------------------------------------ *)
(* Part 1: the handler on two traces of call states *)

Inductive joined : list (state cid) -> list (state cid) -> list (state cid) -> Prop :=
| J_nil : joined [] [] []
| J_prev : forall pc P J, joined P [] J -> joined (SCall pc :: P) [] (SCall pc :: J)
| J_cur : forall cc C J, joined [] C J -> joined [] (SCall cc :: C) (SCall cc :: J)
| J_both : forall pc cc m sch P C J,
    merge_call_results cid cid_eqb pc cc = Ok (m, sch) -> joined P C J ->
    joined (SCall pc :: P) (SCall cc :: C) (SCall m :: J).

(* the sliders have [Pp], [Pc] left to hand out, whose join is [J]; the result is [res] *)
Definition hrel2 (h : handler cid) (J res : list (state cid)) : Prop :=
  exists Tp qp Tc qc n2p n2c,
    h = {| h_keeper := {| k_prev := pslider Tp qp; k_cur := pslider Tc qc;
                          k_new_to_prev := n2p; k_new_to_cur := n2c; k_result := res |};
           h_pars := []; h_folds := [] |} /\
    qp <= len_N Tp /\ qc <= len_N Tc /\ joined (skipn (N.to_nat qp) Tp) (skipn (N.to_nat qc) Tc) J.

Lemma next_state_none : forall T q, q <= len_N T -> skipn (N.to_nat q) T = [] ->
    next_state cid (pslider T q) = (None, pslider T q).
Proof.
  intros T q Hq Hs. apply skipn_nil_len in Hs.
  assert (q = len_N T) by (unfold len_N in *; lia). subst q. apply next_state_prev_end.
Qed.

Lemma next_state_some : forall T q st r, q <= len_N T -> skipn (N.to_nat q) T = st :: r ->
    next_state cid (pslider T q) = (Some st, pslider T (q + 1)) /\ q + 1 <= len_N T /\
    skipn (N.to_nat (q + 1)) T = r.
Proof.
  intros T q st r Hq Hs. destruct (skipn_cons_nth _ _ _ _ _ Hs) as (Hn & Hr & Hlt).
  assert (Hq' : q < len_N T) by (unfold len_N; lia).
  split; [apply next_state_prev_some; assumption|]. split; [lia|].
  replace (N.to_nat (q + 1)) with (S (N.to_nat q)) by lia. exact Hr.
Qed.

Lemma hrel2_from : forall P C J, joined P C J -> hrel2 (handler_from cid P C) J [].
Proof.
  intros P C J H. exists P, 0, C, 0, [], []. unfold handler_from, keeper_from, slider_new, pslider. cbn.
  repeat split; try lia. exact H.
Qed.

Lemma hrel2_result : forall h J res, hrel2 h J res -> result_trace cid h = res.
Proof. intros h J res (Tp & qp & Tc & qc & a & b & -> & _). reflexivity. Qed.

Lemma meet_call_end_hrel2 : forall h c J res, hrel2 h J res -> hrel2 (meet_call_end cid h c) J (res ++ [SCall c]).
Proof.
  intros h c J res (Tp & qp & Tc & qc & a & b & -> & H1 & H2 & H3).
  exists Tp, qp, Tc, qc, a, b. unfold meet_call_end, with_keeper, push_state, with_result. cbn. repeat split; auto.
Qed.

Lemma joined_nil_inv : forall P C, joined P C [] -> P = [] /\ C = [].
Proof. intros P C H. inversion H; auto. Qed.

Lemma joined_cons_inv : forall P C c J, joined P C (SCall c :: J) ->
    (exists P', P = SCall c :: P' /\ C = [] /\ joined P' [] J) \/
    (exists C', P = [] /\ C = SCall c :: C' /\ joined [] C' J) \/
    (exists pc cc sch P' C', P = SCall pc :: P' /\ C = SCall cc :: C' /\
        merge_call_results cid cid_eqb pc cc = Ok (c, sch) /\ joined P' C' J).
Proof.
  intros P C c J H. inversion H; subst.
  - left. eauto.
  - right. left. eauto.
  - right. right. eauto 10.
Qed.

Lemma meet_call_start_nil2 : forall h res, hrel2 h [] res -> meet_call_start cid cid_eqb h = Ok (CallNotMet cid, h).
Proof.
  intros h res (Tp & qp & Tc & qc & a & b & -> & H1 & H2 & H3).
  destruct (joined_nil_inv _ _ H3) as [Ep Ec].
  unfold meet_call_start, try_merge_next_state_as_call, next_states. cbn [h_keeper k_prev k_cur].
  rewrite (next_state_none Tp qp H1 Ep). rewrite (next_state_none Tc qc H2 Ec). reflexivity.
Qed.

Lemma meet_call_start_cons2 : forall h c J res,
    hrel2 h (SCall c :: J) res ->
    exists h' src, meet_call_start cid cid_eqb h = Ok (CallMet cid c (len_N res) src, h') /\ hrel2 h' J res.
Proof.
  intros h c J res (Tp & qp & Tc & qc & a & b & -> & H1 & H2 & H3).
  unfold meet_call_start, try_merge_next_state_as_call, next_states. cbn [h_keeper k_prev k_cur].
  destruct (joined_cons_inv _ _ _ _ H3) as [(P' & Ep & Ec & Hj) | [(C' & Ep & Ec & Hj) | (pc & cc & sch & P' & C' & Ep & Ec & Hm & Hj)]].
  - (* only the previous trace has a state *)
    destruct (next_state_some Tp qp _ _ H1 Ep) as (Ea & Hb & Hc). rewrite Ea.
    rewrite (next_state_none Tc qc H2 Ec).
    unfold prepare_call_result, prepare_positions_mapping, pslider. cbn.
    assert (E3 : (qp + 1 =? 0) = false) by (apply N.eqb_neq; lia). rewrite E3. cbn.
    eexists. eexists. split; [reflexivity|].
    exists Tp, (qp + 1), Tc, qc. eexists. eexists. split; [reflexivity|]. split; [lia|]. split; [exact H2|].
    rewrite Hc, Ec. assumption.
  - (* only the current one *)
    rewrite (next_state_none Tp qp H1 Ep).
    destruct (next_state_some Tc qc _ _ H2 Ec) as (Ea & Hb & Hc). rewrite Ea.
    unfold prepare_call_result, prepare_positions_mapping, pslider. cbn.
    assert (E3 : (qc + 1 =? 0) = false) by (apply N.eqb_neq; lia). rewrite E3. cbn.
    eexists. eexists. split; [reflexivity|].
    exists Tp, qp, Tc, (qc + 1). eexists. eexists. split; [reflexivity|]. split; [exact H1|]. split; [lia|].
    rewrite Hc, Ep. assumption.
  - (* both: the merged state *)
    destruct (next_state_some Tp qp _ _ H1 Ep) as (Ea & Hb & Hc). rewrite Ea.
    destruct (next_state_some Tc qc _ _ H2 Ec) as (Ea' & Hb' & Hc'). rewrite Ea'.
    rewrite Hm. cbn [bind fst snd].
    unfold prepare_call_result, prepare_positions_mapping, pslider.
    assert (E3 : (qp + 1 =? 0) = false) by (apply N.eqb_neq; lia).
    assert (E4 : (qc + 1 =? 0) = false) by (apply N.eqb_neq; lia).
    destruct sch; cbn; rewrite ?E3, ?E4; cbn; rewrite ?E4; cbn;
      (eexists; eexists; split; [reflexivity|]);
      exists Tp, (qp + 1), Tc, (qc + 1); eexists; eexists; (split; [reflexivity|]); (split; [lia|]); (split; [lia|]);
      rewrite Hc, Hc'; assumption.
Qed.

(* ------------------------------------------------------------------------------------------ *)
(* Part 2: one call instruction at peer [me], particle of init peer [init] *)

Lemma closed_is_covered : forall cs st, closed_state cs st = covered cs st.
Proof. reflexivity. Qed.

Section Step.
  Variable svc : string -> string -> string -> list json -> service_answer.
  Variable init me : string.
  Variable ts ttl : N.

  Notation params := (nparams init ts ttl me).

  Definition NRres (x : ctx) (vs : vars_t) : Prop :=
    x_params x = params /\ scal_rel (x_scalars x) vs /\ x_iterables x = [].

  Lemma lookup_nenv : forall vs n,
      lookup (nenv vs) n = match assoc vs n with Some (Some j) => ROk j | Some None => RFail FUninit | None => RStuck end.
  Proof. intros vs n. unfold lookup, nenv. cbn. reflexivity. Qed.

  Lemma n_get_value_found : forall x vs n j,
      NRres x vs -> assoc vs n = Some (Some j) ->
      exists v, scalars_get_value x n = POk (SRValue v) /\ va_result v = j.
  Proof.
    intros x vs n j (Hp & Hs & Hi) E. destruct (scal_get_found _ _ _ _ Hs E) as (v & Hg & Hv).
    exists v. split; auto. unfold scalars_get_value. rewrite Hg, Hi. reflexivity.
  Qed.

  Lemma n_get_value_missing : forall x vs n,
      NRres x vs -> assoc vs n = None -> scalars_get_value x n = PErr (ECatch (CVariableNotFound n)).
  Proof.
    intros x vs n (Hp & Hs & Hi) E. unfold scalars_get_value.
    rewrite (scal_get_missing _ _ _ Hs E), Hi. reflexivity.
  Qed.

  Lemma n_resolve_value_sim : forall x vs v,
      NRres x vs -> lin_value v = true ->
      match SeqSem.resolve_value init ts ttl (nenv vs) v with
      | ROk j => exists tets pr, Exec.resolve_value x v = POk (j, tets, pr)
      | RStuck => exists n, Exec.resolve_value x v = PErr (ECatch (CVariableNotFound n))
      | _ => False
      end.
  Proof.
    intros x vs v R Hv. pose proof R as (Hp & Hs & Hi).
    destruct v; simpl in Hv; try discriminate; cbn [SeqSem.resolve_value Exec.resolve_value];
      unfold resolve_const, init_peer; rewrite ?Hp; cbn [rp_init_peer rp_timestamp rp_ttl nparams].
    - eexists. eexists. reflexivity.
    - eexists. eexists. reflexivity.
    - eexists. eexists. reflexivity.
    - eexists. eexists. reflexivity.
    - destruct n; eexists; eexists; reflexivity.
    - eexists. eexists. reflexivity.
    - eexists. eexists. reflexivity.
    - rewrite lookup_nenv. unfold resolve_scalar.
      destruct (assoc vs (v_name v)) as [[j|]|] eqn:E.
      + destruct (n_get_value_found _ _ _ _ R E) as (a & Hg & Ha). rewrite Hg. cbn. rewrite Ha.
        eexists. eexists. reflexivity.
      + exfalso. exact (scal_no_uninit _ _ _ Hs E).
      + rewrite (n_get_value_missing _ _ _ R E). cbn. eexists. reflexivity.
  Qed.

  Lemma n_collect_args_sim : forall x vs args,
      NRres x vs -> forallb lin_value args = true ->
      match SeqSem.resolve_args init ts ttl (nenv vs) args with
      | ROk js => exists tets, collect_args x args = POk (js, tets)
      | RStuck => exists n, collect_args x args = PErr (ECatch (CVariableNotFound n))
      | _ => False
      end.
  Proof.
    intros x vs args R. induction args as [|a r IH]; intros H.
    - simpl. eexists. reflexivity.
    - simpl in H. apply andb_prop in H. destruct H as [Ha Hr]. specialize (IH Hr).
      pose proof (n_resolve_value_sim x vs a R Ha) as Hv.
      cbn [SeqSem.resolve_args collect_args].
      destruct (SeqSem.resolve_value init ts ttl (nenv vs) a) as [j| |w|o]; cbn [rbind]; try contradiction.
      + destruct Hv as (tets & pr & Hv). rewrite Hv. cbn [pbind].
        destruct (SeqSem.resolve_args init ts ttl (nenv vs) r) as [js| |w|o]; cbn [rbind]; try contradiction.
        * destruct IH as (tt' & IH). rewrite IH. cbn. eexists. reflexivity.
        * destruct IH as (n & IH). rewrite IH. cbn. eexists. reflexivity.
      + destruct Hv as (n & Hv). rewrite Hv. cbn. eexists. reflexivity.
  Qed.

  Lemma n_apply_to_arg_sim : forall x vs a,
      NRres x vs -> lin_ap a = true ->
      match SeqSem.resolve_ap init ts ttl (nenv vs) a with
      | ROk j => exists val, apply_to_arg x a false = POk val /\ va_result val = j
      | RStuck => exists n, apply_to_arg x a false = PErr (ECatch (CVariableNotFound n))
      | _ => False
      end.
  Proof.
    intros x vs a R Ha. pose proof R as (Hp & Hs & Hi).
    destruct a; simpl in Ha; try discriminate; cbn [SeqSem.resolve_ap apply_to_arg];
      unfold init_peer; rewrite ?Hp; cbn [rp_init_peer rp_timestamp rp_ttl nparams].
    - eexists. split; reflexivity.
    - eexists. split; reflexivity.
    - eexists. split; reflexivity.
    - eexists. split; reflexivity.
    - destruct n; eexists; split; reflexivity.
    - eexists. split; reflexivity.
    - eexists. split; reflexivity.
    - rewrite lookup_nenv. destruct (assoc vs (v_name v)) as [[j|]|] eqn:E.
      + destruct (n_get_value_found _ _ _ _ R E) as (val & Hg & Hv). rewrite Hg. cbn. eexists. split; [reflexivity|exact Hv].
      + exfalso. exact (scal_no_uninit _ _ _ Hs E).
      + rewrite (n_get_value_missing _ _ _ R E). cbn. eexists. reflexivity.
  Qed.

  (* ---------------------------------------------------------------------------------------- *)
  (* the invariant of a run *)
  Record nview := {
    nw_vars : vars_t;                       (* the reading's variables *)
    nw_prev : list (state cid);             (* the join of what the two sliders still hold *)
    nw_res : list (state cid);              (* the result trace so far *)
    nw_reqs : list (N * call_ev);           (* the requests so far *)
    nw_next : list string;                  (* the next peers so far *)
    nw_lcid : N;
    nw_rs : list (N * service_answer)       (* the call results not consumed yet *)
  }.

  Definition NInv (x : ctx) (w : nview) : Prop :=
    NRres x (nw_vars w) /\
    x_next_peers x = nw_next w /\
    hrel2 (x_handler x) (nw_prev w) (nw_res w) /\
    map (fun r => (fst r, call_of_request me r)) (x_requests x) = nw_reqs w /\
    x_lcid x = nw_lcid w /\ x_call_results x = nw_rs w /\
    Forall (covered (x_cids x)) (nw_prev w) /\ Forall (covered (x_cids x)) (nw_res w) /\
    x_ext x = ext_new.

  Lemma NRres_frame : forall x y vs,
      NRres x vs -> x_params y = x_params x -> x_scalars y = x_scalars x -> x_iterables y = x_iterables x -> NRres y vs.
  Proof. intros x y vs (A & B & C) H1 H2 H3. unfold NRres. rewrite H1, H2, H3. auto. Qed.

  Lemma NInv_intro : forall x w,
      NRres x (nw_vars w) -> x_next_peers x = nw_next w -> hrel2 (x_handler x) (nw_prev w) (nw_res w) ->
      map (fun r => (fst r, call_of_request me r)) (x_requests x) = nw_reqs w ->
      x_lcid x = nw_lcid w -> x_call_results x = nw_rs w ->
      Forall (covered (x_cids x)) (nw_prev w) -> Forall (covered (x_cids x)) (nw_res w) ->
      x_ext x = ext_new -> NInv x w.
  Proof. intros. unfold NInv. auto 12. Qed.

  Lemma NInv_core : forall x y w, same_core x y -> NInv x w -> NInv y w.
  Proof.
    intros x y w (A & B & C & D & E & F & G & H & I & J) (R & I1 & I2 & I3 & I4 & I5 & I6 & I7 & I8).
    apply NInv_intro; rewrite ?D, ?E, ?F, ?G, ?H, ?I, ?J; auto. eapply NRres_frame; eauto.
  Qed.

  Lemma n_resolve_triplet : forall x t q s f,
      x_params x = params -> target_of init (t_peer t) = Some q -> t_service t = SLiteral s -> t_function t = SLiteral f ->
      resolve_triplet x t = POk (ntet q s f).
  Proof.
    intros x t q s f Hp Hl Hs Hf. unfold resolve_triplet. rewrite Hs, Hf.
    destruct (t_peer t); simpl in Hl; try discriminate; cbn.
    - unfold init_peer. rewrite Hp. cbn. inversion Hl; subst. reflexivity.
    - inversion Hl; subst. reflexivity.
  Qed.

  Lemma n_check_output_name_fresh : forall x vs out,
      NRres x vs -> fresh_out vs out -> check_output_name x out = POk tt.
  Proof.
    intros x vs out R H. destruct out; simpl in *; try contradiction; auto.
    rewrite (n_get_value_missing _ _ _ R H). reflexivity.
  Qed.

  Lemma n_current_peer : forall x, x_params x = params -> current_peer x = me.
  Proof. intros x H. unfold current_peer. rewrite H. reflexivity. Qed.

  Lemma record_cid_cases : forall x q c,
      record_cid x q c = x \/ record_cid x q c = set_cids x (x_cids x) (x_tracker x ++ [c]).
  Proof. intros. unfold record_cid. destruct (String.eqb q (current_peer x)); auto. Qed.

  Definition opt_front (fr : option sender) : list (state cid) :=
    match fr with Some sd => [pend_state sd] | None => [] end.

  Definition ncall_outcome (a : service_answer) (r : xres) (x' : ctx) : Prop :=
    match nl_value a with
    | inl _ => r = XOk x'
    | inr _ => exists c, r = XErr (ECatch c) x'
    end.

  Definition nafter_call (w : nview) (P' : list (state cid)) (q s f : string) (js : list json) (out : call_output)
             (a : service_answer) (rs : list (N * service_answer)) : nview :=
    {| nw_vars := nl_bind (nw_vars w) out a; nw_prev := P'; nw_res := nw_res w ++ [SCall (nl_done q s f js out a)];
       nw_reqs := nw_reqs w; nw_next := nw_next w; nw_lcid := nw_lcid w; nw_rs := rs |}.

  (* the answer to the own pending request is among the call results: the call is executed *)
  Lemma n_exec_call_answer : forall x w text t q s f args out js a id P',
      NInv x w -> target_of init (t_peer t) = Some q -> t_service t = SLiteral s -> t_function t = SLiteral f ->
      forallb lin_value args = true -> fresh_out (nw_vars w) out ->
      SeqSem.resolve_args init ts ttl (nenv (nw_vars w)) args = ROk js ->
      nw_prev w = pend_state (SPeerCall me id) :: P' -> nw_rs w = [(id, a)] ->
      exists x', ncall_outcome a (exec_call x text t args out) x' /\
                 NInv x' (nafter_call w P' q s f js out a []) /\
                 (forall r, nl_value a = inl r -> x_complete x' = x_complete x).
  Proof.
    intros x w text t q s f args out js a id P' HI Hl Hs Hf Ha Ho Hr Hp Hrs'.
    pose proof HI as (R & Hnp & Hh & Hrq & Hlc & Hrs & Hc1 & Hc2 & Hext). pose proof R as (Hpar & Hsc & Hit).
    assert (HcP : Forall (covered (x_cids x)) P') by (rewrite Hp in Hc1; inversion Hc1; assumption).
    unfold exec_call. rewrite (n_resolve_triplet _ _ _ _ _ Hpar Hl Hs Hf). cbn [pbind].
    rewrite (n_check_output_name_fresh _ _ _ R Ho). cbn [pbind].
    unfold resolved_call_execute.
    pose proof (n_collect_args_sim x _ args R Ha) as Hca. rewrite Hr in Hca. destruct Hca as (tets & Hca).
    rewrite Hca.
    rewrite Hp in Hh. unfold pend_state in Hh. destruct (meet_call_start_cons2 _ _ _ _ Hh) as (h' & src & Hm & Hh').
    rewrite Hm. cbn [with_handler fst snd].
    unfold handle_prev_state.
    rewrite n_current_peer by (cbn; exact Hpar). rewrite String.eqb_refl.
    cbn [x_call_results set_handler]. rewrite Hrs, Hrs', results_take_one.
    unfold update_state_with_service_result, ncall_outcome, nl_value, call_service_success.
    destruct (negb (sa_ret_code a =? 0)%Z) eqn:Ecode.
    - (* the service failed *)
      rewrite track_service_result_eq. cbn [is_joinable].
      match goal with |- context [record_cid ?y ?pp ?cc] => destruct (record_cid_cases y pp cc) as [Erc|Erc]; rewrite Erc end;
      (eexists; split; [eexists; reflexivity|]; split; [|intros r E; discriminate];
       eapply NInv_core; [apply ctx_set_errors_core|];
       unfold nafter_call, nl_bind, nl_done, nl_value; rewrite Ecode;
       apply NInv_intro; cbn; try exact Hext;
       [ eapply NRres_frame; [exact R | reflexivity..]
       | exact Hnp
       | apply meet_call_end_hrel2; exact Hh'
       | exact Hrq
       | exact Hlc
       | reflexivity
       | eapply Forall_covered_mono; [apply tracked_le|]; exact HcP
       | apply Forall_app; split;
         [ eapply Forall_covered_mono; [apply tracked_le|]; exact Hc2
         | constructor; [|constructor]; apply tracked_covers; right; left; reflexivity ] ]).
    - destruct (sa_parsed a) as [result|] eqn:Epar.
      + (* success *)
        unfold populate_from_service_result.
        destruct out as [v | v |]; [| contradiction |].
        * (* into a scalar *)
          rewrite track_service_result_eq. unfold set_scalar_value. cbn [x_scalars set_cids set_calls set_handler].
          simpl in Ho.
          destruct (scal_set_fresh _ _ (v_name v) (VAService result (ntet q s f) (trace_pos_of (set_calls (set_handler x h') (x_lcid (set_handler x h')) [] (x_requests (set_handler x h')))) (CService (CValue result) (CArgs js) (CTetraplet (ntet q s f)))) Hsc Ho) as (m' & Hset & Hrel').
          rewrite Hset.
          match goal with |- context [record_cid ?y ?pp ?cc] => destruct (record_cid_cases y pp cc) as [Erc|Erc]; rewrite Erc end;
          cbn [maybe_set_prev_state];
          (eexists; split; [reflexivity|]; split; [|intros r E; reflexivity];
           unfold nafter_call, nl_bind, nl_done, nl_value; rewrite Ecode, Epar;
           apply NInv_intro; cbn; try exact Hext;
           [ unfold NRres; cbn; split; [exact Hpar|split; [exact Hrel'|exact Hit]]
           | exact Hnp
           | apply meet_call_end_hrel2; exact Hh'
           | exact Hrq
           | exact Hlc
           | reflexivity
           | eapply Forall_covered_mono; [apply tracked_le|]; exact HcP
           | apply Forall_app; split;
             [ eapply Forall_covered_mono; [apply tracked_le|]; exact Hc2
             | constructor; [|constructor]; apply tracked_covers; left; reflexivity ] ]).
        * (* no output *)
          cbn [maybe_set_prev_state].
          eexists. split; [reflexivity|]. split; [|intros r E; reflexivity].
          unfold nafter_call, nl_bind, nl_done, nl_value. rewrite Ecode, Epar.
          apply NInv_intro; cbn; try exact Hext.
          -- eapply NRres_frame; [exact R | reflexivity..].
          -- exact Hnp.
          -- apply meet_call_end_hrel2. exact Hh'.
          -- exact Hrq.
          -- exact Hlc.
          -- reflexivity.
          -- exact HcP.
          -- apply Forall_app. split; [exact Hc2|]. constructor; [exact I|constructor].
      + (* the result is not JSON *)
        rewrite track_service_result_eq. cbn [is_joinable].
        match goal with |- context [record_cid ?y ?pp ?cc] => destruct (record_cid_cases y pp cc) as [Erc|Erc]; rewrite Erc end;
        (eexists; split; [eexists; reflexivity|]; split; [|intros r E; discriminate];
         eapply NInv_core; [apply ctx_set_errors_core|];
         unfold nafter_call, nl_bind, nl_done, nl_value; rewrite Ecode, Epar;
         apply NInv_intro; cbn; try exact Hext;
         [ eapply NRres_frame; [exact R | reflexivity..]
         | exact Hnp
         | apply meet_call_end_hrel2; exact Hh'
         | exact Hrq
         | exact Hlc
         | reflexivity
         | eapply Forall_covered_mono; [apply tracked_le|]; exact HcP
         | apply Forall_app; split;
           [ eapply Forall_covered_mono; [apply tracked_le|]; exact Hc2
           | constructor; [|constructor]; apply tracked_covers; right; left; reflexivity ] ]).
  Qed.

  (* the state is there already: it is replayed *)
  Lemma n_exec_call_replay : forall x w text t q s f args out js a P',
      NInv x w -> target_of init (t_peer t) = Some q -> t_service t = SLiteral s -> t_function t = SLiteral f ->
      forallb lin_value args = true -> fresh_out (nw_vars w) out ->
      SeqSem.resolve_args init ts ttl (nenv (nw_vars w)) args = ROk js ->
      (-2147483648 <= sa_ret_code a <= 2147483647)%Z ->
      nw_prev w = SCall (nl_done q s f js out a) :: P' ->
      exists x', ncall_outcome a (exec_call x text t args out) x' /\
                 NInv x' (nafter_call w P' q s f js out a (nw_rs w)) /\
                 (forall r, nl_value a = inl r -> x_complete x' = x_complete x).
  Proof.
    intros x w text t q s f args out js a P' HI Hl Hs Hf Ha Ho Hr Hi32 Hp.
    pose proof HI as (R & Hnp & Hh & Hrq & Hlc & Hrs & Hc1 & Hc2 & Hext). pose proof R as (Hpar & Hsc & Hit).
    rewrite Hp in Hc1. inversion Hc1 as [|? ? Hcov HcP]; subst.
    unfold exec_call. rewrite (n_resolve_triplet _ _ _ _ _ Hpar Hl Hs Hf). cbn [pbind].
    rewrite (n_check_output_name_fresh _ _ _ R Ho). cbn [pbind].
    unfold resolved_call_execute.
    pose proof (n_collect_args_sim x _ args R Ha) as Hca. rewrite Hr in Hca. destruct Hca as (tets & Hca).
    rewrite Hca.
    rewrite Hp in Hh. destruct (meet_call_start_cons2 _ _ _ _ Hh) as (h' & src & Hm & Hh').
    rewrite Hm. cbn [with_handler fst snd].
    unfold ncall_outcome, nafter_call, nl_bind. unfold nl_done in *.
    destruct (nl_value a) as [r | fv] eqn:Eav.
    - destruct out as [v | v |]; [| contradiction |].
      + (* a scalar is set again *)
        unfold handle_prev_state, populate_from_data, nl_cid in *.
        rewrite resolve_service_info_covered by exact Hcov.
        cbn [pbind si_arg_hash si_tetraplet si_value]. rewrite verify_call_same. cbn [pbind].
        unfold set_scalar_value. cbn [x_scalars set_handler]. simpl in Ho.
        destruct (scal_set_fresh _ _ (v_name v) (VAService r (ntet q s f) (len_N (nw_res w)) (CService (CValue r) (CArgs js) (CTetraplet (ntet q s f)))) Hsc Ho) as (m' & Hset & Hrel').
        rewrite Hset.
        match goal with |- context [record_cid ?y ?pp ?cc] => destruct (record_cid_cases y pp cc) as [Erc|Erc]; rewrite Erc end;
        cbn [maybe_set_prev_state];
        (eexists; split; [reflexivity|]; split; [|intros r0 E; reflexivity];
         apply NInv_intro; cbn; try exact Hext;
         [ unfold NRres; cbn; split; [exact Hpar|split; [exact Hrel'|exact Hit]]
         | exact Hnp
         | apply meet_call_end_hrel2; exact Hh'
         | exact Hrq
         | exact Hlc
         | exact Hrs
         | exact HcP
         | apply Forall_app; split; [exact Hc2|]; constructor; [exact Hcov|constructor] ]).
      + (* nothing to set *)
        unfold handle_prev_state, populate_from_data.
        cbn [maybe_set_prev_state].
        eexists. split; [reflexivity|]. split; [|intros r0 E; reflexivity].
        apply NInv_intro; cbn; try exact Hext.
        * eapply NRres_frame; [exact R | reflexivity..].
        * exact Hnp.
        * apply meet_call_end_hrel2. exact Hh'.
        * exact Hrq.
        * exact Hlc.
        * exact Hrs.
        * exact HcP.
        * apply Forall_app. split; [exact Hc2|]. constructor; [exact I|constructor].
    - (* the failure is replayed *)
      assert (Hfv : exists c m, fv = call_service_failed_value c m /\ (-2147483648 <= c <= 2147483647)%Z).
      { unfold nl_value in Eav. destruct (negb (sa_ret_code a =? 0)%Z).
        - inversion Eav. eexists. eexists. split; [reflexivity|exact Hi32].
        - destruct (sa_parsed a); inversion Eav. eexists. eexists. split; [reflexivity|lia]. }
      destruct Hfv as (c & m & -> & Hc).
      unfold handle_prev_state, nl_cid in *.
      rewrite resolve_service_info_covered by exact Hcov.
      cbn [si_arg_hash si_tetraplet si_value]. rewrite verify_call_same.
      unfold call_service_failed_value. cbn [obj_get String.eqb Ascii.eqb Bool.eqb].
      assert (Er : ((-2147483648 <=? c) && (c <=? 2147483647))%Z = true).
      { apply andb_true_intro. split; apply Z.leb_le; lia. }
      rewrite Er.
      match goal with |- context [record_cid ?y ?pp ?cc] => destruct (record_cid_cases y pp cc) as [Erc|Erc]; rewrite Erc end;
      cbn [is_joinable];
      (eexists; split; [eexists; reflexivity|]; split; [|intros r0 E; discriminate];
       eapply NInv_core; [apply ctx_set_errors_core|];
       apply NInv_intro; cbn; try exact Hext;
       [ eapply NRres_frame; [exact R | reflexivity..]
       | exact Hnp
       | apply meet_call_end_hrel2; exact Hh'
       | exact Hrq
       | exact Hlc
       | exact Hrs
       | exact HcP
       | apply Forall_app; split; [exact Hc2|]; constructor; [exact Hcov|constructor] ]).
  Qed.

  (* the frontier: a call that cannot be replayed *)
  Definition nafter_front (w : nview) (e : list (state cid) * bool * list string) (c : call_ev) : nview :=
    {| nw_vars := nw_vars w; nw_prev := []; nw_res := nw_res w ++ fst (fst e);
       nw_reqs := nw_reqs w ++ (if snd (fst e) then [(nw_lcid w + 1, c)] else []);
       nw_next := nw_next w ++ snd e;
       nw_lcid := (if snd (fst e) then nw_lcid w + 1 else nw_lcid w); nw_rs := [] |}.

  Lemma results_take_nil : forall id, results_take [] id = (None, []).
  Proof. reflexivity. Qed.

  Lemma n_exec_call_front : forall x w text t q s f args out js fr,
      NInv x w -> target_of init (t_peer t) = Some q -> t_service t = SLiteral s -> t_function t = SLiteral f ->
      forallb lin_value args = true -> fresh_out (nw_vars w) out ->
      SeqSem.resolve_args init ts ttl (nenv (nw_vars w)) args = ROk js ->
      nw_prev w = opt_front fr -> nw_rs w = [] -> nw_lcid w < 4294967295 ->
      exists x', exec_call x text t args out = XOk x' /\
                 NInv x' (nafter_front w (emit me fr q (nw_lcid w + 1) true)
                                       {| c_peer := q; c_service := s; c_fn := f; c_args := js |}) /\
                 x_complete x' = false.
  Proof.
    intros x w text t q s f args out js fr HI Hl Hs Hf Ha Ho Hr Hp Hrs0 Hlt.
    pose proof HI as (R & Hnp & Hh & Hrq & Hlc & Hrs & Hc1 & Hc2 & Hext). pose proof R as (Hpar & Hsc & Hit).
    unfold exec_call. rewrite (n_resolve_triplet _ _ _ _ _ Hpar Hl Hs Hf). cbn [pbind].
    rewrite (n_check_output_name_fresh _ _ _ R Ho). cbn [pbind].
    unfold resolved_call_execute.
    pose proof (n_collect_args_sim x _ args R Ha) as Hca. rewrite Hr in Hca. destruct Hca as (tets & Hca).
    rewrite Hca.
    assert (E : (4294967295 <=? nw_lcid w) = false) by (apply N.leb_gt; exact Hlt).
    rewrite Hp in Hh. unfold nafter_front, emit.
    destruct fr as [[r | r cid]|]; cbn [opt_front] in Hh.
    - (* RequestSentBy (SPeer r) *)
      unfold pend_state in Hh. destruct (meet_call_start_cons2 _ _ _ _ Hh) as (h' & src & Hm & Hh').
      rewrite Hm. cbn [with_handler fst snd]. unfold handle_prev_state.
      cbn [ntet tp_peer tp_service tp_function]. rewrite n_current_peer by (cbn; exact Hpar).
      destruct (String.eqb q me) eqn:Eq; cbn [andb negb fst snd].
      + apply String.eqb_eq in Eq. subst q.
        rewrite n_current_peer by (cbn; exact Hpar). rewrite String.eqb_refl. cbn [negb].
        cbn [x_lcid set_handler]. rewrite Hlc, E.
        eexists. split; [reflexivity|]. split; [|reflexivity].
        apply NInv_intro; cbn; try exact Hext.
        * eapply NRres_frame; [exact R | reflexivity..].
        * rewrite app_nil_r. exact Hnp.
        * try rewrite n_current_peer by (cbn; exact Hpar). apply meet_call_end_hrel2. exact Hh'.
        * rewrite map_app, Hrq. cbn. reflexivity.
        * reflexivity.
        * rewrite Hrs. exact Hrs0.
        * constructor.
        * apply Forall_app. split; [exact Hc2|]. constructor; [exact I|constructor].
      + cbn [maybe_set_prev_state].
        eexists. split; [reflexivity|]. split; [|reflexivity].
        apply NInv_intro; cbn; try exact Hext.
        * eapply NRres_frame; [exact R | reflexivity..].
        * rewrite app_nil_r. exact Hnp.
        * apply meet_call_end_hrel2. exact Hh'.
        * rewrite app_nil_r. exact Hrq.
        * exact Hlc.
        * rewrite Hrs. exact Hrs0.
        * constructor.
        * apply Forall_app. split; [exact Hc2|]. constructor; [exact I|constructor].
    - (* RequestSentBy (SPeerCall r cid) *)
      unfold pend_state in Hh. destruct (meet_call_start_cons2 _ _ _ _ Hh) as (h' & src & Hm & Hh').
      rewrite Hm. cbn [with_handler fst snd]. unfold handle_prev_state.
      cbn [ntet tp_peer tp_service tp_function]. rewrite n_current_peer by (cbn; exact Hpar).
      destruct (String.eqb r me) eqn:Er.
      + (* the own request: wait for the answer *)
        cbn [x_call_results set_handler]. rewrite Hrs, Hrs0, results_take_nil. cbn [maybe_set_prev_state fst snd].
        eexists. split; [reflexivity|]. split; [|reflexivity].
        apply NInv_intro; cbn; try exact Hext.
        * eapply NRres_frame; [exact R | reflexivity..].
        * rewrite app_nil_r. exact Hnp.
        * apply meet_call_end_hrel2. exact Hh'.
        * rewrite app_nil_r. exact Hrq.
        * exact Hlc.
        * rewrite Hrs. exact Hrs0.
        * constructor.
        * apply Forall_app. split; [exact Hc2|]. constructor; [exact I|constructor].
      + destruct (String.eqb q me) eqn:Eq; cbn [andb negb fst snd].
        * apply String.eqb_eq in Eq. subst q.
          rewrite n_current_peer by (cbn; exact Hpar). rewrite String.eqb_refl. cbn [negb].
          cbn [x_lcid set_handler]. rewrite Hlc, E.
          eexists. split; [reflexivity|]. split; [|reflexivity].
          apply NInv_intro; cbn; try exact Hext.
          -- eapply NRres_frame; [exact R | reflexivity..].
          -- rewrite app_nil_r. exact Hnp.
          -- try rewrite n_current_peer by (cbn; exact Hpar). apply meet_call_end_hrel2. exact Hh'.
          -- rewrite map_app, Hrq. cbn. reflexivity.
          -- reflexivity.
          -- rewrite Hrs. exact Hrs0.
          -- constructor.
          -- apply Forall_app. split; [exact Hc2|]. constructor; [exact I|constructor].
        * cbn [maybe_set_prev_state].
          eexists. split; [reflexivity|]. split; [|reflexivity].
          apply NInv_intro; cbn; try exact Hext.
          -- eapply NRres_frame; [exact R | reflexivity..].
          -- rewrite app_nil_r. exact Hnp.
          -- apply meet_call_end_hrel2. exact Hh'.
          -- rewrite app_nil_r. exact Hrq.
          -- exact Hlc.
          -- rewrite Hrs. exact Hrs0.
          -- constructor.
          -- apply Forall_app. split; [exact Hc2|]. constructor; [exact I|constructor].
    - (* nothing there *)
      rewrite (meet_call_start_nil2 _ _ Hh). cbn [with_handler fst snd].
      cbn [ntet tp_peer tp_service tp_function]. rewrite n_current_peer by (cbn; exact Hpar).
      destruct (String.eqb q me) eqn:Eq; cbn [andb negb fst snd].
      + apply String.eqb_eq in Eq. subst q.
        cbn [x_lcid set_handler]. rewrite Hlc, E.
        eexists. split; [reflexivity|]. split; [|reflexivity].
        apply NInv_intro; cbn; try exact Hext.
        * eapply NRres_frame; [exact R | reflexivity..].
        * rewrite app_nil_r. exact Hnp.
        * try rewrite n_current_peer by (cbn; exact Hpar). apply meet_call_end_hrel2. exact Hh.
        * rewrite map_app, Hrq. cbn. reflexivity.
        * reflexivity.
        * rewrite Hrs. exact Hrs0.
        * constructor.
        * apply Forall_app. split; [exact Hc2|]. constructor; [exact I|constructor].
      + (* forward *)
        eexists. split; [reflexivity|]. split; [|reflexivity].
        apply NInv_intro; cbn; try exact Hext.
        * eapply NRres_frame; [exact R | reflexivity..].
        * rewrite Hnp. reflexivity.
        * try rewrite n_current_peer by (cbn; exact Hpar). apply meet_call_end_hrel2. exact Hh.
        * rewrite app_nil_r. exact Hrq.
        * exact Hlc.
        * rewrite Hrs. exact Hrs0.
        * constructor.
        * apply Forall_app. split; [exact Hc2|]. constructor; [exact I|constructor].
  Qed.

  (* ... whose arguments are not defined *)
  Lemma n_exec_call_stuck : forall x w text t q s f args out fr c,
      NInv x w -> target_of init (t_peer t) = Some q -> t_service t = SLiteral s -> t_function t = SLiteral f ->
      forallb lin_value args = true -> fresh_out (nw_vars w) out ->
      SeqSem.resolve_args init ts ttl (nenv (nw_vars w)) args = RStuck ->
      nw_prev w = opt_front fr -> nw_rs w = [] ->
      exists x', exec_call x text t args out = XOk x' /\
                 NInv x' (nafter_front w (emit me fr q (nw_lcid w + 1) false) c) /\
                 snd (fst (emit me fr q (nw_lcid w + 1) false)) = false /\
                 x_complete x' = false.
  Proof.
    intros x w text t q s f args out fr c HI Hl Hs Hf Ha Ho Hr Hp Hrs0.
    pose proof HI as (R & Hnp & Hh & Hrq & Hlc & Hrs & Hc1 & Hc2 & Hext). pose proof R as (Hpar & Hsc & Hit).
    unfold exec_call. rewrite (n_resolve_triplet _ _ _ _ _ Hpar Hl Hs Hf). cbn [pbind].
    rewrite (n_check_output_name_fresh _ _ _ R Ho). cbn [pbind].
    unfold resolved_call_execute.
    pose proof (n_collect_args_sim x _ args R Ha) as Hca. rewrite Hr in Hca. destruct Hca as (n & Hca).
    rewrite Hca. cbn [is_joinable].
    rewrite Hp in Hh. unfold nafter_front, emit.
    destruct fr as [[r | r cid]|]; cbn [opt_front] in Hh.
    - unfold pend_state in Hh. destruct (meet_call_start_cons2 _ _ _ _ Hh) as (h' & src & Hm & Hh').
      rewrite Hm. cbn [with_handler fst snd]. unfold handle_prev_state.
      cbn [ntet tp_peer tp_service tp_function]. rewrite n_current_peer by (cbn; exact Hpar).
      rewrite andb_false_r. cbn [fst snd].
      destruct (String.eqb q me) eqn:Eq; cbn [negb].
      + rewrite n_current_peer by (cbn; exact Hpar). rewrite Eq. cbn [negb maybe_set_prev_state is_joinable].
        eexists. split; [reflexivity|]. split; [|split; reflexivity].
        apply NInv_intro; cbn; try exact Hext.
        * eapply NRres_frame; [exact R | reflexivity..].
        * rewrite app_nil_r. exact Hnp.
        * apply meet_call_end_hrel2. exact Hh'.
        * rewrite app_nil_r. exact Hrq.
        * exact Hlc.
        * rewrite Hrs. exact Hrs0.
        * constructor.
        * apply Forall_app. split; [exact Hc2|]. constructor; [exact I|constructor].
      + cbn [negb maybe_set_prev_state].
        eexists. split; [reflexivity|]. split; [|split; reflexivity].
        apply NInv_intro; cbn; try exact Hext.
        * eapply NRres_frame; [exact R | reflexivity..].
        * rewrite app_nil_r. exact Hnp.
        * apply meet_call_end_hrel2. exact Hh'.
        * rewrite app_nil_r. exact Hrq.
        * exact Hlc.
        * rewrite Hrs. exact Hrs0.
        * constructor.
        * apply Forall_app. split; [exact Hc2|]. constructor; [exact I|constructor].
    - unfold pend_state in Hh. destruct (meet_call_start_cons2 _ _ _ _ Hh) as (h' & src & Hm & Hh').
      rewrite Hm. cbn [with_handler fst snd]. unfold handle_prev_state.
      cbn [ntet tp_peer tp_service tp_function]. rewrite n_current_peer by (cbn; exact Hpar).
      rewrite andb_false_r.
      destruct (String.eqb r me) eqn:Er; cbn [fst snd].
      + cbn [x_call_results set_handler]. rewrite Hrs, Hrs0, results_take_nil. cbn [negb maybe_set_prev_state].
        eexists. split; [reflexivity|]. split; [|split; reflexivity].
        apply NInv_intro; cbn; try exact Hext.
        * eapply NRres_frame; [exact R | reflexivity..].
        * rewrite app_nil_r. exact Hnp.
        * apply meet_call_end_hrel2. exact Hh'.
        * rewrite app_nil_r. exact Hrq.
        * exact Hlc.
        * rewrite Hrs. exact Hrs0.
        * constructor.
        * apply Forall_app. split; [exact Hc2|]. constructor; [exact I|constructor].
      + destruct (String.eqb q me) eqn:Eq; cbn [negb].
        * rewrite n_current_peer by (cbn; exact Hpar). rewrite Eq. cbn [negb maybe_set_prev_state is_joinable].
          eexists. split; [reflexivity|]. split; [|split; reflexivity].
          apply NInv_intro; cbn; try exact Hext.
          -- eapply NRres_frame; [exact R | reflexivity..].
          -- rewrite app_nil_r. exact Hnp.
          -- apply meet_call_end_hrel2. exact Hh'.
          -- rewrite app_nil_r. exact Hrq.
          -- exact Hlc.
          -- rewrite Hrs. exact Hrs0.
          -- constructor.
          -- apply Forall_app. split; [exact Hc2|]. constructor; [exact I|constructor].
        * cbn [negb maybe_set_prev_state].
          eexists. split; [reflexivity|]. split; [|split; reflexivity].
          apply NInv_intro; cbn; try exact Hext.
          -- eapply NRres_frame; [exact R | reflexivity..].
          -- rewrite app_nil_r. exact Hnp.
          -- apply meet_call_end_hrel2. exact Hh'.
          -- rewrite app_nil_r. exact Hrq.
          -- exact Hlc.
          -- rewrite Hrs. exact Hrs0.
          -- constructor.
          -- apply Forall_app. split; [exact Hc2|]. constructor; [exact I|constructor].
    - rewrite (meet_call_start_nil2 _ _ Hh). cbn [with_handler fst snd].
      cbn [ntet tp_peer tp_service tp_function]. rewrite n_current_peer by (cbn; exact Hpar).
      destruct (String.eqb q me) eqn:Eq; cbn [negb fst snd is_joinable].
      + eexists. split; [reflexivity|]. split; [|split; reflexivity].
        apply NInv_intro; cbn; try exact Hext.
        * eapply NRres_frame; [exact R | reflexivity..].
        * rewrite app_nil_r. exact Hnp.
        * rewrite app_nil_r. exact Hh.
        * rewrite app_nil_r. exact Hrq.
        * exact Hlc.
        * rewrite Hrs. exact Hrs0.
        * constructor.
        * rewrite app_nil_r. exact Hc2.
      + eexists. split; [reflexivity|]. split; [|split; reflexivity].
        apply NInv_intro; cbn; try exact Hext.
        * eapply NRres_frame; [exact R | reflexivity..].
        * rewrite Hnp. reflexivity.
        * try rewrite n_current_peer by (cbn; exact Hpar). apply meet_call_end_hrel2. exact Hh.
        * rewrite app_nil_r. exact Hrq.
        * exact Hlc.
        * rewrite Hrs. exact Hrs0.
        * constructor.
        * apply Forall_app. split; [exact Hc2|]. constructor; [exact I|constructor].
  Qed.

  (* ---------------------------------------------------------------------------------------- *)
  (* Part 3: facts about [nlin]; one run of the executor against it *)

  Notation nlin := (nlin svc init ts ttl me).

  Lemma nl_status_not_atend : forall a, nl_status a <> AtEnd.
  Proof. intros a. unfold nl_status. destruct (negb (sa_ret_code a =? 0)%Z); try discriminate. destruct (sa_parsed a); discriminate. Qed.
  Lemma nl_status_not_stuck : forall a, nl_status a <> Stuck.
  Proof. intros a. unfold nl_status. destruct (negb (sa_ret_code a =? 0)%Z); try discriminate. destruct (sa_parsed a); discriminate. Qed.
  Lemma nl_status_done : forall a, nl_status a = Done -> exists r, nl_value a = inl r.
  Proof.
    intros a. unfold nl_value, nl_status.
    destruct (negb (sa_ret_code a =? 0)%Z); try discriminate. destruct (sa_parsed a); try discriminate. eauto.
  Qed.
  Lemma ncall_outcome_of : forall a r x', ncall_outcome a r x' -> outcome_of (nl_status a) r x'.
  Proof.
    intros a r x'. unfold ncall_outcome, outcome_of, nl_value, nl_status.
    destruct (negb (sa_ret_code a =? 0)%Z); auto. destruct (sa_parsed a); auto.
  Qed.

  Definition nfacts (k : option nat) (l : nout) : Prop :=
    length (o_exec l) = length (o_calls l) /\
    (o_hit l = false -> o_front l = [] /\ o_req l = None /\ o_next l = [] /\ o_wait l = None) /\
    (o_hit l = true -> o_st l = Stuck) /\
    o_st l <> AtEnd /\
    (forall n, k = Some n -> exists n', o_credit l = Some n' /\ (n' <= n)%nat) /\
    (k = None -> o_credit l = None) /\
    Forall (fun st => is_pend st = false) (o_exec l).

  Lemma nfacts_leaf : forall vs st k, st <> AtEnd -> st <> Stuck \/ True -> nfacts k (nleaf vs st k).
  Proof.
    intros vs st k H _. unfold nfacts, nleaf. cbn. repeat split; auto; try discriminate.
    intros n ->. eauto.
  Qed.

  Lemma nl_done_not_pend : forall q s f js out a, is_pend (SCall (nl_done q s f js out a)) = false.
  Proof. intros. unfold nl_done. destruct (nl_value a); [destruct out|]; reflexivity. Qed.

  Lemma nlin_facts : forall f k fr id vs i l, nlin f k fr id vs i = Some l -> nfacts k l.
  Proof.
    induction f as [|f IH]; intros k fr id vs i l H; [discriminate|].
    destruct i; simpl in H; try discriminate.
    - (* call *)
      destruct (target_of init (t_peer t)) as [q|]; try discriminate.
      destruct (t_service t); try discriminate. destruct (t_function t); try discriminate.
      unfold ncall in H. destruct (resolve_args init ts ttl (nenv vs) args); try discriminate.
      + destruct k as [[|n]|]; inversion H; subst; unfold nfacts; cbn; repeat split; auto; try discriminate;
          try (apply nl_status_not_atend); try (intros X; exfalso; exact (nl_status_not_stuck _ X));
          try (intros m E; inversion E; subst; eexists; split; [reflexivity|lia]);
          try (constructor; [apply nl_done_not_pend|constructor]).
      + inversion H; subst; unfold nfacts; cbn; repeat split; auto; try discriminate.
        intros m ->. eexists; split; [reflexivity|lia].
    - (* ap *)
      destruct r; try discriminate. destruct (resolve_ap init ts ttl (nenv vs) a); try discriminate;
        inversion H; subst; apply nfacts_leaf; auto; discriminate.
    - (* seq *)
      destruct (nlin f k fr id vs i1) as [la|] eqn:Ea; try discriminate.
      pose proof (IH _ _ _ _ _ _ Ea) as Fa.
      destruct (o_st la) eqn:Es; try (inversion H; subst; exact Fa).
      unfold nthen in H. destruct (nlin f (o_credit la) fr id (o_vars la) i2) as [lb|] eqn:Eb; try discriminate.
      pose proof (IH _ _ _ _ _ _ Eb) as Fb. inversion H; subst.
      destruct Fa as (A1 & A2 & A3 & A4 & A5 & A6 & A7). destruct Fb as (B1 & B2 & B3 & B4 & B5 & B6 & B7).
      unfold nfacts; cbn. rewrite !app_length, A1, B1.
      split; [reflexivity|]. split; [exact B2|]. split; [exact B3|]. split; [exact B4|]. split; [|split].
      + intros n ->. destruct (A5 n eq_refl) as (n' & E & Hle). destruct (B5 n' E) as (n'' & E' & Hle'). exists n''. split; [exact E'|lia].
      + intros ->. apply B6. apply A6. reflexivity.
      + apply Forall_app. split; assumption.
    - (* xor *)
      destruct (nlin f k fr id vs i1) as [la|] eqn:Ea; try discriminate.
      pose proof (IH _ _ _ _ _ _ Ea) as Fa.
      destruct (o_st la) eqn:Es; try (inversion H; subst; exact Fa).
      unfold nthen in H. destruct (nlin f (o_credit la) fr id (o_vars la) i2) as [lb|] eqn:Eb; try discriminate.
      pose proof (IH _ _ _ _ _ _ Eb) as Fb. inversion H; subst.
      destruct Fa as (A1 & A2 & A3 & A4 & A5 & A6 & A7). destruct Fb as (B1 & B2 & B3 & B4 & B5 & B6 & B7).
      unfold nfacts; cbn. rewrite !app_length, A1, B1.
      split; [reflexivity|]. split; [exact B2|]. split; [exact B3|]. split; [exact B4|]. split; [|split].
      + intros n ->. destruct (A5 n eq_refl) as (n' & E & Hle). destruct (B5 n' E) as (n'' & E' & Hle'). exists n''. split; [exact E'|lia].
      + intros ->. apply B6. apply A6. reflexivity.
      + apply Forall_app. split; assumption.
    - (* match *)
      destruct (resolve_value init ts ttl (nenv vs) l0); try discriminate;
        [|inversion H; subst; apply nfacts_leaf; auto; discriminate].
      destruct (resolve_value init ts ttl (nenv vs) r); try discriminate;
        [|inversion H; subst; apply nfacts_leaf; auto; discriminate].
      destruct (Bool.eqb (json_eqb a a0) true); [eapply IH; eauto | inversion H; subst; apply nfacts_leaf; auto; discriminate].
    - (* mismatch *)
      destruct (resolve_value init ts ttl (nenv vs) l0); try discriminate;
        [|inversion H; subst; apply nfacts_leaf; auto; discriminate].
      destruct (resolve_value init ts ttl (nenv vs) r); try discriminate;
        [|inversion H; subst; apply nfacts_leaf; auto; discriminate].
      destruct (Bool.eqb (json_eqb a a0) false); [eapply IH; eauto | inversion H; subst; apply nfacts_leaf; auto; discriminate].
    - destruct f0; try discriminate. inversion H; subst; apply nfacts_leaf; auto; discriminate.
    - inversion H; subst; apply nfacts_leaf; auto; discriminate.
    - inversion H; subst; apply nfacts_leaf; auto; discriminate.
  Qed.

  (* ---------------------------------------------------------------------------------------- *)
  Variable fr : option sender.                  (* what the joined trace holds at the frontier *)
  Variable hook : (instr -> ctx -> xres) -> instr -> ctx -> option xres.      (* never consulted on straight-line scripts *)
  Hypothesis codes_i32 : ret_codes_i32 svc.

  (* what the joined trace holds for the instruction whose reading is [ln]: the states of its answered calls,
     then the frontier state if the reading stops there, else whatever follows ([Prest]).  [true]: the LAST
     answered call is not there as an executed state but as the own pending request, its answer among the
     call results. *)
  Inductive pre (w : nview) (ln : nout) (Prest : list (state cid)) : bool -> Prop :=
  | pre_plain :
      nw_prev w = o_exec ln ++ (if o_hit ln then opt_front fr else Prest) ->
      (o_hit ln = true -> Prest = [] /\ nw_rs w = []) ->
      pre w ln Prest false
  | pre_ans : forall E0 C0 d c id,
      o_exec ln = E0 ++ [d] -> o_calls ln = C0 ++ [c] -> length E0 = length C0 ->
      nw_prev w = E0 ++ [pend_state (SPeerCall me id)] -> nw_rs w = [(id, svc_of svc c)] ->
      Prest = [] -> fr = None ->
      pre w ln Prest true.

  Definition nafter (w : nview) (ln : nout) (Prest : list (state cid)) (ans : bool) : nview :=
    {| nw_vars := o_vars ln; nw_prev := (if o_hit ln then [] else Prest);
       nw_res := nw_res w ++ o_exec ln ++ o_front ln;
       nw_reqs := nw_reqs w ++ match o_req ln with Some r => [r] | None => [] end;
       nw_next := nw_next w ++ o_next ln;
       nw_lcid := match o_req ln with Some _ => nw_lcid w + 1 | None => nw_lcid w end;
       nw_rs := (if ans then [] else nw_rs w) |}.

  Definition njoin (la lb : nout) : nout :=
    {| o_exec := o_exec la ++ o_exec lb; o_calls := o_calls la ++ o_calls lb; o_front := o_front lb;
       o_req := o_req lb; o_next := o_next lb; o_vars := o_vars lb; o_st := o_st lb;
       o_credit := o_credit lb; o_hit := o_hit lb; o_wait := o_wait lb |}.

  Lemma last_case : forall A (l : list A), l = [] \/ exists l' x, l = l' ++ [x].
  Proof.
    intros A l. destruct l as [|a l]; [left; reflexivity|]. right.
    destruct (exists_last (l := a :: l)) as (l' & x & E); [discriminate|]. eauto.
  Qed.

  Lemma nview_eta : forall w, {| nw_vars := nw_vars w; nw_prev := nw_prev w; nw_res := nw_res w; nw_reqs := nw_reqs w;
                                 nw_next := nw_next w; nw_lcid := nw_lcid w; nw_rs := nw_rs w |} = w.
  Proof. destruct w; reflexivity. Qed.

  (* two instructions in a row *)
  Lemma pre_split : forall w la lb Prest ans,
      o_hit la = false -> o_front la = [] -> o_req la = None -> o_next la = [] ->
      length (o_exec la) = length (o_calls la) -> length (o_exec lb) = length (o_calls lb) ->
      pre w (njoin la lb) Prest ans ->
      exists Pa ansa ansb,
        pre w la Pa ansa /\ pre (nafter w la Pa ansa) lb Prest ansb /\
        nw_lcid (nafter w la Pa ansa) = nw_lcid w /\ nw_vars (nafter w la Pa ansa) = o_vars la /\
        nafter (nafter w la Pa ansa) lb Prest ansb = nafter w (njoin la lb) Prest ans.
  Proof.
    intros w la lb Prest ans Hh Hf Hr Hn La Lb Hp.
    assert (Eaft : forall (Pa : list (state cid)) (ansa ansb : bool), (if ansb then [] else nw_rs (nafter w la Pa ansa)) = (if ans then [] else nw_rs w) ->
               nafter (nafter w la Pa ansa) lb Prest ansb = nafter w (njoin la lb) Prest ans).
    { intros Pa ansa ansb Hrs. unfold nafter at 1. cbn [nw_res nw_reqs nw_next nw_lcid nafter njoin o_exec o_front o_req o_next o_vars o_hit].
      rewrite Hf, Hr, Hn, !app_nil_r, Hrs. unfold nafter. cbn [njoin o_exec o_front o_req o_next o_vars o_hit].
      rewrite <- !app_assoc. reflexivity. }
    inversion Hp as [Hpv Hhit | E0 C0 d c id He Hc Hlen Hpv Hrs HP Hfr]; subst.
    - (* plain *)
      cbn [njoin o_exec o_hit] in *.
      exists (o_exec lb ++ (if o_hit lb then opt_front fr else Prest)), false, false.
      split; [|split; [|split; [|split]]].
      + apply pre_plain; [rewrite Hh, Hpv, app_assoc; reflexivity | rewrite Hh; discriminate].
      + apply pre_plain; unfold nafter; cbn [nw_prev nw_rs]; [rewrite Hh; reflexivity | exact Hhit].
      + unfold nafter. cbn. rewrite Hr. reflexivity.
      + reflexivity.
      + apply Eaft. reflexivity.
    - cbn [njoin o_exec o_calls o_hit] in *.
      destruct (last_case _ (o_exec lb)) as [Eb | (E0b & db & Eb)].
      + (* the answered call is the last one of the first instruction *)
        assert (Cb : o_calls lb = []) by (destruct (o_calls lb); [reflexivity | rewrite Eb in Lb; discriminate]).
        rewrite Eb, app_nil_r in He. rewrite Cb, app_nil_r in Hc.
        exists [], true, false. split; [|split; [|split; [|split]]].
        * eapply pre_ans; eauto.
        * apply pre_plain; unfold nafter; cbn [nw_prev nw_rs].
          -- rewrite Hh, Eb, Hfr. destruct (o_hit lb); reflexivity.
          -- intros _. auto.
        * unfold nafter. cbn. rewrite Hr. reflexivity.
        * reflexivity.
        * apply Eaft. reflexivity.
      + (* it is in the second *)
        rewrite Eb in He. rewrite app_assoc in He. apply app_inj_tail in He. destruct He as [He <-].
        assert (Cb : exists C0b cb, o_calls lb = C0b ++ [cb]).
        { destruct (last_case _ (o_calls lb)) as [X | X]; [|exact X].
          rewrite X, Eb, app_length in Lb. simpl in Lb. lia. }
        destruct Cb as (C0b & cb & Cb). rewrite Cb in Hc. rewrite app_assoc in Hc. apply app_inj_tail in Hc. destruct Hc as [Hc <-].
        exists (E0b ++ [pend_state (SPeerCall me id)]), false, true. split; [|split; [|split; [|split]]].
        * apply pre_plain; [rewrite Hh, Hpv, <- He, <- app_assoc; reflexivity | rewrite Hh; discriminate].
        * eapply pre_ans with (E0 := E0b) (C0 := C0b); eauto.
          -- rewrite Eb, Cb, !app_length in Lb. simpl in Lb. lia.
          -- unfold nafter. cbn [nw_prev]. rewrite Hh. reflexivity.
        * unfold nafter. cbn. rewrite Hr. reflexivity.
        * reflexivity.
        * apply Eaft. reflexivity.
  Qed.

  Lemma nafter_leaf : forall w st k Prest,
      pre w (nleaf (nw_vars w) st k) Prest false -> nafter w (nleaf (nw_vars w) st k) Prest false = w.
  Proof.
    intros w st k Prest Hp. inversion Hp as [Hpv _ | ]; subst. cbn in Hpv.
    unfold nafter, nleaf. cbn. rewrite !app_nil_r, <- Hpv. apply nview_eta.
  Qed.

  Lemma nafter_ap : forall w vs' k Prest,
      pre w (nleaf vs' Done k) Prest false ->
      nafter w (nleaf vs' Done k) Prest false =
      {| nw_vars := vs'; nw_prev := nw_prev w; nw_res := nw_res w; nw_reqs := nw_reqs w; nw_next := nw_next w;
         nw_lcid := nw_lcid w; nw_rs := nw_rs w |}.
  Proof.
    intros w vs' k Prest Hp. inversion Hp as [Hpv _ | ]; subst. cbn in Hpv.
    unfold nafter, nleaf. cbn. rewrite !app_nil_r, <- Hpv. reflexivity.
  Qed.

  Lemma pre_leaf_false : forall w vs st k Prest ans, pre w (nleaf vs st k) Prest ans -> ans = false.
  Proof.
    intros w vs st k Prest ans Hp. inversion Hp; subst; auto.
    match goal with H : o_exec (nleaf _ _ _) = _ |- _ => cbn in H; symmetry in H; apply app_eq_nil in H; destruct H; discriminate end.
  Qed.

  Lemma n_names_ok_mono : forall i B B',
      nlinear init i = true -> names_ok B i = Some B' -> forall n, smem n B = true -> smem n B' = true.
  Proof.
    induction i; intros B B' L H n Hn; simpl in L; try discriminate; simpl in H; try (inversion H; subst; exact Hn).
    - destruct out; try (inversion H; subst; exact Hn).
      destruct (smem (v_name v) B); inversion H; subst. rewrite smem_cons, Hn. apply orb_true_r.
    - destruct r; try discriminate.
      destruct (smem (v_name v) B); inversion H; subst. rewrite smem_cons, Hn. apply orb_true_r.
    - apply andb_prop in L. destruct L as [L1 L2].
      destruct (names_ok B i1) as [B1|] eqn:E1; try discriminate. eauto.
    - apply andb_prop in L. destruct L as [L1 L2].
      destruct (names_ok B i1) as [B1|] eqn:E1; try discriminate. eauto.
    - apply andb_prop in L. destruct L as [_ L2]. eauto.
    - apply andb_prop in L. destruct L as [_ L2]. eauto.
  Qed.

  Definition exec_nlin_stmt (f : nat) : Prop :=
    forall i x w k Prest B B' ln ans,
      nlinear init i = true -> NInv x w -> nw_lcid w < 4294967295 ->
      nlin f (Some k) fr (nw_lcid w + 1) (nw_vars w) i = Some ln ->
      pre w ln Prest ans ->
      bound_in (nw_vars w) B -> names_ok B i = Some B' ->
      exists x', outcome_of (o_st ln) (exec hook f i x) x' /\
                 NInv x' (nafter w ln Prest ans) /\
                 bound_in (o_vars ln) B' /\
                 (o_st ln = Stuck -> x_complete x' = false) /\
                 (o_st ln = Done -> x_complete x = true -> x_complete x' = true).

  Lemma NInv_eq : forall x w w', w = w' -> NInv x w -> NInv x w'.
  Proof. intros x w w' ->. auto. Qed.

  Lemma exec_nlin : forall f, exec_nlin_stmt f.
  Proof.
    induction f as [|f IH]; intros i x w k Prest B B' ln ans L HI Hlt Hl Hp Hb Hn; [discriminate|].
    destruct i; simpl in L; try discriminate.
    - (* call *)
      apply andb_prop in L. destruct L as [L123 Lo]. apply andb_prop in L123. destruct L123 as [L12 La].
      apply andb_prop in L12. destruct L12 as [Lp Lsf].
      destruct (target_of init (t_peer t)) as [q|] eqn:Et; try discriminate.
      destruct (t_service t) as [s| | | |] eqn:Es; try discriminate.
      destruct (t_function t) as [fn| | | |] eqn:Ef; try discriminate.
      pose proof HI as (R & _).
      assert (Ho : fresh_out (nw_vars w) out /\ (forall a, bound_in (nl_bind (nw_vars w) out a) B') /\ bound_in (nw_vars w) B').
      { simpl in Hn. destruct out as [v|v|]; try discriminate.
        - destruct (smem (v_name v) B) eqn:Em; inversion Hn; subst B'.
          assert (Hf : assoc (nw_vars w) (v_name v) = None).
          { destruct (assoc (nw_vars w) (v_name v)) eqn:E; auto.
            assert (X : smem (v_name v) B = true) by (apply Hb; congruence). congruence. }
          split; [exact Hf|]. split; [|apply bound_in_weaken; exact Hb].
          intros a. unfold nl_bind. destruct (nl_value a); [apply bound_in_set_var | apply bound_in_weaken]; exact Hb.
        - inversion Hn; subst B'. split; [exact I|]. split; [|exact Hb].
          intros a. unfold nl_bind. destruct (nl_value a); exact Hb. }
      destruct Ho as (Ho & Hball & HbB').
      simpl in Hl. rewrite Et, Es, Ef in Hl. unfold ncall in Hl.
      simpl exec.
      destruct (SeqSem.resolve_args init ts ttl (nenv (nw_vars w)) args) as [js| | |] eqn:Er; try discriminate.
      + destruct k as [|k'].
        * (* the frontier *)
          inversion Hl; subst ln. clear Hl.
          inversion Hp as [Hpv Hhit | E0 C0 d c id He]; subst;
            [| cbn in He; symmetry in He; apply app_eq_nil in He; destruct He; discriminate].
          cbn [o_exec o_hit app] in Hpv, Hhit. destruct (Hhit eq_refl) as [-> Hrs0].
          destruct (n_exec_call_front x w text t q s fn args out js fr HI Et Es Ef La Ho Er Hpv Hrs0 Hlt) as (x' & He & HI' & Hc).
          exists x'. cbn [outcome_of o_st o_vars]. split; [exact He|]. split.
          -- eapply NInv_eq; [|exact HI']. unfold nafter, nafter_front. cbn [o_vars o_hit o_exec o_front o_req o_next app].
             rewrite Hrs0. destruct (snd (fst (emit me fr q (nw_lcid w + 1) true))); reflexivity.
          -- split; [exact HbB'|]. split; [intros _; exact Hc | discriminate].
        * inversion Hl; subst ln. clear Hl. cbn [o_st o_vars].
          inversion Hp as [Hpv Hhit | E0 C0 d c id He Hc Hlen Hpv Hrs HP Hfr]; subst.
          -- (* the state is there: replay *)
             cbn [o_exec o_hit app] in Hpv.
             destruct (n_exec_call_replay x w text t q s fn args out js (svc q s fn js) Prest HI Et Es Ef La Ho Er (codes_i32 _ _ _ _) Hpv) as (x' & He & HI' & Hc).
             exists x'. split; [apply ncall_outcome_of; exact He|]. split.
             ++ eapply NInv_eq; [|exact HI']. unfold nafter, nafter_call. cbn. rewrite !app_nil_r. reflexivity.
             ++ split; [apply Hball|]. split.
                ** intros X. exfalso. exact (nl_status_not_stuck _ X).
                ** intros X Hx. destruct (nl_status_done _ X) as (r & Hr). rewrite (Hc _ Hr). exact Hx.
          -- (* the own pending request and its answer *)
             cbn [o_exec o_calls] in He, Hc.
             destruct E0 as [|e0 E0]; [|destruct E0; discriminate]. cbn in He. inversion He; subst d.
             destruct C0 as [|c0 C0]; [|destruct C0; discriminate]. cbn in Hc. inversion Hc; subst c.
             cbn [app] in Hpv. unfold svc_of in Hrs. cbn [c_peer c_service c_fn c_args] in Hrs.
             destruct (n_exec_call_answer x w text t q s fn args out js _ id [] HI Et Es Ef La Ho Er Hpv Hrs) as (x' & He' & HI' & Hc').
             exists x'. split; [apply ncall_outcome_of; exact He'|]. split.
             ++ eapply NInv_eq; [|exact HI']. unfold nafter, nafter_call. cbn. rewrite !app_nil_r. reflexivity.
             ++ split; [apply Hball|]. split.
                ** intros X. exfalso. exact (nl_status_not_stuck _ X).
                ** intros X Hx. destruct (nl_status_done _ X) as (r & Hr). rewrite (Hc' _ Hr). exact Hx.
      + (* an argument is not there *)
        inversion Hl; subst ln. clear Hl.
        inversion Hp as [Hpv Hhit | E0 C0 d c id He]; subst;
          [| cbn in He; symmetry in He; apply app_eq_nil in He; destruct He; discriminate].
        cbn [o_exec o_hit app] in Hpv, Hhit. destruct (Hhit eq_refl) as [-> Hrs0].
        destruct (n_exec_call_stuck x w text t q s fn args out fr {| c_peer := q; c_service := s; c_fn := fn; c_args := [] |}
                    HI Et Es Ef La Ho Er Hpv Hrs0) as (x' & He & HI' & Hnr & Hc).
        exists x'. cbn [outcome_of o_st o_vars]. split; [exact He|]. split.
        * eapply NInv_eq; [|exact HI']. unfold nafter, nafter_front. cbn [o_vars o_hit o_exec o_front o_req o_next app].
          rewrite Hnr, Hrs0. reflexivity.
        * split; [exact HbB'|]. split; [intros _; exact Hc | discriminate].
    - (* ap *)
      destruct r as [v|v]; try discriminate.
      pose proof HI as (R & Hnp & Hh & Hrq & Hlc & Hrs & Hc1 & Hc2 & Hext). pose proof R as (Hpar & Hsc & Hit).
      pose proof (n_apply_to_arg_sim x _ a R L) as Sa.
      simpl in Hn. destruct (smem (v_name v) B) eqn:Em; inversion Hn; subst B'.
      assert (Hf : assoc (nw_vars w) (v_name v) = None).
      { destruct (assoc (nw_vars w) (v_name v)) eqn:E; auto.
        assert (X : smem (v_name v) B = true) by (apply Hb; congruence). congruence. }
      simpl in Hl. simpl exec. unfold exec_ap.
      destruct (SeqSem.resolve_ap init ts ttl (nenv (nw_vars w)) a) as [j| | |] eqn:Ea; try contradiction.
      + (* the value is there: the scalar is set *)
        destruct Sa as (val & Sa & Hval). rewrite Sa. unfold set_scalar_value.
        destruct (scal_set_fresh _ _ (v_name v) val Hsc Hf) as (m' & Hset & Hrel'). rewrite Hset. cbn [lift wrap_errors].
        inversion Hl; subst ln. pose proof (pre_leaf_false _ _ _ _ _ _ Hp) as ->. cbn [nleaf o_st outcome_of o_vars].
        eexists. split; [reflexivity|]. split.
        * rewrite (nafter_ap w _ _ Prest Hp).
          apply NInv_intro; cbn; try exact Hext; try assumption.
          unfold NRres; cbn. rewrite Hval in Hrel'. split; [exact Hpar|split; [exact Hrel'|exact Hit]].
        * split; [apply bound_in_set_var; exact Hb|]. split; [discriminate|]. intros _ Hx. exact Hx.
      + (* the value is not there yet *)
        destruct Sa as (n & Sa). rewrite Sa. cbn [is_joinable wrap_errors].
        inversion Hl; subst ln. pose proof (pre_leaf_false _ _ _ _ _ _ Hp) as ->. cbn [nleaf o_st outcome_of o_vars].
        exists (make_incomplete x). split; [reflexivity|]. split.
        * rewrite (nafter_leaf w Stuck _ Prest Hp).
          eapply NInv_core; [|exact HI]. repeat split.
        * split; [apply bound_in_weaken; exact Hb|]. split; [reflexivity | discriminate].
    - (* seq *)
      apply andb_prop in L. destruct L as [La Lb].
      simpl in Hn. destruct (names_ok B i1) as [B1|] eqn:En1; try discriminate.
      simpl in Hl. destruct (nlin f (Some k) fr (nw_lcid w + 1) (nw_vars w) i1) as [la|] eqn:Ena; try discriminate.
      pose proof (nlin_facts _ _ _ _ _ _ _ Ena) as (FA1 & FA2 & FA3 & FA4 & FA5 & FA6 & FA7).
      assert (HI0 : NInv (flush_complete x) w) by (eapply NInv_core; [|exact HI]; repeat split).
      simpl exec.
      destruct (o_st la) eqn:Est; try congruence.
      + (* the first part is complete: the second runs *)
        unfold nthen in Hl. destruct (FA5 k eq_refl) as (k1 & Ek1 & _). rewrite Ek1 in Hl.
        destruct (nlin f (Some k1) fr (nw_lcid w + 1) (o_vars la) i2) as [lb|] eqn:Enb; try discriminate.
        inversion Hl; subst ln. clear Hl.
        assert (Hnh : o_hit la = false) by (destruct (o_hit la); auto; specialize (FA3 eq_refl); discriminate).
        destruct (FA2 Hnh) as (F1 & F2 & F3 & F4).
        pose proof (nlin_facts _ _ _ _ _ _ _ Enb) as (FB1 & _).
        assert (Hp' : pre w (njoin la lb) Prest ans) by exact Hp.
        destruct (pre_split w la lb Prest ans Hnh F1 F2 F3 FA1 FB1 Hp') as (Pa & ansa & ansb & Hpa & Hpb & Hlc & Hvars & Haft).
        destruct (IH i1 (flush_complete x) w k Pa B B1 la ansa La HI0 Hlt Ena Hpa Hb En1) as (x1 & Ho1 & HI1 & Hb1 & C1 & C2).
        rewrite Est in Ho1, C2. unfold outcome_of in Ho1. rewrite Ho1. rewrite (C2 eq_refl eq_refl).
        assert (Hlt' : nw_lcid (nafter w la Pa ansa) < 4294967295) by (rewrite Hlc; exact Hlt).
        assert (Enb' : nlin f (Some k1) fr (nw_lcid (nafter w la Pa ansa) + 1) (nw_vars (nafter w la Pa ansa)) i2 = Some lb)
          by (rewrite Hlc, Hvars; exact Enb).
        destruct (IH i2 x1 _ k1 Prest B1 B' lb ansb Lb HI1 Hlt' Enb' Hpb Hb1 Hn) as (x2 & Ho2 & HI2 & Hb2 & D1 & D2).
        rewrite Haft in HI2. cbn [o_st o_vars]. unfold outcome_of in *.
        destruct (o_st lb) eqn:Estb.
        * rewrite Ho2. exists x2. split; [reflexivity|]. split; [exact HI2|]. split; [exact Hb2|]. split; [discriminate|].
          intros _ _. apply D2; [reflexivity | apply C2; reflexivity].
        * rewrite Ho2. exists x2. split; [reflexivity|]. split; [exact HI2|]. split; [exact Hb2|]. split; discriminate.
        * rewrite Ho2. exists x2. split; [reflexivity|]. split; [exact HI2|]. split; [exact Hb2|]. split; [intros _; apply D1; reflexivity | discriminate].
        * destruct Ho2 as (c & Ho2). rewrite Ho2. cbn [wrap_errors].
          eexists. split; [eexists; reflexivity|]. split.
          -- eapply NInv_core; [apply ctx_set_errors_core|exact HI2].
          -- split; [exact Hb2|]. split; discriminate.
      + (* the first part is stuck *)
        inversion Hl; subst ln. clear Hl.
        destruct (IH i1 (flush_complete x) w k Prest B B1 la ans La HI0 Hlt Ena Hp Hb En1) as (x1 & Ho1 & HI1 & Hb1 & C1 & C2).
        rewrite Est in *. unfold outcome_of in Ho1. rewrite Ho1. rewrite (C1 eq_refl). cbn [wrap_errors].
        exists x1. split; [reflexivity|]. split; [exact HI1|].
        split; [intros m Hm; eapply n_names_ok_mono; eauto|]. split; [intros _; apply C1; reflexivity | discriminate].
      + (* the first part failed *)
        inversion Hl; subst ln. clear Hl.
        destruct (IH i1 (flush_complete x) w k Prest B B1 la ans La HI0 Hlt Ena Hp Hb En1) as (x1 & Ho1 & HI1 & Hb1 & C1 & C2).
        rewrite Est in *. unfold outcome_of in Ho1. destruct Ho1 as (c & Ho1). rewrite Ho1. cbn [wrap_errors].
        eexists. split; [eexists; reflexivity|]. split.
        * eapply NInv_core; [apply ctx_set_errors_core|]. exact HI1.
        * split; [intros m Hm; eapply n_names_ok_mono; eauto|]. split; discriminate.
    - (* xor *)
      apply andb_prop in L. destruct L as [La Lb].
      simpl in Hn. destruct (names_ok B i1) as [B1|] eqn:En1; try discriminate.
      simpl in Hl. destruct (nlin f (Some k) fr (nw_lcid w + 1) (nw_vars w) i1) as [la|] eqn:Ena; try discriminate.
      pose proof (nlin_facts _ _ _ _ _ _ _ Ena) as (FA1 & FA2 & FA3 & FA4 & FA5 & FA6 & FA7).
      assert (HI0 : NInv (flush_complete x) w) by (eapply NInv_core; [|exact HI]; repeat split).
      simpl exec.
      destruct (o_st la) eqn:Est; try congruence.
      + (* the left branch is complete *)
        inversion Hl; subst ln. clear Hl.
        destruct (IH i1 (flush_complete x) w k Prest B B1 la ans La HI0 Hlt Ena Hp Hb En1) as (x1 & Ho1 & HI1 & Hb1 & C1 & C2).
        rewrite Est in *. unfold outcome_of in Ho1. rewrite Ho1. cbn [wrap_errors].
        exists x1. split; [reflexivity|]. split; [exact HI1|].
        split; [intros m Hm; eapply n_names_ok_mono; eauto|]. split; [discriminate | intros _ _; apply C2; reflexivity].
      + (* the left branch waits *)
        inversion Hl; subst ln. clear Hl.
        destruct (IH i1 (flush_complete x) w k Prest B B1 la ans La HI0 Hlt Ena Hp Hb En1) as (x1 & Ho1 & HI1 & Hb1 & C1 & C2).
        rewrite Est in *. unfold outcome_of in Ho1. rewrite Ho1. cbn [wrap_errors].
        exists x1. split; [reflexivity|]. split; [exact HI1|].
        split; [intros m Hm; eapply n_names_ok_mono; eauto|]. split; [intros _; apply C1; reflexivity | discriminate].
      + (* the left branch failed: the right one runs *)
        unfold nthen in Hl. destruct (FA5 k eq_refl) as (k1 & Ek1 & _). rewrite Ek1 in Hl.
        destruct (nlin f (Some k1) fr (nw_lcid w + 1) (o_vars la) i2) as [lb|] eqn:Enb; try discriminate.
        inversion Hl; subst ln. clear Hl.
        assert (Hnh : o_hit la = false) by (destruct (o_hit la); auto; specialize (FA3 eq_refl); discriminate).
        destruct (FA2 Hnh) as (F1 & F2 & F3 & F4).
        pose proof (nlin_facts _ _ _ _ _ _ _ Enb) as (FB1 & _).
        assert (Hp' : pre w (njoin la lb) Prest ans) by exact Hp.
        destruct (pre_split w la lb Prest ans Hnh F1 F2 F3 FA1 FB1 Hp') as (Pa & ansa & ansb & Hpa & Hpb & Hlc & Hvars & Haft).
        destruct (IH i1 (flush_complete x) w k Pa B B1 la ansa La HI0 Hlt Ena Hpa Hb En1) as (x1 & Ho1 & HI1 & Hb1 & C1 & C2).
        rewrite Est in Ho1. unfold outcome_of in Ho1. destruct Ho1 as (c & Ho1). rewrite Ho1. cbn [is_catchable].
        assert (Hlt' : nw_lcid (nafter w la Pa ansa) < 4294967295) by (rewrite Hlc; exact Hlt).
        assert (Enb' : nlin f (Some k1) fr (nw_lcid (nafter w la Pa ansa) + 1) (nw_vars (nafter w la Pa ansa)) i2 = Some lb)
          by (rewrite Hlc, Hvars; exact Enb).
        match goal with |- context [exec hook f i2 ?y] => set (x4 := y) end.
        assert (HI4 : NInv x4 (nafter w la Pa ansa)) by (eapply NInv_core; [|exact HI1]; repeat split).
        assert (Hc4 : x_complete x4 = true) by reflexivity.
        destruct (IH i2 x4 _ k1 Prest B1 B' lb ansb Lb HI4 Hlt' Enb' Hpb Hb1 Hn) as (x2 & Ho2 & HI2 & Hb2 & D1 & D2).
        rewrite Haft in HI2. cbn [o_st o_vars]. unfold outcome_of in *.
        assert (Hclear : forall y, same_core y (if x_error_can_set y then set_error y no_error true else y) /\
                                  x_complete (if x_error_can_set y then set_error y no_error true else y) = x_complete y).
        { intros y. destruct (x_error_can_set y); split; repeat split. }
        destruct (o_st lb) eqn:Estb.
        * rewrite Ho2. cbn [wrap_errors]. eexists. split; [reflexivity|]. split.
          -- eapply NInv_core; [|eapply NInv_core; [apply (proj1 (Hclear x2))|exact HI2]]. repeat split.
          -- split; [exact Hb2|]. split; [discriminate|]. intros _ _. cbn. rewrite (proj2 (Hclear x2)). apply D2; auto.
        * rewrite Ho2. cbn [wrap_errors]. eexists. split; [reflexivity|]. split.
          -- eapply NInv_core; [|eapply NInv_core; [apply (proj1 (Hclear x2))|exact HI2]]. repeat split.
          -- split; [exact Hb2|]. split; discriminate.
        * rewrite Ho2. cbn [wrap_errors]. eexists. split; [reflexivity|]. split.
          -- eapply NInv_core; [|eapply NInv_core; [apply (proj1 (Hclear x2))|exact HI2]]. repeat split.
          -- split; [exact Hb2|]. split; [|discriminate]. intros _. cbn. rewrite (proj2 (Hclear x2)). apply D1; reflexivity.
        * destruct Ho2 as (c2 & Ho2). rewrite Ho2. cbn [wrap_errors].
          eexists. split; [eexists; reflexivity|]. split.
          -- eapply NInv_core; [apply ctx_set_errors_core|]. eapply NInv_core; [apply (proj1 (Hclear x2))|exact HI2].
          -- split; [exact Hb2|]. split; discriminate.
    - (* IMatch *)
      apply andb_prop in L. destruct L as [L12 Lb]. apply andb_prop in L12. destruct L12 as [Ll Lr].
      pose proof HI as (R & _).
      pose proof (n_resolve_value_sim x _ l R Ll) as Sl. pose proof (n_resolve_value_sim x _ r R Lr) as Sr.
      simpl in Hn. simpl in Hl. simpl exec.
      destruct (SeqSem.resolve_value init ts ttl (nenv (nw_vars w)) l) as [lv| | |] eqn:El; try contradiction.
      2: { (* the left operand is not there yet *)
        destruct Sl as (n & Sl). rewrite Sl. cbn [pbind is_joinable wrap_errors].
        inversion Hl; subst ln. pose proof (pre_leaf_false _ _ _ _ _ _ Hp) as ->. cbn [nleaf o_st outcome_of o_vars].
        exists (make_incomplete x). split; [reflexivity|]. split.
        - rewrite (nafter_leaf w Stuck _ Prest Hp).
          eapply NInv_core; [|exact HI]. repeat split.
        - split; [intros m Hm; eapply n_names_ok_mono; eauto|]. split; [reflexivity | discriminate]. }
      destruct Sl as (tl & pl & Sl). rewrite Sl. cbn [pbind].
      destruct (SeqSem.resolve_value init ts ttl (nenv (nw_vars w)) r) as [rv| | |] eqn:Er; try contradiction.
      2: { destruct Sr as (n & Sr). rewrite Sr. cbn [pbind is_joinable wrap_errors].
        inversion Hl; subst ln. pose proof (pre_leaf_false _ _ _ _ _ _ Hp) as ->. cbn [nleaf o_st outcome_of o_vars].
        exists (make_incomplete x). split; [reflexivity|]. split.
        - rewrite (nafter_leaf w Stuck _ Prest Hp).
          eapply NInv_core; [|exact HI]. repeat split.
        - split; [intros m Hm; eapply n_names_ok_mono; eauto|]. split; [reflexivity | discriminate]. }
      destruct Sr as (tr & pr & Sr). rewrite Sr. cbn [pbind fst]. unfold json_values_equal.
      destruct (Bool.eqb (json_eqb lv rv) true) eqn:Eq.
      + (* the body runs *)
        destruct (IH i x w k Prest B B' ln ans Lb HI Hlt Hl Hp Hb Hn) as (x' & Ho & HI' & Hb' & C1 & C2).
        unfold outcome_of in *. destruct (o_st ln) eqn:Est.
        * rewrite Ho. exists x'. split; [reflexivity|]. split; [exact HI'|]. split; [exact Hb'|]. split; assumption.
        * rewrite Ho. exists x'. split; [reflexivity|]. split; [exact HI'|]. split; [exact Hb'|]. split; assumption.
        * rewrite Ho. exists x'. split; [reflexivity|]. split; [exact HI'|]. split; [exact Hb'|]. split; assumption.
        * destruct Ho as (c & Ho). rewrite Ho. cbn [wrap_errors].
          eexists. split; [eexists; reflexivity|]. split.
          -- eapply NInv_core; [apply ctx_set_errors_core|exact HI'].
          -- split; [exact Hb'|]. split; discriminate.
      + (* the values differ: a failure *)
        inversion Hl; subst ln. pose proof (pre_leaf_false _ _ _ _ _ _ Hp) as ->. cbn [nleaf o_st outcome_of o_vars wrap_errors].
        eexists. split; [eexists; reflexivity|]. split.
        * rewrite (nafter_leaf w _ _ Prest Hp).
          eapply NInv_core; [apply ctx_set_errors_core|exact HI].
        * split; [intros m Hm; eapply n_names_ok_mono; eauto|]. split; discriminate.
    - (* IMisMatch *)
      apply andb_prop in L. destruct L as [L12 Lb]. apply andb_prop in L12. destruct L12 as [Ll Lr].
      pose proof HI as (R & _).
      pose proof (n_resolve_value_sim x _ l R Ll) as Sl. pose proof (n_resolve_value_sim x _ r R Lr) as Sr.
      simpl in Hn. simpl in Hl. simpl exec.
      destruct (SeqSem.resolve_value init ts ttl (nenv (nw_vars w)) l) as [lv| | |] eqn:El; try contradiction.
      2: { destruct Sl as (n & Sl). rewrite Sl. cbn [pbind is_joinable wrap_errors].
        inversion Hl; subst ln. pose proof (pre_leaf_false _ _ _ _ _ _ Hp) as ->. cbn [nleaf o_st outcome_of o_vars].
        exists (make_incomplete x). split; [reflexivity|]. split.
        - rewrite (nafter_leaf w Stuck _ Prest Hp).
          eapply NInv_core; [|exact HI]. repeat split.
        - split; [intros m Hm; eapply n_names_ok_mono; eauto|]. split; [reflexivity | discriminate]. }
      destruct Sl as (tl & pl & Sl). rewrite Sl. cbn [pbind].
      destruct (SeqSem.resolve_value init ts ttl (nenv (nw_vars w)) r) as [rv| | |] eqn:Er; try contradiction.
      2: { destruct Sr as (n & Sr). rewrite Sr. cbn [pbind is_joinable wrap_errors].
        inversion Hl; subst ln. pose proof (pre_leaf_false _ _ _ _ _ _ Hp) as ->. cbn [nleaf o_st outcome_of o_vars].
        exists (make_incomplete x). split; [reflexivity|]. split.
        - rewrite (nafter_leaf w Stuck _ Prest Hp).
          eapply NInv_core; [|exact HI]. repeat split.
        - split; [intros m Hm; eapply n_names_ok_mono; eauto|]. split; [reflexivity | discriminate]. }
      destruct Sr as (tr & pr & Sr). rewrite Sr. cbn [pbind fst]. unfold json_values_equal.
      destruct (Bool.eqb (json_eqb lv rv) false) eqn:Eq.
      + destruct (IH i x w k Prest B B' ln ans Lb HI Hlt Hl Hp Hb Hn) as (x' & Ho & HI' & Hb' & C1 & C2).
        unfold outcome_of in *. destruct (o_st ln) eqn:Est.
        * rewrite Ho. exists x'. split; [reflexivity|]. split; [exact HI'|]. split; [exact Hb'|]. split; assumption.
        * rewrite Ho. exists x'. split; [reflexivity|]. split; [exact HI'|]. split; [exact Hb'|]. split; assumption.
        * rewrite Ho. exists x'. split; [reflexivity|]. split; [exact HI'|]. split; [exact Hb'|]. split; assumption.
        * destruct Ho as (c & Ho). rewrite Ho. cbn [wrap_errors].
          eexists. split; [eexists; reflexivity|]. split.
          -- eapply NInv_core; [apply ctx_set_errors_core|exact HI'].
          -- split; [exact Hb'|]. split; discriminate.
      + inversion Hl; subst ln. pose proof (pre_leaf_false _ _ _ _ _ _ Hp) as ->. cbn [nleaf o_st outcome_of o_vars wrap_errors].
        eexists. split; [eexists; reflexivity|]. split.
        * rewrite (nafter_leaf w _ _ Prest Hp).
          eapply NInv_core; [apply ctx_set_errors_core|exact HI].
        * split; [intros m Hm; eapply n_names_ok_mono; eauto|]. split; discriminate.
    - (* fail *)
      destruct f0; try discriminate.
      simpl in Hl. inversion Hl; subst ln. simpl in Hn. inversion Hn; subst B'.
      pose proof (pre_leaf_false _ _ _ _ _ _ Hp) as ->.
      cbn [nleaf o_st outcome_of o_vars]. simpl exec. unfold exec_fail, fail_with_error_object, wrap_errors.
      eexists. split; [eexists; reflexivity|]. split.
      + rewrite (nafter_leaf w _ _ Prest Hp).
        eapply NInv_core; [apply ctx_set_errors_core|]. eapply NInv_core; [|exact HI]. repeat split.
      + split; [exact Hb|]. split; discriminate.
    - (* never *)
      simpl in Hl. inversion Hl; subst ln. simpl in Hn. inversion Hn; subst B'.
      pose proof (pre_leaf_false _ _ _ _ _ _ Hp) as ->.
      exists (make_incomplete x). cbn [nleaf o_st outcome_of o_vars].
      split; [reflexivity|]. split.
      + rewrite (nafter_leaf w Stuck _ Prest Hp).
        eapply NInv_core; [|exact HI]. repeat split.
      + split; [exact Hb|]. split; [reflexivity | discriminate].
    - (* null *)
      simpl in Hl. inversion Hl; subst ln. simpl in Hn. inversion Hn; subst B'.
      pose proof (pre_leaf_false _ _ _ _ _ _ Hp) as ->.
      exists x. cbn [nleaf o_st outcome_of o_vars].
      split; [reflexivity|]. split.
      + rewrite (nafter_leaf w Done _ Prest Hp). exact HI.
      + split; [exact Hb|]. split; [discriminate | auto].
  Qed.
End Step.

(* ------------------------------------------------------------------------------------------ *)
(* Part 4: the reading with a credit against the full reading *)
Section Cut.
  Variable svc : string -> string -> string -> list json -> service_answer.
  Variable init : string.
  Variable ts ttl : N.
  Notation nlin := (nlin svc init ts ttl).

  (* [ln]: the reading at [me] with credit k, frontier [fr], request id [id]; [F]: the full reading *)
  Definition cutrel (me : string) (fr : option sender) (id : N) (k : nat) (F ln : nout) : Prop :=
    let m := length (o_exec F) in
    ((m <= k)%nat ->
       o_exec ln = o_exec F /\ o_calls ln = o_calls F /\ o_vars ln = o_vars F /\ o_st ln = o_st F /\
       o_credit ln = Some (k - m)%nat /\ o_hit ln = o_hit F /\ o_wait ln = o_wait F /\
       (o_front ln, o_req ln, o_next ln) =
       match o_wait F with
       | Some q => let e := emit me fr q id false in (fst (fst e), None, snd e)
       | None => ([], None, [])
       end) /\
    ((k < m)%nat ->
       exists c, nth_error (o_calls F) k = Some c /\
         o_exec ln = firstn k (o_exec F) /\ o_calls ln = firstn k (o_calls F) /\
         o_hit ln = true /\ o_st ln = Stuck /\ o_wait ln = None /\
         let e := emit me fr (c_peer c) id true in
         o_front ln = fst (fst e) /\ o_req ln = (if snd (fst e) then Some (id, c) else None) /\ o_next ln = snd e).

  Lemma cutrel_leaf : forall me fr id k vs st, cutrel me fr id k (nleaf vs st None) (nleaf vs st (Some k)).
  Proof.
    intros. unfold cutrel, nleaf. cbn. split.
    - intros _. rewrite Nat.sub_0_r. repeat split.
    - intros H. lia.
  Qed.

  Lemma cut_short : forall me fr id k Fa Fb la,
      length (o_exec Fa) = length (o_calls Fa) ->
      cutrel me fr id k Fa la -> (k < length (o_exec Fa))%nat -> cutrel me fr id k (njoin Fa Fb) la.
  Proof.
    intros me fr id k Fa Fb la La (_ & H) Hk. destruct (H Hk) as (c & N1 & N2 & N3 & N4 & N5 & N6 & N7).
    unfold cutrel. cbn [njoin o_exec o_calls]. rewrite app_length. split; [intros; lia|]. intros _.
    exists c. split; [rewrite nth_error_app1 by lia; exact N1|].
    rewrite !firstn_app. replace (k - length (o_exec Fa))%nat with O by lia.
    replace (k - length (o_calls Fa))%nat with O by lia. cbn [firstn]. rewrite !app_nil_r. cbv zeta in *. destruct N7 as (N7 & N8 & N9). repeat split; assumption.
  Qed.

  Lemma cut_go : forall me fr id k Fa Fb la lb,
      length (o_exec Fa) = length (o_calls Fa) -> o_wait Fa = None ->
      cutrel me fr id k Fa la -> (length (o_exec Fa) <= k)%nat ->
      cutrel me fr id (k - length (o_exec Fa)) Fb lb ->
      cutrel me fr id k (njoin Fa Fb) (njoin la lb).
  Proof.
    intros me fr id k Fa Fb la lb La Wa (HA & _) Hk (HB1 & HB2).
    destruct (HA Hk) as (A1 & A2 & A3 & A4 & A5 & A6 & A7 & A8).
    unfold cutrel. cbn [njoin o_exec o_calls o_vars o_st o_credit o_hit o_wait o_front o_req o_next]. rewrite app_length. split.
    - intros Hm. destruct (HB1 ltac:(lia)) as (B1 & B2 & B3 & B4 & B5 & B6 & B7 & B8).
      rewrite A1, A2, B1, B2, B3, B4, B5, B6, B7, B8. repeat split. f_equal. lia.
    - intros Hm. destruct (HB2 ltac:(lia)) as (c & N1 & N2 & N3 & N4 & N5 & N6 & N7).
      exists c. split; [rewrite nth_error_app2 by lia; rewrite <- La; exact N1|].
      rewrite !firstn_app, A1, A2, N2, N3, <- La. rewrite (firstn_all2 (o_exec Fa)) by lia. rewrite (firstn_all2 (o_calls Fa)) by lia. cbv zeta in *. destruct N7 as (N7 & N8 & N9). repeat split; assumption.
  Qed.

  Lemma nlin_cut : forall f me0 fr0 id0 me fr id vs i F,
      nlin me0 f None fr0 id0 vs i = Some F ->
      forall k, exists ln, nlin me f (Some k) fr id vs i = Some ln /\ cutrel me fr id k F ln.
  Proof.
    induction f as [|f IH]; intros me0 fr0 id0 me fr id vs i F H k; [discriminate|].
    destruct i; simpl in H |- *; try discriminate.
    - (* call *)
      destruct (target_of init (t_peer t)) as [q|]; try discriminate.
      destruct (t_service t); try discriminate. destruct (t_function t); try discriminate.
      unfold ncall in *. destruct (resolve_args init ts ttl (nenv vs) args); try discriminate.
      + inversion H; subst F. clear H. destruct k as [|k'].
        * eexists. split; [reflexivity|]. unfold cutrel. cbn. split; [intros; lia|]. intros _.
          eexists. split; [reflexivity|]. repeat split.
        * eexists. split; [reflexivity|]. unfold cutrel. cbn. split; [|intros; lia]. intros _.
          rewrite Nat.sub_0_r. repeat split.
      + inversion H; subst F. clear H. eexists. split; [reflexivity|]. unfold cutrel. cbn. split; [|intros; lia]. intros _.
        rewrite Nat.sub_0_r. repeat split.
    - (* ap *)
      destruct r; try discriminate. destruct (resolve_ap init ts ttl (nenv vs) a); try discriminate;
        inversion H; subst F; eexists; (split; [reflexivity|]); apply cutrel_leaf.
    - (* seq *)
      destruct (nlin me0 f None fr0 id0 vs i1) as [Fa|] eqn:Ea; try discriminate.
      pose proof (nlin_facts _ _ _ _ _ _ _ _ _ _ _ _ Ea) as (FA1 & FA2 & FA3 & FA4 & FA5 & FA6 & FA7).
      destruct (IH _ _ _ me fr id _ _ _ Ea k) as (la & Ela & Ra). rewrite Ela.
      destruct (Nat.le_gt_cases (length (o_exec Fa)) k) as [Hk|Hk].
      + destruct (proj1 Ra Hk) as (A1 & A2 & A3 & A4 & A5 & A6 & A7 & A8). rewrite A4, A5, A3.
        destruct (o_st Fa) eqn:Es; try (inversion H; subst F; exists la; split; [reflexivity|exact Ra]).
        rewrite (FA6 eq_refl) in H. unfold nthen in H |- *.
        destruct (nlin me0 f None fr0 id0 (o_vars Fa) i2) as [Fb|] eqn:Eb; try discriminate.
        inversion H; subst F. clear H.
        destruct (IH _ _ _ me fr id _ _ _ Eb (k - length (o_exec Fa))%nat) as (lb & Elb & Rb). rewrite Elb.
        eexists. split; [reflexivity|].
        assert (Wa : o_wait Fa = None).
        { destruct (o_hit Fa) eqn:E; [specialize (FA3 eq_refl); discriminate | apply (FA2 eq_refl)]. }
        exact (cut_go me fr id k Fa Fb la lb FA1 Wa Ra Hk Rb).
      + destruct (proj2 Ra Hk) as (c & N1 & N2 & N3 & N4 & N5 & N6 & N7). rewrite N5.
        exists la. split; [reflexivity|].
        destruct (o_st Fa) eqn:Es; try (inversion H; subst F; exact Ra).
        unfold nthen in H. destruct (nlin me0 f (o_credit Fa) fr0 id0 (o_vars Fa) i2) as [Fb|] eqn:Eb; try discriminate.
        inversion H; subst F. exact (cut_short me fr id k Fa Fb la FA1 Ra Hk).
    - (* xor *)
      destruct (nlin me0 f None fr0 id0 vs i1) as [Fa|] eqn:Ea; try discriminate.
      pose proof (nlin_facts _ _ _ _ _ _ _ _ _ _ _ _ Ea) as (FA1 & FA2 & FA3 & FA4 & FA5 & FA6 & FA7).
      destruct (IH _ _ _ me fr id _ _ _ Ea k) as (la & Ela & Ra). rewrite Ela.
      destruct (Nat.le_gt_cases (length (o_exec Fa)) k) as [Hk|Hk].
      + destruct (proj1 Ra Hk) as (A1 & A2 & A3 & A4 & A5 & A6 & A7 & A8). rewrite A4, A5, A3.
        destruct (o_st Fa) eqn:Es; try (inversion H; subst F; exists la; split; [reflexivity|exact Ra]).
        rewrite (FA6 eq_refl) in H. unfold nthen in H |- *.
        destruct (nlin me0 f None fr0 id0 (o_vars Fa) i2) as [Fb|] eqn:Eb; try discriminate.
        inversion H; subst F. clear H.
        destruct (IH _ _ _ me fr id _ _ _ Eb (k - length (o_exec Fa))%nat) as (lb & Elb & Rb). rewrite Elb.
        eexists. split; [reflexivity|].
        assert (Wa : o_wait Fa = None).
        { destruct (o_hit Fa) eqn:E; [specialize (FA3 eq_refl); discriminate | apply (FA2 eq_refl)]. }
        exact (cut_go me fr id k Fa Fb la lb FA1 Wa Ra Hk Rb).
      + destruct (proj2 Ra Hk) as (c & N1 & N2 & N3 & N4 & N5 & N6 & N7). rewrite N5.
        exists la. split; [reflexivity|].
        destruct (o_st Fa) eqn:Es; try (inversion H; subst F; exact Ra).
        unfold nthen in H. destruct (nlin me0 f (o_credit Fa) fr0 id0 (o_vars Fa) i2) as [Fb|] eqn:Eb; try discriminate.
        inversion H; subst F. exact (cut_short me fr id k Fa Fb la FA1 Ra Hk).
    - (* match *)
      destruct (resolve_value init ts ttl (nenv vs) l); try discriminate;
        [|inversion H; subst F; eexists; (split; [reflexivity|]); apply cutrel_leaf].
      destruct (resolve_value init ts ttl (nenv vs) r); try discriminate;
        [|inversion H; subst F; eexists; (split; [reflexivity|]); apply cutrel_leaf].
      destruct (Bool.eqb (json_eqb a a0) true); [eapply IH; eauto | inversion H; subst F; eexists; (split; [reflexivity|]); apply cutrel_leaf].
    - (* mismatch *)
      destruct (resolve_value init ts ttl (nenv vs) l); try discriminate;
        [|inversion H; subst F; eexists; (split; [reflexivity|]); apply cutrel_leaf].
      destruct (resolve_value init ts ttl (nenv vs) r); try discriminate;
        [|inversion H; subst F; eexists; (split; [reflexivity|]); apply cutrel_leaf].
      destruct (Bool.eqb (json_eqb a a0) false); [eapply IH; eauto | inversion H; subst F; eexists; (split; [reflexivity|]); apply cutrel_leaf].
    - destruct f0; try discriminate. inversion H; subst F; eexists; (split; [reflexivity|]); apply cutrel_leaf.
    - inversion H; subst F; eexists; (split; [reflexivity|]); apply cutrel_leaf.
    - inversion H; subst F; eexists; (split; [reflexivity|]); apply cutrel_leaf.
  Qed.
End Cut.

(* ------------------------------------------------------------------------------------------ *)
(* Part 5: the join of two approximations; the run-level step lemma *)

Definition dshape (st : state cid) : Prop := exists q s f js out a, st = SCall (nl_done q s f js out a).

Lemma dshape_call : forall st, dshape st -> exists c, st = SCall c /\ is_pend st = false.
Proof. intros st (q & s & f & js & out & a & ->). eexists. split; [reflexivity|]. apply nl_done_not_pend. Qed.

Lemma merge_done_refl : forall q s f js out a,
    exists sch, merge_call_results cid cid_eqb (nl_done q s f js out a) (nl_done q s f js out a) = Ok (nl_done q s f js out a, sch).
Proof.
  intros. unfold nl_done. destruct (nl_value a) as [r|fv].
  - destruct out; cbn [merge_call_results merge_executed value_ref_eqb bind]; rewrite cid_eqb_refl; cbn [bind]; eexists; reflexivity.
  - cbn [merge_call_results call_result_eqb]. rewrite cid_eqb_refl. eexists. reflexivity.
Qed.
Lemma merge_pend_done : forall sd q s f js out a,
    merge_call_results cid cid_eqb (RequestSentBy sd) (nl_done q s f js out a) = Ok (nl_done q s f js out a, SchCurrent).
Proof. intros. unfold nl_done. destruct (nl_value a); [destruct out|]; reflexivity. Qed.
Lemma merge_done_pend : forall sd q s f js out a,
    merge_call_results cid cid_eqb (nl_done q s f js out a) (RequestSentBy sd) = Ok (nl_done q s f js out a, SchPrevious).
Proof. intros. unfold nl_done. destruct (nl_value a); [destruct out|]; reflexivity. Qed.

(* the sender at the frontier of the join *)
Definition jts (a b : nat) (sp sc : option sender) : option sender :=
  if (b <? a)%nat then sp else if (a <? b)%nat then sc else match sp with Some sd => Some sd | None => sc end.

Lemma joined_left : forall P, (forall st, In st P -> exists c, st = SCall c) -> joined P [] P.
Proof.
  induction P as [|st P IH]; intros H; [constructor|].
  destruct (H st (or_introl eq_refl)) as (c & ->). constructor. apply IH. intros x Hx. apply H. right. exact Hx.
Qed.
Lemma joined_right : forall C, (forall st, In st C -> exists c, st = SCall c) -> joined [] C C.
Proof.
  induction C as [|st C IH]; intros H; [constructor|].
  destruct (H st (or_introl eq_refl)) as (c & ->). constructor. apply IH. intros x Hx. apply H. right. exact Hx.
Qed.

Lemma firstn_In : forall A (l : list A) n x, In x (firstn n l) -> In x l.
Proof.
  induction l as [|y l IH]; intros n x H; destruct n; simpl in H; try contradiction.
  destruct H as [<-|H]; [left; reflexivity | right; eapply IH; eauto].
Qed.

Lemma all_calls : forall E n o, Forall dshape E ->
    forall st, In st (firstn n E ++ opt_front o) -> exists c, st = SCall c.
Proof.
  intros E n o HE st Hin. apply in_app_or in Hin. destruct Hin as [Hin|Hin].
  - apply firstn_In in Hin. rewrite Forall_forall in HE. destruct (dshape_call _ (HE _ Hin)) as (c & -> & _). eauto.
  - destruct o; simpl in Hin; [|contradiction]. destruct Hin as [<-|[]]. unfold pend_state. eauto.
Qed.

Lemma joined_tails : forall sp sc, joined (opt_front sp) (opt_front sc) (opt_front (jts 0 0 sp sc)).
Proof.
  intros [sp|] [sc|]; unfold jts; cbn; unfold pend_state.
  - econstructor; [reflexivity|constructor].
  - repeat constructor.
  - repeat constructor.
  - constructor.
Qed.

Lemma approx_join : forall E, Forall dshape E ->
    forall a b sp sc, (a <= length E)%nat -> (b <= length E)%nat ->
    joined (firstn a E ++ opt_front sp) (firstn b E ++ opt_front sc) (firstn (Nat.max a b) E ++ opt_front (jts a b sp sc)).
Proof.
  induction E as [|e E IH]; intros HE a b sp sc Ha Hb.
  - simpl in Ha, Hb. assert (a = O) by lia. assert (b = O) by lia. subst. cbn [firstn app Nat.max]. apply joined_tails.
  - inversion HE as [|? ? He HE']; subst. destruct He as (q & s & f & js & out & an & ->).
    destruct a as [|a'], b as [|b'].
    + cbn [firstn app Nat.max]. apply joined_tails.
    + cbn [firstn app Nat.max]. unfold jts. cbn [Nat.ltb Nat.leb].
      destruct sp as [sp|]; cbn [opt_front].
      * unfold pend_state. econstructor; [apply merge_pend_done|]. apply joined_right. apply all_calls. exact HE'.
      * apply (joined_right (_ :: _)). intros st [<-|Hin]; [eauto|]. eapply all_calls; eauto.
    + cbn [firstn app Nat.max]. unfold jts. cbn [Nat.ltb Nat.leb].
      destruct sc as [sc|]; cbn [opt_front].
      * unfold pend_state. econstructor; [apply merge_done_pend|]. apply joined_left. apply all_calls. exact HE'.
      * apply (joined_left (_ :: _)). intros st [<-|Hin]; [eauto|]. eapply all_calls; eauto.
    + cbn [firstn app Nat.max]. destruct (merge_done_refl q s f js out an) as (sch & Hm).
      econstructor; [exact Hm|]. simpl in Ha, Hb.
      replace (jts (S a') (S b') sp sc) with (jts a' b' sp sc) by reflexivity.
      apply IH; [exact HE' | lia | lia].
Qed.

Lemma joined_Forall : forall (Q : state cid -> Prop) P C J,
    joined P C J -> Forall Q P -> Forall Q C -> Forall Q J.
Proof.
  intros Q P C J H. induction H; intros HP HC.
  - constructor.
  - inversion HP; subst. constructor; auto.
  - inversion HC; subst. constructor; auto.
  - inversion HP; subst. inversion HC; subst. constructor; [|auto].
    match goal with Hm : merge_call_results _ _ _ _ = _ |- _ => rename Hm into Hm0 end.
    destruct pc as [sp | vp | fp], cc as [sc | vc | fc]; cbn in Hm0; try discriminate; try (inversion Hm0; subst; assumption).
    + destruct (merge_executed cid cid_eqb vp vc) eqn:Em; cbn in Hm0; try discriminate. inversion Hm0; subst.
      destruct vp, vc; cbn in Em; try discriminate;
        match type of Em with (if ?c then _ else _) = _ => destruct c; inversion Em; subst; assumption end.
    + destruct (cid_eqb fp fc); inversion Hm0; subst; assumption.
Qed.

(* traces of the approximation shape *)
Lemma exlen_shape : forall E n o, Forall (fun st => is_pend st = false) E -> (n <= length E)%nat ->
    exlen (firstn n E ++ opt_front o) = n /\ tail_sender (firstn n E ++ opt_front o) = o.
Proof.
  intros E n o HE Hn.
  assert (HF : Forall (fun st => is_pend st = false) (firstn n E)).
  { rewrite Forall_forall in *. intros x Hx. apply HE. eapply firstn_In; eauto. }
  split.
  - unfold exlen. rewrite filter_app. rewrite app_length.
    assert (E1 : filter (fun st => negb (is_pend st)) (firstn n E) = firstn n E).
    { clear - HF. induction (firstn n E) as [|x l IH]; [reflexivity|]. inversion HF; subst. simpl.
      rewrite H1. simpl. f_equal. apply IH. assumption. }
    rewrite E1, firstn_length. destruct o; cbn; lia.
  - unfold tail_sender. destruct o as [sd|]; cbn [opt_front].
    + rewrite last_last. reflexivity.
    + rewrite app_nil_r. destruct (last_case _ (firstn n E)) as [X | (l' & x & X)].
      * rewrite X. reflexivity.
      * rewrite X, last_last. rewrite X in HF. apply Forall_app in HF. destruct HF as [_ HF]. inversion HF; subst.
        destruct x as [| c | | |]; try reflexivity. destruct c; try reflexivity. discriminate.
Qed.

Lemma approx_trace_shape : forall (F : nout) t,
    Forall (fun st => is_pend st = false) (o_exec F) ->
    approx_trace F t ->
    t = firstn (exlen t) (o_exec F) ++ opt_front (tail_sender t) /\ (exlen t <= length (o_exec F))%nat /\
    tail_ok F (exlen t) (opt_front (tail_sender t)).
Proof.
  intros F t HE (n & tail & -> & Hn & Ht).
  assert (Ho : exists o, tail = opt_front o).
  { destruct Ht as [-> | (sd & -> & _)]; [exists None | exists (Some sd)]; reflexivity. }
  destruct Ho as (o & ->). destruct (exlen_shape _ n o HE Hn) as [E1 E2]. rewrite E1, E2. auto.
Qed.

Lemma catchable_not_consistency : forall c, code_is_consistency_error (catchable_code c) = false.
Proof. destruct c; vm_compute; reflexivity. Qed.

Lemma firstn_S_nth : forall A (l : list A) n x, nth_error l n = Some x -> firstn (S n) l = firstn n l ++ [x].
Proof.
  induction l as [|y l IH]; intros n x H; destruct n; simpl in *; try discriminate.
  - inversion H; reflexivity.
  - f_equal. apply IH. exact H.
Qed.

Lemma incl_stores_le : forall a b, cid_state_incl a b -> stores_le a b.
Proof. intros a b (H1 & H2 & H3 & H4 & H5). repeat split; assumption. Qed.

Lemma emit_shape : forall me fr q id ready,
    let e := emit me fr q id ready in
    (fst (fst e) = [] \/ (exists sd, fst (fst e) = [pend_state sd] /\
                          (ready = false -> sd = SPeer me \/ fr = Some sd))) /\
    (ready = false -> snd (fst e) = false).
Proof.
  intros me fr q id ready. unfold emit.
  destruct fr as [[r|r cid]|]; destruct (String.eqb q me); destruct ready; try destruct (String.eqb r me); cbn;
    (split;
     [ first [ left; reflexivity
             | right; eexists; split; [reflexivity|]; intros X; first [discriminate X | left; reflexivity | right; reflexivity] ]
     | intros X; first [reflexivity | discriminate X] ]).
Qed.

Section RunStep.
  Variable svc : string -> string -> string -> list json -> service_answer.
  Variable init : string.
  Variable ts ttl : N.
  Hypothesis codes_i32 : ret_codes_i32 svc.
  Variable hook : (instr -> ctx -> xres) -> instr -> ctx -> option xres.
  Variable finish : ctx -> ctx + uncatchable.
  Hypothesis finish_ok : forall x, x_ext x = ext_new ->
      exists y, finish x = inl y /\ data_of_ctx y = data_of_ctx x /\ x_next_peers y = x_next_peers x /\
                x_requests y = x_requests x.
  Notation nlin := (nlin svc init ts ttl).

  Lemma nlin_exec_shape : forall f me k fr id vs i l, nlin me f k fr id vs i = Some l -> Forall dshape (o_exec l).
  Proof.
    induction f as [|f IH]; intros me k fr id vs i l H; [discriminate|].
    destruct i; simpl in H; try discriminate.
    - destruct (target_of init (t_peer t)) as [q|]; try discriminate.
      destruct (t_service t); try discriminate. destruct (t_function t); try discriminate.
      unfold ncall in H. destruct (resolve_args init ts ttl (nenv vs) args); try discriminate.
      + destruct k as [[|n]|]; inversion H; subst; cbn; repeat constructor; unfold dshape; eauto 10.
      + inversion H; subst; constructor.
    - destruct r; try discriminate. destruct (resolve_ap init ts ttl (nenv vs) a); try discriminate;
        inversion H; subst; constructor.
    - destruct (nlin me f k fr id vs i1) as [la|] eqn:Ea; try discriminate.
      pose proof (IH _ _ _ _ _ _ _ Ea) as Sa.
      destruct (o_st la); try (inversion H; subst; exact Sa).
      unfold nthen in H. destruct (nlin me f (o_credit la) fr id (o_vars la) i2) as [lb|] eqn:Eb; try discriminate.
      pose proof (IH _ _ _ _ _ _ _ Eb) as Sb.
      inversion H; subst; cbn [o_exec]. apply Forall_app. split; assumption.
    - destruct (nlin me f k fr id vs i1) as [la|] eqn:Ea; try discriminate.
      pose proof (IH _ _ _ _ _ _ _ Ea) as Sa.
      destruct (o_st la); try (inversion H; subst; exact Sa).
      unfold nthen in H. destruct (nlin me f (o_credit la) fr id (o_vars la) i2) as [lb|] eqn:Eb; try discriminate.
      pose proof (IH _ _ _ _ _ _ _ Eb) as Sb.
      inversion H; subst; cbn [o_exec]. apply Forall_app. split; assumption.
    - destruct (resolve_value init ts ttl (nenv vs) l0); try discriminate; [|inversion H; subst; constructor].
      destruct (resolve_value init ts ttl (nenv vs) r); try discriminate; [|inversion H; subst; constructor].
      destruct (Bool.eqb (json_eqb a a0) true); [eapply IH; eauto | inversion H; subst; constructor].
    - destruct (resolve_value init ts ttl (nenv vs) l0); try discriminate; [|inversion H; subst; constructor].
      destruct (resolve_value init ts ttl (nenv vs) r); try discriminate; [|inversion H; subst; constructor].
      destruct (Bool.eqb (json_eqb a a0) false); [eapply IH; eauto | inversion H; subst; constructor].
    - destruct f0; try discriminate. inversion H; subst; constructor.
    - inversion H; subst; constructor.
    - inversion H; subst; constructor.
  Qed.

  (* the reading with credit k <= m in terms of the full trace *)
  Lemma cutrel_frontier : forall me fr id k F ln,
      length (o_exec F) = length (o_calls F) -> (k <= length (o_exec F))%nat ->
      (o_hit F = false -> o_wait F = None) ->
      cutrel me fr id k F ln ->
      o_exec ln = firstn k (o_exec F) /\ o_calls ln = firstn k (o_calls F) /\
      o_front ln = fst (fst (frontier_at F me k fr id)) /\ o_req ln = snd (fst (frontier_at F me k fr id)) /\
      o_next ln = snd (frontier_at F me k fr id) /\
      (o_hit ln = false -> k = length (o_exec F) /\ o_wait F = None).
  Proof.
    intros me fr id k F ln HL Hk Hw (H1 & H2). unfold frontier_at.
    destruct (Nat.eq_dec k (length (o_exec F))) as [E|E].
    - destruct (H1 ltac:(lia)) as (A1 & A2 & A3 & A4 & A5 & A6 & A7 & A8).
      assert (Hn : nth_error (o_calls F) k = None) by (apply nth_error_None; lia). rewrite Hn.
      rewrite A1, A2, E. rewrite firstn_all. rewrite HL, firstn_all.
      split; [reflexivity|]. split; [reflexivity|].
      destruct (o_wait F) as [q|] eqn:Ew; inversion A8; subst; cbn;
        (split; [auto|]); (split; [auto|]); (split; [auto|]); intros X; rewrite A6 in X; specialize (Hw X);
        first [discriminate | auto].
    - destruct (H2 ltac:(lia)) as (c & N1 & N2 & N3 & N4 & N5 & N6 & N7 & N8 & N9). rewrite N1.
      cbn. (split; [auto|]); (split; [auto|]); (split; [auto|]); (split; [auto|]); (split; [auto|]).
      intros X; rewrite N4 in X; discriminate.
  Qed.

  Lemma step_run : forall s fuel F me prev cur rs,
      nlinear init s = true -> names_ok [] s <> None ->
      full_trace svc init ts ttl fuel s = Some F ->
      approx F prev -> approx F cur -> results_ok svc F me prev cur rs ->
      d_lcid prev < 4294967295 ->
      exists code d' next reqs signed,
        run hook finish fuel {| ri_script := s; ri_params := nparams init ts ttl me; ri_prev := prev; ri_cur := cur; ri_results := rs |}
        = OutNewData code d' next reqs signed /\
        step_spec F me prev cur rs code d' next reqs.
  Proof.
    intros s fuel F me prev cur rs L Hn HF [Hap Hcp] [Hac Hcc] Hrs Hlt.
    destruct (names_ok [] s) as [B'|] eqn:En; [|congruence]. clear Hn.
    unfold full_trace in HF.
    pose proof (nlin_facts _ _ _ _ _ _ _ _ _ _ _ _ HF) as (FL & FH & FS & FA & _ & _ & FP).
    pose proof (nlin_exec_shape _ _ _ _ _ _ _ _ HF) as HS.
    assert (Hwait : o_hit F = false -> o_wait F = None) by (intros X; apply (FH X)).
    destruct (approx_trace_shape F _ FP Hap) as (EP & LP & TP).
    destruct (approx_trace_shape F _ FP Hac) as (EC & LC & TC).
    set (a := exlen (d_trace prev)) in *. set (b := exlen (d_trace cur)) in *.
    set (sp := tail_sender (d_trace prev)) in *. set (sc := tail_sender (d_trace cur)) in *.
    assert (HJ : joined (d_trace prev) (d_trace cur) (firstn (Nat.max a b) (o_exec F) ++ opt_front (jts a b sp sc))).
    { rewrite EP, EC. apply approx_join; assumption. }
    assert (Hjt : joined_tail (d_trace prev) (d_trace cur) = jts a b sp sc) by reflexivity.
    (* the credit, the frontier state, the kind of precondition *)
    set (inp := {| ri_script := s; ri_params := nparams init ts ttl me; ri_prev := prev; ri_cur := cur; ri_results := rs |}).
    set (w0 := {| nw_vars := []; nw_prev := firstn (Nat.max a b) (o_exec F) ++ opt_front (jts a b sp sc); nw_res := [];
                  nw_reqs := []; nw_next := []; nw_lcid := d_lcid prev; nw_rs := rs |}).
    assert (HI : NInv init me ts ttl (initial_ctx inp) w0).
    { apply NInv_intro; cbn.
      - split; [reflexivity|split; [apply scal_rel_new|reflexivity]].
      - reflexivity.
      - apply hrel2_from. exact HJ.
      - reflexivity.
      - reflexivity.
      - reflexivity.
      - eapply joined_Forall; [exact HJ | |].
        + eapply Forall_covered_mono; [apply incl_stores_le, merge_cid_states_left|]. exact Hcp.
        + eapply Forall_covered_mono; [apply incl_stores_le, merge_cid_states_right|]. exact Hcc.
      - constructor.
      - reflexivity. }
    assert (Hb0 : bound_in [] []) by (intros m Hm; simpl in Hm; congruence).
    set (K := (Nat.max a b + match rs with [] => 0 | _ => 1 end)%nat).
    set (fr := match rs with [] => joined_tail (d_trace prev) (d_trace cur) | _ => None end).
    assert (Hmain : exists ln ans, (K <= length (o_exec F))%nat /\
               nlin me fuel (Some K) fr (d_lcid prev + 1) [] s = Some ln /\
               cutrel me fr (d_lcid prev + 1) K F ln /\ pre svc me fr w0 ln [] ans /\
               (K = length (o_exec F) -> forall sd, fr = Some sd -> exists r, sd = SPeer r) /\
               (ans = false -> rs = [])).
    { destruct Hrs as [-> | (id & c & -> & Hts & Hnth & Hba)].
      - (* no call result *)
        subst K fr. cbn [app]. rewrite Nat.add_0_r, Hjt.
        assert (HK : (Nat.max a b <= length (o_exec F))%nat) by lia.
        destruct (nlin_cut svc init ts ttl fuel _ _ _ me (jts a b sp sc) (d_lcid prev + 1) _ _ _ HF (Nat.max a b)) as (ln & Eln & Rln).
        destruct (cutrel_frontier me _ _ _ F ln FL HK Hwait Rln) as (X1 & X2 & X3 & X4 & X5 & X6).
        assert (Hfin : Nat.max a b = length (o_exec F) -> forall sd, jts a b sp sc = Some sd -> o_wait F <> None /\ exists r, sd = SPeer r).
        { intros Hm sd Hsd.
          assert (Hcase : (a = length (o_exec F) /\ sp = Some sd) \/ (b = length (o_exec F) /\ sc = Some sd)).
          { unfold jts in Hsd. destruct (b <? a)%nat eqn:E1; [apply Nat.ltb_lt in E1; left; split; [lia|exact Hsd]|].
            destruct (a <? b)%nat eqn:E2; [apply Nat.ltb_lt in E2; right; split; [lia|exact Hsd]|].
            apply Nat.ltb_ge in E1, E2. destruct sp as [x|]; [left; split; [lia|exact Hsd] | right; split; [lia|exact Hsd]]. }
          destruct Hcase as [[Ha Hs] | [Hb' Hs]].
          - rewrite Hs in TP. destruct TP as [X | (sd' & X & [Y | (_ & Y1 & Y2)])]; [discriminate | fold a in Y; lia |].
            inversion X; subst. auto.
          - rewrite Hs in TC. destruct TC as [X | (sd' & X & [Y | (_ & Y1 & Y2)])]; [discriminate | fold b in Y; lia |].
            inversion X; subst. auto. }
        exists ln, false. split; [exact HK|]. split; [exact Eln|]. split; [exact Rln|]. split.
        + apply pre_plain; cbn [w0 nw_prev nw_rs].
          * rewrite X1. destruct (o_hit ln) eqn:Eh; [reflexivity|].
            destruct (X6 eq_refl) as (Y1 & Y2). rewrite app_nil_r.
            destruct (jts a b sp sc) as [sd|] eqn:Ej; [|rewrite app_nil_r; reflexivity].
            destruct (Hfin Y1 sd eq_refl) as (Z & _). contradiction.
          * auto.
        + split; [intros Hm sd Hsd; apply (Hfin Hm sd Hsd) | reflexivity].
      - (* the answer to the own pending request *)
        fold a in Hnth. fold sp in Hts. fold b a in Hba.
        subst K fr. cbn [app].
        assert (Ha : (a < length (o_exec F))%nat).
        { rewrite FL. apply nth_error_Some. congruence. }
        assert (Hmax : Nat.max a b = a) by lia. rewrite Hmax.
        assert (Hj : jts a b sp sc = Some (SPeerCall me id)).
        { unfold jts. destruct (b <? a)%nat eqn:E1; [exact Hts|].
          destruct (a <? b)%nat eqn:E2; [apply Nat.ltb_lt in E2; lia|]. rewrite Hts. reflexivity. }
        assert (HK : (a + 1 <= length (o_exec F))%nat) by lia.
        destruct (nlin_cut svc init ts ttl fuel _ _ _ me None (d_lcid prev + 1) _ _ _ HF (a + 1)%nat) as (ln & Eln & Rln).
        destruct (cutrel_frontier me _ _ _ F ln FL HK Hwait Rln) as (X1 & X2 & X3 & X4 & X5 & X6).
        destruct (nth_error (o_exec F) a) as [d|] eqn:End; [|apply nth_error_None in End; lia].
        exists ln, true. split; [exact HK|]. split; [exact Eln|]. split; [exact Rln|]. split.
        + replace (a + 1)%nat with (S a) in X1, X2 by lia.
          rewrite (firstn_S_nth _ _ _ _ End) in X1. rewrite (firstn_S_nth _ _ _ _ Hnth) in X2.
          eapply pre_ans with (E0 := firstn a (o_exec F)) (C0 := firstn a (o_calls F)); eauto.
          * rewrite !firstn_length. rewrite FL. reflexivity.
          * cbn [w0 nw_prev]. rewrite Hmax, Hj. reflexivity.
          * reflexivity.
        + split; [intros _ sd X; discriminate | discriminate]. }
    destruct Hmain as (ln & ans & HK & Eln & Rln & Hpre & Hfr & Hans).
    destruct (cutrel_frontier me _ _ _ F ln FL HK Hwait Rln) as (X1 & X2 & X3 & X4 & X5 & X6).
    destruct (exec_nlin svc init me ts ttl fr hook codes_i32 fuel s (initial_ctx inp) w0 K [] [] B' ln ans L HI Hlt Eln Hpre Hb0 En)
      as (x' & Ho & HI' & _ & _ & _).
    destruct HI' as (R' & Hnp & Hh & Hrq & Hlc' & Hrs' & _ & Hc2 & Hext').
    pose proof (hrel2_result _ _ _ Hh) as Htr. cbn [nafter nw_res w0 app] in Htr, Hc2.
    cbn [nafter nw_next nw_reqs nw_lcid nw_rs w0 app] in Hnp, Hrq, Hlc', Hrs'.
    destruct (finish_ok x' Hext') as (y & Ef & Hd & Hnpy & Hrqy).
    assert (Hrsnil : x_call_results x' = []).
    { rewrite Hrs'. destruct ans; [reflexivity | apply Hans; reflexivity]. }
    assert (Hspec : forall code, code_is_consistency_error code = false ->
               exists d' next reqs signed,
                 match finish x' with
                 | inl x1 => OutNewData code (data_of_ctx x1) (dedup (x_next_peers x1) []) (x_requests x1) (x_tracker x1)
                 | inr u => OutPrevData (uncatchable_code u)
                 end = OutNewData code d' next reqs signed /\ step_spec F me prev cur rs code d' next reqs).
    { intros code Hcode. exists (data_of_ctx x'), (o_next ln), (x_requests x'), (x_tracker y).
      rewrite Ef, Hd, Hnpy, Hrqy, Hnp. split.
      - f_equal. rewrite X5. destruct (frontier_at F me K fr (d_lcid prev + 1)) as [[fs rq] nx] eqn:Efa. cbn [snd].
        assert (Hnx : nx = [] \/ exists q, nx = [q]).
        { unfold frontier_at in Efa. destruct (nth_error (o_calls F) K); [|destruct (o_wait F)]; inversion Efa; subst;
            try (left; reflexivity);
            unfold emit; destruct fr as [[r|r cid]|]; repeat match goal with |- context [if ?c then _ else _] => destruct c end; cbn; eauto. }
        destruct Hnx as [-> | (q & ->)]; reflexivity.
      - unfold step_spec. fold a b K fr. unfold data_of_ctx. cbn [d_trace d_lcid d_cids].
        rewrite Htr, X1, X3, Hrq, X4, X5, Hlc', X4.
        split; [reflexivity|]. split; [reflexivity|]. split; [reflexivity|]. split; [reflexivity|]. split; [exact Hcode|].
        split.
        + exists K, (fst (fst (frontier_at F me K fr (d_lcid prev + 1)))). split; [reflexivity|]. split; [exact HK|].
          unfold frontier_at. destruct (nth_error (o_calls F) K) as [c|] eqn:Enth.
          * assert (HKm : (K < length (o_exec F))%nat) by (rewrite FL; apply nth_error_Some; congruence).
            cbn [fst]. destruct (emit_shape me fr (c_peer c) (d_lcid prev + 1) true) as [[Z | (sd & Z & _)] _].
            -- left. exact Z.
            -- right. exists sd. split; [exact Z|]. left. exact HKm.
          * assert (HKm : K = length (o_exec F)).
            { apply nth_error_None in Enth. rewrite <- FL in Enth. lia. }
            destruct (o_wait F) as [q|] eqn:Ew; [|left; reflexivity].
            cbn [fst]. destruct (emit_shape me fr q (d_lcid prev + 1) false) as [[Z | (sd & Z & Z2)] _].
            -- left. exact Z.
            -- right. exists sd. split; [exact Z|]. right. split; [exact HKm|]. split; [congruence|].
               destruct (Z2 eq_refl) as [-> | Hfr']; [eauto|]. exact (Hfr HKm sd Hfr').
        + cbn [d_trace d_cids]. rewrite <- X3, <- X1. exact Hc2. }
    unfold run. fold inp. change (ri_script inp) with s. unfold outcome_of in Ho.
    destruct (o_st ln).
    - rewrite Ho, Hrsnil. destruct (Hspec 0%Z eq_refl) as (d' & nx & rq & sg & E1 & E2). eexists. exists d', nx, rq, sg. split; [exact E1|exact E2].
    - rewrite Ho, Hrsnil. destruct (Hspec 0%Z eq_refl) as (d' & nx & rq & sg & E1 & E2). eexists. exists d', nx, rq, sg. split; [exact E1|exact E2].
    - rewrite Ho, Hrsnil. destruct (Hspec 0%Z eq_refl) as (d' & nx & rq & sg & E1 & E2). eexists. exists d', nx, rq, sg. split; [exact E1|exact E2].
    - destruct Ho as (c & Ho). rewrite Ho.
      destruct (Hspec (catchable_code c) (catchable_not_consistency c)) as (d' & nx & rq & sg & E1 & E2).
      eexists. exists d', nx, rq, sg. split; [exact E1|exact E2].
  Qed.
End RunStep.

Theorem step_two_data : forall svc init ts ttl, step_two_data_stmt svc init ts ttl.
Proof.
  intros svc init ts ttl. split; intros s fuel F me prev cur rs Hc L Hn HF Hp Hcu Hrs Hlt.
  - exact (step_run svc init ts ttl Hc no_streams no_finish no_finish_ok s fuel F me prev cur rs L Hn HF Hp Hcu Hrs Hlt).
  - exact (step_run svc init ts ttl Hc stream_instr finish_streams finish_streams_ok s fuel F me prev cur rs L Hn HF Hp Hcu Hrs Hlt).
Qed.

(* ------------------------------------------------------------------------------------------ *)
(* Part 6: the network invariant *)

Lemma frontier_req : forall F me n fr id r,
    snd (fst (frontier_at F me n fr id)) = Some r ->
    exists c, r = (id, c) /\ nth_error (o_calls F) n = Some c /\ c_peer c = me /\
              fst (fst (frontier_at F me n fr id)) = [pend_state (SPeerCall me id)] /\
              snd (frontier_at F me n fr id) = [].
Proof.
  intros F me n fr id r. unfold frontier_at. destruct (nth_error (o_calls F) n) as [c|].
  - unfold emit. destruct fr as [[x|x cid]|]; destruct (String.eqb (c_peer c) me) eqn:Eq; try destruct (String.eqb x me);
      cbn; intros H; inversion H; subst; apply String.eqb_eq in Eq; eauto 10.
  - destruct (o_wait F); cbn; discriminate.
Qed.

Lemma frontier_own : forall F me n id0 id c,
    nth_error (o_calls F) n = Some c ->
    frontier_at F me n (Some (SPeerCall me id0)) id = ([pend_state (SPeerCall me id0)], None, []).
Proof. intros F me n id0 id c H. unfold frontier_at, emit. rewrite H, String.eqb_refl. reflexivity. Qed.

Lemma frontier_front : forall F me n fr id, exists o, fst (fst (frontier_at F me n fr id)) = opt_front o.
Proof.
  intros F me n fr id. unfold frontier_at. destruct (nth_error (o_calls F) n) as [c|]; [|destruct (o_wait F) as [q|]].
  - cbn [fst]. destruct (emit_shape me fr (c_peer c) id true) as [[Z | (sd & Z & _)] _]; rewrite Z; [exists None | exists (Some sd)]; reflexivity.
  - cbn [fst]. destruct (emit_shape me fr q id false) as [[Z | (sd & Z & _)] _]; rewrite Z; [exists None | exists (Some sd)]; reflexivity.
  - exists None. reflexivity.
Qed.

Lemma assoc_put_same : forall (l : list (string * host)) p h h0, assoc l p = Some h0 -> assoc (put_host l p h) p = Some h.
Proof.
  induction l as [|[q x] l IH]; intros p h h0 H; simpl in *; [discriminate|].
  destruct (String.eqb q p) eqn:E; simpl; rewrite E; [reflexivity|]. eapply IH; eauto.
Qed.
Lemma assoc_put_other : forall (l : list (string * host)) p q h, q <> p -> assoc (put_host l p h) q = assoc l q.
Proof.
  induction l as [|[m x] l IH]; intros p q h H; simpl; [reflexivity|].
  destruct (String.eqb m p) eqn:E; simpl.
  - apply String.eqb_eq in E. subst m. destruct (String.eqb p q) eqn:E2; [apply String.eqb_eq in E2; congruence|reflexivity].
  - destruct (String.eqb m q); [reflexivity|]. apply IH. exact H.
Qed.

Lemma In_remove_nth : forall A (l : list A) k x, In x (remove_nth l k) -> In x l.
Proof.
  induction l as [|y l IH]; intros k x H; destruct k; simpl in *; auto.
  destruct H as [<-|H]; [left; reflexivity | right; eapply IH; eauto].
Qed.

Lemma filter_all : forall A (f : A -> bool) l, (forall x, f x = true) -> filter f l = l.
Proof. intros A f l H. induction l as [|x l IH]; simpl; [reflexivity|]. rewrite H, IH. reflexivity. Qed.


(* a second run at the same peer finds its own frontier state and leaves it *)
Lemma emit_idem : forall me fr q id id' ready sd,
    fst (fst (emit me fr q id ready)) = [pend_state sd] -> emit me (Some sd) q id' ready = ([pend_state sd], false, []).
Proof.
  intros me fr q id id' ready sd. unfold emit.
  destruct fr as [[r|r cid]|]; destruct (String.eqb q me) eqn:Eq; destruct ready; try destruct (String.eqb r me) eqn:Er; cbn;
    intros H; inversion H; subst; cbn; rewrite ?String.eqb_refl, ?Eq, ?Er; cbn; reflexivity.
Qed.

Lemma emit_nil : forall me fr q id ready,
    fst (fst (emit me fr q id ready)) = [] -> fr = None /\ ready = false /\ forall id', emit me None q id' false = ([], false, []).
Proof.
  intros me fr q id ready. unfold emit.
  destruct fr as [[r|r cid]|]; destruct (String.eqb q me) eqn:Eq; destruct ready; try destruct (String.eqb r me); cbn;
    intros H; try discriminate H. auto.
Qed.

Lemma frontier_idem_some : forall F me K fr1 id1 id2 sd,
    fst (fst (frontier_at F me K fr1 id1)) = [pend_state sd] ->
    frontier_at F me K (Some sd) id2 = ([pend_state sd], None, []).
Proof.
  intros F me K fr1 id1 id2 sd. unfold frontier_at.
  destruct (nth_error (o_calls F) K) as [c|]; [|destruct (o_wait F) as [q|]]; cbn [fst snd]; intros H.
  - rewrite (emit_idem me fr1 (c_peer c) id1 id2 true sd H). reflexivity.
  - rewrite (emit_idem me fr1 q id1 id2 false sd H). reflexivity.
  - discriminate.
Qed.

Lemma frontier_idem_none : forall F me K fr1 id1,
    fst (fst (frontier_at F me K fr1 id1)) = [] ->
    (forall fr id, frontier_at F me K fr id = ([], None, [])) \/
    (fr1 = None /\ forall id, frontier_at F me K None id = ([], None, [])).
Proof.
  intros F me K fr1 id1. unfold frontier_at.
  destruct (nth_error (o_calls F) K) as [c|]; [|destruct (o_wait F) as [q|]]; cbn [fst snd]; intros H.
  - destruct (emit_nil _ _ _ _ _ H) as (_ & X & _). discriminate.
  - destruct (emit_nil _ _ _ _ _ H) as (-> & _ & X). right. split; [reflexivity|]. intros id. rewrite X. reflexivity.
  - left. reflexivity.
Qed.

Lemma jts_none : forall a b sp sc, jts a b sp sc = None ->
    (a = Nat.max a b -> sp = None) /\ (b = Nat.max a b -> sc = None).
Proof.
  intros a b sp sc. unfold jts. destruct (b <? a)%nat eqn:E1; [apply Nat.ltb_lt in E1|apply Nat.ltb_ge in E1].
  - intros ->. split; [reflexivity | lia].
  - destruct (a <? b)%nat eqn:E2; [apply Nat.ltb_lt in E2|apply Nat.ltb_ge in E2].
    + intros ->. split; [lia | reflexivity].
    + destruct sp; [discriminate|]. intros ->. split; reflexivity.
Qed.

Lemma jts_prev_wins : forall K b sd sc, (b <= K)%nat -> jts K b (Some sd) sc = Some sd.
Proof.
  intros K b sd sc H. unfold jts. destruct (b <? K)%nat; [reflexivity|].
  destruct (K <? b)%nat eqn:E2; [apply Nat.ltb_lt in E2; lia | reflexivity].
Qed.

Lemma jts_prev_none : forall K b sc, (b < K)%nat \/ sc = None -> jts K b None sc = None.
Proof.
  intros K b sc H. unfold jts. destruct (b <? K)%nat eqn:E1; [reflexivity|]. apply Nat.ltb_ge in E1.
  destruct (K <? b)%nat; destruct H as [H | ->]; try reflexivity; lia.
Qed.

Lemma filter_front : forall E n o, Forall (fun st => is_pend st = false) E ->
    filter (fun st => negb (is_pend st)) (firstn n E ++ opt_front o) = firstn n E.
Proof.
  intros E n o HE.
  assert (HF : Forall (fun st => is_pend st = false) (firstn n E)).
  { rewrite Forall_forall in *. intros x Hx. apply HE. eapply firstn_In; eauto. }
  rewrite filter_app.
  assert (E1 : filter (fun st => negb (is_pend st)) (firstn n E) = firstn n E).
  { clear - HF. induction (firstn n E) as [|x l IH]; [reflexivity|]. inversion HF; subst. simpl.
    rewrite H1. simpl. f_equal. apply IH. assumption. }
  rewrite E1. destruct o; cbn; rewrite app_nil_r; reflexivity.
Qed.

Section Net.
  Variable svc : string -> string -> string -> list json -> service_answer.
  Variable init : string.
  Variable ts ttl : N.
  Variable runf : nat -> run_input -> RunExec.outcome.
  Hypothesis Hstep : step_two_data_with svc init ts ttl runf.
  Hypothesis codes_i32 : ret_codes_i32 svc.
  Variable s : instr.
  Variable fuel : nat.
  Variable F : nout.
  Hypothesis L : nlinear init s = true.
  Hypothesis Hn : names_ok [] s <> None.
  Hypothesis HF : full_trace svc init ts ttl fuel s = Some F.
  Hypothesis Hlen : N.of_nat (length (o_calls F)) < 4294967295.

  Lemma F_lens : length (o_exec F) = length (o_calls F).
  Proof. unfold full_trace in HF. exact (proj1 (nlin_facts _ _ _ _ _ _ _ _ _ _ _ _ HF)). Qed.
  Lemma F_nopend : Forall (fun st => is_pend st = false) (o_exec F).
  Proof. unfold full_trace in HF. pose proof (nlin_facts _ _ _ _ _ _ _ _ _ _ _ _ HF) as (_ & _ & _ & _ & _ & _ & X). exact X. Qed.

  Lemma exlen_front : forall K o, (K <= length (o_exec F))%nat -> exlen (firstn K (o_exec F) ++ opt_front o) = K.
  Proof. intros K o HK. exact (proj1 (exlen_shape _ K o F_nopend HK)). Qed.
  Lemma tail_front : forall K o, (K <= length (o_exec F))%nat -> tail_sender (firstn K (o_exec F) ++ opt_front o) = o.
  Proof. intros K o HK. exact (proj2 (exlen_shape _ K o F_nopend HK)). Qed.

  Lemma approx_exlen : forall d, approx F d -> (exlen (d_trace d) <= length (o_exec F))%nat.
  Proof. intros d [H _]. exact (proj1 (proj2 (approx_trace_shape F _ F_nopend H))). Qed.

  Lemma host_lcid_bound : forall E p h, (E <= length (o_calls F))%nat -> host_inv F E p h -> d_lcid (h_prev h) < 4294967295.
  Proof.
    intros E p h HE (_ & _ & _ & Hpend & Hlc).
    destruct Hpend as [Hp | (id & rq & c & Hp & _ & Hnth & _)]; rewrite Hp in Hlc.
    - lia.
    - assert (E < length (o_calls F))%nat by (apply nth_error_Some; congruence). lia.
  Qed.

  (* a run without call results (start, delivery, re-delivery) *)
  Lemma step_plain : forall p h cur E,
      host_inv F E p h -> approx F cur -> (exlen (d_trace cur) <= E)%nat -> (E <= length (o_calls F))%nat ->
      exists code d next reqs signed,
        runf fuel {| ri_script := s; ri_params := nparams init ts ttl p; ri_prev := h_prev h; ri_cur := cur; ri_results := [] |}
        = OutNewData code d next reqs signed /\
        code_is_consistency_error code = false /\
        host_inv F E p {| h_prev := d; h_pending := h_pending h ++ reqs |} /\
        approx F d /\ (exlen (d_trace d) <= E)%nat /\
        exlen (d_trace d) = Nat.max (exlen (d_trace (h_prev h))) (exlen (d_trace cur)) /\
        step_spec F p (h_prev h) cur [] code d next reqs.
  Proof.
    intros p h cur E HI Hac Hcle HE. pose proof (host_lcid_bound E p h HE HI) as Hb.
    destruct HI as (Hap & Hle & Hown & Hpend & Hlc).
    destruct (Hstep s fuel F p (h_prev h) cur [] codes_i32 L Hn HF Hap Hac (or_introl eq_refl) Hb)
      as (code & d & next & reqs & signed & Erun & Hspec).
    exists code, d, next, reqs, signed. split; [exact Erun|].
    pose proof Hspec as (Htr & Hrq & Hnx & Hlcd & Hcode & Hapd). cbn zeta in Htr, Hrq, Hnx, Hlcd.
    rewrite Nat.add_0_r in *.
    set (a := exlen (d_trace (h_prev h))) in *. set (b := exlen (d_trace cur)) in *.
    set (K := Nat.max a b) in *.
    set (fr := joined_tail (d_trace (h_prev h)) (d_trace cur)) in *.
    set (e := frontier_at F p K fr (d_lcid (h_prev h) + 1)) in *.
    assert (HK : (K <= E)%nat) by (unfold K; lia).
    assert (HKm : (K <= length (o_exec F))%nat) by (rewrite F_lens; lia).
    destruct (frontier_front F p K fr (d_lcid (h_prev h) + 1)) as (o & Ho). fold e in Ho.
    assert (Hex : exlen (d_trace d) = K) by (rewrite Htr, Ho; apply exlen_front; exact HKm).
    split; [exact Hcode|]. split; [|split; [exact Hapd|split; [lia|split; [exact Hex|exact Hspec]]]].
    unfold host_inv. cbn [h_prev h_pending].
    split; [exact Hapd|]. split; [lia|]. split.
    { intros K' c HK' Hnth Hpeer. specialize (Hown K' c HK' Hnth Hpeer). fold a in Hown. lia. }
    destruct (snd (fst e)) as [r|] eqn:Ereq.
    - (* a request is issued: it is the next call of the reading, and nothing was pending *)
      destruct (frontier_req F p K fr _ r Ereq) as (c & -> & Hnth & Hpeer & Hfs & Hnxe). fold e in Hfs, Hnxe.
      assert (HKE : K = E).
      { destruct (Nat.eq_dec K E) as [X|X]; [exact X|]. assert (HK' : (K < E)%nat) by lia.
        specialize (Hown K c HK' Hnth Hpeer). fold a in Hown. unfold K in Hown. lia. }
      destruct reqs as [|[id' rq'] [|r2 reqs]]; try discriminate. cbn [map fst] in Hrq. inversion Hrq as [[Hid Hc]].
      destruct Hpend as [Hp | (id0 & rq0 & c0 & Hp & Hpt & Hnth0 & Hc0)].
      + rewrite Hp. cbn [app]. split.
        * right. exists (d_lcid (h_prev h) + 1), rq', c. split; [reflexivity|]. split; [rewrite Htr, Hfs, HKE; reflexivity|].
          split; [rewrite <- HKE; exact Hnth|]. rewrite <- Hid at 1. exact Hc.
        * rewrite Hlcd, Hp in *. lia.
      + (* impossible: the own pending request is at the frontier *)
        exfalso.
        assert (Ea : a = E) by (unfold a; rewrite Hpt; apply (exlen_front E (Some (SPeerCall p id0))); rewrite F_lens; lia).
        assert (Es : tail_sender (d_trace (h_prev h)) = Some (SPeerCall p id0))
          by (rewrite Hpt; apply (tail_front E (Some (SPeerCall p id0))); rewrite F_lens; lia).
        assert (Efr : fr = Some (SPeerCall p id0)).
        { unfold fr, joined_tail. fold a b. destruct (b <? a)%nat eqn:E1; [exact Es|].
          destruct (a <? b)%nat eqn:E2; [apply Nat.ltb_lt in E2; lia|]. rewrite Es. reflexivity. }
        unfold e in Ereq. rewrite Efr, (frontier_own F p K id0 _ c Hnth) in Ereq. discriminate.
    - (* no request *)
      destruct reqs; [|discriminate]. rewrite app_nil_r. split.
      + destruct Hpend as [Hp | (id0 & rq0 & c0 & Hp & Hpt & Hnth0 & Hc0)]; [left; exact Hp|].
        right. exists id0, rq0, c0. split; [exact Hp|]. split; [|split; assumption].
        assert (Ea : a = E) by (unfold a; rewrite Hpt; apply (exlen_front E (Some (SPeerCall p id0))); rewrite F_lens; lia).
        assert (Es : tail_sender (d_trace (h_prev h)) = Some (SPeerCall p id0))
          by (rewrite Hpt; apply (tail_front E (Some (SPeerCall p id0))); rewrite F_lens; lia).
        assert (Efr : fr = Some (SPeerCall p id0)).
        { unfold fr, joined_tail. fold a b. destruct (b <? a)%nat eqn:E1; [exact Es|].
          destruct (a <? b)%nat eqn:E2; [apply Nat.ltb_lt in E2; lia|]. rewrite Es. reflexivity. }
        assert (HKE : K = E) by (unfold K; lia).
        rewrite Htr. unfold e. rewrite Efr, HKE, (frontier_own F p E id0 _ c0 Hnth0). reflexivity.
      + rewrite Hlcd. exact Hlc.
  Qed.

  Lemma approx_empty : approx F empty_data.
  Proof. split; [exists O, []; cbn; repeat split; [lia | left; reflexivity] | constructor]. Qed.

  (* the host hands the answer of its pending request back *)
  Lemma step_answer : forall p h id rq E,
      host_inv F E p h -> h_pending h = [(id, rq)] -> (E <= length (o_calls F))%nat ->
      exists code d next reqs signed,
        runf fuel {| ri_script := s; ri_params := nparams init ts ttl p; ri_prev := h_prev h; ri_cur := empty_data;
                     ri_results := [answer_request svc p (id, rq)] |}
        = OutNewData code d next reqs signed /\
        code_is_consistency_error code = false /\
        nth_error (o_calls F) E = Some (call_of_request p (id, rq)) /\
        host_inv F (S E) p {| h_prev := d; h_pending := reqs |} /\
        approx F d /\ exlen (d_trace d) = S E /\ exlen (d_trace (h_prev h)) = E.
  Proof.
    intros p h id rq E HI Hp HE. pose proof (host_lcid_bound E p h HE HI) as Hb.
    destruct HI as (Hap & Hle & Hown & Hpend & Hlc).
    destruct Hpend as [Hp0 | (id0 & rq0 & c0 & Hp0 & Hpt & Hnth0 & Hc0)]; [congruence|].
    rewrite Hp in Hp0. inversion Hp0; subst id0 rq0. clear Hp0.
    assert (HEl : (E < length (o_calls F))%nat) by (apply nth_error_Some; congruence).
    assert (Ea : exlen (d_trace (h_prev h)) = E) by (rewrite Hpt; apply (exlen_front E (Some (SPeerCall p id))); rewrite F_lens; lia).
    assert (Es : tail_sender (d_trace (h_prev h)) = Some (SPeerCall p id))
      by (rewrite Hpt; apply (tail_front E (Some (SPeerCall p id))); rewrite F_lens; lia).
    assert (Hro : results_ok svc F p (h_prev h) empty_data [answer_request svc p (id, rq)]).
    { right. exists id, c0. split; [subst c0; reflexivity|]. split; [exact Es|]. split; [rewrite Ea; exact Hnth0|]. cbn. lia. }
    destruct (Hstep s fuel F p (h_prev h) empty_data _ codes_i32 L Hn HF Hap approx_empty Hro Hb)
      as (code & d & next & reqs & signed & Erun & Hspec).
    exists code, d, next, reqs, signed. split; [exact Erun|].
    destruct Hspec as (Htr & Hrq & Hnx & Hlcd & Hcode & Hapd). cbn zeta in Htr, Hrq, Hnx, Hlcd.
    cbn [answer_request fst snd] in Htr, Hrq, Hnx, Hlcd.
    replace (Nat.max (exlen (d_trace (h_prev h))) (exlen (d_trace empty_data)) + 1)%nat with (S E) in * by (rewrite Ea; cbn; lia).
    set (e := frontier_at F p (S E) None (d_lcid (h_prev h) + 1)) in *.
    assert (HKm : (S E <= length (o_exec F))%nat) by (rewrite F_lens; lia).
    destruct (frontier_front F p (S E) None (d_lcid (h_prev h) + 1)) as (o & Ho). fold e in Ho.
    assert (Hex : exlen (d_trace d) = S E) by (rewrite Htr, Ho; apply exlen_front; exact HKm).
    split; [exact Hcode|]. split; [rewrite Hc0; exact Hnth0|]. split; [|split; [exact Hapd|split; [exact Hex|exact Ea]]].
    unfold host_inv. cbn [h_prev h_pending].
    split; [exact Hapd|]. split; [lia|]. split; [intros; lia|].
    rewrite Hp in Hlc.
    destruct (snd (fst e)) as [r|] eqn:Ereq.
    - destruct (frontier_req F p (S E) None _ r Ereq) as (c & -> & Hnth & Hpeer & Hfs & Hnxe). fold e in Hfs, Hnxe.
      destruct reqs as [|[id' rq'] [|r2 reqs]]; try discriminate. cbn [map fst] in Hrq. inversion Hrq as [[Hid Hc]].
      split.
      + right. exists (d_lcid (h_prev h) + 1), rq', c. split; [reflexivity|]. split; [rewrite Htr, Hfs; reflexivity|].
        split; [exact Hnth|]. rewrite <- Hid at 1. exact Hc.
      + rewrite Hlcd. lia.
    - destruct reqs; [|discriminate]. split; [left; reflexivity|]. rewrite Hlcd. lia.
  Qed.

  Lemma host_inv_bump : forall E q h c p,
      host_inv F E q h -> nth_error (o_calls F) E = Some c -> c_peer c = p -> q <> p -> host_inv F (S E) q h.
  Proof.
    intros E q h c p (Hap & Hle & Hown & Hpend & Hlc) Hnth Hpeer Hne.
    split; [exact Hap|]. split; [lia|]. split.
    - intros K c' HK Hn' Hp'. destruct (Nat.eq_dec K E) as [->|X].
      + rewrite Hnth in Hn'. inversion Hn'; subst c'. congruence.
      + apply (Hown K c'); [lia | exact Hn' | exact Hp'].
    - destruct Hpend as [Hp | (id0 & rq0 & c0 & Hp & Hpt & Hnth0 & Hc0)].
      + split; [left; exact Hp|]. rewrite Hp in *. lia.
      + exfalso. rewrite Hnth in Hnth0. inversion Hnth0 as [Hcc]. apply Hne. rewrite <- Hpeer, Hcc, <- Hc0. reflexivity.
  Qed.

  (* ---------------------------------------------------------------------------------------- *)
  Notation step := (net_step_with svc init ts ttl runf fuel s).
  Notation hrun := (host_run_with init ts ttl runf fuel s).

  Lemma host_run_plain : forall n p cur,
      net_inv F n -> approx F cur -> (exlen (d_trace cur) <= length (n_log n))%nat ->
      net_inv F (hrun n p cur [] []).
  Proof.
    intros n p cur HI0 Hac Hcle. pose proof HI0 as (Hlog & HE & Hhosts & Hfly). unfold host_run_with.
    destruct (assoc (n_hosts n) p) as [h|] eqn:Eh; [|exact HI0].
    destruct (step_plain p h cur _ (Hhosts p h Eh) Hac Hcle HE) as (code & d & next & reqs & signed & Erun & Hcode & HI' & Hapd & Hexd & _).
    rewrite Erun. cbn [map]. rewrite app_nil_r.
    rewrite (filter_all _ _ (h_pending h)) by reflexivity.
    unfold net_inv. cbn [n_log n_hosts n_inflight n_delivered].
    split; [exact Hlog|]. split; [exact HE|]. split.
    - intros q hq Hq. destruct (String.eqb q p) eqn:Eq.
      + apply String.eqb_eq in Eq. subst q. rewrite (assoc_put_same _ _ _ _ Eh) in Hq. inversion Hq; subst hq. exact HI'.
      + assert (q <> p) by (intro; subst; rewrite String.eqb_refl in Eq; discriminate).
        rewrite assoc_put_other in Hq by assumption. apply Hhosts. exact Hq.
    - intros q dq [Hin | Hin].
      + apply in_app_or in Hin. destruct Hin as [Hin | Hin]; [apply (Hfly q dq); left; exact Hin|].
        apply in_map_iff in Hin. destruct Hin as (x & Hx & _). inversion Hx; subst. split; assumption.
      + apply (Hfly q dq). right. exact Hin.
  Qed.

  Lemma host_run_answer : forall n p h ids,
      net_inv F n -> assoc (n_hosts n) p = Some h ->
      filter (fun r => existsb (N.eqb (fst r)) ids) (h_pending h) <> [] ->
      let answered := filter (fun r => existsb (N.eqb (fst r)) ids) (h_pending h) in
      net_inv F (hrun n p empty_data (map (answer_request svc p) answered) answered).
  Proof.
    intros n p h ids (Hlog & HE & Hhosts & Hfly) Eh Hne answered.
    pose proof (Hhosts p h Eh) as HI.
    assert (Hp : exists id rq, h_pending h = [(id, rq)] /\ answered = [(id, rq)]).
    { destruct HI as (_ & _ & _ & Hpend & _).
      destruct Hpend as [Hp | (id0 & rq0 & c0 & Hp & _)]; subst answered; rewrite Hp in *; cbn in *; [congruence|].
      exists id0, rq0. split; [reflexivity|]. destruct (existsb (N.eqb id0) ids); [reflexivity|congruence]. }
    destruct Hp as (id & rq & Hp & Ha). rewrite Ha. clear Hne.
    destruct (step_answer p h id rq _ HI Hp HE) as (code & d & next & reqs & signed & Erun & Hcode & Hnth & HI' & Hapd & Hexd & Hexp).
    unfold host_run_with. rewrite Eh. cbn [map]. rewrite Erun, Hp. cbn [filter existsb fst]. rewrite N.eqb_refl. cbn [orb negb app].
    set (E := length (n_log n)) in *.
    assert (HEl : (E < length (o_calls F))%nat) by (apply nth_error_Some; congruence).
    assert (Elog : length (n_log n ++ [call_of_request p (id, rq)]) = S E) by (rewrite app_length; cbn; lia).
    unfold net_inv. cbn [n_log n_hosts n_inflight n_delivered]. rewrite Elog.
    split; [rewrite (firstn_S_nth _ _ _ _ Hnth), <- Hlog; reflexivity|]. split; [lia|]. split.
    - intros q hq Hq. destruct (String.eqb q p) eqn:Eq.
      + apply String.eqb_eq in Eq. subst q. rewrite (assoc_put_same _ _ _ _ Eh) in Hq. inversion Hq; subst hq. exact HI'.
      + assert (q <> p) by (intro; subst; rewrite String.eqb_refl in Eq; discriminate).
        rewrite assoc_put_other in Hq by assumption.
        eapply host_inv_bump; [apply Hhosts; exact Hq | exact Hnth | reflexivity | assumption].
    - intros q dq [Hin | Hin].
      + apply in_app_or in Hin. destruct Hin as [Hin | Hin].
        * destruct (Hfly q dq (or_introl Hin)) as [X Y]. split; [exact X | lia].
        * apply in_map_iff in Hin. destruct Hin as (x & Hx & _). inversion Hx; subst. split; [exact Hapd | lia].
      + destruct (Hfly q dq (or_intror Hin)) as [X Y]. split; [exact X | lia].
  Qed.

  Lemma net_step_inv : forall n o, net_inv F n -> net_inv F (step n o).
  Proof.
    intros n o HI. destruct o as [| k keep | k | p ids]; cbn [net_step_with].
    - apply host_run_plain; [exact HI | exact approx_empty | cbn; lia].
    - destruct (nth_error (n_inflight n) k) as [[q d]|] eqn:Ek; [|exact HI].
      pose proof HI as (Hlog & HE & Hhosts & Hfly).
      destruct (Hfly q d (or_introl (nth_error_In _ _ Ek))) as [Hap Hex].
      apply host_run_plain; [|exact Hap|exact Hex].
      unfold net_inv. cbn [n_log n_hosts n_inflight n_delivered]. split; [exact Hlog|]. split; [exact HE|]. split; [exact Hhosts|].
      intros q' d' [Hin | Hin].
      + apply (Hfly q' d'). left. destruct keep; [exact Hin | eapply In_remove_nth; exact Hin].
      + apply in_app_or in Hin. destruct Hin as [Hin | [Hin | []]]; [apply (Hfly q' d'); right; exact Hin|].
        inversion Hin; subst. split; assumption.
    - destruct (nth_error (n_delivered n) k) as [[q d]|] eqn:Ek; [|exact HI].
      pose proof HI as (Hlog & HE & Hhosts & Hfly).
      destruct (Hfly q d (or_intror (nth_error_In _ _ Ek))) as [Hap Hex].
      apply host_run_plain; assumption.
    - destruct (assoc (n_hosts n) p) as [h|] eqn:Eh; [|exact HI].
      destruct (filter (fun r => existsb (N.eqb (fst r)) ids) (h_pending h)) as [|r0 rest] eqn:Ef; [exact HI|].
      rewrite <- Ef. apply (host_run_answer n p h ids HI Eh). rewrite Ef. discriminate.
  Qed.

  Lemma assoc_init : forall peers p h,
      assoc (map (fun q => (q, {| h_prev := empty_data; h_pending := [] |})) peers) p = Some h ->
      h = {| h_prev := empty_data; h_pending := [] |}.
  Proof.
    induction peers as [|q peers IH]; intros p h H; simpl in H; [discriminate|].
    destruct (String.eqb q p); [inversion H; reflexivity | eapply IH; eauto].
  Qed.

  Lemma net_init_inv : forall peers, net_inv F (net_init peers).
  Proof.
    intros peers. unfold net_inv, net_init. cbn [n_log n_hosts n_inflight n_delivered length firstn].
    split; [reflexivity|]. split; [lia|]. split.
    - intros p h H. apply assoc_init in H. subst h. unfold host_inv. cbn.
      split; [exact approx_empty|]. split; [lia|]. split; [intros; lia|]. split; [left; reflexivity|lia].
    - intros q d [[]|[]].
  Qed.

  Lemma history_inv : forall peers ops, net_inv F (history_with svc init ts ttl runf fuel s peers ops).
  Proof.
    intros peers ops. unfold history_with.
    assert (G : forall n, net_inv F n -> net_inv F (fold_left step ops n)).
    { induction ops as [|o ops IH]; intros n H; [exact H|]. cbn [fold_left]. apply IH. apply net_step_inv. exact H. }
    apply G. apply net_init_inv.
  Qed.

  (* ---- the executed prefix of a host never shrinks ---- *)
  Lemma host_run_plain_mono : forall n p cur q hq hq',
      net_inv F n -> approx F cur -> (exlen (d_trace cur) <= length (n_log n))%nat ->
      assoc (n_hosts n) q = Some hq -> assoc (n_hosts (hrun n p cur [] [])) q = Some hq' ->
      (exlen (d_trace (h_prev hq)) <= exlen (d_trace (h_prev hq')))%nat.
  Proof.
    intros n p cur q hq hq' HI0 Hac Hcle Hq Hq'. pose proof HI0 as (Hlog & HE & Hhosts & Hfly). unfold host_run_with in Hq'.
    destruct (assoc (n_hosts n) p) as [h|] eqn:Eh; [|rewrite Hq in Hq'; inversion Hq'; lia].
    destruct (step_plain p h cur _ (Hhosts p h Eh) Hac Hcle HE) as (code & d & next & reqs & signed & Erun & _ & _ & _ & _ & Hmax & _).
    rewrite Erun in Hq'. cbn [n_hosts] in Hq'.
    destruct (String.eqb q p) eqn:Eq.
    - apply String.eqb_eq in Eq. subst q. rewrite (assoc_put_same _ _ _ _ Eh) in Hq'. inversion Hq'; subst hq'.
      rewrite Eh in Hq. inversion Hq; subst hq. cbn [h_prev]. lia.
    - assert (q <> p) by (intro; subst; rewrite String.eqb_refl in Eq; discriminate).
      rewrite assoc_put_other in Hq' by assumption. rewrite Hq in Hq'. inversion Hq'; lia.
  Qed.

  Lemma net_step_mono : forall n o q hq hq',
      net_inv F n -> assoc (n_hosts n) q = Some hq -> assoc (n_hosts (step n o)) q = Some hq' ->
      (exlen (d_trace (h_prev hq)) <= exlen (d_trace (h_prev hq')))%nat.
  Proof.
    intros n o q hq hq' HI Hq Hq'. destruct o as [| k keep | k | p ids]; cbn [net_step_with] in Hq'.
    - eapply (host_run_plain_mono n init empty_data); eauto; [exact approx_empty | cbn; lia].
    - destruct (nth_error (n_inflight n) k) as [[p d]|] eqn:Ek; [|rewrite Hq in Hq'; inversion Hq'; lia].
      pose proof HI as (Hlog & HE & Hhosts & Hfly).
      destruct (Hfly p d (or_introl (nth_error_In _ _ Ek))) as [Hap Hex].
      match type of Hq' with assoc (n_hosts (host_run_with _ _ _ _ _ _ ?n1 _ _ _ _)) _ = _ =>
        eapply (host_run_plain_mono n1 p d q hq hq'); eauto end.
      unfold net_inv. cbn [n_log n_hosts n_inflight n_delivered]. split; [exact Hlog|]. split; [exact HE|]. split; [exact Hhosts|].
      intros q' d' [Hin | Hin].
      + apply (Hfly q' d'). left. destruct keep; [exact Hin | eapply In_remove_nth; exact Hin].
      + apply in_app_or in Hin. destruct Hin as [Hin | [Hin | []]]; [apply (Hfly q' d'); right; exact Hin|].
        inversion Hin; subst. split; assumption.
    - destruct (nth_error (n_delivered n) k) as [[p d]|] eqn:Ek; [|rewrite Hq in Hq'; inversion Hq'; lia].
      pose proof HI as (Hlog & HE & Hhosts & Hfly).
      destruct (Hfly p d (or_intror (nth_error_In _ _ Ek))) as [Hap Hex].
      eapply (host_run_plain_mono n p d); eauto.
    - destruct (assoc (n_hosts n) p) as [h|] eqn:Eh; [|rewrite Hq in Hq'; inversion Hq'; lia].
      destruct (filter (fun r => existsb (N.eqb (fst r)) ids) (h_pending h)) as [|r0 rest] eqn:Ef; [rewrite Hq in Hq'; inversion Hq'; lia|].
      pose proof HI as (Hlog & HE & Hhosts & Hfly). pose proof (Hhosts p h Eh) as HIh.
      assert (Hp : exists id rq, h_pending h = [(id, rq)] /\ r0 :: rest = [(id, rq)]).
      { destruct HIh as (_ & _ & _ & Hpend & _).
        destruct Hpend as [Hp | (id0 & rq0 & c0 & Hp & _)]; rewrite Hp in Ef; cbn in Ef; [discriminate|].
        exists id0, rq0. split; [exact Hp|]. destruct (existsb (N.eqb id0) ids); [symmetry; exact Ef | discriminate]. }
      destruct Hp as (id & rq & Hp & Hr). rewrite Hr in Hq'.
      destruct (step_answer p h id rq _ HIh Hp HE) as (code & d & next & reqs & signed & Erun & _ & _ & _ & _ & Hexd & Hexp).
      unfold host_run_with in Hq'. rewrite Eh in Hq'. cbn [map] in Hq'. rewrite Erun in Hq'. cbn [n_hosts] in Hq'.
      destruct (String.eqb q p) eqn:Eq.
      + apply String.eqb_eq in Eq. subst q. rewrite (assoc_put_same _ _ _ _ Eh) in Hq'. inversion Hq'; subst hq'.
        rewrite Eh in Hq. inversion Hq; subst hq. cbn [h_prev]. lia.
      + assert (q <> p) by (intro; subst; rewrite String.eqb_refl in Eq; discriminate).
        rewrite assoc_put_other in Hq' by assumption. rewrite Hq in Hq'. inversion Hq'; lia.
  Qed.

  Lemma approx_filter : forall d, approx F d ->
      filter (fun st => negb (is_pend st)) (d_trace d) = firstn (exlen (d_trace d)) (o_exec F).
  Proof.
    intros d [H _]. destruct (approx_trace_shape F _ F_nopend H) as (E1 & _ & _).
    rewrite E1 at 1. apply filter_front. exact F_nopend.
  Qed.

  (* ---- re-delivery ---- *)
  Lemma redelivery : forall p h cur E,
      host_inv F E p h -> approx F cur -> (exlen (d_trace cur) <= E)%nat -> (E <= length (o_calls F))%nat ->
      forall code d next reqs signed,
        runf fuel {| ri_script := s; ri_params := nparams init ts ttl p; ri_prev := h_prev h; ri_cur := cur; ri_results := [] |}
        = OutNewData code d next reqs signed ->
        forall x, x = cur \/ x = d \/ x = empty_data \/ x = h_prev h ->
        exists code' d' signed',
          runf fuel {| ri_script := s; ri_params := nparams init ts ttl p; ri_prev := d; ri_cur := x; ri_results := [] |}
          = OutNewData code' d' [] [] signed' /\ d_trace d' = d_trace d /\ d_lcid d' = d_lcid d.
  Proof.
    intros p h cur E HI Hac Hcle HE code d next reqs signed Hrun x Hx.
    destruct (step_plain p h cur E HI Hac Hcle HE) as (code0 & d0 & next0 & reqs0 & signed0 & Erun & _ & HI1 & Hapd & Hexd & Hmax & Hspec).
    rewrite Hrun in Erun. inversion Erun; subst code0 d0 next0 reqs0 signed0. clear Erun.
    destruct Hspec as (Htr & _). cbn zeta in Htr. rewrite Nat.add_0_r in Htr.
    pose proof HI as (Hap & Hle & _).
    set (a := exlen (d_trace (h_prev h))) in *. set (b := exlen (d_trace cur)) in *.
    set (K := Nat.max a b) in *.
    assert (HKm : (K <= length (o_exec F))%nat) by (rewrite F_lens; unfold K; lia).
    destruct (approx_trace_shape F _ F_nopend (proj1 Hap)) as (EP & _ & _).
    destruct (approx_trace_shape F _ F_nopend (proj1 Hac)) as (EC & _ & _).
    fold a in EP. fold b in EC.
    assert (Hfr1 : joined_tail (d_trace (h_prev h)) (d_trace cur) = jts a b (tail_sender (d_trace (h_prev h))) (tail_sender (d_trace cur))) by reflexivity.
    rewrite Hfr1 in Htr.
    set (sp := tail_sender (d_trace (h_prev h))) in *. set (sc := tail_sender (d_trace cur)) in *.
    set (e1 := frontier_at F p K (jts a b sp sc) (d_lcid (h_prev h) + 1)) in *.
    destruct (frontier_front F p K (jts a b sp sc) (d_lcid (h_prev h) + 1)) as (o1 & Ho1). fold e1 in Ho1.
    assert (Htd : tail_sender (d_trace d) = o1) by (rewrite Htr, Ho1; apply tail_front; exact HKm).
    (* x approximates F and does not overtake d *)
    assert (Hx' : approx F x /\ (exlen (d_trace x) <= K)%nat /\
                  (o1 = None -> jts a b sp sc = None -> exlen (d_trace x) = K -> tail_sender (d_trace x) = None)).
    { destruct Hx as [-> | [-> | [-> | ->]]].
      - split; [exact Hac|]. split; [unfold K; fold b; lia|]. intros _ Hj Hk. fold b in Hk. fold sc.
        apply (proj2 (jts_none _ _ _ _ Hj)). unfold K in Hk. lia.
      - split; [exact Hapd|]. split; [lia|]. intros Hnn _ _. rewrite Htd. exact Hnn.
      - split; [exact approx_empty|]. split; [cbn; lia|]. intros _ _ _. reflexivity.
      - split; [exact Hap|]. split; [unfold K; fold a; lia|]. intros _ Hj Hk. fold a in Hk. fold sp.
        apply (proj1 (jts_none _ _ _ _ Hj)). unfold K in Hk. lia. }
    destruct Hx' as (Hax & Hxk & Hxt).
    assert (Hxe : (exlen (d_trace x) <= E)%nat) by lia.
    destruct (step_plain p _ x E HI1 Hax Hxe HE) as (code' & d' & next' & reqs' & signed' & Erun' & _ & _ & _ & _ & _ & Hspec').
    cbn [h_prev] in Erun', Hspec'.
    destruct Hspec' as (Htr' & Hrq' & Hnx' & Hlc' & _). cbn zeta in Htr', Hrq', Hnx', Hlc'. rewrite Nat.add_0_r in *.
    rewrite Hmax in *. fold K in Htr', Hrq', Hnx', Hlc'.
    replace (Nat.max K (exlen (d_trace x))) with K in * by lia.
    assert (Hfr2 : joined_tail (d_trace d) (d_trace x) = jts K (exlen (d_trace x)) o1 (tail_sender (d_trace x))).
    { unfold joined_tail, jts. rewrite Hmax, Htd. reflexivity. }
    rewrite Hfr2 in *.
    assert (He2 : frontier_at F p K (jts K (exlen (d_trace x)) o1 (tail_sender (d_trace x))) (d_lcid d + 1) = (fst (fst e1), None, [])).
    { destruct o1 as [sd|].
      - rewrite jts_prev_wins by exact Hxk. cbn [opt_front] in Ho1. rewrite Ho1.
        exact (frontier_idem_some F p K _ _ _ sd Ho1).
      - cbn [opt_front] in Ho1. rewrite Ho1.
        destruct (frontier_idem_none F p K _ _ Ho1) as [Hall | (Hj & Hnone)]; [apply Hall|].
        rewrite jts_prev_none; [apply Hnone|].
        destruct (Nat.eq_dec (exlen (d_trace x)) K) as [Ek|Ek]; [right; apply Hxt; auto | left; lia]. }
    rewrite He2 in *. cbn [fst snd] in *.
    destruct reqs'; [|discriminate]. subst next'.
    exists code', d', signed'. split; [exact Erun'|]. split; [rewrite Htr', Htr; reflexivity | exact Hlc'].
  Qed.
End Net.

(* ------------------------------------------------------------------------------------------ *)
(* the full trace is the sequential reading *)
Section Reading.
  Variable svc : string -> string -> string -> list json -> service_answer.
  Variable init : string.
  Variable ts ttl : N.
  Notation nlin := (nlin svc init ts ttl).
  Notation sread := (seq_eval (svc_answer svc) everything_known init ts ttl).

  Lemma resolve_peer_target : forall vs pa q, target_of init pa = Some q -> SeqSem.resolve_peer init (nenv vs) pa = ROk q.
  Proof. intros vs pa q H. destruct pa; simpl in *; try discriminate; inversion H; reflexivity. Qed.

  Lemma nenv_eta : forall e, iters e = [] -> e = nenv (vars e).
  Proof. intros [v i] H. simpl in H. subst. reflexivity. Qed.

  Lemma reading_full : forall f me fr id i vs cs e st,
      nlinear init i = true -> no_uninit vs -> sread f (nenv vs) i = Out cs e st ->
      exists F, nlin me f None fr id vs i = Some F /\ o_calls F = cs /\ o_st F = st /\ o_vars F = vars e /\
                iters e = [] /\ no_uninit (vars e) /\ st <> AtEnd.
  Proof.
    induction f as [|f IH]; intros me fr id i vs cs e st L Hnu H; [discriminate|].
    destruct i; simpl in L; try discriminate; simpl in H.
    - (* call *)
      apply andb_prop in L. destruct L as [L123 Lo]. apply andb_prop in L123. destruct L123 as [L12 La].
      apply andb_prop in L12. destruct L12 as [Lp Lsf].
      destruct (target_of init (t_peer t)) as [q|] eqn:Et; try discriminate.
      destruct (t_service t) as [s| | | |] eqn:Es; try discriminate.
      destruct (t_function t) as [fn| | | |] eqn:Ef; try discriminate.
      rewrite (resolve_peer_target vs _ _ Et) in H. cbn [early resolve_str] in H.
      simpl nlin. rewrite Et, Es, Ef. unfold ncall.
      pose proof (resolve_args_lin init ts ttl vs args Hnu La) as Hra.
      change (senv vs) with (nenv vs) in Hra.
      destruct (SeqSem.resolve_args init ts ttl (nenv vs) args) as [js| | |] eqn:Er; cbn [early] in H; try discriminate; try contradiction.
      + cbn [everything_known negb] in H. unfold svc_answer, to_answer in H. cbn [an_code an_value] in H.
        eexists. split; [reflexivity|]. cbn [o_calls o_st o_vars]. unfold nl_status, nl_bind, nl_value.
        destruct (negb (sa_ret_code (svc q s fn js) =? 0)%Z) eqn:Ec.
        * inversion H; subst. cbn. repeat split; auto; discriminate.
        * destruct (sa_parsed (svc q s fn js)) as [r|] eqn:Epar.
          -- destruct out as [v|v|]; try discriminate; inversion H; subst; cbn; repeat split; auto; try discriminate.
             apply no_uninit_set_var. exact Hnu.
          -- inversion H; subst. cbn. repeat split; auto; discriminate.
      + inversion H; subst. eexists. split; [reflexivity|]. cbn. repeat split; auto; discriminate.
    - (* ap *)
      destruct r as [v|v]; try discriminate.
      pose proof (resolve_ap_lin init ts ttl vs a Hnu L) as Va. change (senv vs) with (nenv vs) in Va.
      simpl nlin.
      destruct (SeqSem.resolve_ap init ts ttl (nenv vs) a) as [j| | |] eqn:Ea; try contradiction; cbn [early] in H.
      + inversion H; subst. eexists. split; [reflexivity|]. cbn. repeat split; auto; try discriminate.
        apply no_uninit_set_var. exact Hnu.
      + inversion H; subst. eexists. split; [reflexivity|]. cbn. repeat split; auto; discriminate.
    - (* seq *)
      apply andb_prop in L. destruct L as [La Lb].
      destruct (sread f (nenv vs) i1) as [csa ea sta| |] eqn:Ea; cbn [andthen] in H; try discriminate.
      destruct (IH me fr id _ _ _ _ _ La Hnu Ea) as (Fa & EFa & A1 & A2 & A3 & Hia & Hnua & Nata).
      simpl nlin. rewrite EFa, A2.
      pose proof (nlin_facts _ _ _ _ _ _ _ _ _ _ _ _ EFa) as (_ & _ & _ & _ & _ & FA6 & _).
      destruct sta; try congruence.
      + (* the second part runs *)
        rewrite (nenv_eta ea Hia) in H.
        destruct (sread f (nenv (vars ea)) i2) as [csb eb stb| |] eqn:Eb; cbn [more] in H; try discriminate.
        inversion H; subst. rewrite (FA6 eq_refl), A3.
        destruct (IH me fr id _ _ _ _ _ Lb Hnua Eb) as (Fb & EFb & B1 & B2 & B3 & Hib & Hnub & Natb).
        rewrite EFb. eexists. split; [reflexivity|]. cbn [o_calls o_st o_vars].
        assert (Hn' : normalize stb = stb) by (destruct stb; auto; congruence). rewrite Hn', B1, B2, B3. repeat split; auto.
      + inversion H; subst. exists Fa. repeat split; auto.
      + inversion H; subst. exists Fa. repeat split; auto.
    - (* xor *)
      apply andb_prop in L. destruct L as [La Lb].
      destruct (sread f (nenv vs) i1) as [csa ea sta| |] eqn:Ea; cbn [andthen] in H; try discriminate.
      destruct (IH me fr id _ _ _ _ _ La Hnu Ea) as (Fa & EFa & A1 & A2 & A3 & Hia & Hnua & Nata).
      simpl nlin. rewrite EFa, A2.
      pose proof (nlin_facts _ _ _ _ _ _ _ _ _ _ _ _ EFa) as (_ & _ & _ & _ & _ & FA6 & _).
      destruct sta; try congruence.
      + inversion H; subst. exists Fa. repeat split; auto.
      + inversion H; subst. exists Fa. repeat split; auto.
      + rewrite (nenv_eta ea Hia) in H.
        destruct (sread f (nenv (vars ea)) i2) as [csb eb stb| |] eqn:Eb; cbn [more] in H; try discriminate.
        inversion H; subst. rewrite (FA6 eq_refl), A3.
        destruct (IH me fr id _ _ _ _ _ Lb Hnua Eb) as (Fb & EFb & B1 & B2 & B3 & Hib & Hnub & Natb).
        rewrite EFb. eexists. split; [reflexivity|]. cbn [o_calls o_st o_vars].
        assert (Hn' : normalize stb = stb) by (destruct stb; auto; congruence). rewrite Hn', B1, B2, B3. repeat split; auto.
    - (* match *)
      apply andb_prop in L. destruct L as [L12 Lb]. apply andb_prop in L12. destruct L12 as [Ll Lr].
      pose proof (resolve_value_lin init ts ttl vs l Hnu Ll) as Vl. pose proof (resolve_value_lin init ts ttl vs r Hnu Lr) as Vr.
      change (senv vs) with (nenv vs) in Vl, Vr. simpl nlin.
      destruct (SeqSem.resolve_value init ts ttl (nenv vs) l) as [lv| | |] eqn:El; try contradiction; cbn [early] in H.
      2: { inversion H; subst. eexists. split; [reflexivity|]. cbn. repeat split; auto; discriminate. }
      destruct (SeqSem.resolve_value init ts ttl (nenv vs) r) as [rv| | |] eqn:Er; try contradiction; cbn [early] in H.
      2: { inversion H; subst. eexists. split; [reflexivity|]. cbn. repeat split; auto; discriminate. }
      destruct (Bool.eqb (json_eqb lv rv) true) eqn:Eq.
      + destruct (sread f (nenv vs) i) as [csb eb stb| |] eqn:Eb; cbn [more] in H; try discriminate.
        inversion H; subst. destruct (IH me fr id _ _ _ _ _ Lb Hnu Eb) as (Fb & EFb & B1 & B2 & B3 & Hib & Hnub & Natb).
        assert (Hn' : normalize stb = stb) by (destruct stb; auto; congruence). rewrite Hn'.
        exists Fb. repeat split; auto.
      + inversion H; subst. eexists. split; [reflexivity|]. cbn. repeat split; auto; discriminate.
    - (* mismatch *)
      apply andb_prop in L. destruct L as [L12 Lb]. apply andb_prop in L12. destruct L12 as [Ll Lr].
      pose proof (resolve_value_lin init ts ttl vs l Hnu Ll) as Vl. pose proof (resolve_value_lin init ts ttl vs r Hnu Lr) as Vr.
      change (senv vs) with (nenv vs) in Vl, Vr. simpl nlin.
      destruct (SeqSem.resolve_value init ts ttl (nenv vs) l) as [lv| | |] eqn:El; try contradiction; cbn [early] in H.
      2: { inversion H; subst. eexists. split; [reflexivity|]. cbn. repeat split; auto; discriminate. }
      destruct (SeqSem.resolve_value init ts ttl (nenv vs) r) as [rv| | |] eqn:Er; try contradiction; cbn [early] in H.
      2: { inversion H; subst. eexists. split; [reflexivity|]. cbn. repeat split; auto; discriminate. }
      destruct (Bool.eqb (json_eqb lv rv) false) eqn:Eq.
      + destruct (sread f (nenv vs) i) as [csb eb stb| |] eqn:Eb; cbn [more] in H; try discriminate.
        inversion H; subst. destruct (IH me fr id _ _ _ _ _ Lb Hnu Eb) as (Fb & EFb & B1 & B2 & B3 & Hib & Hnub & Natb).
        assert (Hn' : normalize stb = stb) by (destruct stb; auto; congruence). rewrite Hn'.
        exists Fb. repeat split; auto.
      + inversion H; subst. eexists. split; [reflexivity|]. cbn. repeat split; auto; discriminate.
    - destruct f0; try discriminate. inversion H; subst. eexists. split; [reflexivity|]. cbn. repeat split; auto; discriminate.
    - inversion H; subst. eexists. split; [reflexivity|]. cbn. repeat split; auto; discriminate.
    - inversion H; subst. eexists. split; [reflexivity|]. cbn. repeat split; auto; discriminate.
  Qed.

  Theorem reading_has_full : reading_has_full_stmt svc init ts ttl.
  Proof.
    intros s fuel cs e st L H.
    assert (Hnu : no_uninit []) by (intros m; simpl; discriminate).
    destruct (reading_full fuel init None 0 s [] cs e st L Hnu H) as (F & EF & A1 & A2 & _).
    exists F. auto.
  Qed.
End Reading.

(* ------------------------------------------------------------------------------------------ *)
(* the theorems *)
Section Theorems.
  Variable svc : string -> string -> string -> list json -> service_answer.
  Variable init : string.
  Variable ts ttl : N.
  Variable runf : nat -> run_input -> RunExec.outcome.
  Hypothesis Hstep : step_two_data_with svc init ts ttl runf.

  Lemma net_invariant_gen : net_invariant_with svc init ts ttl runf.
  Proof.
    intros s fuel F peers ops Hc L Hn HF Hlen.
    exact (history_inv svc init ts ttl runf Hstep Hc s fuel F L Hn HF Hlen peers ops).
  Qed.

  Lemma inv_of_premises : forall s fuel F peers ops,
      lin_premises svc init ts ttl s fuel F -> net_inv F (history_with svc init ts ttl runf fuel s peers ops).
  Proof. intros s fuel F peers ops (Hc & L & Hn & HF & Hlen). apply net_invariant_gen; assumption. Qed.

  Lemma no_consistency_error_gen : lin_no_consistency_error svc init ts ttl runf.
  Proof.
    intros s fuel F peers ops o out HP Hout. pose proof HP as (Hc & L & Hn & HF & Hlen).
    pose proof (inv_of_premises s fuel F peers ops HP) as HI.
    set (n := history_with svc init ts ttl runf fuel s peers ops) in *.
    pose proof HI as (Hlog & HE & Hhosts & Hfly).
    unfold op_outcome in Hout.
    destruct (op_run svc init n o) as [[[[p cur] rs] answered]|] eqn:Eop; try discriminate.
    destruct (assoc (n_hosts n) p) as [h|] eqn:Eh; try discriminate. inversion Hout; subst out. clear Hout.
    assert (Hplain : approx F cur -> (exlen (d_trace cur) <= length (n_log n))%nat -> rs = [] ->
              exists code d next reqs signed,
                runf fuel {| ri_script := s; ri_params := nparams init ts ttl p; ri_prev := h_prev h; ri_cur := cur; ri_results := rs |}
                = OutNewData code d next reqs signed /\ code_is_consistency_error code = false).
    { intros Hac Hex ->.
      destruct (step_plain svc init ts ttl runf Hstep Hc s fuel F L Hn HF Hlen p h cur _ (Hhosts p h Eh) Hac Hex HE)
        as (code & d & next & reqs & signed & Erun & Hcode & _).
      exists code, d, next, reqs, signed. auto. }
    destruct o as [| k keep | k | p0 ids]; cbn [op_run] in Eop.
    - inversion Eop; subst. apply Hplain; [apply approx_empty; assumption | cbn; lia | reflexivity].
    - destruct (nth_error (n_inflight n) k) as [[q d]|] eqn:Ek; try discriminate. inversion Eop; subst.
      destruct (Hfly p cur (or_introl (nth_error_In _ _ Ek))) as [Hap Hex]. apply Hplain; auto.
    - destruct (nth_error (n_delivered n) k) as [[q d]|] eqn:Ek; try discriminate. inversion Eop; subst.
      destruct (Hfly p cur (or_intror (nth_error_In _ _ Ek))) as [Hap Hex]. apply Hplain; auto.
    - destruct (assoc (n_hosts n) p0) as [h0|] eqn:Eh0; try discriminate.
      destruct (filter (fun r => existsb (N.eqb (fst r)) ids) (h_pending h0)) as [|r0 rest] eqn:Ef; try discriminate.
      assert (Epp : p = p0) by (inversion Eop; reflexivity). subst p0.
      rewrite Eh in Eh0. inversion Eh0; subst h0. clear Eh0.
      pose proof (Hhosts p h Eh) as HIh.
      assert (Hp : exists id rq, h_pending h = [(id, rq)] /\ r0 :: rest = [(id, rq)]).
      { destruct HIh as (_ & _ & _ & Hpend & _).
        destruct Hpend as [Hp | (id0 & rq0 & c0 & Hp & _)]; rewrite Hp in Ef; cbn in Ef; [discriminate|].
        exists id0, rq0. split; [exact Hp|]. destruct (existsb (N.eqb id0) ids); [symmetry; exact Ef | discriminate]. }
      destruct Hp as (id & rq & Hp & Hr). rewrite Hr in Eop. cbn [map] in Eop. inversion Eop; subst cur rs answered.
      destruct (step_answer svc init ts ttl runf Hstep Hc s fuel F L Hn HF Hlen p h id rq _ HIh Hp HE)
        as (code & d & next & reqs & signed & Erun & Hcode & _).
      exists code, d, next, reqs, signed. auto.
  Qed.

  Lemma log_is_prefix_gen : lin_log_is_prefix svc init ts ttl runf.
  Proof. intros s fuel F peers ops HP. exact (proj1 (inv_of_premises s fuel F peers ops HP)). Qed.

  Lemma pending_is_next_gen : lin_pending_is_next svc init ts ttl runf.
  Proof.
    intros s fuel F peers ops p h id rq HP n Hh Hin.
    pose proof (inv_of_premises s fuel F peers ops HP) as (_ & _ & Hhosts & _). fold n in Hhosts.
    destruct (Hhosts p h Hh) as (_ & _ & _ & Hpend & _).
    destruct Hpend as [Hp | (id0 & rq0 & c0 & Hp & _ & Hnth & Hc0)]; rewrite Hp in Hin; [destruct Hin|].
    destruct Hin as [Hin|[]]. inversion Hin; subst id0 rq0.
    split; [exact Hp|]. split; [rewrite Hc0; exact Hnth | reflexivity].
  Qed.
End Theorems.

Lemma run1_step : forall svc init ts ttl, step_two_data_with svc init ts ttl run1.
Proof. intros. exact (proj1 (step_two_data svc init ts ttl)). Qed.
Lemma run2_step : forall svc init ts ttl, step_two_data_with svc init ts ttl run2.
Proof. intros. exact (proj2 (step_two_data svc init ts ttl)). Qed.

Theorem net_invariant : forall svc init ts ttl, net_invariant_stmt svc init ts ttl.
Proof. intros. split; apply net_invariant_gen; [apply run1_step | apply run2_step]. Qed.

Theorem history_is_seqlocal : forall svc init ts ttl, history_is_seqlocal_stmt svc init ts ttl.
Proof.
  intros svc init ts ttl fuel s peers ops. unfold history_with, history.
  assert (E : forall n o, net_step_with svc init ts ttl run1 fuel s n o = net_step svc ts ttl fuel s init n o).
  { intros n o. destruct o; reflexivity. }
  generalize (net_init peers). induction ops as [|o ops IH]; intros n; [reflexivity|]. cbn [fold_left]. rewrite E. apply IH.
Qed.

Lemma call_eqb_refl : forall c, call_eqb c c = true.
Proof. intros c. unfold call_eqb. rewrite !String.eqb_refl, list_json_eqb_refl. reflexivity. Qed.

Lemma sub_multiset_firstn : forall l n, sub_multiset (firstn n l) l = true.
Proof.
  induction l as [|x l IH]; intros n; destruct n; simpl; try reflexivity.
  rewrite call_eqb_refl. apply IH.
Qed.

Theorem C16_full_linear : forall svc init ts ttl, C16_full_linear_stmt svc init ts ttl.
Proof.
  intros svc init ts ttl s peers ops fuel cs e st Hc L Hn Hread Hlen.
  destruct (reading_has_full svc init ts ttl s fuel cs e st L Hread) as (F & HF & Hcs & _).
  rewrite <- (history_is_seqlocal svc init ts ttl fuel s peers ops).
  assert (HP : lin_premises svc init ts ttl s fuel F).
  { split; [exact Hc|]. split; [exact L|]. split; [exact Hn|]. split; [exact HF|]. rewrite Hcs. exact Hlen. }
  pose proof (log_is_prefix_gen svc init ts ttl run1 (run1_step svc init ts ttl) s fuel F peers ops HP) as Hlog.
  cbv zeta in Hlog. rewrite Hcs in Hlog. split; [exact Hlog|]. rewrite Hlog. apply sub_multiset_firstn.
Qed.

Section Theorems2.
  Variable svc : string -> string -> string -> list json -> service_answer.
  Variable init : string.
  Variable ts ttl : N.
  Variable runf : nat -> run_input -> RunExec.outcome.
  Hypothesis Hstep : step_two_data_with svc init ts ttl runf.

  Lemma nothing_forgotten_gen : lin_nothing_forgotten svc init ts ttl runf.
  Proof.
    intros s fuel F peers ops o p h h' HP n Hh Hh'. pose proof HP as (Hc & L & Hn & HF & Hlen).
    pose proof (inv_of_premises svc init ts ttl runf Hstep s fuel F peers ops HP) as HI. fold n in HI.
    pose proof (net_step_inv svc init ts ttl runf Hstep Hc s fuel F L Hn HF Hlen n o HI) as HI'.
    pose proof HI as (_ & _ & Hhosts & _). pose proof HI' as (_ & _ & Hhosts' & _).
    destruct (Hhosts p h Hh) as (Hap & _). destruct (Hhosts' p h' Hh') as (Hap' & _).
    exists (exlen (d_trace (h_prev h))), (exlen (d_trace (h_prev h'))). split.
    - exact (net_step_mono svc init ts ttl runf Hstep Hc s fuel F L Hn HF Hlen n o p h h' HI Hh Hh').
    - split; symmetry; eapply approx_filter; eauto.
  Qed.

  Lemma redelivery_gen : lin_redelivery_changes_nothing svc init ts ttl runf.
  Proof.
    intros s fuel F peers ops p h cur HP n Hh code d next reqs signed Hac Hex Hrun x Hx.
    pose proof HP as (Hc & L & Hn & HF & Hlen).
    pose proof (inv_of_premises svc init ts ttl runf Hstep s fuel F peers ops HP) as HI. fold n in HI.
    pose proof HI as (_ & HE & Hhosts & _).
    exact (redelivery svc init ts ttl runf Hstep Hc s fuel F L Hn HF Hlen p h cur _ (Hhosts p h Hh) Hac Hex HE
                      code d next reqs signed Hrun x Hx).
  Qed.
End Theorems2.

(* the converse: where the full trace is defined, the sequential reading is, with the same calls and status *)
Section Reading2.
  Variable svc : string -> string -> string -> list json -> service_answer.
  Variable init : string.
  Variable ts ttl : N.
  Notation nlin := (nlin svc init ts ttl).
  Notation sread := (seq_eval (svc_answer svc) everything_known init ts ttl).

  Lemma full_reading_defined : forall f me fr id i vs F,
      nlin me f None fr id vs i = Some F -> nlinear init i = true -> no_uninit vs ->
      exists cs e st, sread f (nenv vs) i = Out cs e st.
  Proof.
    induction f as [|f IH]; intros me fr id i vs F H L Hnu; [discriminate|].
    destruct i; simpl in L; try discriminate; simpl in H; simpl seq_eval.
    - (* call *)
      apply andb_prop in L. destruct L as [L123 Lo]. apply andb_prop in L123. destruct L123 as [L12 La].
      destruct (target_of init (t_peer t)) as [q|] eqn:Et; try discriminate.
      destruct (t_service t) as [s| | | |] eqn:Es; try discriminate.
      destruct (t_function t) as [fn| | | |] eqn:Ef; try discriminate.
      rewrite (resolve_peer_target init vs _ _ Et). cbn [early resolve_str].
      unfold ncall in H. destruct (SeqSem.resolve_args init ts ttl (nenv vs) args) as [js| | |]; try discriminate; cbn [early].
      + cbn [everything_known negb]. unfold svc_answer, to_answer. cbn [an_code an_value].
        destruct (negb (sa_ret_code (svc q s fn js) =? 0)%Z); [eauto|].
        destruct (sa_parsed (svc q s fn js)); [|eauto]. destruct out; try discriminate; eauto.
      + eauto.
    - (* ap *)
      destruct r as [v|v]; try discriminate.
      destruct (SeqSem.resolve_ap init ts ttl (nenv vs) a) as [j| | |]; try discriminate; cbn [early]; eauto.
    - (* seq *)
      apply andb_prop in L. destruct L as [La Lb].
      destruct (nlin me f None fr id vs i1) as [Fa|] eqn:Ea; try discriminate.
      destruct (IH _ _ _ _ _ _ Ea La Hnu) as (csa & ea & sta & Esa). rewrite Esa. cbn [andthen].
      destruct (reading_full svc init ts ttl f me fr id i1 vs csa ea sta La Hnu Esa) as (Fa' & EFa & A1 & A2 & A3 & Hia & Hnua & Nata).
      rewrite Ea in EFa. inversion EFa; subst Fa'. clear EFa.
      pose proof (nlin_facts _ _ _ _ _ _ _ _ _ _ _ _ Ea) as (_ & _ & _ & _ & _ & FA6 & _).
      rewrite A2 in H. destruct sta; try congruence; eauto.
      rewrite (FA6 eq_refl), A3 in H. unfold nthen in H.
      destruct (nlin me f None fr id (vars ea) i2) as [Fb|] eqn:Eb; try discriminate.
      rewrite (nenv_eta ea Hia). destruct (IH _ _ _ _ _ _ Eb Lb Hnua) as (csb & eb & stb & Esb). rewrite Esb. cbn [more]. eauto.
    - (* xor *)
      apply andb_prop in L. destruct L as [La Lb].
      destruct (nlin me f None fr id vs i1) as [Fa|] eqn:Ea; try discriminate.
      destruct (IH _ _ _ _ _ _ Ea La Hnu) as (csa & ea & sta & Esa). rewrite Esa. cbn [andthen].
      destruct (reading_full svc init ts ttl f me fr id i1 vs csa ea sta La Hnu Esa) as (Fa' & EFa & A1 & A2 & A3 & Hia & Hnua & Nata).
      rewrite Ea in EFa. inversion EFa; subst Fa'. clear EFa.
      pose proof (nlin_facts _ _ _ _ _ _ _ _ _ _ _ _ Ea) as (_ & _ & _ & _ & _ & FA6 & _).
      rewrite A2 in H. destruct sta; try congruence; eauto.
      rewrite (FA6 eq_refl), A3 in H. unfold nthen in H.
      destruct (nlin me f None fr id (vars ea) i2) as [Fb|] eqn:Eb; try discriminate.
      rewrite (nenv_eta ea Hia). destruct (IH _ _ _ _ _ _ Eb Lb Hnua) as (csb & eb & stb & Esb). rewrite Esb. cbn [more]. eauto.
    - (* match *)
      apply andb_prop in L. destruct L as [L12 Lb].
      destruct (SeqSem.resolve_value init ts ttl (nenv vs) l) as [lv| | |]; try discriminate; cbn [early]; [|eauto].
      destruct (SeqSem.resolve_value init ts ttl (nenv vs) r) as [rv| | |]; try discriminate; cbn [early]; [|eauto].
      destruct (Bool.eqb (json_eqb lv rv) true); [|eauto].
      destruct (IH _ _ _ _ _ _ H Lb Hnu) as (csb & eb & stb & Esb). rewrite Esb. cbn [more]. eauto.
    - (* mismatch *)
      apply andb_prop in L. destruct L as [L12 Lb].
      destruct (SeqSem.resolve_value init ts ttl (nenv vs) l) as [lv| | |]; try discriminate; cbn [early]; [|eauto].
      destruct (SeqSem.resolve_value init ts ttl (nenv vs) r) as [rv| | |]; try discriminate; cbn [early]; [|eauto].
      destruct (Bool.eqb (json_eqb lv rv) false); [|eauto].
      destruct (IH _ _ _ _ _ _ H Lb Hnu) as (csb & eb & stb & Esb). rewrite Esb. cbn [more]. eauto.
    - destruct f0; try discriminate. eauto.
    - eauto.
    - eauto.
  Qed.

  Theorem full_is_reading : full_is_reading_stmt svc init ts ttl.
  Proof.
    intros s fuel F L HF. unfold full_trace in HF.
    assert (Hnu : no_uninit []) by (intros m; simpl; discriminate).
    destruct (full_reading_defined fuel init None 0 s [] F HF L Hnu) as (cs & e & st & Es).
    destruct (reading_full svc init ts ttl fuel init None 0 s [] cs e st L Hnu Es) as (F' & EF & A1 & A2 & _).
    rewrite HF in EF. inversion EF; subst F'. exists e. split.
    - unfold empty_env. change {| vars := []; iters := [] |} with (nenv []). rewrite Es, A1, A2. reflexivity.
    - exact (proj1 (nlin_facts _ _ _ _ _ _ _ _ _ _ _ _ HF)).
  Qed.
End Reading2.
