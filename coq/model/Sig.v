(* Sig.v -- symbolic signatures, per-peer CID multisets and the DataVerifier.

   Mirrors:
     crates/air-lib/interpreter-signatures/src/trackers.rs    sign_cids
     crates/air-lib/interpreter-signatures/src/lib.rs         PublicKey::verify, PublicKey::validate
     crates/air-lib/interpreter-signatures/src/stores.rs      SignatureStore (a HashMap)
     crates/air-lib/interpreter-data/src/interpreter_data/verification.rs
                                                              DataVerifier::{new, verify, merge}, collect_peers_cids_from_trace,
                                                              try_push_cid, check_cid_multiset_invariant, to_count_map, is_multisubset
     air/src/verification_step.rs                             verify

   Peers, public keys and CIDs are strings.  A validated public key is identified with the peer id
   it maps to (PublicKey::to_peer_id is injective on validated keys: ASSUMPTIONS of checks/C15.py);
   therefore PeerInfo.public_key is not stored a second time: it is the key of the map.

   Signatures are symbolic: a signature is the term [Sig signer message_cids salt]; verification
   compares terms.  This IS the assumption "Ed25519 is unforgeable and the borsh encoding of
   (cids, salt) is injective".

   Every Rust HashMap is an association list without repeated keys; every iteration over a
   HashMap takes an explicit order argument (see [iterate]): proofs/SigProofs.v shows that the
   verdict does not depend on any of them.

   Definitions only (proofs are in proofs/SigProofs.v). *)
From Aqua Require Import Base RunTop.
Open Scope N_scope.

(* ------------------------------------------------------------------------------------------ *)
(* Ord for str (what Vec<Rc<CidRef>>::sort_unstable uses): byte-wise lexicographic              *)
Definition cid_leb (a b : string) : bool := String.leb a b.

(* slice::sort_unstable.  Equal strings are indistinguishable, so every sorting algorithm yields the
   same list; insertion sort is the simplest one. *)
Fixpoint insert_sorted (x : string) (l : list string) : list string :=
  match l with
  | [] => [x]
  | y :: ys => if cid_leb x y then x :: l else y :: insert_sorted x ys
  end.
Fixpoint sort_cids (l : list string) : list string :=
  match l with
  | [] => []
  | x :: xs => insert_sorted x (sort_cids xs)
  end.

(* ------------------------------------------------------------------------------------------ *)
(* multisets over lists: count based                                                            *)
Fixpoint count (c : string) (l : list string) : N :=
  match l with
  | [] => 0
  | x :: r => (if String.eqb c x then 1 else 0) + count c r
  end.
(* Vec::len *)
Fixpoint lenN (l : list string) : N :=
  match l with
  | [] => 0
  | _ :: r => N.succ (lenN r)
  end.

(* multiset inclusion, the property's "contains" *)
Definition msub (a b : list string) : Prop := forall c, count c a <= count c b.
Definition meq (a b : list string) : Prop := forall c, count c a = count c b.
Definition incomparable (a b : list string) : Prop := ~ msub a b /\ ~ msub b a.
(* executable versions (used by the oracles; proved equivalent in SigProofs.v) *)
Definition msubb (a b : list string) : bool := forallb (fun c => count c a <=? count c b) a.
Definition incomparableb (a b : list string) : bool := negb (msubb a b) && negb (msubb b a).
(* the larger of two result lists the way the code decides it: the second one only when strictly longer *)
Definition larger_of (a b : list string) : list string := if lenN a <? lenN b then b else a.

(* ------------------------------------------------------------------------------------------ *)
(* symbolic signatures                                                                          *)
Inductive sig :=
| Sig (signer : string) (cids : list string) (salt : string)    (* signer's key over borsh(SaltedData(cids, salt)) *)
| GarbageSig (n : N).                                            (* any other byte string *)

Definition sig_eqb (a b : sig) : bool :=
  match a, b with
  | Sig p c s, Sig p' c' s' => String.eqb p p' && list_eqb String.eqb c c' && String.eqb s s'
  | GarbageSig n, GarbageSig m => n =? m
  | _, _ => false
  end.

(* trackers.rs: sign_cids -- sorts, then signs borsh((cids, salt)) *)
Definition sign_cids (signer : string) (cids : list string) (salt : string) : sig :=
  Sig signer (sort_cids cids) salt.

(* lib.rs: PublicKey::verify -- the message is serialised AS GIVEN (the caller has sorted it).
   InvalidKey / InvalidSignature / Verification all end in the same `Err`. *)
Definition pk_verify (pk : string) (cids : list string) (salt : string) (s : sig) : bool :=
  sig_eqb s (Sig pk cids salt).

(* what DataVerifier checks for a peer whose collected CIDs are [cids]: new sorts, verify verifies *)
Definition sig_verify (pk : string) (cids : list string) (salt : string) (s : sig) : bool :=
  pk_verify pk (sort_cids cids) salt s.

(* ------------------------------------------------------------------------------------------ *)
(* HashMap<string, V> as an association list; no key twice                                      *)
Section Maps.
  Context {V : Type}.
  Definition amap := list (string * V).

  (* HashMap::get *)
  Fixpoint map_get (k : string) (m : amap) : option V :=
    match m with
    | [] => None
    | (k', v) :: r => if String.eqb k k' then Some v else map_get k r
    end.

  (* HashMap::insert (and assignment through get_mut / Entry): replace, or add a new entry *)
  Fixpoint map_insert (k : string) (v : V) (m : amap) : amap :=
    match m with
    | [] => [(k, v)]
    | (k', v') :: r => if String.eqb k k' then (k, v) :: r else (k', v') :: map_insert k v r
    end.

  (* take the entry of key k out of the list *)
  Fixpoint map_extract (k : string) (m : amap) : option (V * amap) :=
    match m with
    | [] => None
    | (k', v) :: r =>
        if String.eqb k k' then Some (v, r)
        else match map_extract k r with
             | Some (w, r') => Some (w, (k', v) :: r')
             | None => None
             end
    end.

  (* Iteration order of a HashMap.  [ord] is an arbitrary list of keys: the entries whose keys are
     listed come first, in the listed order, the remaining ones follow.  Whatever [ord] is, the
     result is a permutation of m, and every permutation of m is reached by some [ord]
     (SigProofs.iterate_perm, iterate_reaches). *)
  Fixpoint iterate (ord : list string) (m : amap) : amap :=
    match ord with
    | [] => m
    | k :: ord' =>
        match map_extract k m with
        | Some (v, m') => (k, v) :: iterate ord' m'
        | None => iterate ord' m
        end
    end.

  Definition keys (m : amap) : list string := map fst m.
End Maps.
Arguments amap V : clear implicits.

Definition get0 (c : string) (m : amap N) : N := match map_get c m with Some n => n | None => 0 end.

(* ------------------------------------------------------------------------------------------ *)
(* the data this component looks at                                                             *)
Record data := MkData {
  (* what collect_peers_cids_from_trace reads off the trace, in trace order: for every
     Call Executed/Failed state with a service-result CID and every executed Canon state the pair
     (peer_pk of the stored tetraplet, the CID).  The trace and the CID stores are modelled elsewhere. *)
  d_trace : list (string * string);
  (* InterpreterData.signatures : SignatureStore = HashMap<PublicKey, Signature> *)
  d_sigs : amap sig
}.
(* a HashMap holds a key once *)
Definition wf_data (d : data) : Prop := NoDup (keys (d_sigs d)).

(* the CIDs the trace attributes to peer p, in trace order: the property's per-peer result multiset *)
Definition peer_cids (p : string) (tr : list (string * string)) : list string :=
  map snd (filter (fun e => String.eqb (fst e) p) tr).
Definition Mof (d : data) (p : string) : list string := peer_cids p (d_trace d).

(* DataVerifierError, declaration order of interpreter_data/errors.rs *)
Inductive dv_err :=
| MalformedKey (key : string)
| MalformedSignature                 (* declared in the source, constructed nowhere *)
| PeerIdNotFound (peer : string)
| SignatureMismatch (peer : string)
| MergeMismatch (peer : string)
| CidNotFound.                       (* since the fix of collect_peers_cids_from_trace: a trace CID absent from the store
                                        (raised while the per-peer CID lists are collected, i.e. before this model starts) *)

Definition dv_err_name (e : dv_err) : string :=
  match e with
  | MalformedKey _ => "MalformedKey" | MalformedSignature => "MalformedSignature"
  | PeerIdNotFound _ => "PeerIdNotFound" | SignatureMismatch _ => "SignatureMismatch"
  | MergeMismatch _ => "MergeMismatch" | CidNotFound => "CidNotFound"
  end%string.
Definition dv_err_subject (e : dv_err) : string :=
  match e with
  | MalformedKey k => k | MalformedSignature => ""%string
  | PeerIdNotFound p => p | SignatureMismatch p => p | MergeMismatch p => p
  | CidNotFound => ""%string
  end.
Definition all_dv_err_names : list string :=
  ["MalformedKey"; "MalformedSignature"; "PeerIdNotFound"; "SignatureMismatch"; "MergeMismatch"; "CidNotFound"]%string.

Inductive dres (A : Type) := DOk (a : A) | DErr (e : dv_err).
Arguments DOk {A} a. Arguments DErr {A} e.

(* verification.rs: PeerInfo (public_key is the key of the map, see the header) *)
Record peer_info := MkInfo { pi_sig : sig; pi_cids : list string }.

(* the DataVerifier: grouped_cids; the salt is passed separately *)
Definition verifier := amap peer_info.

(* the iteration orders of one run of verification_step::verify *)
Record orders := MkOrders {
  o_new_prev : list string;        (* data.signatures.iter() in DataVerifier::new(prev_data): both loops walk the same unmodified map *)
  o_new_cur : list string;         (* the same for current_data *)
  o_verify : list string;          (* grouped_cids.values() in verify *)
  o_merge : list string;           (* `for .. in other.grouped_cids` in merge *)
  o_store : list string;           (* self.grouped_cids.into_values() in merge *)
  o_sub : string -> list string    (* `for .. in &smaller_count_set` in is_multisubset, per peer *)
}.
Definition id_orders : orders :=
  {| o_new_prev := []; o_new_cur := []; o_verify := []; o_merge := []; o_store := []; o_sub := fun _ => [] |}.

Section Verifier.
  (* PublicKey::validate: the bytes decode to a key of a whitelisted algorithm (Ed25519) *)
  Variable key_ok : string -> bool.

  (* verification.rs: try_push_cid *)
  Definition try_push_cid (g : verifier) (peer cid : string) : dres verifier :=
    match map_get peer g with
    | Some pi => DOk (map_insert peer {| pi_sig := pi_sig pi; pi_cids := pi_cids pi ++ [cid] |} g)   (* peer_info.cids.push *)
    | None => DErr (PeerIdNotFound peer)
    end.

  (* verification.rs: collect_peers_cids_from_trace (its reading of the trace is the input [tr]) *)
  Fixpoint collect_peers_cids_from_trace (tr : list (string * string)) (g : verifier) : dres verifier :=
    match tr with
    | [] => DOk g
    | (p, c) :: r =>
        match try_push_cid g p c with
        | DOk g' => collect_peers_cids_from_trace r g'
        | DErr e => DErr e
        end
    end.

  (* verification.rs: DataVerifier::new *)
  Definition dv_new (ord : list string) (d : data) : dres verifier :=
    let it := iterate ord (d_sigs d) in
    (* validate key algorithms *)
    match find (fun e => negb (key_ok (fst e))) it with
    | Some e => DErr (MalformedKey (fst e))
    | None =>
        (* .map(|(pk, sig)| (pk.to_peer_id().expect(..), PeerInfo::new(pk, sig))).collect():
           the expect cannot fire, validate decoded the same bytes *)
        let g0 := fold_left (fun g e => map_insert (fst e) {| pi_sig := snd e; pi_cids := [] |} g) it [] in
        match collect_peers_cids_from_trace (d_trace d) g0 with
        | DErr e => DErr e
        | DOk g =>
            (* for peer_info in grouped_cids.values_mut() { peer_info.cids.sort_unstable() } *)
            DOk (map (fun e => (fst e, {| pi_sig := pi_sig (snd e); pi_cids := sort_cids (pi_cids (snd e)) |})) g)
        end
    end.

  (* verification.rs: DataVerifier::verify *)
  Fixpoint verify_loop (salt : string) (l : verifier) : dres unit :=
    match l with
    | [] => DOk tt
    | (p, pi) :: r =>
        if pk_verify p (pi_cids pi) salt (pi_sig pi) then verify_loop salt r
        else DErr (SignatureMismatch p)
    end.
  Definition dv_verify (ord : list string) (salt : string) (v : verifier) : dres unit :=
    verify_loop salt (iterate ord v).

  (* verification.rs: to_count_map.  `*count_map.entry(cid).or_default() += 1`; the counter is a
     usize bounded by the vector length, it cannot overflow. *)
  Fixpoint to_count_map_from (cids : list string) (m : amap N) : amap N :=
    match cids with
    | [] => m
    | c :: r => to_count_map_from r (map_insert c (get0 c m + 1) m)
    end.
  Definition to_count_map (cids : list string) : amap N := to_count_map_from cids [].

  (* verification.rs: is_multisubset.  The early `return false` makes it the conjunction over the
     entries; debug_assert!(smaller_count > 0) cannot fire (SigProofs.count_map_positive). *)
  Definition is_multisubset (ord : list string) (larger smaller : amap N) : bool :=
    forallb (fun e => negb (get0 (fst e) larger <? snd e)) (iterate ord smaller).

  (* verification.rs: check_cid_multiset_invariant; [peer] is smaller_pair.public_key.to_peer_id() *)
  Definition check_cid_multiset_invariant (ord : list string) (peer : string) (larger smaller : peer_info) : dres unit :=
    if is_multisubset ord (to_count_map (pi_cids larger)) (to_count_map (pi_cids smaller)) then DOk tt
    else DErr (MergeMismatch peer).

  (* verification.rs: DataVerifier::merge, the loop over other.grouped_cids.
     debug_assert_eq!(other_info.public_key, our_info.public_key) holds by the identification of
     keys and peer ids. *)
  Fixpoint merge_loop (osub : string -> list string) (self : verifier) (other : verifier) : dres verifier :=
    match other with
    | [] => DOk self
    | (k, other_info) :: rest =>
        match map_get k self with
        | Some our_info =>                                  (* Occupied *)
            let swap := lenN (pi_cids our_info) <? lenN (pi_cids other_info) in
            (* std::mem::swap(our_info_ent.get_mut(), &mut other_info) *)
            let larger_info := if swap then other_info else our_info in
            let smaller_info := if swap then our_info else other_info in
            match check_cid_multiset_invariant (osub k) k larger_info smaller_info with
            | DErr e => DErr e
            | DOk _ => merge_loop osub (if swap then map_insert k larger_info self else self) rest
            end
        | None => merge_loop osub (map_insert k other_info self) rest   (* Vacant: ent.insert(other_info) *)
        end
    end.

  (* verification.rs: DataVerifier::merge *)
  Definition dv_merge (om ost : list string) (osub : string -> list string) (self other : verifier) : dres (amap sig) :=
    match merge_loop osub self (iterate om other) with
    | DErr e => DErr e
    | DOk g =>
        (* for peer_info in self.grouped_cids.into_values() { store.put(public_key, signature) } *)
        DOk (fold_left (fun st e => map_insert (fst e) (pi_sig (snd e)) st) (iterate ost g) [])
    end.

  (* air/src/verification_step.rs: verify, after current_data.cid_info.verify() *)
  Definition dv_verification (o : orders) (prev cur : data) (salt : string) : dres (amap sig) :=
    match dv_new (o_new_prev o) prev with
    | DErr e => DErr e
    | DOk vp =>
        match dv_new (o_new_cur o) cur with
        | DErr e => DErr e
        | DOk vc =>
            (* prev_data is always correct, check only current_data *)
            match dv_verify (o_verify o) salt vc with
            | DErr e => DErr e
            | DOk _ => dv_merge (o_merge o) (o_store o) (o_sub o) vp vc
            end
        end
    end.

  (* air/src/verification_step.rs: verify.  [cid_ok] is the outcome of current_data.cid_info.verify()
     (modelled elsewhere); every DataVerifierError becomes PreparationError::DataSignatureCheckError. *)
  Definition verification_step (o : orders) (cid_ok : bool) (prev cur : data) (salt : string) : res (amap sig) :=
    if cid_ok then
      match dv_verification o prev cur salt with
      | DErr _ => RErr DataSignatureCheckError
      | DOk st => ROk st
      end
    else RErr CidStoreVerificationError.

  (* ---------------------------------------------------------------------------------------- *)
  (* statements of C15                                                                          *)

  (* the verdicts of two runs agree: same error kind, or the same store as a map *)
  Definition dres_equiv (a b : dres (amap sig)) : Prop :=
    match a, b with
    | DErr e, DErr e' => dv_err_name e = dv_err_name e'
    | DOk st, DOk st' => forall p, map_get p st = map_get p st'
    | _, _ => False
    end.
  Definition res_equiv (a b : res (amap sig)) : Prop :=
    match a, b with
    | RErr e, RErr e' => e = e'
    | ROk st, ROk st' => forall p, map_get p st = map_get p st'
    | _, _ => False
    end.

  (* Some peer's result multisets are incomparable: the verification step fails with
     DataSignatureCheckError whatever else is in the data; and when everything before the merge is
     in order it is the merge that fails, with MergeMismatch, naming a peer whose sets are incomparable. *)
  Definition C15_reject_stmt : Prop :=
    forall o prev cur salt, wf_data prev -> wf_data cur ->
      (exists p, incomparable (Mof prev p) (Mof cur p)) ->
      verification_step o true prev cur salt = RErr DataSignatureCheckError /\
      (forall vp vc, dv_new (o_new_prev o) prev = DOk vp -> dv_new (o_new_cur o) cur = DOk vc ->
         exists q, dv_merge (o_merge o) (o_store o) (o_sub o) vp vc = DErr (MergeMismatch q) /\
                   incomparable (Mof prev q) (Mof cur q)).

  (* conversely the merge fails only for that reason *)
  Definition C15_only_equivocation_stmt : Prop :=
    forall o prev cur vp vc e, wf_data prev -> wf_data cur ->
      dv_new (o_new_prev o) prev = DOk vp -> dv_new (o_new_cur o) cur = DOk vc ->
      dv_merge (o_merge o) (o_store o) (o_sub o) vp vc = DErr e ->
      exists q, e = MergeMismatch q /\ incomparable (Mof prev q) (Mof cur q).

  (* what the merged store holds for a peer *)
  Definition kept_for (prev cur : data) (salt : string) (st : amap sig) (p : string) : Prop :=
    let Mp := Mof prev p in
    let Mc := Mof cur p in
    match map_get p (d_sigs prev), map_get p (d_sigs cur) with
    | Some sp, Some sc =>
        let L := larger_of Mp Mc in
        let kept := if lenN Mp <? lenN Mc then sc else sp in
        map_get p st = Some kept /\
        msub Mp L /\ msub Mc L /\                                  (* L really is the larger multiset *)
        sig_verify p Mc salt sc = true /\                           (* current data was verified *)
        (sig_verify p Mp salt sp = true -> sig_verify p L salt kept = true) /\
        (lenN Mp = lenN Mc -> meq Mp Mc /\ forall s, sig_verify p Mc salt s = sig_verify p Mp salt s)
    | Some sp, None => map_get p st = Some sp
    | None, Some sc => map_get p st = Some sc /\ sig_verify p Mc salt sc = true
    | None, None => map_get p st = None
    end.

  Definition C15_keep_larger_stmt : Prop :=
    forall o cid_ok prev cur salt st, wf_data prev -> wf_data cur ->
      verification_step o cid_ok prev cur salt = ROk st ->
      (forall p, ~ incomparable (Mof prev p) (Mof cur p)) /\
      (forall p, kept_for prev cur salt st p).

  (* no equivocation, well-formed and verified inputs: accepted *)
  Definition C15_accept_stmt : Prop :=
    forall o prev cur salt vp vc, wf_data prev -> wf_data cur ->
      (forall p, ~ incomparable (Mof prev p) (Mof cur p)) ->
      dv_new (o_new_prev o) prev = DOk vp -> dv_new (o_new_cur o) cur = DOk vc ->
      dv_verify (o_verify o) salt vc = DOk tt ->
      exists st, verification_step o true prev cur salt = ROk st.

  (* the verdict (error kind / merged store as a map) does not depend on any iteration order *)
  Definition C15_order_stmt : Prop :=
    forall o o' cid_ok prev cur salt, wf_data prev -> wf_data cur ->
      dres_equiv (dv_verification o prev cur salt) (dv_verification o' prev cur salt) /\
      res_equiv (verification_step o cid_ok prev cur salt) (verification_step o' cid_ok prev cur salt).

  Definition C15_full : Prop :=
    C15_reject_stmt /\ C15_only_equivocation_stmt /\ C15_keep_larger_stmt /\ C15_accept_stmt /\ C15_order_stmt.
End Verifier.

(* ------------------------------------------------------------------------------------------ *)
(* run level: the verification step as the [w_verify] stage of RunTop.execute_air              *)
Definition forget {A} (r : res A) : res unit := match r with ROk _ => ROk tt | RErr e => RErr e end.

(* every stage before the verification succeeds under limits l (flags fl) *)
Definition reaches_verify (X : Type) (l : limits) (w : world X) (fl : flags) : Prop :=
  check_against_size_limits X l w = inl fl /\ prev_envelope X w = ROk tt /\
  (exists v, cur_envelope X w = ROk v /\ version_lt_min v = false) /\
  prev_inner X w = ROk tt /\ cur_inner X w = ROk tt.

(* C15 at the level of the run: preparation fails with DataSignatureCheckError; [Failed] is the
   outcome that returns the previous data, no next peers and no call requests *)
Definition C15_reject_run_stmt : Prop :=
  forall (X : Type) key_ok o prev cur salt l (w : world X) fl,
    wf_data prev -> wf_data cur ->
    (exists p, incomparable (Mof prev p) (Mof cur p)) ->
    reaches_verify X l w fl ->
    w_verify X w = forget (verification_step key_ok o true prev cur salt) ->
    execute_air X l w = Failed DataSignatureCheckError None fl.

(* tie to the source: the error enumeration is the generated one (tools/genx_sig.py) *)
Definition dv_err_table_agrees : bool :=
  list_eqb String.eqb all_dv_err_names data_verifier_error_variants &&
  list_eqb String.eqb data_verifier_error_constructed ["MalformedKey"; "SignatureMismatch"; "CidNotFound"; "PeerIdNotFound"; "MergeMismatch"]%string &&
  list_eqb String.eqb verify_step_order ["cid_info_verify_cur"; "new_prev"; "new_cur"; "verify_cur"; "merge_prev_cur"]%string &&
  String.eqb data_verifier_error_maps_to "DataSignatureCheckError" &&
  merge_swaps_on_strictly_shorter && sign_cids_sorts && data_verifier_new_sorts.
