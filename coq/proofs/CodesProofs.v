(* Proofs about model/CodesSpec.v (C02). *)
From Coq Require Import Lia.
From Aqua Require Import Base Json Air Trace Handler Values Scalars Lens Exec RunExec RunTop CodesSpec.
From Aqua Require Stream.
Open Scope N_scope.
Open Scope list_scope.

(* ------------------------------------------------------------------------------------------ *)
(* 1. codes: general facts *)

Lemma index_of_lt : forall (A : Type) (p : A -> bool) (l : list A) (i : N),
  index_of p l = Some i -> (N.to_nat i < length l)%nat.
Proof.
  intros A p l. induction l as [|x xs IH]; intros i H; cbn [index_of] in H; [discriminate|].
  destruct (p x).
  - injection H as <-. cbn. lia.
  - destruct (index_of p xs) as [j|] eqn:E; cbn [option_map] in H; [|discriminate].
    injection H as <-. specialize (IH j eq_refl). cbn [length]. lia.
Qed.

Lemma index_of_in : forall (names : list string) (n : string),
  In n names -> exists i, index_of (String.eqb n) names = Some i.
Proof.
  intros names n. induction names as [|x xs IH]; intros Hin; [contradiction|].
  cbn [index_of]. destruct (String.eqb n x) eqn:E; [eauto|].
  destruct Hin as [->|Hin]; [rewrite String.eqb_refl in E; discriminate|].
  destruct (IH Hin) as [i ->]. cbn. eauto.
Qed.

Lemma code_in_bounds : forall (names : list string) (start : Z) (n : string), In n names ->
  (start <= code_in names start n < start + Z.of_nat (length names))%Z.
Proof.
  intros names start n Hin. unfold code_in.
  destruct (index_of_in names n Hin) as [i Hi]. rewrite Hi.
  pose proof (index_of_lt _ _ _ _ Hi) as Hlt.
  rewrite <- (N2Nat.id i), <- nat_N_Z. lia.
Qed.

Theorem codes_general : C02_codes_general_stmt.
Proof.
  split; [exact index_of_lt|]. split; [exact code_in_bounds|]. split.
  - intros names n Hin Hlen. pose proof (code_in_bounds names 1%Z n Hin). lia.
  - intros names start n Hin Hlen. pose proof (code_in_bounds names start n Hin). lia.
Qed.

(* ------------------------------------------------------------------------------------------ *)
(* 1b. codes: the generated tables *)

Lemma in_range_spec lo hi c : in_range lo hi c = true <-> (lo <= c <= hi)%Z.
Proof. unfold in_range. rewrite andb_true_iff, !Z.leb_le. tauto. Qed.

Lemma nodup_z_sound l : nodup_z l = true -> NoDup l.
Proof.
  induction l as [|x r IH]; cbn [nodup_z]; intros H; [constructor|].
  apply andb_prop in H as [H1 H2]. constructor; [|auto].
  intros Hin. apply negb_true_iff in H1.
  assert (existsb (Z.eqb x) r = true) as E.
  { apply existsb_exists. exists x. split; [exact Hin|apply Z.eqb_refl]. }
  congruence.
Qed.

Lemma existsb_false_notin (z : Z) l : existsb (Z.eqb z) l = false -> ~ In z l.
Proof.
  intros H Hin.
  assert (existsb (Z.eqb z) l = true) as E.
  { apply existsb_exists. exists z. split; [exact Hin|apply Z.eqb_refl]. }
  congruence.
Qed.

Lemma codes_table_holds : codes_table_ok = true.
Proof. vm_compute. reflexivity. Qed.

Lemma prep_code_of e : prep_code (prep_err_code e) = true /\
  prep_err_code e = code_in preparation_error_variants preparation_error_start_id (prep_err_name e).
Proof. destruct e; vm_compute; split; reflexivity. Qed.
Lemma catchable_code_range c : catchable_range (catchable_code c) = true.
Proof. destruct c; vm_compute; reflexivity. Qed.
Lemma uncatchable_code_range u : uncatchable_range (uncatchable_code u) = true.
Proof. destruct u; vm_compute; reflexivity. Qed.

Lemma farewell_code_is : farewell_error_code = 30000%Z.   Proof. vm_compute. reflexivity. Qed.
Lemma signing_code_is : signing_error_code = 30001%Z.      Proof. vm_compute. reflexivity. Qed.
Lemma success_is_zero : interpreter_success = 0%Z.         Proof. reflexivity. Qed.

Lemma forallb_range (f : Z -> bool) (P : Z -> Prop) l :
  (forall c, f c = true -> P c) -> forallb f l = true -> forall c, In c l -> P c.
Proof. intros Hf H c Hin. apply Hf. exact (proj1 (forallb_forall f l) H c Hin). Qed.

Theorem codes_ranges : C02_codes_stmt.
Proof.
  pose proof codes_table_holds as H. unfold codes_table_ok in H.
  apply andb_prop in H as [H H8]. apply andb_prop in H as [H H7]. apply andb_prop in H as [H H6].
  apply andb_prop in H as [H H5]. apply andb_prop in H as [H H4]. apply andb_prop in H as [H H3].
  apply andb_prop in H as [H1 H2].
  split. { apply (forallb_range prep_code); [intros c; apply in_range_spec|exact H1]. }
  split. { apply (forallb_range catchable_range); [intros c; apply in_range_spec|exact H2]. }
  split. { apply (forallb_range uncatchable_range); [intros c; apply in_range_spec|exact H3]. }
  split. { apply (forallb_range farewell_range); [intros c; apply Z.leb_le|exact H4]. }
  split. { apply Z.eqb_eq. exact H5. }
  split. { apply nodup_z_sound. exact H6. }
  split. { apply existsb_false_notin. apply negb_true_iff. exact H7. }
  split. { reflexivity. }
  split. { intros e. split; [exact (proj1 (in_range_spec _ _ _) (proj1 (prep_code_of e)))|exact (proj2 (prep_code_of e))]. }
  split. { intros c. exact (proj1 (in_range_spec _ _ _) (catchable_code_range c)). }
  split. { intros u. exact (proj1 (in_range_spec _ _ _) (uncatchable_code_range u)). }
  split; [exact farewell_code_is|exact signing_code_is].
Qed.

(* class membership of every code the routing can produce *)
Lemma prep_is_fail e : fail_code (prep_err_code e) = true /\ ok_code (prep_err_code e) = false.
Proof. destruct e; vm_compute; split; reflexivity. Qed.
Lemma uncatchable_is_fail u : fail_code (uncatchable_code u) = true /\ ok_code (uncatchable_code u) = false.
Proof. destruct u; vm_compute; split; reflexivity. Qed.
Lemma catchable_is_ok c : ok_code (catchable_code c) = true /\ fail_code (catchable_code c) = false.
Proof. destruct c; vm_compute; split; reflexivity. Qed.
Lemma success_is_ok : ok_code interpreter_success = true /\ fail_code interpreter_success = false.
Proof. vm_compute. split; reflexivity. Qed.
Lemma farewell_is_ok : ok_code farewell_error_code = true /\ fail_code farewell_error_code = false.
Proof. vm_compute. split; reflexivity. Qed.
Lemma signing_is_neither : ok_code signing_error_code = false /\ fail_code signing_error_code = false.
Proof. vm_compute. split; reflexivity. Qed.

(* ------------------------------------------------------------------------------------------ *)
(* 2. outcomes *)

Section P.
  Variable exec_stream_instr : (instr -> ctx -> xres) -> instr -> ctx -> option xres.
  Variable finish_streams : ctx -> ctx + uncatchable.
  Variable sign_produced : ctx -> bool.
  Variable sign_result : ctx -> bool.
  Variable serialize : idata -> list cid -> option bytes.

  Notation full := (execute_air_full exec_stream_instr finish_streams sign_produced sign_result serialize).
  Notation after := (after_prepare exec_stream_instr finish_streams sign_produced sign_result serialize).
  Notation pop := (populate finish_streams sign_result serialize).
  Notation fctx := (farewell_ctx exec_stream_instr sign_produced).

  Lemma success_code_classes x : ok_code (success_code x) = true /\ fail_code (success_code x) = false.
  Proof. unfold success_code. destruct (x_call_results x); [exact success_is_ok|exact farewell_is_ok]. Qed.

  Theorem fail_stages : C02_fail_stages_stmt exec_stream_instr finish_streams sign_produced sign_result serialize.
  Proof.
    intros fuel l w prev. repeat split.
    - intros e s fl H. unfold execute_air_full, route. rewrite H. reflexivity.
    - intros i fl u x H He. unfold execute_air_full, route, after_prepare. rewrite H, He.
      destruct (sign_produced x); reflexivity.
    - intros i fl x H He Hs. unfold execute_air_full, route, after_prepare. rewrite H.
      destruct He as [He|[e He]]; rewrite He, Hs; reflexivity.
  Qed.

  (* what populate can answer *)
  Lemma populate_cases code x fl r :
    pop code x fl = FOut r ->
    (exists u, finish_streams x = inr u /\ r = internal_error_outcome (uncatchable_code u) fl) \/
    (exists x1, finish_streams x = inl x1 /\ sign_result x1 = false /\ r = internal_error_outcome signing_error_code fl) \/
    (exists x1 b, finish_streams x = inl x1 /\ sign_result x1 = true /\
                  serialize (data_of_ctx x1) (x_tracker x1) = Some b /\
                  r = {| r_code := code; r_data := b; r_next := dedup (x_next_peers x1) [];
                         r_reqs := x_requests x1; r_flags := fl |}).
  Proof.
    unfold populate. intros H.
    destruct (finish_streams x) as [x1|u] eqn:Ef.
    - destruct (sign_result x1) eqn:Es; cbn [negb] in H.
      + destruct (serialize (data_of_ctx x1) (x_tracker x1)) as [b|] eqn:Eb; [|discriminate].
        injection H as <-. right. right. exists x1, b. auto.
      + injection H as <-. right. left. exists x1. auto.
    - injection H as <-. left. exists u. auto.
  Qed.

  (* what the whole run can answer *)
  Lemma full_cases fuel l w prev r :
    full fuel l w prev = FOut r ->
    (exists code fl, r = from_uncatchable_error prev code fl /\ fail_code code = true /\ ok_code code = false) \/
    (exists x code fl, fctx fuel l w = Some x /\ pop code x fl = FOut r /\
                       ok_code code = true /\ fail_code code = false).
  Proof.
    unfold execute_air_full, route, farewell_ctx. intros H.
    destruct (RunTop.execute_air run_input l w) as [e s fl|i fl] eqn:Et.
    - injection H as <-. left. exists (prep_err_code e), fl. split; [reflexivity|exact (prep_is_fail e)].
    - unfold after_prepare in H.
      destruct (exec exec_stream_instr fuel (ri_script i) (initial_ctx i)) as [x|e x|s| |s] eqn:Ee; try discriminate.
      + destruct (sign_produced x) eqn:Es; cbn [negb] in H.
        * right. exists x, (success_code x), fl.
          split; [reflexivity|]. split; [exact H|exact (success_code_classes x)].
        * injection H as <-. left. exists (uncatchable_code USigningError), fl.
          split; [reflexivity|exact (uncatchable_is_fail USigningError)].
      + destruct (sign_produced x) eqn:Es; cbn [negb] in H.
        * destruct e as [c|u].
          -- right. exists x, (catchable_code c), fl.
             split; [reflexivity|]. split; [exact H|exact (catchable_is_ok c)].
          -- injection H as <-. left. exists (uncatchable_code u), fl.
             split; [reflexivity|exact (uncatchable_is_fail u)].
        * injection H as <-. left. exists (uncatchable_code USigningError), fl.
          split; [reflexivity|exact (uncatchable_is_fail USigningError)].
  Qed.

  Theorem fail_keeps_prev : C02_fail_keeps_prev_stmt exec_stream_instr finish_streams sign_produced sign_result serialize.
  Proof.
    intros fuel l w prev r Hc H Hf.
    destruct (full_cases _ _ _ _ _ H) as [(code & fl & Hr & _ & _)|(x & code & fl & Hx & Hp & Hok & Hnf)].
    - rewrite Hr. cbn. auto.
    - exfalso. destruct (Hc x Hx) as [x1 Hfin].
      destruct (populate_cases _ _ _ _ Hp) as [(u & Hu & _)|[(x1' & _ & _ & Hr)|(x1' & b & _ & _ & _ & Hr)]].
      + congruence.
      + rewrite Hr in Hf. cbn [r_code internal_error_outcome] in Hf. rewrite (proj2 signing_is_neither) in Hf. discriminate.
      + rewrite Hr in Hf. cbn [r_code internal_error_outcome] in Hf. congruence.
  Qed.

  Theorem ok_data : C02_ok_data_stmt exec_stream_instr finish_streams sign_produced sign_result serialize.
  Proof.
    intros decode Hcodec fuel l w prev r H Hok.
    destruct (full_cases _ _ _ _ _ H) as [(code & fl & Hr & _ & Hnok)|(x & code & fl & Hx & Hp & _ & _)].
    - rewrite Hr in Hok. cbn [r_code internal_error_outcome from_uncatchable_error] in Hok. congruence.
    - destruct (populate_cases _ _ _ _ Hp) as [(u & _ & Hr)|[(x1 & _ & _ & Hr)|(x1 & b & Hfin & _ & Hser & Hr)]].
      + rewrite Hr in Hok. cbn [r_code internal_error_outcome from_uncatchable_error] in Hok. rewrite (proj2 (uncatchable_is_fail u)) in Hok. discriminate.
      + rewrite Hr in Hok. cbn [r_code internal_error_outcome from_uncatchable_error] in Hok. rewrite (proj1 signing_is_neither) in Hok. discriminate.
      + exists x, x1. rewrite Hr. cbn [r_data r_next r_reqs].
        destruct (Hcodec _ _ _ Hser) as [Hne Hdec].
        repeat split; auto.
  Qed.

  Theorem code_classes : C02_code_classes_stmt exec_stream_instr finish_streams sign_produced sign_result serialize.
  Proof.
    intros fuel l w prev r Hc Hs H.
    destruct (full_cases _ _ _ _ _ H) as [(code & fl & Hr & Hf & _)|(x & code & fl & Hx & Hp & Hok & _)].
    - left. rewrite Hr. exact Hf.
    - destruct (Hc x Hx) as [x1 Hfin].
      destruct (populate_cases _ _ _ _ Hp) as [(u & Hu & _)|[(x1' & Hf' & Hsf & _)|(x1' & b & _ & _ & _ & Hr)]].
      + congruence.
      + rewrite Hfin in Hf'. injection Hf' as <-. rewrite (Hs x x1 Hx Hfin) in Hsf. discriminate.
      + right. rewrite Hr. exact Hok.
  Qed.

  Theorem run_glue : C02_run_glue_stmt exec_stream_instr finish_streams sign_produced sign_result serialize.
  Proof.
    intros Hsp Hsr fuel prev i fl. unfold run, after_prepare.
    destruct (exec exec_stream_instr fuel (ri_script i) (initial_ctx i)) as [x|e x|s| |s]; try reflexivity.
    - rewrite Hsp. cbn [negb]. unfold populate.
      destruct (finish_streams x) as [x1|u] eqn:Ef.
      + rewrite Hsr. cbn [negb]. unfold success_code.
        destruct (x_call_results x); reflexivity.
      + right. exists x, u. auto.
    - rewrite Hsp. cbn [negb]. destruct e as [c|u].
      + unfold populate. destruct (finish_streams x) as [x1|u] eqn:Ef.
        * rewrite Hsr. cbn [negb]. reflexivity.
        * right. exists x, u. auto.
      + left. reflexivity.
  Qed.
End P.

(* ------------------------------------------------------------------------------------------ *)
(* the internal-error branch of outcome.rs, exhibited in the model of the code *)

Definition ib_params : run_params := {| rp_init_peer := "A"; rp_current_peer := "A"; rp_timestamp := 0; rp_ttl := 0 |}.
Definition ib_input (s : instr) (results : list (N * service_answer)) : run_input :=
  {| ri_script := s; ri_params := ib_params; ri_prev := empty_data; ri_cur := empty_data; ri_results := results |}.
Definition ib_world (s : instr) (results : list (N * service_answer)) : world run_input :=
  {| w_air_len := 6; w_cur_len := 0; w_prev_empty := false; w_prev_env := ROk tt; w_cur_env := ROk min_as_version;
     w_prev_inner := ROk tt; w_cur_inner := ROk tt; w_verify := ROk tt; w_parse_air := ROk tt;
     w_call_results := ROk []; w_keypair := ROk tt; w_rest := ib_input s results |}.

Theorem internal_error_branch : C02_internal_error_branch_stmt.
Proof.
  exists no_streams, (fun _ => inr UGenerationCompactificationError), (fun _ => true), (fun _ => true),
         (fun _ _ => Some [1]), 10%nat, unlimited, (ib_world INull []), [7].
  eexists. split; [vm_compute; reflexivity|]. split; [vm_compute; reflexivity|].
  split; [reflexivity|discriminate].
Qed.

(* ------------------------------------------------------------------------------------------ *)
(* 2b. compactification succeeds when every stream value points at an Ap / stream Call state *)

Lemma nth_error_set_nth {A} (l : list A) (n m : nat) (a : A) :
  nth_error (set_nth l n a) m =
  if Nat.eqb n m then match nth_error l m with Some _ => Some a | None => None end else nth_error l m.
Proof.
  revert n m. induction l as [|y r IH]; intros n m.
  - cbn. destruct (Nat.eqb n m); destruct m; reflexivity.
  - destruct n as [|n]; destruct m as [|m]; cbn; try reflexivity. apply IH.
Qed.

Lemma length_set_nth {A} (l : list A) (n : nat) (a : A) : length (set_nth l n a) = length l.
Proof. revert n. induction l as [|y r IH]; intros [|n]; cbn; auto. Qed.

Lemma nth_N_set_nth {A} (l : list A) (p q : N) (a : A) :
  Trace.nth_N (set_nth l (N.to_nat p) a) q =
  if N.eqb p q then match Trace.nth_N l q with Some _ => Some a | None => None end else Trace.nth_N l q.
Proof.
  unfold Trace.nth_N. rewrite length_set_nth.
  destruct (q <? N.of_nat (length l)) eqn:Eq.
  - rewrite nth_error_set_nth.
    destruct (N.eqb p q) eqn:Epq.
    + apply N.eqb_eq in Epq. subst. rewrite Nat.eqb_refl. reflexivity.
    + assert (Nat.eqb (N.to_nat p) (N.to_nat q) = false) as ->; [|reflexivity].
      apply Nat.eqb_neq. intros H. apply N.eqb_neq in Epq. apply Epq. apply N2Nat.inj. exact H.
  - destruct (N.eqb p q); reflexivity.
Qed.

(* one update succeeds on such a state and keeps the kind of every state *)
Lemma update_generation_ok (h : handler cid) (p g : N) :
  gen_state_at (result_trace cid h) p = true ->
  exists h', update_generation cid h p g = inl h' /\
             forall q, gen_state_at (result_trace cid h') q = gen_state_at (result_trace cid h) q.
Proof.
  unfold gen_state_at, update_generation, result_trace. intros H.
  destruct (Trace.nth_N (k_result cid (h_keeper cid h)) p) as [st|] eqn:E; [|discriminate].
  destruct st as [l r|c|gens|c|lore]; try discriminate.
  - destruct c as [s|v|f]; try discriminate. destruct v as [c|c g0|c]; try discriminate.
    eexists. split; [reflexivity|]. intros q. cbn [h_keeper with_keeper k_result with_result].
    rewrite nth_N_set_nth. destruct (N.eqb p q) eqn:Epq; [|reflexivity].
    apply N.eqb_eq in Epq. subst q. rewrite E. reflexivity.
  - eexists. split; [reflexivity|]. intros q. cbn [h_keeper with_keeper k_result with_result].
    rewrite nth_N_set_nth. destruct (N.eqb p q) eqn:Epq; [|reflexivity].
    apply N.eqb_eq in Epq. subst q. rewrite E. reflexivity.
Qed.

Lemma apply_updates_ok (ups : list (N * N)) : forall (h : handler cid),
  forallb (fun pg => gen_state_at (result_trace cid h) (fst pg)) ups = true ->
  exists h', Stream.apply_updates (update_generation cid) h ups = inl h' /\
             forall q, gen_state_at (result_trace cid h') q = gen_state_at (result_trace cid h) q.
Proof.
  induction ups as [|[p g] t IH]; intros h H; cbn [Stream.apply_updates]; [eauto|].
  cbn [forallb fst] in H. apply andb_prop in H as [H1 H2].
  destruct (update_generation_ok h p g H1) as (h1 & -> & Hk).
  destruct (IH h1) as (h2 & -> & Hk2).
  - apply forallb_forall. intros [q g'] Hin. cbn [fst]. rewrite Hk.
    exact (proj1 (forallb_forall _ _) H2 (q, g') Hin).
  - exists h2. split; [reflexivity|]. intros q. rewrite Hk2. apply Hk.
Qed.

Theorem compactify_sufficient : C02_compactify_sufficient_stmt.
Proof.
  intros h pl Hpos Hcrash. unfold Stream.run_plan.
  destruct (apply_updates_ok _ _ Hpos) as (h' & -> & Hk). rewrite Hcrash. eauto.
Qed.

(* ------------------------------------------------------------------------------------------ *)
(* 3. tie to the source *)
Theorem source_tie : C02_source_tie_stmt.
Proof. vm_compute. reflexivity. Qed.
