//! `beautify`: one JSON case per input line -> one JSON line per case.
//!
//! case = { "script": "<AIR text>", "step": <indent step>, "hopon": <bool> }
//!
//! For every case the REAL `air_beautifier::Beautifier` is run on the script text (it parses the
//! script itself), the script is parsed once more with `air_parser::parse` and printed as a term of
//! coq/model/Air.v, and the beautifier's raw output is printed as a Coq string (nothing is split or
//! trimmed on this side: model/BeautifyCases.v splits the text into lines itself).
//!
//! output = { "coq": [<term of BeautifyCases.case_t>], "classes": [...], "info": [{...}] }
//!          (no term when the script is not accepted by the parser)

use aquah::coqfmt as c;
use aquah::sim::quiet_panics;
use air_parser::ast::Instruction;
use serde_json::{json, Value as J};
use std::collections::BTreeMap;
use std::io::BufRead;

fn kind(i: &Instruction<'_>) -> &'static str {
    use Instruction::*;
    match i {
        Call(_) => "call",
        Ap(_) => "ap",
        ApMap(_) => "ap_map",
        Canon(_) => "canon",
        CanonMap(_) => "canon_map",
        CanonStreamMapScalar(_) => "canon_map_scalar",
        Seq(_) => "seq",
        Par(_) => "par",
        Xor(_) => "xor",
        Match(_) => "match",
        MisMatch(_) => "mismatch",
        Fail(_) => "fail",
        FoldScalar(_) => "fold_scalar",
        FoldStream(_) => "fold_stream",
        FoldStreamMap(_) => "fold_stream_map",
        Never(_) => "never",
        New(_) => "new",
        Next(_) => "next",
        Null(_) => "null",
        Error => "error",
    }
}

/// instruction-kind histogram, number of compound (non-seq, block-forming) instructions, nesting depth
fn walk(i: &Instruction<'_>, depth: usize, hist: &mut BTreeMap<&'static str, u64>, compound: &mut u64, max_depth: &mut usize, last: &mut u64) {
    use Instruction::*;
    *hist.entry(kind(i)).or_insert(0) += 1;
    if depth > *max_depth {
        *max_depth = depth;
    }
    match i {
        Seq(x) => {
            walk(&x.0, depth, hist, compound, max_depth, last);
            walk(&x.1, depth, hist, compound, max_depth, last);
        }
        Par(x) => {
            *compound += 1;
            walk(&x.0, depth + 1, hist, compound, max_depth, last);
            walk(&x.1, depth + 1, hist, compound, max_depth, last);
        }
        Xor(x) => {
            *compound += 1;
            walk(&x.0, depth + 1, hist, compound, max_depth, last);
            walk(&x.1, depth + 1, hist, compound, max_depth, last);
        }
        Match(x) => {
            *compound += 1;
            walk(&x.instruction, depth + 1, hist, compound, max_depth, last);
        }
        MisMatch(x) => {
            *compound += 1;
            walk(&x.instruction, depth + 1, hist, compound, max_depth, last);
        }
        New(x) => {
            *compound += 1;
            walk(&x.instruction, depth + 1, hist, compound, max_depth, last);
        }
        FoldScalar(x) => {
            *compound += 1;
            walk(&x.instruction, depth + 1, hist, compound, max_depth, last);
            if let Some(l) = &x.last_instruction {
                *last += 1;
                walk(l, depth + 1, hist, compound, max_depth, last);
            }
        }
        FoldStream(x) => {
            *compound += 1;
            walk(&x.instruction, depth + 1, hist, compound, max_depth, last);
            if let Some(l) = &x.last_instruction {
                *last += 1;
                walk(l, depth + 1, hist, compound, max_depth, last);
            }
        }
        FoldStreamMap(x) => {
            *compound += 1;
            walk(&x.instruction, depth + 1, hist, compound, max_depth, last);
            if let Some(l) = &x.last_instruction {
                *last += 1;
                walk(l, depth + 1, hist, compound, max_depth, last);
            }
        }
        _ => {}
    }
}

enum Out {
    Text(String),
    Failed(String),
    Panicked,
}

fn run_real(script: &str, step: usize, hopon: bool) -> Out {
    let script = script.to_string();
    let r = std::panic::catch_unwind(move || {
        let mut buf: Vec<u8> = vec![];
        let res = {
            let mut b = air_beautifier::Beautifier::new_with_indent(&mut buf, step);
            if hopon {
                b = b.enable_all_patterns();
            }
            b.beautify(&script)
        };
        (buf, res.map_err(|e| e.to_string()))
    });
    match r {
        Err(_) => Out::Panicked,
        Ok((_, Err(e))) => Out::Failed(e),
        Ok((buf, Ok(()))) => match String::from_utf8(buf) {
            Ok(s) => Out::Text(s),
            Err(_) => Out::Failed("output is not UTF-8".into()),
        },
    }
}

fn run_case(case: &J) -> J {
    let script = case["script"].as_str().unwrap_or("(null)");
    let step = case["step"].as_u64().unwrap_or(4) as usize;
    let hopon = case["hopon"].as_bool().unwrap_or(false);

    let ast = match air_parser::parse(script) {
        Ok(a) => a,
        Err(e) => {
            // not an accepted script: the property does not talk about it; the beautifier must refuse it too
            let refused = matches!(run_real(script, step, hopon), Out::Failed(_));
            return json!({"coq": [], "classes": ["rejected_script"], "info": [{"parse_error": e, "beautifier_refused": refused}]});
        }
    };
    let mut hist = BTreeMap::new();
    let (mut compound, mut max_depth, mut last) = (0u64, 0usize, 0u64);
    walk(&ast, 0, &mut hist, &mut compound, &mut max_depth, &mut last);
    let tree = aquah::ast2coq::instr(&ast);

    let (out_term, class, lines) = match run_real(script, step, hopon) {
        Out::Text(s) => {
            let n = s.matches('\n').count();
            (format!("(BOk {})", c::s(&s)), "ok", n)
        }
        Out::Failed(e) => {
            return json!({"coq": [], "classes": ["beautifier_failed_on_accepted_script"], "info": [{"error": e}],
                          "error": format!("beautifier refused a script the parser accepts: {}", e)});
        }
        Out::Panicked => ("BCrash".to_string(), "panic", 0),
    };
    let term = format!(
        "{{| c_tree := {}; c_step := {}; c_hopon := {}; c_out := {} |}}",
        tree,
        step,
        c::b(hopon),
        out_term
    );
    let hist_j: serde_json::Map<String, J> = hist.iter().map(|(k, v)| (k.to_string(), json!(v))).collect();
    json!({"coq": [term], "classes": [class],
           "info": [{"hist": hist_j, "compound": compound, "depth": max_depth, "last": last, "lines": lines,
                     "step": step, "hopon": hopon}]})
}

fn main() {
    quiet_panics();
    let stdin = std::io::stdin();
    for line in stdin.lock().lines() {
        let line = match line {
            Ok(l) => l,
            Err(_) => break,
        };
        if line.trim().is_empty() {
            continue;
        }
        let case: J = match serde_json::from_str(&line) {
            Ok(c) => c,
            Err(e) => {
                println!("{}", json!({"error": format!("bad case: {e}")}));
                continue;
            }
        };
        // the driver itself must not die on one case
        let r = std::panic::catch_unwind(|| run_case(&case));
        match r {
            Ok(j) => println!("{}", j),
            Err(_) => println!("{}", json!({"error": "driver panicked (ast printing?)"})),
        }
    }
}
