#!/usr/bin/env python3
"""usage: check_repo_tests.py LOG -- compares a `cargo test --workspace --no-fail-fast` log with /root/.vp/BASELINE.json stable_pass"""
import json, re, sys
b = json.load(open('/root/.vp/BASELINE.json'))
sp = b['stable_pass']
log = open(sys.argv[1]).read()
failed = set(re.findall(r"test (\S+) (?:- should panic )?\.\.\. FAILED", log))
ok = set(re.findall(r"test (\S+) (?:- should panic )?\.\.\. ok", log))
bad = [t for t in sp if any(t.endswith('::' + f) for f in failed) and not any(t.endswith('::' + o) for o in ok)]
missing = [t for t in sp if not any(t.endswith('::' + o) for o in ok)]
print("ok lines:", len(ok), "failed lines:", len(failed))
print("baseline tests that FAILED:", bad)
print("baseline tests not seen passing:", missing)
print("compile errors:", len(re.findall(r"^error(\[E\d+\])?:", log, flags=re.M)) - log.count("error: 1 target failed") - log.count("error: test failed"))

# robust summary (individual `test x ... ok` lines can be interleaved with the tests' own output):
res = re.findall(r"test result: (ok|FAILED)\. (\d+) passed; (\d+) failed", log)
tot_pass = sum(int(a) for _, a, _ in res); tot_fail = sum(int(b) for _, _, b in res)
bad_bins = [(k, a, b) for k, a, b in res if k == "FAILED"]
print("per-binary totals: passed", tot_pass, "failed", tot_fail, "| FAILED binaries:", bad_bins,
      "| unchanged tree: passed 425 failed 332, one FAILED binary ('17', '332')")
print("VERDICT:", "same as the unchanged tree" if tot_pass == 425 and tot_fail == 332 and len(bad_bins) == 1 and not bad else "DIFFERS")
