(* Scalars.v -- ValuesSparseMatrix: scalar (and canon stream) variables with fold depths and `new`.

   Mirrors air/src/execution_step/execution_context/scalar_variables/values_sparse_matrix.rs.
   cells: name -> non-empty stack of (depth, optional value); allowed_depths: a set; current_depth.
   Definitions only. *)
From Aqua Require Import Base.
Open Scope N_scope.
Open Scope list_scope.

Inductive sm_err :=
| SmVariableNotFound (name : string)            (* catchable *)
| SmShadowingIsNotAllowed (name : string)       (* uncatchable *)
| SmScalarsStateCorrupted (name : string).      (* uncatchable *)

Section Matrix.
  Variable T : Type.

  Record cell := { c_depth : N; c_value : option T }.
  Record matrix := { m_cells : list (string * list cell); m_allowed : list N; m_depth : N }.

  Definition matrix_new : matrix := {| m_cells := []; m_allowed := [0]; m_depth := 0 |}.

  Fixpoint cells_get (cs : list (string * list cell)) (name : string) : option (list cell) :=
    match cs with [] => None | (n, v) :: r => if String.eqb n name then Some v else cells_get r name end.
  Fixpoint cells_put (cs : list (string * list cell)) (name : string) (v : list cell) : list (string * list cell) :=
    match cs with
    | [] => [(name, v)]
    | (n, x) :: r => if String.eqb n name then (n, v) :: r else (n, x) :: cells_put r name v
    end.
  Definition cells_del (cs : list (string * list cell)) (name : string) : list (string * list cell) :=
    filter (fun p => negb (String.eqb (fst p) name)) cs.

  Definition allowed_add (a : list N) (d : N) : list N := if existsb (N.eqb d) a then a else d :: a.
  Definition allowed_del (a : list N) (d : N) : list N := filter (fun x => negb (x =? d)) a.

  (* the stacks are kept with the LAST cell at the head *)
  Definition shadowing_allowed (m : matrix) : bool := negb (m_depth m =? 0).

  Definition variable_could_be_set (m : matrix) (name : string) : bool :=
    if shadowing_allowed m then true
    else match cells_get (m_cells m) name with
         | Some (c :: _) => match c_value c with None => true | Some _ => false end
         | _ => false
         end.

  (* set_value: Ok true when an existing cell of the current depth was overwritten *)
  Definition set_value (m : matrix) (name : string) (v : T) : matrix * bool + sm_err :=
    let could := variable_could_be_set m name in
    match cells_get (m_cells m) name with
    | None | Some [] =>
        inl ({| m_cells := cells_put (m_cells m) name [{| c_depth := m_depth m; c_value := Some v |}];
                m_allowed := m_allowed m; m_depth := m_depth m |}, false)
    | Some (last :: rest) =>
        if negb could then inr (SmShadowingIsNotAllowed name)
        else if c_depth last =? m_depth m then
          inl ({| m_cells := cells_put (m_cells m) name ({| c_depth := c_depth last; c_value := Some v |} :: rest);
                  m_allowed := m_allowed m; m_depth := m_depth m |}, true)
        else
          inl ({| m_cells := cells_put (m_cells m) name ({| c_depth := m_depth m; c_value := Some v |} :: last :: rest);
                  m_allowed := m_allowed m; m_depth := m_depth m |}, false)
    end.

  (* get_value: Err VariableNotFound | Ok None (cleared by new) | Ok (Some v) *)
  Definition get_value (m : matrix) (name : string) : option T + sm_err :=
    match cells_get (m_cells m) name with
    | Some (last :: _) =>
        if existsb (N.eqb (c_depth last)) (m_allowed m) then inl (c_value last) else inr (SmVariableNotFound name)
    | _ => inr (SmVariableNotFound name)
    end.

  (* cleanup_obsolete_values: pop the last cell of every non-global variable deeper than the
     current depth; NonEmpty::pop refuses to remove the only cell, in which case the variable is
     deleted *)
  Definition cleanup (m : matrix) : matrix :=
    let cs := fold_right
      (fun (p : string * list cell) acc =>
         match snd p with
         | last :: rest =>
             if negb (c_depth last =? 0) && (m_depth m <? c_depth last) then
               match rest with [] => acc | _ => (fst p, rest) :: acc end
             else p :: acc
         | [] => acc
         end) [] (m_cells m) in
    {| m_cells := cs; m_allowed := m_allowed m; m_depth := m_depth m |}.

  Definition meet_fold_start (m : matrix) : matrix :=
    {| m_cells := m_cells m; m_allowed := allowed_add (m_allowed m) (m_depth m + 1); m_depth := m_depth m + 1 |}.
  Definition meet_next_before (m : matrix) : matrix :=
    {| m_cells := m_cells m; m_allowed := allowed_add (allowed_del (m_allowed m) (m_depth m)) (m_depth m + 1);
       m_depth := m_depth m + 1 |}.
  Definition meet_next_after (m : matrix) : matrix :=
    cleanup {| m_cells := m_cells m; m_allowed := allowed_add (allowed_del (m_allowed m) (m_depth m)) (m_depth m - 1);
               m_depth := m_depth m - 1 |}.
  Definition meet_fold_end (m : matrix) : matrix :=
    cleanup {| m_cells := m_cells m; m_allowed := allowed_del (m_allowed m) (m_depth m); m_depth := m_depth m - 1 |}.

  Definition meet_new_start (m : matrix) (name : string) : matrix :=
    let c := {| c_depth := m_depth m; c_value := None |} in
    match cells_get (m_cells m) name with
    | Some l => {| m_cells := cells_put (m_cells m) name (c :: l); m_allowed := m_allowed m; m_depth := m_depth m |}
    | None => {| m_cells := cells_put (m_cells m) name [c]; m_allowed := m_allowed m; m_depth := m_depth m |}
    end.

  Definition meet_new_end (m : matrix) (name : string) : matrix + sm_err :=
    match cells_get (m_cells m) name with
    | None | Some [] => inr (SmScalarsStateCorrupted name)
    | Some [only] =>
        (* pop() = None: the variable is removed when its only cell is of the current depth *)
        if c_depth only =? m_depth m
        then inl {| m_cells := cells_del (m_cells m) name; m_allowed := m_allowed m; m_depth := m_depth m |}
        else inr (SmScalarsStateCorrupted name)
    | Some (last :: rest) =>
        if c_depth last =? m_depth m
        then inl {| m_cells := cells_put (m_cells m) name rest; m_allowed := m_allowed m; m_depth := m_depth m |}
        else inr (SmScalarsStateCorrupted name)
    end.
End Matrix.

Arguments matrix_new {T}.
