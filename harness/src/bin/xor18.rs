//! xor18: the oracle driver of property C18 (coq/model/XorCases.v, c18case).
//!
//! A case holds up to three scripts that differ only in one place of one context:
//!   caught    ... (xor F (call %init_peer_id% ("s18" "catch") [:error:.$.error_code :error:.$.message :error: %last_error%])) ...
//!   uncaught  ... F ...                         (the twin: what the same failure reports as the run's result)
//!   stale     the earlier failure that the context swallowed, alone (only for the documented deviation)
//! Each script is run on the REAL `air::execute_air` as a single-peer history at the init peer:
//! Start, then "hand back every pending call result" until nothing is pending, an error ends the
//! run, or `max_steps` is reached.  Optionally the first run gets, as current data, what another
//! script (`cur_script`) produced on peer 1 (used to provoke merged-state mismatches).
//!
//! input : {"peers":[..], "services":[..], "caught":s, "uncaught":s, "stale":s|null, "cur_script":s|null,
//!          "expect":0..4, "max_steps":n}
//! output: {"coq":[c18case term], "classes":[..], "info":[{...}]}
use aquah::coqfmt as c;
use aquah::sim::*;
use serde_json::Value as J;
use std::io::BufRead;

fn json_term(j: &J) -> String {
    match j {
        J::Null => "JNull".into(),
        J::Bool(b) => format!("(JBool {})", c::b(*b)),
        J::Number(n) => {
            if let Some(i) = n.as_i64() {
                format!("(JInt {})", c::z(i as i128))
            } else if let Some(u) = n.as_u64() {
                format!("(JInt {})", c::z(u as i128))
            } else {
                format!("(JFloat {})", c::s(&n.to_string()))
            }
        }
        J::String(s) => format!("(JStr {})", c::s(s)),
        J::Array(a) => format!("(JArr {})", c::list(a.iter().map(json_term))),
        J::Object(o) => {
            let mut keys: Vec<&String> = o.keys().collect();
            keys.sort_by(|a, b| a.as_bytes().cmp(b.as_bytes()));
            format!("(JObj {})", c::list(keys.iter().map(|k| format!("({}, {})", c::s(k), json_term(&o[*k])))))
        }
    }
}

struct Hist {
    /// ret_code / error_message of the last run
    code: i64,
    msg: String,
    panic: Option<String>,
    runs: usize,
    /// arguments of every request to ("s18","catch"), in order
    catch_args: Vec<Vec<J>>,
    /// every request (service, function), for the evidence
    requests: Vec<(String, String)>,
    next_peers: usize,
    codes: Vec<i64>,
}

fn run_history(script: &str, peers: &[String], services: &Services, cur: Option<Vec<u8>>, max_steps: usize) -> Hist {
    let mut net = Net::new(script, peers, 0, services.clone(), "particle-18");
    let mut h = Hist { code: 0, msg: String::new(), panic: None, runs: 0, catch_args: vec![], requests: vec![], next_peers: 0, codes: vec![] };
    let mut first = true;
    for _ in 0..max_steps {
        let rec = if first {
            first = false;
            match &cur {
                None => net.exec(&Op::Start),
                Some(data) => {
                    // Start with a given current data
                    let input = net.make_input(0, data.clone(), Default::default());
                    let out = run(&input);
                    net.apply(0, &out);
                    let r = StepRecord { step: net.step, peer: 0, input, out };
                    net.step += 1;
                    Some(r)
                }
            }
        } else {
            if net.hosts[0].pending.is_empty() {
                break;
            }
            net.exec(&Op::Return(0, 0))
        };
        let rec = match rec { Some(r) => r, None => break };
        h.runs += 1;
        h.code = rec.out.code;
        h.msg = rec.out.msg.clone();
        h.codes.push(rec.out.code);
        h.next_peers += rec.out.next.len();
        if let Some(p) = &rec.out.panic {
            h.panic = Some(p.clone());
            break;
        }
        if let Some(reqs) = &rec.out.requests {
            for (_, r) in reqs {
                h.requests.push((r.service.clone(), r.function.clone()));
                if r.service == "s18" && r.function == "catch" {
                    h.catch_args.push(r.args.clone());
                }
            }
        }
        if rec.out.code != 0 {
            break;
        }
    }
    h
}

fn run_case(case: &J) -> J {
    let peers: Vec<String> = case["peers"].as_array().map(|a| a.iter().filter_map(|x| x.as_str().map(String::from)).collect()).unwrap_or_default();
    if peers.len() < 2 {
        return serde_json::json!({"error": "xor18: at least two peers are needed"});
    }
    let services_json = Net::instantiate(&case["services"].to_string(), &peers);
    let services = Services::from_json(&serde_json::from_str(&services_json).unwrap_or(J::Null));
    let max_steps = case["max_steps"].as_u64().unwrap_or(8) as usize;
    let expect = case["expect"].as_u64().unwrap_or(0);
    let inst = |k: &str| case[k].as_str().map(|s| Net::instantiate(s, &peers));
    let caught_s = match inst("caught") { Some(s) => s, None => return serde_json::json!({"error": "xor18: no caught script"}) };
    let uncaught_s = match inst("uncaught") { Some(s) => s, None => return serde_json::json!({"error": "xor18: no uncaught script"}) };
    for (name, s) in [("caught", &caught_s), ("uncaught", &uncaught_s)] {
        if let Err(e) = air_parser::parse(s) {
            return serde_json::json!({"error": format!("xor18: {} script does not parse: {} :: {}", name, s, e.chars().take(300).collect::<String>())});
        }
    }
    // optional current data produced by another script on peer 1
    let cur: Option<Vec<u8>> = match inst("cur_script") {
        None => None,
        Some(cs) => {
            let other = Peer::new(&peers[1]);
            let init = Peer::new(&peers[0]);
            let input = RunInput {
                air: cs, prev: vec![], cur: vec![], init_peer_id: init.id.clone(), current_peer_id: other.id.clone(),
                secret: other.secret.clone(), key_format: 0, particle_id: "particle-18".into(), timestamp: 1700000000, ttl: 3600,
                limits: Limits::unlimited(), call_results: Default::default(), call_results_raw: None,
            };
            let out = run(&input);
            if out.panic.is_some() || out.data.is_empty() {
                return serde_json::json!({"error": "xor18: cur_script produced no data"});
            }
            Some(out.data)
        }
    };
    let hc = run_history(&caught_s, &peers, &services, cur.clone(), max_steps);
    let hu = run_history(&uncaught_s, &peers, &services, cur.clone(), max_steps);
    let (stale_code, stale_msg) = match inst("stale") {
        Some(s) => {
            let hs = run_history(&s, &peers, &services, None, max_steps);
            (hs.code, hs.msg)
        }
        None => (0, String::new()),
    };
    if let Some(p) = hc.panic.as_ref().or(hu.panic.as_ref()) {
        return serde_json::json!({"error": format!("xor18: the interpreter panicked: {}", p)});
    }
    let term = format!(
        "{{| k_expect := {}; k_unc_code := {}; k_unc_msg := {}; k_caught_code := {}; k_catch_args := {}; k_stale_code := {}; k_stale_msg := {} |}}",
        expect,
        c::z(hu.code as i128),
        c::s(&hu.msg),
        c::z(hc.code as i128),
        c::list(hc.catch_args.iter().map(|a| c::list(a.iter().map(json_term)))),
        c::z(stale_code as i128),
        c::s(&stale_msg)
    );
    let class = if (10000..20000).contains(&hu.code) {
        format!("twin:catchable:{}", hu.code)
    } else if (20000..30000).contains(&hu.code) {
        format!("twin:uncatchable:{}", hu.code)
    } else if hu.code == 0 {
        if hu.next_peers > 0 || hc.next_peers > 0 { "twin:waiting".to_string() } else { "twin:ok".to_string() }
    } else {
        format!("twin:other:{}", hu.code)
    };
    let last_error_differs = hc.catch_args.iter().any(|a| a.len() == 4 && a[2] != a[3]);
    let info = serde_json::json!({
        "unc_code": hu.code, "unc_msg": hu.msg, "caught_code": hc.code, "caught_msg": hc.msg, "catch_requests": hc.catch_args.len(),
        "catch_args": hc.catch_args, "runs_caught": hc.runs, "runs_uncaught": hu.runs, "codes_caught": hc.codes, "codes_uncaught": hu.codes,
        "stale_code": stale_code, "stale_msg": stale_msg, "last_error_differs_from_error": last_error_differs,
        "requests_caught": hc.requests.len(), "requests_uncaught": hu.requests.len(),
    });
    serde_json::json!({"coq": [term], "classes": [class], "info": [info]})
}

fn main() {
    quiet_panics();
    for line in std::io::stdin().lock().lines() {
        let line = match line { Ok(l) => l, Err(_) => break };
        if line.trim().is_empty() { continue; }
        let case: J = serde_json::from_str(&line).unwrap_or(J::Null);
        let out = std::panic::catch_unwind(|| run_case(&case)).unwrap_or_else(|_| serde_json::json!({"error": "xor18: driver panic"}));
        println!("{}", out);
    }
}
