#!/bin/sh
# usage: tools/run_all_checks.sh [tier] [seed] [ids...]  -- runs the registered checks one after the other, summary at the end
cd "$(dirname "$0")/.."
TIER=${1:-quick}; SEED=${2:-1}; shift; shift
IDS="$@"
[ -z "$IDS" ] && IDS=$(python3 -c "import json;print(' '.join(c['property_id'] for c in json.load(open('MANIFEST.json'))['checks']))")
mkdir -p .cache/runall
: > .cache/runall/summary.txt
for p in $IDS; do
  s=$(date +%s)
  VERIF_SEED=$SEED ./check $p --tier $TIER > .cache/runall/$p.log 2>&1
  rc=$?
  e=$(date +%s)
  echo "$p rc=$rc $((e-s))s $(grep -c '^VIOLATION' .cache/runall/$p.log) violation-lines $(grep -c '^KNOWN-FINDING' .cache/runall/$p.log) known" | tee -a .cache/runall/summary.txt
done
