(* SignWitnessProofs.v -- C03_foreign_full is REFUTED by the faithful model: the witness is a real run
   (model/SignWitness.v; corpus/C03/stream_fold_hole_signature.json replays it on the implementation). *)
From Aqua Require Import Base Json Air Trace Handler Values Scalars Lens Exec RunExec ExecStreams ExecCases SignSpec SignWitness.
From Coq Require Import Permutation.
Open Scope N_scope.
Open Scope list_scope.

(* what has to be computed about a run for it to refute the statement: peer p is not the current peer, it has [np] results
   in the previous data, [nc] in the current data, the run produces new data whose trace attributes [no] results to p *)
Definition refutes (f : nat) (i : run_input) (p : string) (np nc no : nat) : bool :=
  negb (String.eqb p (rp_current_peer (ri_params i))) &&
  Nat.eqb (length (attributed_cids (d_trace (ri_prev i)) p)) np &&
  Nat.eqb (length (attributed_cids (d_trace (ri_cur i)) p)) nc &&
  match run2 f i with
  | OutNewData _ d _ _ _ => Nat.eqb (length (attributed_cids (d_trace d) p)) no
  | _ => false
  end.

Lemma refutes_sound f i p np nc no :
  refutes f i p np nc no = true -> no <> (if Nat.ltb np nc then nc else np) -> ~ C03_foreign_full stream_instr finish_streams.
Proof.
  unfold refutes. intros R Hn H.
  apply andb_prop in R as [R Ro]. apply andb_prop in R as [R Rc]. apply andb_prop in R as [Rne Rp].
  apply Nat.eqb_eq in Rp, Rc.
  assert (p <> rp_current_peer (ri_params i)) as Hne.
  { intros Eq. rewrite <- Eq, String.eqb_refl in Rne. discriminate Rne. }
  destruct (run2 f i) as [code d next reqs signed| | | |] eqn:E; try discriminate Ro.
  apply Nat.eqb_eq in Ro.
  specialize (H f i code d next reqs signed p E Hne). cbv zeta in H.
  apply Permutation_length in H. rewrite Ro, Rp, Rc in H.
  destruct (Nat.ltb np nc); [rewrite Rc in H|rewrite Rp in H]; exact (Hn H).
Qed.

(* the real run: D's previous data holds 2 results of A, the current data 4, the produced data 3 *)
Lemma hole_refutes : refutes fuel (ec_input hole_case) hole_peer_a 2 4 3 = true.
Proof. vm_compute. reflexivity. Qed.

(* the model reproduces the implementation on this run, and the implementation's own output attributes 3 results to A *)
Lemma hole_is_real : check_case hole_case = true /\
                     Nat.eqb (length (attributed_cids (eo_trace (ec_obs hole_case)) hole_peer_a)) 3 = true.
Proof. vm_compute. split; reflexivity. Qed.

Theorem C03_foreign_refuted : ~ C03_foreign_full stream_instr finish_streams.
Proof. apply (refutes_sound _ _ _ _ _ _ hole_refutes). cbn. discriminate. Qed.
