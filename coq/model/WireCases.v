(* WireCases.v -- executable comparison functions for the generated case files of C27:
   the model of Wire.v against what the real crates did ([check_case]) and the property itself
   evaluated on the implementation's observations only ([c27_oracle]). *)
From Aqua Require Import Base Wire.
Open Scope list_scope.
Open Scope N_scope.

(* byte strings travel as hexadecimal text *)
Definition hexval (a : ascii) : N :=
  let n := N_of_ascii a in
  if (48 <=? n) && (n <=? 57) then n - 48
  else if (97 <=? n) && (n <=? 102) then n - 87
  else if (65 <=? n) && (n <=? 70) then n - 55
  else 0.
Fixpoint unhex (s : string) : list N :=
  match s with
  | String a (String b r) => (16 * hexval a + hexval b) :: unhex r
  | _ => []
  end.

(* what the real decode of a call map said *)
Inductive mf_obs :=
| MfOkSame                      (* decoded, equal to the value that was encoded *)
| MfOkDifferent                 (* decoded to something else: a misread *)
| MfErrCodec (c : N)
| MfErrVarint (e : varint_error)
| MfErrFormat.

Inductive tag_kind :=
| TagCanonical (c : N)          (* the tag is the real encoder's tag of codec c *)
| TagRaw (canon : list N).      (* arbitrary tag bytes; [canon] = real encoder's tag of the expected codec *)

Inductive case_t :=
| WVarint (n : N) (enc rest : list N) (dec : varint_result)
    (* real tag of codec n, and the real parse of enc ++ rest *)
| WVarintRaw (bs : list N) (dec : varint_result) (reenc : list N)
    (* real parse of arbitrary bytes; reenc = real tag of the parsed number ([] on error) *)
| WMultiRT (codec : N) (bytes : list N) (obs : mf_obs)
    (* Repr.serialize of a generated map, then Repr.deserialize *)
| WMultiTag (expected : N) (tk : tag_kind) (tag payload : list N) (obs : mf_obs)
    (* the serialized map with its tag replaced, then Repr.deserialize *)
| WEnvelope (dv iv : string) (inner real : list N) (same : bool)
    (* envelope {dv, iv, inner}.serialize() = real; same = try_from_slice(real) gives the three parts back *)
| WVersions (dv iv : string) (bytes : list N) (obs : option (string * string))
    (* envelope with (corrupted) inner data: try_get_versions *)
| WVersionsRaw (bytes : list N) (obs : option (string * string))
| WFullRaw (bytes : list N) (obs : option (string * string * list N))
| WDataRT (kind : string) (same : bool).
    (* InterpreterData / envelope of a real run re-encoded and decoded: equal after canonicalisation *)

Definition verr_eqb (a b : varint_error) : bool :=
  match a, b with
  | VInsufficient, VInsufficient | VOverflow, VOverflow | VNotMinimal, VNotMinimal => true
  | _, _ => false
  end.
Definition vres_eqb (a b : varint_result) : bool :=
  match a, b with
  | VOk n r, VOk m s => (n =? m) && bytes_eqb r s
  | VErr e, VErr f => verr_eqb e f
  | _, _ => false
  end.
Definition obs_eqb (a b : mf_obs) : bool :=
  match a, b with
  | MfOkSame, MfOkSame | MfOkDifferent, MfOkDifferent | MfErrFormat, MfErrFormat => true
  | MfErrCodec c, MfErrCodec d => c =? d
  | MfErrVarint e, MfErrVarint f => verr_eqb e f
  | _, _ => false
  end.
Definition opt_bytes_eqb (a b : option (list N)) : bool := option_eqb bytes_eqb a b.

(* the inner format is abstract: it accepts exactly the payload the real format produced *)
Definition dec_for (payload : list N) (p : list N) : option unit :=
  if bytes_eqb p payload then Some tt else None.

Definition model_vs_obs (m : decode_result unit) (obs : mf_obs) : bool :=
  match m with
  | MOk _ => obs_eqb obs MfOkSame
  | MErr (DCodec c) => obs_eqb obs (MfErrCodec c)
  | MErr (DVarInt e) => obs_eqb obs (MfErrVarint e)
  | MErr DFormat =>
      (* the varint consumed something else than the tag: the rest is not the original payload and
         the model has no opinion on what the inner format makes of it *)
      obs_eqb obs MfErrFormat || obs_eqb obs MfOkDifferent
  end.

Definition ver_obs_ok (m : env_res (string * string)) (obs : option (string * string)) : bool :=
  match m, obs with
  | EOk (a, b), Some (c, d) => String.eqb a c && String.eqb b d
  | EErr, None => true
  | EUnsupported, _ => true
  | _, _ => false
  end.
Definition full_obs_ok (m : env_res (string * string * list N)) (obs : option (string * string * list N)) : bool :=
  match m, obs with
  | EOk (a, b, i), Some (c, d, j) => String.eqb a c && String.eqb b d && bytes_eqb i j
  | EErr, None => true
  | EUnsupported, _ => true
  | _, _ => false
  end.

Definition id_ver (s : string) : string := s.
Definition some_ver (s : string) : option string := Some s.

(* correspondence: model = implementation *)
Definition check_case (c : case_t) : bool :=
  match c with
  | WVarint n enc rest dec =>
      opt_bytes_eqb (varint_encode_u32 n) (Some enc) && vres_eqb (varint_decode_u32 (enc ++ rest)) dec
  | WVarintRaw bs dec reenc =>
      vres_eqb (varint_decode_u32 bs) dec &&
      match dec with VOk n _ => opt_bytes_eqb (varint_encode_u32 n) (Some reenc) | VErr _ => true end
  | WMultiRT codec bytes obs =>
      match varint_decode_u32 bytes with
      | VOk c payload =>
          (c =? codec) &&
          opt_bytes_eqb (encode_multiformat unit (fun _ => Some payload) codec tt) (Some bytes) &&
          model_vs_obs (decode_multiformat unit (dec_for payload) codec bytes) obs
      | VErr _ => false
      end
  | WMultiTag expected _ tag payload obs =>
      model_vs_obs (decode_multiformat unit (dec_for payload) expected (tag ++ payload)) obs
  | WEnvelope dv iv inner real same =>
      opt_bytes_eqb (envelope_serialize string id_ver dv iv inner) (Some real) &&
      full_obs_ok (envelope_try_from_slice string some_ver real) (Some (dv, iv, inner)) && same
  | WVersions _ _ bytes obs => ver_obs_ok (try_get_versions string some_ver bytes) obs
  | WVersionsRaw bytes obs => ver_obs_ok (try_get_versions string some_ver bytes) obs
  | WFullRaw bytes obs => full_obs_ok (envelope_try_from_slice string some_ver bytes) obs
  | WDataRT _ same => same
  end.

(* the property on the implementation's observations:
   - what was encoded decodes to exactly that;
   - a payload under the tag of another codec fails with the codec error; nothing is ever misread;
     a raw tag is accepted only if it is the tag the encoder writes for the expected codec;
   - the versions of an envelope are readable whatever its inner data is. *)
Definition c27_oracle (c : case_t) : bool :=
  match c with
  | WVarint n enc rest dec => vres_eqb dec (VOk n rest)
  | WVarintRaw bs dec reenc =>
      match dec with VOk n rest => bytes_eqb bs (reenc ++ rest) | VErr _ => true end
  | WMultiRT _ _ obs => obs_eqb obs MfOkSame
  | WMultiTag expected tk tag _ obs =>
      match tk with
      | TagCanonical c' => if c' =? expected then obs_eqb obs MfOkSame else obs_eqb obs (MfErrCodec c')
      | TagRaw canon =>
          negb (obs_eqb obs MfOkDifferent) && (negb (obs_eqb obs MfOkSame) || bytes_eqb tag canon)
      end
  | WEnvelope _ _ _ _ same => same
  | WVersions dv iv _ obs =>
      match obs with Some (a, b) => String.eqb a dv && String.eqb b iv | None => false end
  | WVersionsRaw _ _ => true
  | WFullRaw _ _ => true
  | WDataRT _ same => same
  end.
