(* CanonSpec.v -- statements of property C11 ("a canonicalized stream is fixed once and identical
   everywhere") about the canon instruction of the executor model (model/ExecStreams.v: exec_canon,
   handle_canon_executed, create_canon_first_time) and the canon merger of the trace handler
   (model/Handler.v: merge_canon_results, try_merge_next_state_as_canon, meet_canon_start).

   Rust: air/src/execution_step/instructions/{canon.rs, canon_map.rs, canon_stream_map_scalar.rs, canon_utils/mod.rs},
   crates/air-lib/trace-handler/src/merger/canon_merger.rs.
   Definitions only; the proofs are in proofs/CanonProofs.v. *)
From Aqua Require Import Base Json Air Trace Handler Values Scalars Lens Exec RunExec ExecStreams CallSpec.
From Aqua Require Stream.
Open Scope N_scope.
Open Scope list_scope.

(* ------------------------------------------------------------------------------------------ *)
(* vocabulary *)

(* what the merger hands to the canon instruction at its position (from previous and/or current data) *)
Definition canon_met (x : ctx) (r : merger_canon_result cid) : Prop :=
  exists h, meet_canon_start cid cid_eqb (x_handler x) = Ok (r, h).

Definition no_executed (r : merger_canon_result cid) : Prop :=
  match r with CanonMet _ (CanonExecuted _) => False | _ => True end.

(* the canon variable [name] of y was set to w by this instruction (Scalars::set_canon_value on x's variables) *)
Definition canon_bound (x y : ctx) (name : string) (w : canon_wp) : Prop :=
  exists shadowed, Scalars.set_value canon_wp (x_canons x) name w = inl (x_canons y, shadowed).

(* the content of a canon element / canon result, read off the content id alone
   (ExecutionCidState::get_canon_value_by_cid: value, tetraplet, provenance; the trace position is a fake 0) *)
Definition decode_canon_elem (c : cid) : option vagg :=
  match c with
  | CCanonElem (CValue j) (CTetraplet t) prov => Some (va_new j t 0 (prov_of_opt prov))
  | _ => None
  end.
Fixpoint decode_canon_elems (l : list cid) : option (list vagg) :=
  match l with
  | [] => Some []
  | c :: r => match decode_canon_elem c, decode_canon_elems r with
              | Some v, Some vs => Some (v :: vs)
              | _, _ => None
              end
  end.
Definition decode_canon_result (c : cid) : option canon_wp :=
  match c with
  | CCanonResult (CTetraplet t) vcs =>
      match decode_canon_elems vcs with
      | Some vs => Some {| cw_values := vs; cw_tetraplet := t; cw_cid := c |}
      | None => None
      end
  | _ => None
  end.

(* the same outcome up to the stream tables of the carried context *)
Definition xres_map (f : ctx -> ctx) (r : xres) : xres :=
  match r with XOk y => XOk (f y) | XErr e y => XErr e (f y) | o => o end.

(* a context with other stream tables (Streams and StreamMaps), everything else the same *)
Definition with_tables (x : ctx) (ms mm : Stream.streams vagg) : ctx :=
  set_ext x {| e_streams := ms; e_stream_maps := mm; e_canon_maps := e_canon_maps (x_ext x) |}.
Definition same_tables (x y : ctx) : Prop :=
  e_streams (x_ext y) = e_streams (x_ext x) /\ e_stream_maps (x_ext y) = e_stream_maps (x_ext x).

(* the stream (or stream map) values the executing peer knows when it reaches the instruction, in its
   own iteration order: Stream::iter = previous generations, then current, then new; inside a source by
   generation, then by insertion (C12_iter_order); an unknown stream is the empty stream
   (create_canon_stream_producer) *)
Definition known_values (tb : table) (x : ctx) (stream : var) : list vagg :=
  match get_in tb x (v_name stream) (v_pos stream) with
  | Some s => Stream.stream_iter vagg s
  | None => []
  end.

(* the content id a first execution creates *)
Definition first_cid (peer : string) (values : list vagg) : cid :=
  CCanonResult (CTetraplet (canon_tetraplet peer)) (map canon_elem_cid values).

Definition forget_pos (v : vagg) : vagg := va_set_pos v 0.

(* what the epilog of the three canon instructions binds: the canon stream variable (canon), the canon
   map variable (canon_map), a scalar holding the first (only) value (canon_stream_map_scalar) *)
Definition value_bound (k : canon_kind) (x y : ctx) (values : list vagg) (t : tetraplet) (c : cid) : Prop :=
  match k with
  | CKStream name => canon_bound x y name {| cw_values := values; cw_tetraplet := t; cw_cid := c |}
  | CKMap name =>
      exists shadowed,
        Scalars.set_value canon_map_wp (e_canon_maps (x_ext x)) name
                          {| cmw_values := values; cmw_tetraplet := t; cmw_cid := c |}
        = inl (e_canon_maps (x_ext y), shadowed)
  | CKMapScalar name =>
      exists v rest shadowed,
        values = v :: rest /\
        Scalars.set_value vagg (x_scalars x) name (VACanon (va_result v) (tp_peer t) (tp_lens t) (len_N (tr x)) c)
        = inl (x_scalars y, shadowed)
  end.

(* ------------------------------------------------------------------------------------------ *)
(* C11_reuse: a met Executed(c) is re-used; the bound value is the content of c, whatever the local
   streams and stream maps hold and whichever stream the instruction names.  For all three canon
   instructions (k) and both tables (tb). *)
Definition C11_reuse_stmt : Prop :=
  forall k tb x p stream c,
    canon_met x (CanonMet cid (CanonExecuted c)) ->
    (* independent of the local streams / stream maps *)
    (forall ms mm tb' stream',
        exec_canon_generic k tb' (with_tables x ms mm) p stream' =
        xres_map (fun y => with_tables y ms mm) (exec_canon_generic k tb x p stream)) /\
    (* success: the variable holds the decoded content of c, Executed(c) is written again, the stream
       tables are not touched *)
    (forall y, exec_canon_generic k tb x p stream = XOk y ->
        exists w, decode_canon_result c = Some w /\
                  value_bound k x y (cw_values w) (cw_tetraplet w) c /\
                  tr y = tr x ++ [SCanon (CanonExecuted c)] /\
                  same_tables x y) /\
    (* and never a new content id *)
    (forall y, outcome_ctx (exec_canon_generic k tb x p stream) = Some y -> x_cids y = x_cids x).

(* C11_first: at the designated peer, nothing executed met: the content id is that of the values this
   peer knows now, in this peer's order, under the tetraplet (peer, "", "", "") *)
Definition C11_first_stmt : Prop :=
  forall k tb x p stream r y,
    canon_met x r -> no_executed r ->
    resolve_peer_id_to_string x p = POk (current_peer x) ->
    exec_canon_generic k tb x p stream = XOk y ->
    let values := canon_producer k tb x stream (current_peer x) in
    let c := first_cid (current_peer x) values in
    (* canon / canon_map take the stream's values as they are; the scalar form packs the map into one object *)
    match k with CKMapScalar _ => True | _ => values = known_values tb x stream end /\
    tr y = tr x ++ [SCanon (CanonExecuted c)] /\
    value_bound k x y values (canon_tetraplet (current_peer x)) c /\
    cid_mem c (cs_canon_results (x_cids y)) = true /\
    x_tracker y = x_tracker x ++ [c] /\                 (* the id is registered for this peer's signature *)
    same_tables x y /\
    (* what every other peer will read off c: the same values (trace positions forgotten), same order *)
    decode_canon_result c =
      Some {| cw_values := map forget_pos values; cw_tetraplet := canon_tetraplet (current_peer x); cw_cid := c |}.

(* C11_only_designated *)
Definition C11_only_designated_stmt : Prop :=
  forall k tb x p stream y,
    outcome_ctx (exec_canon_generic k tb x p stream) = Some y ->
    (* the store of canon results changes, or an Executed state that was not met is written, only when
       the instruction's peer resolves to the current peer *)
    ((cs_canon_results (x_cids y) <> cs_canon_results (x_cids x) \/
      exists c, tr y = tr x ++ [SCanon (CanonExecuted c)] /\ ~ canon_met x (CanonMet cid (CanonExecuted c))) ->
     resolve_peer_id_to_string x p = POk (current_peer x)) /\
    (* on every other peer: no content id is created; RequestSentBy is written (and the designated
       peer becomes a next peer when nothing was met), or the met Executed state is re-used *)
    (forall r peer, canon_met x r -> resolve_peer_id_to_string x p = POk peer -> peer <> current_peer x ->
       x_cids y = x_cids x /\
       match r with
       | CanonEmpty _ =>
           tr y = tr x ++ [SCanon (CanonRequestSentBy (current_peer x))] /\ x_next_peers y = x_next_peers x ++ [peer]
       | CanonMet _ (CanonRequestSentBy s) =>
           tr y = tr x ++ [SCanon (CanonRequestSentBy s)] /\ x_next_peers y = x_next_peers x
       | CanonMet _ (CanonExecuted c) =>
           x_next_peers y = x_next_peers x /\ (tr y = tr x \/ tr y = tr x ++ [SCanon (CanonExecuted c)])
       end) /\
    (* the merger refused the two data (nothing is handed to the instruction): nothing happens *)
    ((forall r, ~ canon_met x r) -> y = x).

(* C11_unique *)
(* a later merge: the known state meets another one, on either side *)
Inductive merge_side := AsPrevious | AsCurrent.
Fixpoint merge_seq (acc : canon_result cid) (l : list (merge_side * canon_result cid)) : res (canon_result cid) :=
  match l with
  | [] => Ok acc
  | (AsPrevious, s) :: r => do m <- merge_canon_results cid cid_eqb acc s; merge_seq m r     (* acc is the previous data *)
  | (AsCurrent, s) :: r => do m <- merge_canon_results cid cid_eqb s acc; merge_seq m r      (* acc arrives as current data *)
  end.

(* the next state of each slider, as try_merge_next_state_as_canon will read it *)
Definition next_prev_state (h : handler cid) : option (state cid) := fst (next_state cid (k_prev cid (h_keeper cid h))).
Definition next_cur_state (h : handler cid) : option (state cid) := fst (next_state cid (k_cur cid (h_keeper cid h))).

Definition C11_unique_stmt : Prop :=
  (* two different executed results never merge *)
  (forall a b, a <> b ->
     merge_canon_results cid cid_eqb (CanonExecuted a) (CanonExecuted b) = Err CanonIncompatibleState) /\
  (* an executed result absorbs a pending one, on both sides, and itself *)
  (forall a s, merge_canon_results cid cid_eqb (CanonExecuted a) (CanonRequestSentBy s) = Ok (CanonExecuted a) /\
               merge_canon_results cid cid_eqb (CanonRequestSentBy s) (CanonExecuted a) = Ok (CanonExecuted a) /\
               merge_canon_results cid cid_eqb (CanonExecuted a) (CanonExecuted a) = Ok (CanonExecuted a)) /\
  (* all inputs: a successful merge with Executed(a) on either side is Executed(a) *)
  (forall p c r a, merge_canon_results cid cid_eqb p c = Ok r ->
     p = CanonExecuted a \/ c = CanonExecuted a -> r = CanonExecuted a) /\
  (* hence through any sequence of later merges *)
  (forall a l r, merge_seq (CanonExecuted a) l = Ok r -> r = CanonExecuted a) /\
  (* at the handler: with Executed(a) next in the previous or in the current data, the canon
     instruction is handed Executed(a) or the merge fails *)
  (forall h r h' a, meet_canon_start cid cid_eqb h = Ok (r, h') ->
     next_prev_state h = Some (SCanon (CanonExecuted a)) \/ next_cur_state h = Some (SCanon (CanonExecuted a)) ->
     r = CanonMet cid (CanonExecuted a)) /\
  (* verify_canon: an executed result stored under another peer's tetraplet is refused, uncatchably *)
  (forall k x p t vcs peer,
     resolve_peer_id_to_string x p = POk peer ->
     t <> canon_tetraplet peer ->
     cid_mem (CCanonResult (CTetraplet t) vcs) (cs_canon_results (x_cids x)) = true ->
     cid_mem (CTetraplet t) (cs_tetraplets (x_cids x)) = true ->
     handle_canon_executed k x p (CCanonResult (CTetraplet t) vcs) =
       XErr (EUncatch (UInstructionParametersMismatch "canon tetraplet")) x) /\
  (* ... and an uncatchable error ends the run with the previous data (no new data leaves the peer) *)
  (forall hook finish fuel i u x,
     exec hook fuel (ri_script i) (initial_ctx i) = XErr (EUncatch u) x ->
     run hook finish fuel i = OutPrevData (uncatchable_code u)).

(* ------------------------------------------------------------------------------------------ *)
(* two runs: the designated peer executes; any later run, on any peer, that meets that state (its
   stores containing what the first run's data carries) binds exactly the designated peer's values *)

Definition stores_include (big small : cid_state) : Prop :=
  (forall c, cid_mem c (cs_values small) = true -> cid_mem c (cs_values big) = true) /\
  (forall c, cid_mem c (cs_tetraplets small) = true -> cid_mem c (cs_tetraplets big) = true) /\
  (forall c, cid_mem c (cs_canon_elems small) = true -> cid_mem c (cs_canon_elems big) = true) /\
  (forall c, cid_mem c (cs_canon_results small) = true -> cid_mem c (cs_canon_results big) = true).

Definition C11_two_runs_stmt : Prop :=
  forall k1 tb1 x1 p1 stream1 r1 y1,
    (* first run: at the designated peer, nothing executed met *)
    canon_met x1 r1 -> no_executed r1 ->
    resolve_peer_id_to_string x1 p1 = POk (current_peer x1) ->
    exec_canon_generic k1 tb1 x1 p1 stream1 = XOk y1 ->
    let values := canon_producer k1 tb1 x1 stream1 (current_peer x1) in
    let c := first_cid (current_peer x1) values in
    forall k2 tb2 x2 p2 stream2 h2,
      (* a later run (any peer, any local streams) is handed that state and resolves the same peer *)
      meet_canon_start cid cid_eqb (x_handler x2) = Ok (CanonMet cid (CanonExecuted c), h2) ->
      stores_include (x_cids x2) (x_cids y1) ->
      resolve_peer_id_to_string x2 p2 = POk (current_peer x1) ->
      exec_canon_generic k2 tb2 x2 p2 stream2 =
        canon_epilog k2 (record_cid (set_handler x2 h2) (current_peer x1) c)
                     (map forget_pos values) (canon_tetraplet (current_peer x1)) c.

(* ------------------------------------------------------------------------------------------ *)
(* the merge table of the source (tools/genx_merge.py: mt_canon_table), interpreted: first matching
   row wins *)
Definition ckind_of (r : canon_result cid) : mt_ckind :=
  match r with CanonRequestSentBy _ => MtCanonRequestSentBy | CanonExecuted _ => MtCanonExecuted end.
Definition ckind_eqb (a b : mt_ckind) : bool :=
  match a, b with
  | MtCanonRequestSentBy, MtCanonRequestSentBy | MtCanonExecuted, MtCanonExecuted => true
  | _, _ => false
  end.
Definition cids_differ (p c : canon_result cid) : bool :=
  match p, c with
  | CanonExecuted a, CanonExecuted b => negb (cid_eqb a b)
  | _, _ => false                          (* the guard `prev != cur` is only written on Executed x Executed *)
  end.
Fixpoint canon_table_merge (table : list (mt_ckind * mt_ckind * mt_guard * mt_caction))
         (p c : canon_result cid) : option (res (canon_result cid)) :=
  match table with
  | [] => None                                (* a non-exhaustive match does not compile *)
  | (kp, kc, g, act) :: rest =>
      if ckind_eqb kp (ckind_of p) && ckind_eqb kc (ckind_of c) &&
         match g with MtAlways => true | MtIfCidsDiffer => cids_differ p c end
      then Some match act with
                | MtCTake MtPrev => Ok p
                | MtCTake MtCur => Ok c
                | MtCFail _ => Err CanonIncompatibleState
                end
      else canon_table_merge rest p c
  end.

(* the decisive source lines (tools/genx_canon.py) *)
Definition c11_source_agrees : bool :=
  (* canon_utils/mod.rs: handle_seen_canon dispatches on the met state *)
  list_eqb (pair_eqb String.eqb String.eqb) c11_seen_dispatch
           [("CanonResult::RequestSentBy(..)", "handle_canon_request_sent_by");
            ("CanonResult::Executed(canon_result_cid)", "handle_canon_executed")] &&
  (* handle_unseen_canon / handle_canon_request_sent_by: first execution only when the resolved peer is the current peer *)
  guard_eqb c11_unseen_guard ("exec_ctx.run_parameters.current_peer_id", CmpNe, "peer_id") &&
  String.eqb c11_unseen_else "create_canon_stream_for_first_time(epilog, create_canon_stream, peer_id, exec_ctx, trace_ctx)" &&
  guard_eqb c11_sent_guard ("exec_ctx.run_parameters.current_peer_id", CmpNe, "peer_id") &&
  list_eqb String.eqb c11_sent_then ["exec_ctx.make_subgraph_incomplete()"; "trace_ctx.meet_canon_end(canon_result)"; "Ok(())"] &&
  String.eqb c11_sent_else "create_canon_stream_for_first_time(epilog, create_canon_stream, peer_id, exec_ctx, trace_ctx)" &&
  (* handle_canon_executed: no stream, no producer; the value is rebuilt from the content id *)
  negb c11_executed_takes_producer && negb c11_executed_mentions_streams &&
  list_eqb String.eqb c11_executed_body
           ["let peer_id = crate::execution_step::instructions::resolve_peer_id_to_string(peer_id_var, exec_ctx)?";
            "let expected_tetraplet = SecurityTetraplet::new(peer_id, """", """", """")";
            "let canon_result_agg = exec_ctx.cid_state.get_canon_result_by_cid(&canon_result_cid)?";
            "let tetraplet_cid = canon_result_agg.tetraplet.clone()";
            "let tetraplet = exec_ctx.cid_state.get_tetraplet_by_cid(&tetraplet_cid)?";
            "verify_canon(&expected_tetraplet, &tetraplet)?";
            "let value_cids = canon_result_agg.values.clone()";
            "let values = value_cids .iter() .map(|canon_value_cid| exec_ctx.cid_state.get_canon_value_by_cid(canon_value_cid)) .collect::<Result<Vec<_>, _>>()?";
            "populate_seen_cid_context(exec_ctx, &tetraplet.peer_pk, &canon_result_cid)";
            "let canon_stream = CanonStream::new(values, tetraplet)";
            "epilog(canon_stream, canon_result_cid, exec_ctx, trace_ctx)"] &&
  (* verify_canon *)
  guard_eqb c11_verify_guard ("expected_tetraplet", CmpNe, "stored_tetraplet") &&
  String.eqb c11_verify_error "UncatchableError::InstructionParametersMismatch" &&
  (* create_canon_stream_for_first_time / populate_unseen_cid_context *)
  list_eqb String.eqb c11_first_time_body
           ["let canon_stream = create_canon_stream(exec_ctx, peer_id)";
            "let canon_result_cid = populate_unseen_cid_context(exec_ctx, &canon_stream)?";
            "epilog(canon_stream, canon_result_cid, exec_ctx, trace_ctx)"] &&
  String.eqb c11_unseen_value_cids "canon_stream .iter() .map(|canon_value| exec_ctx.cid_state.track_canon_value(canon_value)) .collect::<Result<_, _>>()?" &&
  String.eqb c11_unseen_aggregate "CanonResultCidAggregate::new(tetraplet_cid, value_cids)" &&
  (* the only place that creates a canon result id *)
  list_eqb String.eqb c11_canon_result_track_sites ["air/src/execution_step/instructions/canon_utils/mod.rs"] &&
  (* canon.rs: the producer takes the stream's values in Stream::iter order, under the tetraplet (peer, "", "", "") *)
  String.eqb c11_producer_values "stream.iter().cloned().collect::<Vec<_>>()" &&
  String.eqb c11_producer_result "CanonStream::from_values(values, peer_pk)" &&
  String.eqb c11_from_values_tetraplet "SecurityTetraplet::new(peer_pk, """", """", """")" &&
  (* canon.rs: epilog: set the canon variable, then write Executed(cid) *)
  list_eqb String.eqb c11_epilog_body
           ["let value = CanonStreamWithProvenance::new(canon_stream, canon_result_cid.clone())";
            "exec_ctx.scalars.set_canon_value(canon_stream_name, value)?";
            "trace_ctx.meet_canon_end(CanonResult::executed(canon_result_cid))"; "Ok(())"] &&
  (* stream_definition.rs: Stream::iter = previous, current, new *)
  list_eqb String.eqb c11_stream_iter_chain ["previous_values"; "current_values"; "new_values"] &&
  (* get_canon_value_by_cid: a fake trace position *)
  String.eqb c11_canon_value_pos "TracePos::default()".

Definition C11_source_tie_stmt : Prop :=
  c11_source_agrees = true /\
  (* the merge table the source contains today IS the model's canon merger, on all inputs *)
  (forall p c, canon_table_merge mt_canon_table p c = Some (merge_canon_results cid cid_eqb p c)) /\
  (* the source guard, read as a function on peer ids, is the model's test *)
  (forall a b, str_cmp (snd (fst c11_unseen_guard)) a b = Some (negb (String.eqb a b))) /\
  (forall a b, str_cmp (snd (fst c11_sent_guard)) a b = Some (negb (String.eqb a b))) /\
  (* verify_canon refuses exactly the unequal pairs (`if expected != stored { return Err(..) }`) *)
  (snd (fst c11_verify_guard) = CmpNe /\ forall e s, verify_canon e s = POk tt <-> e = s).

(* ------------------------------------------------------------------------------------------ *)
(* history level *)

Section History.
  Variable hook : stream_hook.
  Variable finish : ctx -> ctx + uncatchable.
  Variable fuel : nat.
  Variable script : instr.
  Variable init : string.
  Variable timestamp ttl : N.
  Variable service : string -> request -> service_answer.

  Definition net_data (n : net) : list idata := map ho_prev (n_hosts n) ++ map snd (n_inflight n).

  (* every data that exists at some moment of the history: stored by a peer or in flight *)
  Definition history_data (peers : list string) (ops : list hop) : list idata :=
    flat_map (fun k => net_data (fold_left (step hook finish fuel script init timestamp ttl service)
                                           (firstn k ops) (start_net peers)))
             (seq 0 (S (length ops))).

  (* two data hold different executed canon results at one canon position: walking the script over
     both (which is how positions of two traces correspond) ends in the canon merger's refusal *)
  Definition canon_conflict (observer : string) (d1 d2 : idata) : Prop :=
    exists x, exec hook fuel script
                   (initial_ctx {| ri_script := script; ri_params := params_of init timestamp ttl observer;
                                   ri_prev := d1; ri_cur := d2; ri_results := [] |})
              = XErr (EUncatch (UTraceError CanonIncompatibleState)) x.

  Definition C11_history_for (peers : list string) (observer : string) : Prop :=
    forall ops,
      n_clean (fold_left (step hook finish fuel script init timestamp ttl service) ops (start_net peers)) = true ->
      forall d1 d2, In d1 (history_data peers ops) -> In d2 (history_data peers ops) ->
      ~ canon_conflict observer d1 d2.
End History.

(* the whole property at history level: in every honest history of every script, under every
   schedule, no two data ever hold different executed results for one canon position (so every
   peer that reaches the instruction after the designated peer ran it binds that one content id:
   C11_reuse), the content being the designated peer's stream at its first execution (C11_first) *)
Definition C11_full (hook : stream_hook) (finish : ctx -> ctx + uncatchable) : Prop :=
  C11_reuse_stmt /\ C11_first_stmt /\ C11_only_designated_stmt /\ C11_unique_stmt /\
  forall fuel script init timestamp ttl service peers observer,
    In init peers ->
    C11_history_for hook finish fuel script init timestamp ttl service peers observer.
