(* NetLinCases.v -- a concrete straight-line script on two peers and one of its honest histories, for the non-vacuity
   examples of the history-level theorems of model/NetLin.v (props/C04.v, C05.v, C07.v, C09.v, C16.v, C19.v).
   Definitions only. *)
From Aqua Require Import Base Json Air Trace Values Exec RunExec ExecStreams SeqSem SeqLocal NetLin.
Open Scope N_scope.
Open Scope list_scope.

Definition nlx_var (n : string) : var := {| v_name := n; v_pos := 0 |}.
Definition nlx_call (p f : string) (args : list value) (out : call_output) : instr :=
  ICall "" {| t_peer := PLiteral p; t_service := SLiteral "s"; t_function := SLiteral f |} args out.
Definition nlx_svc (p s f : string) (args : list json) : service_answer :=
  if String.eqb f "fail" then {| sa_ret_code := 1; sa_text := """boom"""; sa_parsed := Some (JStr "boom") |}
  else {| sa_ret_code := 0; sa_text := ""; sa_parsed := Some (JArr (JStr (f ++ "@" ++ p) :: args)) |}.
(* (seq (call A f [] x) (seq (xor (call B fail [x]) (call B g [x] y)) (call A h [y] z))) *)
Definition nlx_script : instr :=
  ISeq (nlx_call "A" "f" [] (OutScalar (nlx_var "x")))
       (ISeq (IXor (nlx_call "B" "fail" [VScalar (nlx_var "x")] OutNone)
                   (nlx_call "B" "g" [VScalar (nlx_var "x")] (OutScalar (nlx_var "y"))))
             (nlx_call "A" "h" [VScalar (nlx_var "y")] (OutScalar (nlx_var "z")))).
Definition nlx_full : option nout := full_trace nlx_svc "A" 0 0 20 nlx_script.
(* start; A answers f; the particle reaches B (a copy stays in flight); B answers the failing call, then g;
   the particle reaches A; the first particle is delivered to B again; the stale copy arrives; A answers h;
   the init peer is started once more *)
Definition nlx_ops : list op :=
  [OStart; OAnswer "A" [1]; ODeliver 0 true; OAnswer "B" [1]; OAnswer "B" [2]; ODeliver 1 false; ORedeliver 0;
   ODeliver 0 false; OAnswer "A" [2]; OStart].
Definition nlx_history (k : nat) : net := history_with nlx_svc "A" 0 0 run2 20 nlx_script ["A"; "B"] (firstn k nlx_ops).
Definition nlx_host_trace (n : net) (p : string) : list (state cid) :=
  match assoc (n_hosts n) p with Some h => d_trace (h_prev h) | None => [] end.
