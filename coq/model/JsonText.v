(* JsonText.v -- text form, conversions and comparisons of the interpreter's JSON value type.

   Mirrors
     crates/air-lib/interpreter-value/src/value/ser.rs      Serialize for JValue (driven by serde_json's
                                                            compact serializer: JValue::to_string / Display)
     crates/air-lib/interpreter-value/src/value/de.rs       Deserialize for JValue (ValueVisitor: visit_u64 /
                                                            visit_i64 / visit_f64 / visit_str / visit_seq / visit_map),
                                                            driven by serde_json::from_str (serde_json 1.0.108,
                                                            features preserve_order / arbitrary_precision /
                                                            float_roundtrip all OFF in /repo/Cargo.lock)
     crates/air-lib/interpreter-value/src/value/from.rs     From<&serde_json::Value> for JValue
     crates/air-lib/interpreter-value/src/value/partial_eq.rs   eq_i64 / eq_u64 / eq_f64 / eq_bool / eq_str
     crates/air-lib/interpreter-value/src/value/mod.rs      derived PartialEq, as_i64 / as_u64 / as_f64 ...
     serde_json-1.0.108/src/ser.rs   format_escaped_str_contents, CompactFormatter
     serde_json-1.0.108/src/de.rs    parse_whitespace, parse_integer, parse_number, parse_decimal, parse_exponent,
                                     deserialize_any, SeqAccess, MapAccess, end, check_recursion! (remaining_depth = 128)
     serde_json-1.0.108/src/read.rs  StrRead::parse_str, parse_escape, decode_hex_escape

   Strings are byte sequences (Coq [string]); a Rust [str] is always valid UTF-8, the model does not need
   that invariant: bytes >= 0x80 are copied verbatim by the printer and by the parser.
   Floats: the model never computes with f64.  A float is its canonical text (ryu, as serde_json prints it);
   reading a float token is the [parse_float] parameter of the parser (token text -> canonical text of the f64
   that serde_json builds, None when serde_json answers NumberOutOfRange).
   Definitions only (proofs: proofs/JsonFacts.v, proofs/JsonTextProofs.v). *)
From Coq Require Import Decimal Permutation.
From Aqua Require Import Base Json.
Open Scope N_scope.

(* ------------------------------------------------------------------------------------------------ *)
(* characters *)

Definition dq : ascii := ascii_of_N 34.       (* the double quote *)
Definition bsl : ascii := ascii_of_N 92.      (* the backslash *)

Definition is_ws (c : ascii) : bool :=        (* de.rs parse_whitespace: ' ' '\n' '\t' '\r' *)
  let n := N_of_ascii c in (n =? 32) || (n =? 10) || (n =? 9) || (n =? 13).

Definition is_digit (c : ascii) : bool :=
  let n := N_of_ascii c in (48 <=? n) && (n <=? 57).

(* a character that can continue a number token: digits . e E + - *)
Definition is_num_char (c : ascii) : bool :=
  let n := N_of_ascii c in
  is_digit c || (n =? 46) || (n =? 101) || (n =? 69) || (n =? 43) || (n =? 45).

(* [rest] cannot extend a number token printed in front of it *)
Definition num_safe (rest : string) : bool :=
  match rest with
  | EmptyString => true
  | String c _ => negb (is_num_char c)
  end.

(* ------------------------------------------------------------------------------------------------ *)
(* the compact printer, in continuation style: [print_k j k] is the text of [j] followed by [k] *)

(* ser.rs HEX_DIGITS = b"0123456789abcdef" *)
Definition hex_digit (n : N) : ascii :=
  match n with
  | 0 => "0" | 1 => "1" | 2 => "2" | 3 => "3" | 4 => "4" | 5 => "5" | 6 => "6" | 7 => "7"
  | 8 => "8" | 9 => "9" | 10 => "a" | 11 => "b" | 12 => "c" | 13 => "d" | 14 => "e" | _ => "f"
  end%char.

(* ser.rs ESCAPE table + CharEscape::write_char_escape *)
Definition print_char_k (c : ascii) (k : string) : string :=
  let n := N_of_ascii c in
  if n =? 34 then String bsl (String dq k)
  else if n =? 92 then String bsl (String bsl k)
  else if 32 <=? n then String c k
  else if n =? 8 then String bsl (String "b" k)
  else if n =? 9 then String bsl (String "t" k)
  else if n =? 10 then String bsl (String "n" k)
  else if n =? 12 then String bsl (String "f" k)
  else if n =? 13 then String bsl (String "r" k)
  else String bsl (String "u" (String "0" (String "0"
         (String (hex_digit (n / 16)) (String (hex_digit (n mod 16)) k))))).

Fixpoint print_chars_k (s : string) (k : string) : string :=
  match s with
  | EmptyString => k
  | String c s' => print_char_k c (print_chars_k s' k)
  end.

(* ser.rs format_escaped_str *)
Definition print_string_k (s : string) (k : string) : string :=
  String dq (print_chars_k s (String dq k)).

Fixpoint print_uint_k (d : uint) (k : string) : string :=
  match d with
  | Nil => k
  | D0 d => String "0" (print_uint_k d k)
  | D1 d => String "1" (print_uint_k d k)
  | D2 d => String "2" (print_uint_k d k)
  | D3 d => String "3" (print_uint_k d k)
  | D4 d => String "4" (print_uint_k d k)
  | D5 d => String "5" (print_uint_k d k)
  | D6 d => String "6" (print_uint_k d k)
  | D7 d => String "7" (print_uint_k d k)
  | D8 d => String "8" (print_uint_k d k)
  | D9 d => String "9" (print_uint_k d k)
  end.

(* itoa: decimal digits, no leading zeros, "0" for zero *)
Definition print_N_k (n : N) (k : string) : string := print_uint_k (N.to_uint n) k.

Definition print_Z_k (z : Z) (k : string) : string :=
  match z with
  | Z0 => String "0" k
  | Zpos p => print_N_k (Npos p) k
  | Zneg p => String "-" (print_N_k (Npos p) k)
  end.

Section Tails.
  Variable pr : json -> string -> string.
  (* the elements after the first one, then the closing bracket *)
  Fixpoint print_elems_tail (xs : list json) (k : string) : string :=
    match xs with
    | [] => String "]" k
    | y :: ys => String "," (pr y (print_elems_tail ys k))
    end.
  Fixpoint print_members_tail (kvs : list (string * json)) (k : string) : string :=
    match kvs with
    | [] => String "}" k
    | (key, v) :: r => String "," (print_string_k key (String ":" (pr v (print_members_tail r k))))
    end.
End Tails.

(* ser.rs Serialize for JValue through serde_json::ser::Serializer<_, CompactFormatter> *)
Fixpoint print_k (j : json) (k : string) : string :=
  match j with
  | JNull => String "n" (String "u" (String "l" (String "l" k)))
  | JBool true => String "t" (String "r" (String "u" (String "e" k)))
  | JBool false => String "f" (String "a" (String "l" (String "s" (String "e" k))))
  | JInt z => print_Z_k z k
  | JFloat r => (r ++ k)%string
  | JStr s => print_string_k s k
  | JArr [] => String "[" (String "]" k)
  | JArr (x :: xs) => String "[" (print_k x (print_elems_tail print_k xs k))
  | JObj [] => String "{" (String "}" k)
  | JObj ((key, v) :: r) =>
      String "{" (print_string_k key (String ":" (print_k v (print_members_tail print_k r k))))
  end.

(* JValue::to_string() *)
Definition print (j : json) : string := print_k j EmptyString.

(* ------------------------------------------------------------------------------------------------ *)
(* lexing of numbers (de.rs parse_integer / parse_number / parse_decimal / parse_exponent and their
   overflow variants all accept the same token language; they differ only in how the f64 is built) *)

Definition digit_of (c : ascii) : option (uint -> uint) :=
  let n := N_of_ascii c in
  if n =? 48 then Some D0 else if n =? 49 then Some D1 else if n =? 50 then Some D2
  else if n =? 51 then Some D3 else if n =? 52 then Some D4 else if n =? 53 then Some D5
  else if n =? 54 then Some D6 else if n =? 55 then Some D7 else if n =? 56 then Some D8
  else if n =? 57 then Some D9 else None.

(* the longest prefix of digits, and the rest *)
Fixpoint lex_digits (s : string) : uint * string :=
  match s with
  | EmptyString => (Nil, EmptyString)
  | String c s' =>
      match digit_of c with
      | Some mk => let (d, r) := lex_digits s' in (mk d, r)
      | None => (Nil, s)
      end
  end.

(* parse_decimal: '.' needs at least one digit. Returns the consumed text ("" when there is no fraction). *)
Definition lex_frac (s : string) : option (string * string) :=
  match s with
  | EmptyString => Some (EmptyString, EmptyString)
  | String c s' =>
      if N_of_ascii c =? 46 then
        let (d, r) := lex_digits s' in
        match d with
        | Nil => None
        | _ => Some (String c (print_uint_k d EmptyString), r)
        end
      else Some (EmptyString, s)
  end.

(* parse_exponent: e|E, optional sign, at least one digit *)
Definition lex_exp (s : string) : option (string * string) :=
  match s with
  | EmptyString => Some (EmptyString, EmptyString)
  | String c s' =>
      if (N_of_ascii c =? 101) || (N_of_ascii c =? 69) then
        let (sg, s2) :=
          match s' with
          | EmptyString => (EmptyString, EmptyString)
          | String c2 s2' =>
              if (N_of_ascii c2 =? 43) || (N_of_ascii c2 =? 45) then (String c2 EmptyString, s2')
              else (EmptyString, s')
          end in
        let (d, r) := lex_digits s2 in
        match d with
        | Nil => None
        | _ => Some (String c (sg ++ print_uint_k d EmptyString)%string, r)
        end
      else Some (EmptyString, s)
  end.

Record numtok := { nt_neg : bool; nt_int : uint; nt_frac : string; nt_exp : string }.

(* parse_integer: "There can be only one leading '0'" *)
Definition leading_zero (d : uint) : bool :=
  match d with
  | D0 Nil => false
  | D0 _ => true
  | _ => false
  end.

Definition lex_number (s : string) : option (numtok * string) :=
  let (neg, s0) :=
    match s with
    | EmptyString => (false, s)
    | String c s' => if N_of_ascii c =? 45 then (true, s') else (false, s)
    end in
  let (ip, s1) := lex_digits s0 in
  match ip with
  | Nil => None
  | _ =>
      if leading_zero ip then None
      else
        match lex_frac s1 with
        | None => None
        | Some (fr, s2) =>
            match lex_exp s2 with
            | None => None
            | Some (ex, s3) => Some ({| nt_neg := neg; nt_int := ip; nt_frac := fr; nt_exp := ex |}, s3)
            end
        end
  end.

(* the text that was consumed for the token *)
Definition tok_text (t : numtok) : string :=
  let body := print_uint_k (nt_int t) (nt_frac t ++ nt_exp t)%string in
  if nt_neg t then String "-" body else body.

Definition tok_is_int (t : numtok) : bool :=
  String.eqb (nt_frac t) EmptyString && String.eqb (nt_exp t) EmptyString.

Definition i64_min_abs : N := 9223372036854775808.
Definition u64_max : N := 18446744073709551615.

(* parse_number's last arm: positive -> U64; negative -> I64 unless the magnitude is 0 ("-0" is a float)
   or exceeds 2^63; digits overflowing u64 go to parse_long_integer (a float).  None = read as f64. *)
Definition int_of_tok (t : numtok) : option Z :=
  if tok_is_int t then
    let v := N.of_uint (nt_int t) in
    if nt_neg t then
      if v =? 0 then None
      else if v <=? i64_min_abs then Some (- Z.of_N v)%Z else None
    else if v <=? u64_max then Some (Z.of_N v) else None
  else None.

(* a text that is exactly one number token which serde_json reads as f64 *)
Definition float_token (r : string) : bool :=
  match lex_number r with
  | Some (t, EmptyString) => match int_of_tok t with None => true | Some _ => false end
  | _ => false
  end.

(* ------------------------------------------------------------------------------------------------ *)
(* strings: read.rs parse_str (validate = true) / parse_escape / decode_hex_escape *)

Definition hex_val (c : ascii) : option N :=        (* read.rs decode_hex_val: 0-9 a-f A-F *)
  let n := N_of_ascii c in
  if (48 <=? n) && (n <=? 57) then Some (n - 48)
  else if (97 <=? n) && (n <=? 102) then Some (n - 87)
  else if (65 <=? n) && (n <=? 70) then Some (n - 55)
  else None.

Definition hex4 (a b c d : ascii) : option N :=
  match hex_val a, hex_val b, hex_val c, hex_val d with
  | Some x, Some y, Some z, Some w => Some (((x * 16 + y) * 16 + z) * 16 + w)
  | _, _, _, _ => None
  end.

(* char::encode_utf8 *)
Definition utf8_encode (n : N) : string :=
  let b x := ascii_of_N x in
  if n <? 128 then String (b n) EmptyString
  else if n <? 2048 then String (b (192 + n / 64)) (String (b (128 + n mod 64)) EmptyString)
  else if n <? 65536 then
    String (b (224 + n / 4096)) (String (b (128 + (n / 64) mod 64)) (String (b (128 + n mod 64)) EmptyString))
  else
    String (b (240 + n / 262144)) (String (b (128 + (n / 4096) mod 64))
      (String (b (128 + (n / 64) mod 64)) (String (b (128 + n mod 64)) EmptyString))).

(* prepend decoded bytes to the result of the rest of the string *)
Definition prepend (bytes : string) (r : option (string * string)) : option (string * string) :=
  match r with
  | Some (s, rest) => Some ((bytes ++ s)%string, rest)
  | None => None
  end.

(* the byte a one-letter escape stands for *)
Definition simple_escape (e : ascii) : option ascii :=
  let m := N_of_ascii e in
  if m =? 34 then Some dq
  else if m =? 92 then Some bsl
  else if m =? 47 then Some (ascii_of_N 47)
  else if m =? 98 then Some (ascii_of_N 8)
  else if m =? 102 then Some (ascii_of_N 12)
  else if m =? 110 then Some (ascii_of_N 10)
  else if m =? 114 then Some (ascii_of_N 13)
  else if m =? 116 then Some (ascii_of_N 9)
  else None.

(* after the opening quote: the decoded contents and what follows the closing quote.
   Raw control characters, a lone trailing surrogate, an unpaired leading surrogate, an unknown
   escape and end of input are errors. *)
Fixpoint parse_chars (s : string) : option (string * string) :=
  match s with
  | EmptyString => None
  | String c s1 =>
      let n := N_of_ascii c in
      if n =? 34 then Some (EmptyString, s1)
      else if n =? 92 then
        match s1 with
        | EmptyString => None
        | String e s2 =>
            match simple_escape e with
            | Some b => prepend (String b EmptyString) (parse_chars s2)
            | None =>
                if N_of_ascii e =? 117 then
                  match s2 with
                  | String h1 (String h2 (String h3 (String h4 s6))) =>
                      match hex4 h1 h2 h3 h4 with
                      | None => None
                      | Some n1 =>
                          if (56320 <=? n1) && (n1 <=? 57343) then None
                          else if (55296 <=? n1) && (n1 <=? 56319) then
                            match s6 with
                            | String b1 (String u1 (String g1 (String g2 (String g3 (String g4 s12))))) =>
                                if (N_of_ascii b1 =? 92) && (N_of_ascii u1 =? 117) then
                                  match hex4 g1 g2 g3 g4 with
                                  | None => None
                                  | Some n2 =>
                                      if (56320 <=? n2) && (n2 <=? 57343) then
                                        prepend (utf8_encode (65536 + (n1 - 55296) * 1024 + (n2 - 56320)))
                                                (parse_chars s12)
                                      else None
                                  end
                                else None
                            | _ => None
                            end
                          else prepend (utf8_encode n1) (parse_chars s6)
                      end
                  | _ => None
                  end
                else None
            end
        end
      else if n <? 32 then None
      else prepend (String c EmptyString) (parse_chars s1)
  end.

(* ------------------------------------------------------------------------------------------------ *)
(* the parser *)

Fixpoint skip_ws (s : string) : string :=
  match s with
  | EmptyString => EmptyString
  | String c s' => if is_ws c then skip_ws s' else s
  end.

(* de.rs parse_ident *)
Fixpoint expect_lit (lit s : string) : option string :=
  match lit with
  | EmptyString => Some s
  | String a lit' =>
      match s with
      | EmptyString => None
      | String c s' => if Ascii.eqb a c then expect_lit lit' s' else None
      end
  end.

(* serde_json::Deserializer::remaining_depth *)
Definition recursion_limit : N := 128.

Section Parser.
  (* the f64 reader of serde_json (f64_from_parts and friends, then ryu for the canonical text) *)
  Variable parse_float : string -> option string.

  Definition number_of_tok (t : numtok) : option json :=
    match int_of_tok t with
    | Some z => Some (JInt z)
    | None => option_map JFloat (parse_float (tok_text t))   (* de.rs visit_f64: always finite here *)
    end.

  Definition parse_number (s : string) : option (json * string) :=
    match lex_number s with
    | None => None
    | Some (t, rest) =>
        match number_of_tok t with
        | Some j => Some (j, rest)
        | None => None
        end
    end.

  (* de.rs deserialize_any + de.rs (interpreter-value) ValueVisitor.
     [depth] is remaining_depth: entering a container decrements it and fails when it reaches 0.
     [parse_elems] is positioned at an element, [parse_members] at a key; [acc] is the BTreeMap built so far
     (visit_map: values.insert(key, value), a later duplicate replaces an earlier one). *)
  Fixpoint parse_value (fuel : nat) (depth : N) (s : string) {struct fuel} : option (json * string) :=
    match fuel with
    | O => None
    | S f =>
        match skip_ws s with
        | EmptyString => None
        | String c s1 =>
            let n := N_of_ascii c in
            if n =? 110 then
              match expect_lit "ull"%string s1 with Some r => Some (JNull, r) | None => None end
            else if n =? 116 then
              match expect_lit "rue"%string s1 with Some r => Some (JBool true, r) | None => None end
            else if n =? 102 then
              match expect_lit "alse"%string s1 with Some r => Some (JBool false, r) | None => None end
            else if n =? 34 then
              match parse_chars s1 with Some (str, r) => Some (JStr str, r) | None => None end
            else if n =? 91 then
              if depth <=? 1 then None
              else
                match skip_ws s1 with
                | EmptyString => None
                | String c2 s2 =>
                    if N_of_ascii c2 =? 93 then Some (JArr [], s2)
                    else
                      match parse_elems f (depth - 1) s1 with
                      | Some (l, r) => Some (JArr l, r)
                      | None => None
                      end
                end
            else if n =? 123 then
              if depth <=? 1 then None
              else
                match skip_ws s1 with
                | EmptyString => None
                | String c2 s2 =>
                    if N_of_ascii c2 =? 125 then Some (JObj [], s2)
                    else
                      match parse_members f (depth - 1) s1 [] with
                      | Some (kvs, r) => Some (JObj kvs, r)
                      | None => None
                      end
                end
            else if (n =? 45) || is_digit c then parse_number (String c s1)
            else None
        end
    end
  with parse_elems (fuel : nat) (depth : N) (s : string) {struct fuel} : option (list json * string) :=
    match fuel with
    | O => None
    | S f =>
        match parse_value f depth s with
        | None => None
        | Some (v, r) =>
            match skip_ws r with
            | EmptyString => None
            | String c r1 =>
                if N_of_ascii c =? 44 then
                  match parse_elems f depth r1 with
                  | Some (vs, r2) => Some (v :: vs, r2)
                  | None => None
                  end
                else if N_of_ascii c =? 93 then Some ([v], r1)
                else None
            end
        end
    end
  with parse_members (fuel : nat) (depth : N) (s : string) (acc : list (string * json)) {struct fuel}
       : option (list (string * json) * string) :=
    match fuel with
    | O => None
    | S f =>
        match skip_ws s with
        | EmptyString => None
        | String c s1 =>
            if N_of_ascii c =? 34 then
              match parse_chars s1 with
              | None => None
              | Some (key, r) =>
                  match skip_ws r with
                  | EmptyString => None
                  | String c2 r1 =>
                      if N_of_ascii c2 =? 58 then
                        match parse_value f depth r1 with
                        | None => None
                        | Some (v, r2) =>
                            let acc' := obj_insert key v acc in
                            match skip_ws r2 with
                            | EmptyString => None
                            | String c3 r3 =>
                                if N_of_ascii c3 =? 44 then parse_members f depth r3 acc'
                                else if N_of_ascii c3 =? 125 then Some (acc', r3)
                                else None
                            end
                        end
                      else None
                  end
              end
            else None
        end
    end.

  (* serde_json::from_str::<JValue>: one value, then only whitespace (Deserializer::end).
     Fuel: every value consumes at least one character. *)
  Definition parse (s : string) : option json :=
    match parse_value (S (String.length s)) recursion_limit s with
    | Some (j, r) => match skip_ws r with EmptyString => Some j | String _ _ => None end
    | None => None
    end.

  (* [r] is a canonical float text for this reader: one float token that reads back as itself *)
  Definition float_fixed (r : string) : Prop := float_token r = true /\ parse_float r = Some r.
End Parser.

(* ------------------------------------------------------------------------------------------------ *)
(* measures *)

Fixpoint json_depth (j : json) : N :=
  match j with
  | JArr l => 1 + fold_right (fun x acc => N.max (json_depth x) acc) 0 l
  | JObj kvs => 1 + fold_right (fun kv acc => N.max (json_depth (snd kv)) acc) 0 kvs
  | _ => 0
  end.

Fixpoint floats_of (j : json) : list string :=
  match j with
  | JFloat r => [r]
  | JArr l => flat_map floats_of l
  | JObj kvs => flat_map (fun kv => floats_of (snd kv)) kvs
  | _ => []
  end.

(* ------------------------------------------------------------------------------------------------ *)
(* conversions JValue <-> serde_json::Value.  Both are [json] in the model; both object types are
   BTreeMaps (no crate of /repo's lock file enables serde_json/preserve_order, the lock entry of
   serde_json 1.0.108 has no indexmap dependency), so each conversion rebuilds the map by insertion. *)

(* from.rs: impl From<&serde_json::Value> for JValue; Map::from_iter over the source map *)
Fixpoint of_std (v : json) : json :=
  match v with
  | JArr l => JArr (map of_std l)
  | JObj kvs => jobj_of (map (fun kv => (fst kv, of_std (snd kv))) kvs)
  | x => x
  end.

(* ser.rs Serialize for JValue into serde_json::value::Serializer (serde_json::to_value):
   serialize_map + serialize_entry insert into a serde_json::Map; numbers go through
   serialize_u64 / serialize_i64 / serialize_f64 (finite, so Number::from_f64 is Some) *)
Fixpoint to_std (j : json) : json :=
  match j with
  | JArr l => JArr (map to_std l)
  | JObj kvs => jobj_of (map (fun kv => (fst kv, to_std (snd kv))) kvs)
  | x => x
  end.

(* ------------------------------------------------------------------------------------------------ *)
(* equality: #[derive(PartialEq)] on JValue; serde_json::Number compares PosInt/NegInt/Float variant-wise,
   floats by f64 ==, for which the only two distinct canonical texts that are equal are 0.0 and -0.0 *)

Definition float_norm (r : string) : string := if String.eqb r "-0.0"%string then "0.0"%string else r.
Definition float_eq (a b : string) : bool := String.eqb (float_norm a) (float_norm b).

Fixpoint json_norm (j : json) : json :=
  match j with
  | JFloat r => JFloat (float_norm r)
  | JArr l => JArr (map json_norm l)
  | JObj kvs => JObj (map (fun kv => (fst kv, json_norm (snd kv))) kvs)
  | x => x
  end.

Fixpoint jv_eq (a b : json) {struct a} : bool :=
  match a, b with
  | JNull, JNull => true
  | JBool x, JBool y => Bool.eqb x y
  | JInt x, JInt y => Z.eqb x y
  | JFloat x, JFloat y => float_eq x y
  | JStr x, JStr y => String.eqb x y
  | JArr xs, JArr ys =>
      (fix go (xs ys : list json) : bool :=
         match xs, ys with
         | [], [] => true
         | x :: xs', y :: ys' => jv_eq x y && go xs' ys'
         | _, _ => false
         end) xs ys
  | JObj xs, JObj ys =>
      (fix go (xs ys : list (string * json)) : bool :=
         match xs, ys with
         | [], [] => true
         | (k, x) :: xs', (k', y) :: ys' => String.eqb k k' && jv_eq x y && go xs' ys'
         | _, _ => false
         end) xs ys
  | _, _ => false
  end.

Fixpoint no_neg_zero (j : json) : bool :=
  match j with
  | JFloat r => negb (String.eqb r "-0.0"%string)
  | JArr l => forallb no_neg_zero l
  | JObj kvs => forallb (fun kv => no_neg_zero (snd kv)) kvs
  | _ => true
  end.

(* ------------------------------------------------------------------------------------------------ *)
(* mixed comparisons (partial_eq.rs) and the accessors they use (serde_json::Number::as_i64 / as_u64) *)

Definition i64_min : Z := (-9223372036854775808)%Z.
Definition i64_max : Z := 9223372036854775807%Z.
Definition u64_max_z : Z := 18446744073709551615%Z.
Definition in_i64 (z : Z) : bool := (i64_min <=? z)%Z && (z <=? i64_max)%Z.
Definition in_u64 (z : Z) : bool := (0 <=? z)%Z && (z <=? u64_max_z)%Z.
Definition in_number_range (z : Z) : bool := (i64_min <=? z)%Z && (z <=? u64_max_z)%Z.

(* Number::as_i64: PosInt(n) if n <= i64::MAX, NegInt(n) always, Float never *)
Definition as_i64 (v : json) : option Z :=
  match v with JInt z => if in_i64 z then Some z else None | _ => None end.
(* Number::as_u64: PosInt only *)
Definition as_u64 (v : json) : option Z :=
  match v with JInt z => if in_u64 z then Some z else None | _ => None end.
Definition as_bool (v : json) : option bool := match v with JBool b => Some b | _ => None end.
Definition as_str (v : json) : option string := match v with JStr s => Some s | _ => None end.

Definition eq_i64 (v : json) (other : Z) : bool :=
  match as_i64 v with Some i => Z.eqb i other | None => false end.
Definition eq_u64 (v : json) (other : Z) : bool :=
  match as_u64 v with Some i => Z.eqb i other | None => false end.
Definition eq_bool (v : json) (other : bool) : bool :=
  match as_bool v with Some b => Bool.eqb b other | None => false end.
Definition eq_str (v : json) (other : string) : bool :=
  match as_str v with Some s => String.eqb s other | None => false end.

Section MixedFloat.
  (* u64 / i64 `as f64`, as the canonical text of the resulting f64 (outside world: rounding) *)
  Variable int_to_f64 : Z -> string.
  (* Number::as_f64: PosInt(n) => n as f64, NegInt(n) => n as f64, Float(f) => f *)
  Definition as_f64 (v : json) : option string :=
    match v with JInt z => Some (int_to_f64 z) | JFloat r => Some r | _ => None end.
  Definition eq_f64 (v : json) (other : string) : bool :=
    match as_f64 v with Some r => float_eq r other | None => false end.
End MixedFloat.

(* the constant embedded by From<i64> / From<u64> / From<bool> / From<&str> / From<f64> (finite) *)
Definition embed_int (z : Z) : json := JInt z.

(* serde_json's classification of an integer literal, for every integer [z] (spelled in decimal) *)
Definition classify_int (parse_float : string -> option string) (z : Z) : option json :=
  if in_number_range z then Some (JInt z)
  else option_map JFloat (parse_float (print_Z_k z EmptyString)).

(* ------------------------------------------------------------------------------------------------ *)
(* tie to the sources: what tools/genx_jsonvalue.py reads from /repo (and from the serde_json version
   /repo's Cargo.lock pins) today is what this file mirrors *)
Definition jsonvalue_source_agrees : bool :=
  list_eqb String.eqb jvalue_variants ["Null"; "Bool"; "Number"; "String"; "Array"; "Object"]%string &&
  jvalue_map_is_btreemap &&
  negb (existsb (fun f => existsb (String.eqb f) ["preserve_order"; "arbitrary_precision"; "float_roundtrip"]%string)
                serde_json_features_requested) &&
  negb (existsb (String.eqb "indexmap") serde_json_lock_deps) &&
  (serde_json_recursion_limit =? recursion_limit) &&
  String.eqb serde_json_hex_digits
             (string_of_list_ascii (map hex_digit [0; 1; 2; 3; 4; 5; 6; 7; 8; 9; 10; 11; 12; 13; 14; 15])) &&
  jvalue_display_is_serde_json_compact && jvalue_visit_map_inserts_in_order &&
  jvalue_visit_f64_is_from_f64 && jvalue_from_std_rebuilds_map &&
  list_eqb (pair_eqb String.eqb String.eqb) jvalue_eq_accessors
           [("eq_i64", "as_i64"); ("eq_u64", "as_u64"); ("eq_f32", "as_f64"); ("eq_f64", "as_f64");
            ("eq_bool", "as_bool"); ("eq_str", "as_str")]%string &&
  list_eqb (pair_eqb String.eqb (list_eqb String.eqb)) jvalue_partialeq_numeric
           [("eq_i64", ["i8"; "i16"; "i32"; "i64"; "isize"]); ("eq_u64", ["u8"; "u16"; "u32"; "u64"; "usize"]);
            ("eq_f32", ["f32"]); ("eq_f64", ["f64"]); ("eq_bool", ["bool"])]%string.

(* ------------------------------------------------------------------------------------------------ *)
(* statements of C26 *)

(* printing then parsing gives the value back, for every well-formed value of nesting depth below
   serde_json's recursion limit whose floats are canonical for the float reader *)
Definition C26_roundtrip_stmt : Prop :=
  forall (parse_float : string -> option string) (j : json),
    wf_json j = true -> json_depth j < recursion_limit ->
    Forall (float_fixed parse_float) (floats_of j) ->
    parse parse_float (print j) = Some j.

(* the same without the depth premise: this is what the property says ("all JSON values") *)
Definition C26_roundtrip_full : Prop :=
  forall (parse_float : string -> option string) (j : json),
    wf_json j = true -> Forall (float_fixed parse_float) (floats_of j) ->
    parse parse_float (print j) = Some j.

(* the token-level form used by every caller that embeds a value in a larger text *)
Definition C26_prefix_stmt : Prop :=
  forall (parse_float : string -> option string) (j : json) (rest : string) (depth : N),
    wf_json j = true -> json_depth j < depth ->
    Forall (float_fixed parse_float) (floats_of j) ->
    num_safe rest = true ->
    exists fuel0, forall fuel, (fuel0 <= fuel)%nat ->
      parse_value parse_float fuel depth (print_k j rest) = Some (j, rest).

Definition C26_conversions_stmt : Prop :=
  forall v, wf_json v = true ->
    of_std v = v /\ to_std v = v /\ to_std (of_std v) = v /\ of_std (to_std v) = v.

Definition C26_eq_stmt : Prop :=
  (forall a b, json_eqb a b = true <-> a = b) /\
  (forall a b, jv_eq a b = json_eqb (json_norm a) (json_norm b)) /\
  (forall a b, no_neg_zero a = true -> no_neg_zero b = true -> (jv_eq a b = true <-> a = b)).

Definition C26_mixed_stmt : Prop :=
  (forall v n, in_i64 n = true -> eq_i64 v n = json_eqb v (JInt n)) /\
  (forall v n, in_u64 n = true -> eq_u64 v n = json_eqb v (JInt n)) /\
  (forall v b, eq_bool v b = json_eqb v (JBool b)) /\
  (forall v s, eq_str v s = json_eqb v (JStr s)) /\
  (forall i2f r x, eq_f64 i2f (JFloat x) r = jv_eq (JFloat x) (JFloat r)).

(* integer literals: exactly [i64::MIN, u64::MAX] stay integers, everything else is read as f64 *)
Definition C26_classify_stmt : Prop :=
  forall (parse_float : string -> option string) (z : Z),
    parse parse_float (print_Z_k z EmptyString) = classify_int parse_float z.

Definition C26_jobj_stmt : Prop :=
  (forall kvs, (forall kv, In kv kvs -> wf_json (snd kv) = true) -> wf_json (jobj_of kvs) = true) /\
  (forall kvs kvs', Permutation kvs kvs' -> NoDup (map fst kvs) -> jobj_of kvs = jobj_of kvs').
