"""Shared evaluation for the checks that go through `aquah exec` (history lock-step) and
model/ExecCases.v: every run of a generated history is given to the executor model; the Rust-side
property oracles (harness/src/oracles.rs) are evaluated on the implementation's own outputs."""
import json
import os

import airgen
import vlib

HEADER = ("From Aqua Require Import Base Json Air Trace Handler Values Scalars Lens Exec RunExec ExecStreams ExecCases.\n"
          "Open Scope N_scope.\nOpen Scope list_scope.\n")
TYPE = "case_t"


def history_case(rng, profile, n_ops=None, oracles=(), services=None, **extra):
    script = airgen.gen_script(rng, profile)
    ops = airgen.gen_schedule(rng, n_ops=n_ops if n_ops is not None else rng.choice([8, 14, 24]))
    c = {"script": script, "peers": airgen.PEERS[:profile.peers], "init": 0,
         "services": services if services is not None else airgen.DEFAULT_SERVICES, "ops": ops,
         "oracles": list(oracles), "seed": rng.randrange(1 << 30)}
    c.update(extra)
    return c


def evaluate(cases, result, checks, oracle_key=None, shard_size=40, tag=None, distinct_of=None, with_model=True):
    """cases: list of `exec` case dicts. checks: dict name -> Coq function `case_t -> bool`
    ('model' entries are correspondence; names starting with 'oracle' are property oracles evaluated
    in Coq on the implementation's observation).  Rust-side oracle failures come back in
    `oracle_failures` of each output object."""
    if not cases:
        return
    outs = vlib.harness_lines("exec", [json.dumps(c) for c in cases], timeout=1800)
    terms, owner = [], []
    for ci, o in enumerate(outs):
        if "error" in o:
            result["errors"].append(o["error"])
            continue
        hdr = "let script := %s in " % o["script_term"]
        for ti, t in enumerate(o["coq"]):
            terms.append("(" + hdr + t + ")")
            owner.append((ci, ti))
        for cl in o["classes"]:
            result["distribution"][cl] = result["distribution"].get(cl, 0) + 1
        result["evaluations"] += int(o.get("runs", len(o["classes"])))
        result["distribution"]["histories"] = result["distribution"].get("histories", 0) + 1
        result["distribution"]["service invocations"] = result["distribution"].get("service invocations", 0) + int(o.get("invocations", 0))
        for inf in o["info"]:
            if distinct_of:
                k = distinct_of(cases[ci], inf)
                if k is not None:
                    result["distinct"].add(k)
            elif inf.get("trace_len"):
                result["distinct"].add(json.dumps([cases[ci]["script"], inf.get("step"), inf.get("code"), inf.get("trace_len")]))
        for f in o.get("oracle_failures", []):
            result["oracle_fail"].append({"case": dict(cases[ci]), "detail": f,
                                          "key": oracle_key(f) if oracle_key else f.get("key"),
                                          "what": "property oracle false on the implementation: %s" % f.get("what", "")})
        if len(result["samples"]) < 3 and o["coq"]:
            result["samples"].append({"case": cases[ci], "first_term": o["coq"][0][:800]})
    if not terms or not with_model or not checks:
        return
    fails, errs = vlib.coq_eval_cases(tag or ("exec-%d" % os.getpid()), HEADER, TYPE, checks, terms, shard_size=shard_size)
    result["errors"].extend(errs)
    for name, idxs in fails.items():
        for i in idxs:
            ci, ti = owner[i]
            info = outs[ci]["info"][ti] if ti < len(outs[ci]["info"]) else {}
            entry = {"case": dict(cases[ci], probe_steps=[info.get("step")]) if info.get("step") is not None else dict(cases[ci]),
                     "term_index": ti, "info": info, "check": name}
            if name.startswith("oracle"):
                entry["what"] = "property oracle %s (Coq) is false on the implementation's observation" % checks[name]
                entry["key"] = None
                result["oracle_fail"].append(entry)
            else:
                entry["what"] = "the executor model (%s) disagrees with the implementation on this run" % checks[name]
                result["mismatch"].append(entry)
