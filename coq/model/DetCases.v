(* DetCases.v -- C20 correspondence: the order-parameterised pieces of model/DetSpec.v against what
   N executions of the real interpreter on the same input showed (harness/src/bin/det20.rs).

   The model predicts the SET of possible observations (one per iteration order); the implementation's
   observations must lie inside it:
     CNext  the next-peer lists of the executions: each duplicate-free, all permutations of each other
            (dedup_real o l for the orders o)
     CMsg   the texts of the 30000 message for the given leftover call results: each must be
            unprocessed_msg o left for some order o
     CMap   the JSON renderings of a canon map with the given key/value pairs that the executions handed
            to a service: each must be as_jvalue o (groups_of kvs) for some order o
   The property oracle itself (same canonical outcome in every execution) is evaluated on the Rust side
   over the complete outcomes. *)
From Aqua Require Import Base Json JsonText Air Trace Handler Values Scalars Lens Exec RunExec ExecStreams DetSpec.
Open Scope N_scope.
Open Scope list_scope.

Inductive case_t :=
| CNext (lists : list (list string))
| CMsg (lft : list call_result) (msgs : list string)
| CMap (kvs : list (map_key * string)) (seen : list (list (string * list string))).

Fixpoint insert_all {A} (x : A) (l : list A) : list (list A) :=
  match l with
  | [] => [[x]]
  | y :: r => (x :: l) :: map (cons y) (insert_all x r)
  end.
Fixpoint perms {A} (l : list A) : list (list A) :=
  match l with [] => [[]] | x :: r => flat_map (insert_all x) (perms r) end.

Definition mem_str (x : string) (l : list string) : bool := existsb (String.eqb x) l.
Fixpoint nodupb (l : list string) : bool :=
  match l with [] => true | x :: r => negb (mem_str x r) && nodupb r end.
Definition same_set (a b : list string) : bool :=
  forallb (fun x => mem_str x b) a && forallb (fun x => mem_str x a) b.

Definition small {A} (l : list A) : bool := (length l <=? 5)%nat.

Definition seen_json (r : list (string * list string)) : json :=
  JObj (map (fun kv => (fst kv, JArr (map JStr (snd kv)))) r).

Definition check_case (c : case_t) : bool :=
  match c with
  | CNext lists =>
      match lists with
      | [] => true
      | l0 :: _ =>
          list_eqb String.eqb (dedup_real id_order l0) l0 &&
          forallb (fun l => nodupb l && same_set l l0 && (length l =? length l0)%nat) lists
      end
  | CMsg lft msgs =>
      negb (small lft && forallb (fun e => printable (fst e) && printable (snd (snd e))) lft) ||
      forallb (fun m => existsb (fun p => String.eqb m (unprocessed_msg (fun _ => p) lft)) (perms lft)) msgs
  | CMap kvs seen =>
      let groups := groups_of (map (fun kv => (fst kv, JStr (snd kv))) kvs) in
      negb (small groups) ||
      forallb (fun r => existsb (fun p => json_eqb (seen_json r) (as_jvalue (fun _ => p) groups)) (perms groups)) seen
  end.

(* how many different observations the model allows (evidence: 1 = the model says deterministic) *)
Definition model_variants (c : case_t) : N :=
  match c with
  | CNext _ => 1
  | CMsg lft _ =>
      N.of_nat (length (fold_left (fun acc p => let m := unprocessed_msg (fun _ => p) lft in
                                                if mem_str m acc then acc else m :: acc) (perms lft) []))
  | CMap kvs _ =>
      let groups := groups_of (map (fun kv => (fst kv, JStr (snd kv))) kvs) in
      N.of_nat (length (fold_left (fun acc p => let j := as_jvalue (fun _ => p) groups in
                                                if existsb (json_eqb j) acc then acc else j :: acc) (perms groups) []))
  end.
(* the model itself says the observation is order independent for this case *)
Definition model_deterministic (c : case_t) : bool := model_variants c =? 1.

(* self-test of the case machinery *)
Definition selftest : bool :=
  check_case (CNext [["a"; "b"]; ["b"; "a"]]%string) &&
  negb (check_case (CNext [["a"; "b"]; ["b"; "b"]]%string)) &&
  check_case (CMap [(KInt 42, """int"""); (KStr "42", """str""")]%string [[("42", ["""str"""])]; [("42", ["""int"""])]]%string) &&
  negb (check_case (CMap [(KInt 42, """int"""); (KStr "43", """str""")]%string [[("42", ["""str"""])]]%string)) &&
  negb (model_deterministic (CMap [(KInt 42, """int"""); (KStr "42", """str""")]%string [])) &&
  model_deterministic (CMap [(KInt 42, """int"""); (KStr "43", """str"""); (KInt 42, """more""")]%string []).
