"""Generator of the cases of C11 (harness/src/bin/canon11.rs): scripts in which several peers append to a
stream (call results and `ap`), one designated peer canonicalizes it, values are appended afterwards,
and the canon value is handed to services on every peer.

Conventions the driver's oracle (c) relies on (one canonicalized stream `$s` per script):
  * a value of `$s` is either the result of `(call X ("val" "<name>") [] $s)`            -> "<name>@X"
    or `(seq (call X ("val" "<name>") [] g) (ap g $s))`                                   -> "<name>@X" (tetraplet of the call)
    or `(seq (call X ("lit" "<name>") [] m) (ap "<name>" $s))`                            -> "<name>" (a literal)
    (the scalar call sits immediately in front of its `ap` in every trace);
  * other streams (`$d`: never canonicalized) only receive `(call X ("dec" ..) [] $d)`;
  * observers are `(call Q ("obs" "<canon tag>") [<iteration key> #canon])` and
    `(xor (call Q ("obs0" "<canon tag>") [<key> #canon.$.[0]]) (null))`;
  * `seq_canons`: the canon instructions of the script are executed one after the other (never in two
    branches of a par, never inside a fold over a stream), so the j-th canon state of any trace belongs
    to the j-th executed canon instruction."""

PEERS = ["A", "B", "C", "D"]


class G:
    def __init__(self, rng, npeers):
        self.r = rng
        self.peers = PEERS[:npeers]
        self.n = 0
        self.services = []

    def fresh(self, p):
        self.n += 1
        return "%s%d" % (p, self.n)

    def peer(self):
        return self.r.choice(self.peers)

    def svc(self, s, f, b):
        self.services.append([s, f, b])

    # ---- appends -----------------------------------------------------------------------------
    def append(self, stream="$s", kinds=("call", "call", "ap", "lit")):
        k = self.r.choice(kinds)
        x = self.peer()
        name = self.fresh("n")
        if k == "call":
            self.svc("val", name, {"peertag": 1})
            return '(call "@%s" ("val" "%s") [] %s)' % (x, name, stream)
        if k == "ap":
            self.svc("val", name, {"peertag": 1})
            g = self.fresh("g")
            return '(seq (call "@%s" ("val" "%s") [] %s) (ap %s %s))' % (x, name, g, g, stream)
        self.svc("lit", name, {"peertag": 1})
        g = self.fresh("m")
        return '(seq (call "@%s" ("lit" "%s") [] %s) (ap "%s" %s))' % (x, name, g, name, stream)

    def decoy(self):
        name = self.fresh("d")
        self.svc("dec", name, {"peertag": 1})
        return '(call "@%s" ("dec" "%s") [] $d)' % (self.peer(), name)

    def tree(self, leaves, par_p=0.7):
        """random binary tree over the leaves: par (mostly) or seq nodes"""
        if len(leaves) == 1:
            return leaves[0]
        k = self.r.randrange(1, len(leaves))
        a, b = self.tree(leaves[:k], par_p), self.tree(leaves[k:], par_p)
        return "(%s %s %s)" % ("par" if self.r.random() < par_p else "seq", a, b)

    def appends(self, n, decoys=0, stream="$s", kinds=("call", "call", "ap", "lit")):
        ls = [self.append(stream, kinds) for _ in range(n)] + [self.decoy() for _ in range(decoys)]
        self.r.shuffle(ls)
        return self.tree(ls) if ls else "(null)"

    # ---- canon -------------------------------------------------------------------------------
    def canon(self, stream, cvar, designated=None, how=None):
        p = designated or self.peer()
        how = how or self.r.choice(["lit", "lit", "var", "lens"])
        if how == "lit":
            return p, '(canon "@%s" %s %s)' % (p, stream, cvar)
        f = self.fresh("p")
        v = self.fresh("pv")
        if how == "var":
            self.svc("peer", f, {"const": "@" + p})
            return p, '(seq (call "@%s" ("peer" "%s") [] %s) (canon %s %s %s))' % (self.peer(), f, v, v, stream, cvar)
        self.svc("peer", f, {"const": {"peer": "@" + p, "n": 1, "l": ["@" + p]}})
        lens = self.r.choice([".$.peer", ".$.l.[0]"])
        return p, '(seq (call "@%s" ("peer" "%s") [] %s) (canon %s%s %s %s))' % (self.peer(), f, v, v, lens, stream, cvar)

    def observers(self, tag, cvar, key='"k"', elem=True, who=None):
        who = who or self.peers
        ls = []
        for q in who:
            ls.append('(call "@%s" ("obs" "%s") [%s %s])' % (q, tag, key, cvar))
            if elem and self.r.random() < 0.5:
                ls.append('(xor (call "@%s" ("obs0" "%s") [%s %s.$.[0]]) (null))' % (q, tag, key, cvar))
        return self.tree(ls, par_p=0.85)


def seqs(items):
    items = [i for i in items if i]
    out = items[-1]
    for i in reversed(items[:-1]):
        out = "(seq %s %s)" % (i, out)
    return out


def struct_script(rng, npeers=3, size="small"):
    """appends / canon / observers / appends afterwards / second canon / observers"""
    g = G(rng, npeers)
    n1 = {"tiny": rng.choice([1, 2]), "small": rng.choice([2, 2, 3]), "big": rng.choice([3, 4, 5])}[size]
    n2 = {"tiny": rng.choice([0, 1]), "small": rng.choice([1, 2]), "big": rng.choice([1, 2, 3])}[size]
    dec = 0 if size == "tiny" else rng.choice([0, 1, 2])
    parts = [g.appends(n1, decoys=dec)]
    p1, c1 = g.canon("$s", "#c1")
    parts.append(c1)
    who = g.peers if size != "tiny" else rng.sample(g.peers, 2)
    parts.append(g.observers("c1", "#c1", who=who, elem=size != "tiny"))
    second = size != "tiny" and rng.random() < 0.7
    if n2:
        parts.append(g.appends(n2))
    if second:
        p2, c2 = g.canon("$s", "#c2")
        parts.append(c2)
        parts.append(g.observers("c2", "#c2", who=rng.sample(g.peers, min(2, len(g.peers)))))
    parts.append('(call "@%s" ("s" "end") [])' % g.peer())
    body = seqs(parts)
    if rng.random() < 0.25:
        body = "(new $s %s)" % body          # a scoped stream: one instance, the same conventions
    return {"script": body, "peers": g.peers, "services": g.services, "seq_canons": True, "expect_c": True,
            "family": "struct/" + size}


def fold_script(rng, npeers=3):
    """one canon per iteration of a fold over a list of peers: each iteration designates its own peer;
    values are appended inside the iterations"""
    g = G(rng, npeers)
    parts = [g.appends(rng.choice([1, 2, 3]), decoys=rng.choice([0, 1]))]
    lst = rng.sample(g.peers, rng.choice([2, min(3, len(g.peers))]))       # distinct: the peer is the iteration key of the observers
    g.svc("peer", "list", {"const": ["@" + p for p in lst]})
    parts.append('(call "@%s" ("peer" "list") [] ps)' % g.peer())
    more = ""
    if rng.random() < 0.7:
        g.svc("val", "more", {"peertag": 1})
        more = '(call p ("val" "more") [] $s)' if rng.random() < 0.5 else '(seq (call p ("val" "more") [] gm) (ap gm $s))'
    obs = g.observers("ci", "#ci", key="p", who=rng.sample(g.peers, min(2, len(g.peers))))
    body = seqs(['(canon p $s #ci)', obs, more, "(next p)"])
    parts.append("(fold ps p %s)" % body)
    parts.append('(call "@%s" ("s" "end") [])' % g.peer())
    return {"script": seqs(parts), "peers": g.peers, "services": g.services, "seq_canons": True, "expect_c": True,
            "family": "fold"}


def scoped_fold_script(rng, npeers=3):
    """a `new`-scoped stream per iteration: several stream instances (oracle (c) does not apply)"""
    g = G(rng, npeers)
    lst = rng.sample(g.peers, rng.choice([2, min(3, len(g.peers))]))
    g.svc("peer", "list", {"const": ["@" + p for p in lst]})
    g.svc("val", "w", {"peertag": 1})
    g.svc("val", "u", {"peertag": 1})
    inner = seqs(['(par (call p ("val" "w") [] $t) (call "@%s" ("val" "u") [] $t))' % g.peer(),
                  "(canon p $t #ct)", g.observers("ct", "#ct", key="p", who=rng.sample(g.peers, 2))])
    script = seqs(['(call "@%s" ("peer" "list") [] ps)' % g.peer(),
                   "(fold ps p (seq (new $t %s) (next p)))" % inner,
                   '(call "@%s" ("s" "end") [])' % g.peer()])
    return {"script": script, "peers": g.peers, "services": g.services, "seq_canons": True, "expect_c": False,
            "family": "new-per-iteration"}


def par_canons_script(rng, npeers=3):
    """two streams canonicalized in the two branches of a par, at different peers (positions are then
    compared through the observer merge only)"""
    g = G(rng, npeers)
    a1 = g.appends(rng.choice([1, 2]), stream="$s")
    a2 = g.appends(rng.choice([1, 2]), stream="$u", kinds=("call",))
    p1, c1 = g.canon("$s", "#c1")
    p2, c2 = g.canon("$u", "#c2")
    left = seqs([a1, c1, g.observers("c1", "#c1", who=rng.sample(g.peers, 2))])
    right = seqs([a2, c2, g.observers("c2", "#c2", who=rng.sample(g.peers, 2))])
    script = seqs(["(par %s %s)" % (left, right), '(call "@%s" ("s" "end") [])' % g.peer()])
    return {"script": script, "peers": g.peers, "services": g.services, "seq_canons": False, "expect_c": False,
            "family": "par-canons"}


def map_script(rng, npeers=3):
    """stream maps: canon_map and canon_stream_map_scalar (the model answers Unsupported: oracles only)"""
    g = G(rng, npeers)
    leaves = []
    for _ in range(rng.choice([2, 3, 4])):
        name = g.fresh("n")
        g.svc("val", name, {"peertag": 1})
        v = g.fresh("g")
        key = rng.choice(['"%s"' % g.fresh("key"), '"same"', str(rng.randrange(3))])
        leaves.append('(seq (call "@%s" ("val" "%s") [] %s) (ap (%s %s) %%m))' % (g.peer(), name, v, key, v))
    parts = [g.tree(leaves)]
    p = g.peer()
    kind = rng.choice(["map", "scalar", "both"])
    if kind in ("map", "both"):
        parts.append('(canon "@%s" %%m #%%cm)' % p)
        parts.append(g.tree(['(call "@%s" ("obs" "cm") ["k" #%%cm])' % q for q in g.peers], par_p=0.85))
    if rng.random() < 0.6:
        name = g.fresh("n")
        g.svc("val", name, {"peertag": 1})
        parts.append('(seq (call "@%s" ("val" "%s") [] late) (ap ("late" late) %%m))' % (g.peer(), name))
    if kind in ("scalar", "both"):
        parts.append('(canon "@%s" %%m sc)' % g.peer())
        parts.append(g.tree(['(call "@%s" ("obs" "sc") ["k" sc])' % q for q in g.peers], par_p=0.85))
    parts.append('(call "@%s" ("s" "end") [])' % g.peer())
    return {"script": seqs(parts), "peers": g.peers, "services": g.services, "seq_canons": True, "expect_c": False,
            "family": "maps/" + kind}


def fork_case(rng, npeers=3):
    """one canon instruction; two worlds in which the designated peer learns the stream in different orders;
    then one peer is given the data of both worlds"""
    g = G(rng, npeers)
    des = g.peer()
    others = [p for p in g.peers if p != des] or g.peers
    a, b = rng.choice(others), rng.choice(others)
    g.svc("val", "x", {"peertag": 1})
    g.svc("val", "y", {"peertag": 1})
    how = rng.choice(["lit", "var"])
    _, cn = g.canon("$s", "#c1", designated=des, how=how)
    script = seqs(['(par (call "@%s" ("val" "x") [] $s) (call "@%s" ("val" "y") [] $s))' % (a, b), cn,
                   g.observers("c1", "#c1", who=rng.sample(g.peers, 2), elem=False)])
    return {"mode": "fork", "script": script, "peers": g.peers, "services": g.services, "seq_canons": True, "expect_c": True,
            "family": "fork", "designated": {"a": des, "b": des}}


def forge_case(rng, npeers=3):
    """world A runs the script with designated peer P, world B the same script designating Q; a peer running
    B's script is given A's data: a canon result executed by a peer the instruction does not designate; a peer
    that holds A's data is given B's data: two different executed results (each signed by its own executor, so
    the signature check has no objection) meet in the canon merger"""
    g = G(rng, npeers)
    p, q = rng.sample(g.peers, 2)
    g.svc("val", "x", {"peertag": 1})
    base = '(seq (call "@%s" ("val" "x") [] $s) (seq (canon "@%%s" $s #c1) (call "@%s" ("obs" "c1") ["k" #c1])))' % (g.peer(), g.peer())
    return {"mode": "forge", "script": base % p, "script_b": base % q, "peers": g.peers, "services": g.services,
            "seq_canons": True, "expect_c": True, "family": "forge", "designated": {"a": p, "b": q}}


def random_schedule(rng, n_ops, npeers, dup=0.12, redeliver=0.08, idle=0.03):
    ops = [["start"]]
    for _ in range(n_ops):
        x = rng.random()
        if x < 0.5:
            ops.append(["d", rng.randrange(6)])
        elif x < 0.5 + dup:
            ops.append(["dup", rng.randrange(6)])
        elif x < 0.5 + dup + redeliver:
            ops.append(["re", rng.randrange(12)])
        elif x < 0.5 + dup + redeliver + idle:
            ops.append(["idle", rng.randrange(npeers)])
        else:
            ops.append(["r", rng.randrange(npeers), 0 if rng.random() < 0.7 else rng.randrange(1, 8)])
    for _ in range(14):                      # then drain
        for p in range(npeers):
            ops.append(["r", p, 0])
        ops.append(["d", 0])
        if rng.random() < 0.3:
            ops.append(["re", rng.randrange(12)])
    return ops
