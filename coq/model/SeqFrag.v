(* SeqFrag.v -- the syntactic fragment F of property C16, as a decidable predicate on scripts.

   [in_fragment may_fail s]:
   * only the instructions and operands of F (model/SeqSem.v): no stream, canon, map, %last_error%, :error:,
     fail with a variable, lens that did not parse;
   * "every instruction that can fail is caught by an xor with no par in between": [ok_ctx caught ..]
     walks the script with the flag "a failure here is caught by an enclosing xor without crossing a par";
     an instruction that can fail (a call whose service can fail ([may_fail], from the service table) or
     whose target / arguments can (a lens, a scalar that is not a string), match / mismatch, fail, an ap
     through a lens, a fold over a scalar (it may not be an array), a scalar read under its own `new`)
     requires the flag;
   * names: every name is bound once (call outputs, ap results, fold iterators), except that `new x` opens a
     scope in which x may be bound once more ([names_ok]); a `new x` variable is not re-bound inside a fold
     of its body;
   * the two branches of a par do not read what the sibling defines;
   * a fold body has one of the shapes (seq b (next i)) (par b (next i)) (seq (next i) b) (par (next i) b)
     with i the fold's own iterator and no other next.
   Definitions only. *)
From Aqua Require Import Base Json Air.
Open Scope N_scope.
Open Scope list_scope.

Definition smem (x : string) (l : list string) : bool := existsb (String.eqb x) l.
Definition sremove (x : string) (l : list string) : list string := filter (fun y => negb (String.eqb x y)) l.
Definition disjoint (a b : list string) : bool := forallb (fun x => negb (smem x b)) a.

Definition lens_ok (l : lambda) : bool :=
  match l with
  | LFunctorLength => true
  | LValuePath p => forallb (fun a => match a with AccessorError => false | _ => true end) p
  end.
Definition lens_uses (l : lambda) : list string :=
  match l with
  | LFunctorLength => []
  | LValuePath p => flat_map (fun a => match a with FieldAccessByScalar s => [s] | _ => [] end) p
  end.

Definition value_ok (v : value) : bool :=
  match v with
  | VInitPeerId | VTimestamp | VTTL | VLiteral _ | VNumber _ | VBoolean _ | VEmptyArray | VScalar _ => true
  | VScalarL x => lens_ok (vl_lambda x)
  | _ => false
  end.
Definition value_uses (v : value) : list string :=
  match v with
  | VScalar x => [v_name x]
  | VScalarL x => vl_name x :: lens_uses (vl_lambda x)
  | _ => []
  end.
(* a plain scalar read fails only under its own `new` (declared, not set) *)
Definition value_fallible (news : list string) (v : value) : bool :=
  match v with VScalar x => smem (v_name x) news | VScalarL _ => true | _ => false end.

Definition peer_ok (p : peer_arg) : bool :=
  match p with PInitPeerId | PLiteral _ | PScalar _ => true | PScalarL x => lens_ok (vl_lambda x) | _ => false end.
Definition peer_uses (p : peer_arg) : list string :=
  match p with PScalar x => [v_name x] | PScalarL x => vl_name x :: lens_uses (vl_lambda x) | _ => [] end.
Definition peer_fallible (p : peer_arg) : bool := match p with PInitPeerId | PLiteral _ => false | _ => true end.
Definition str_ok (p : string_arg) : bool :=
  match p with SLiteral _ | SScalar _ => true | SScalarL x => lens_ok (vl_lambda x) | _ => false end.
Definition str_uses (p : string_arg) : list string :=
  match p with SScalar x => [v_name x] | SScalarL x => vl_name x :: lens_uses (vl_lambda x) | _ => [] end.

Definition ap_ok (a : ap_arg) : bool :=
  match a with
  | AInitPeerId | ATimestamp | ATTL | ALiteral _ | ANumber _ | ABoolean _ | AEmptyArray | AScalar _ => true
  | AScalarL x => lens_ok (vl_lambda x)
  | _ => false
  end.
Definition ap_uses (a : ap_arg) : list string :=
  match a with AScalar x => [v_name x] | AScalarL x => vl_name x :: lens_uses (vl_lambda x) | _ => [] end.
Definition ap_fallible (news : list string) (a : ap_arg) : bool :=
  match a with AScalar x => smem (v_name x) news | AScalarL _ => true | _ => false end.

Definition iterable_ok (it : fold_iterable) : bool :=
  match it with FIScalar _ | FIEmptyArray => true | FIScalarL x => lens_ok (vl_lambda x) | _ => false end.
Definition iterable_uses (it : fold_iterable) : list string :=
  match it with FIScalar x => [v_name x] | FIScalarL x => vl_name x :: lens_uses (vl_lambda x) | _ => [] end.
Definition iterable_fallible (it : fold_iterable) : bool := match it with FIEmptyArray => false | _ => true end.

Definition opt_list {A} (f : instr -> list A) (o : option instr) : list A := match o with Some i => f i | None => [] end.

(* names an instruction may define for what follows it *)
Fixpoint binders (i : instr) : list string :=
  match i with
  | ICall _ _ _ (OutScalar x) => [v_name x]
  | IAp _ _ (ApScalar x) => [v_name x]
  | ISeq a b | IPar a b | IXor a b => binders a ++ binders b
  | IMatch _ _ _ b | IMisMatch _ _ _ b => binders b
  | INew _ (NScalar x) b _ => sremove (v_name x) (binders b)
  | IFoldScalar _ _ iter b l _ => v_name iter :: binders b ++ opt_list binders l
  | _ => []
  end.
(* names bound inside fold bodies *)
Fixpoint fold_binders (i : instr) : list string :=
  match i with
  | ISeq a b | IPar a b | IXor a b => fold_binders a ++ fold_binders b
  | IMatch _ _ _ b | IMisMatch _ _ _ b | INew _ _ b _ => fold_binders b
  | IFoldScalar _ _ iter b l _ => binders b ++ opt_list binders l
  | _ => []
  end.
(* names an instruction reads from its context *)
Fixpoint uses (i : instr) : list string :=
  match i with
  | ICall _ t args _ =>
      peer_uses (t_peer t) ++ str_uses (t_service t) ++ str_uses (t_function t) ++ flat_map value_uses args
  | IAp _ a _ => ap_uses a
  | ISeq a b | IPar a b | IXor a b => uses a ++ uses b
  | IMatch _ l r b | IMisMatch _ l r b => value_uses l ++ value_uses r ++ uses b
  | INew _ (NScalar x) b _ => sremove (v_name x) (uses b)
  | IFoldScalar _ it iter b l _ => iterable_uses it ++ sremove (v_name iter) (uses b ++ opt_list uses l)
  | _ => []
  end.

Fixpoint names_ok (bound : list string) (i : instr) : option (list string) :=
  match i with
  | ICall _ _ _ (OutScalar x) | IAp _ _ (ApScalar x) =>
      if smem (v_name x) bound then None else Some (v_name x :: bound)
  | ISeq a b | IPar a b | IXor a b =>
      match names_ok bound a with Some b1 => names_ok b1 b | None => None end
  | IMatch _ _ _ b | IMisMatch _ _ _ b => names_ok bound b
  | INew _ (NScalar x) b _ =>
      match names_ok (sremove (v_name x) bound) b with
      | Some b1 => Some (if smem (v_name x) bound then v_name x :: sremove (v_name x) b1 else sremove (v_name x) b1)
      | None => None
      end
  | IFoldScalar _ _ iter b l _ =>
      if smem (v_name iter) bound then None else
      match names_ok (v_name iter :: bound) b with
      | Some b1 => match l with Some li => names_ok b1 li | None => Some b1 end
      | None => None
      end
  | _ => Some bound
  end.

Section Fragment.
  Variable may_fail : string -> string -> bool.       (* service, function: can the service answer a failure *)

  Definition call_fallible (news : list string) (t : triplet) (args : list value) : bool :=
    peer_fallible (t_peer t) || existsb (value_fallible news) args ||
    match t_service t, t_function t with
    | SLiteral s, SLiteral f => may_fail s f
    | _, _ => true
    end.

  Fixpoint ok_ctx (caught : bool) (news : list string) (i : instr) : bool :=
    match i with
    | INull | INever => true
    | ICall _ t args out =>
        peer_ok (t_peer t) && str_ok (t_service t) && str_ok (t_function t) && forallb value_ok args &&
        match out with OutStream _ => false | _ => true end &&
        (caught || negb (call_fallible news t args))
    | IAp _ a (ApScalar _) => ap_ok a && (caught || negb (ap_fallible news a))
    | ISeq a b => ok_ctx caught news a && ok_ctx caught news b
    | IXor a b => ok_ctx true news a && ok_ctx caught news b
    | IPar a b =>
        ok_ctx false news a && ok_ctx false news b &&
        disjoint (binders a) (uses b) && disjoint (binders b) (uses a)
    | IMatch _ l r b | IMisMatch _ l r b => value_ok l && value_ok r && caught && ok_ctx caught news b
    | IFail _ (FLiteral _ _) => caught
    | INew _ (NScalar x) b _ => ok_ctx caught (v_name x :: news) b && negb (smem (v_name x) (fold_binders b))
    | IFoldScalar _ it iter body last _ =>
        iterable_ok it && (caught || negb (iterable_fallible it)) &&
        match body with
        | ISeq (INext _ n) b | ISeq b (INext _ n) =>
            String.eqb (v_name n) (v_name iter) && ok_ctx caught news b &&
            match last with Some li => ok_ctx caught news li | None => true end
        | IPar (INext _ n) b | IPar b (INext _ n) =>
            String.eqb (v_name n) (v_name iter) && ok_ctx false news b &&
            match last with                    (* the last instruction runs inside the `next` branch of the final par *)
            | Some li => ok_ctx false news li && disjoint (binders b) (uses li) && disjoint (binders li) (uses b)
            | None => true
            end
        | _ => false
        end
    | _ => false             (* in particular a `next` anywhere else *)
    end.

  Definition in_fragment (i : instr) : bool :=
    ok_ctx false [] i && match names_ok [] i with Some _ => true | None => false end.
End Fragment.
