"""C07 -- re-delivering already merged data changes nothing.

Two levels:
  handler   lib/mergegen.py cases through the `handler` driver (the real TraceHandler): every round is compared with
            model/Handler.v (MergeCases.check_rounds) and the oracle MergeCases.c07_oracle is evaluated in Coq on the
            implementation's result traces (idempotence, absorption of either input, re-driving a trace over itself /
            over nothing, re-merging the inputs into the merge of two traces at different progress);
  history   simulated honest histories through the `exec` driver with the Rust oracle oracles::c07: after EVERY run that
            returns new data c from (a, b) the four re-delivery variants (c,b) (c,a) (c,c) (c,nothing) are run on the real
            execute_air without call results: same decoded trace as c, no call requests, no next peers; a share of the
            histories is additionally given run by run to the executor model (ExecCases.check_case)."""
import airgen
import exec_common
import merge_common
import mergegen

PID = "C07"
MODEL_TARGETS = ["model/MergeCases.vo", "model/ExecCases.vo"]
HARNESS_BINS = ["handler", "exec"]
RULE = ("handler level: a case is a list of rounds of the real TraceHandler (kind 1: three states of one instruction merged as "
        "a+b, b+a, a+a, (a+b)+b, (a+b)+a, b+c, (a+b)+c, a+(b+c), a+nothing, (b+a)+a, (b+a)+b over pairs of the 14 call / 4 canon / "
        "3 ap states [quick: all canon and ap pairs, a random half of the call pairs, random third state; thorough: all triples]; kind 2: a trace built by an honest instruction "
        "tree with nested par and stream folds, re-driven over (t,t), (t,nothing), (nothing,t); kind 3: two traces of one "
        "fold-free script cut where an honest execution stops, merged in both orders and re-merged with the inputs); "
        "evaluations = rounds; distinct non-trivial = cases with a round that merged two non-empty traces successfully. "
        "history level: a case is one honest history over 3-4 peers (airgen scripts with par, xor, folds, streams, canon, "
        "recursive stream folds, failing services; schedules with duplication, re-delivery, batched call results); "
        "evaluations = runs of execute_air of the history (each run with new data is followed by 4 re-delivery runs that are "
        "not counted); distinct non-trivial = distinct (script, schedule length) of histories whose script has >= 3 calls")
PARTIAL = [
    "C07_full (every step of every honest history, the variants b, a, c, nothing, over RunExec.run) is a Definition: "
    "it needs the approximation invariant of DESIGN appendix B (current data approximates the same full trace as the "
    "previous data), which is proved ONLY for straight-line scripts on several peers (call with literal target/service/function and literal or plain-scalar arguments, ap of a literal or scalar, seq, xor, match, mismatch, fail, null, never; model/NetLin.v): C07_linear_redelivery -- in every honest history of SeqLocal's "
    "network, after a peer merged a particle, delivering that particle, the merge result, its earlier data or nothing again gives "
    "the same trace and last request id, no request and no next peer (run1 and run2); par, folds, streams, canon: not covered",
    "proved unconditionally, for every content-id type with a correct equality: idempotence and absorption of the call / "
    "canon / ap join (ap: exact law, the naive one is refuted on generation-less ap states that no interpreter produces), "
    "the state join = what the mergers return, and at the level of the TraceHandler: for every trace of call / canon / ap "
    "states under arbitrarily nested par states (length <= u32::MAX), driving the handler over (t,t) and over (t,nothing) "
    "re-emits t (C07_same_trace_partial, C07_nothing_partial); traces with fold states are covered by the correspondence "
    "(kind 2 cases) only; the variants (c,b) and (c,a) with b, a of a different shape than c only by exploration",
    "KNOWN FINDING recursive-stream-fold-catches-up: after a run in which a recursive stream fold was not the first fold over "
    "its stream, the next run iterates the values the fold's own body appended, so re-delivery changes the trace",
    "no requests / no next peers on re-delivery is checked on the implementation (oracle) and by the lock-step of the "
    "executor model; it is not a theorem here (C05/C19 state the executor-level facts it follows from)",
]
ASSUMPTIONS = [
    "content ids are compared by a correct equality (ceqb_correct); the correspondence instantiates them with the CID text",
    "services are deterministic; the host follows air/README.md (keeps the returned data, feeds it back as previous data)",
]


KNOWN_KEY = "recursive-stream-fold-catches-up"
# what the late iterations do: the trace grows, and the bodies of the new iterations call / forward
KNOWN_KINDS = ("redelivery-changes-trace", "redelivery-requests", "redelivery-next-peers")


def history_profile(rng):
    kw = dict(peers=rng.choice([3, 3, 4]), depth=rng.choice([3, 3, 4]))
    r = rng.random()
    if r < 0.3:
        kw.update(streams=False, canon=False, stream_folds=False, par_weight=5)
    elif r < 0.5:
        kw.update(recursive_streams=False)
    elif r < 0.6:
        kw.update(xor_weight=5)
    return airgen.Profile(**kw)


def gen_cases(rng, tier, escalate=False):
    cases = []
    for c in mergegen.gen_cases(rng, tier, escalate):
        c["level"] = "handler"
        cases.append(c)
    n_hist = {"quick": 500, "thorough": 12000}[tier] * (3 if escalate else 1)
    n_model = {"quick": 2, "thorough": 20}[tier]
    for k in range(n_hist):
        prof = history_profile(rng)
        c = exec_common.history_case(rng, prof, n_ops=rng.choice([8, 14, 24]), oracles=["C07"])
        c["level"] = "history"
        c["model"] = k < n_model
        if c["model"]:
            c["ops"] = c["ops"][:22]
        cases.append(c)
    return cases


def evaluate(cases, result, tier):
    handler = [c for c in cases if c.get("level") == "handler"]
    merge_common.evaluate_handler(handler, result, "c07_oracle", "C07h", "C07 on traces")
    hist = [c for c in cases if c.get("level", "history") == "history"]
    if not hist:
        return

    def distinct_of(case, info):
        return None

    plain = [c for c in hist if not c.get("model")]
    modelled = [c for c in hist if c.get("model")]
    n0 = len(result["oracle_fail"])
    before = dict(result["distribution"])
    exec_common.evaluate(plain, result, {}, tag="C07", with_model=False, distinct_of=distinct_of)
    exec_common.evaluate(modelled, result, {"model": "check_case"}, tag="C07", shard_size=30, distinct_of=distinct_of)
    dist = result["distribution"]
    # classes of the un-modelled histories are "p<peer>:code:<code>:<msg>"; fold them into code classes
    new_runs = 0
    for k in list(dist.keys()):
        if k.startswith("p") and ":code:" in k:
            n = dist.pop(k) - before.get(k, 0)
            code = k.split(":")[2]
            kk = "history/run code " + code
            dist[kk] = dist.get(kk, 0) + n
            if code in ("0", "30000") or code.startswith("1"):
                new_runs += n
    dist["history/runs with new data (each followed by 4 re-delivery runs)"] = dist.get("history/runs with new data (each followed by 4 re-delivery runs)", 0) + new_runs
    for c in hist:
        key = "history/" + ("stream-free" if merge_common.stream_free(c["script"]) else
                            "recursive stream fold" if merge_common.recursive_stream_folds(c["script"]) else "streams")
        dist[key] = dist.get(key, 0) + 1
        if c["script"].count("(call ") >= 3:
            result["distinct"].add(c["script"] + "|" + str(len(c["ops"])))
    for f in result["oracle_fail"][n0:]:
        f["case"]["level"] = "history"
        d = f.get("detail") or {}
        known = d.get("key") in KNOWN_KINDS and merge_common.recursive_stream_folds(f["case"].get("script", ""))
        f["key"] = KNOWN_KEY if known else None
        kk = "history/oracle " + str(d.get("key")) + (" (known: %s)" % KNOWN_KEY if known else "")
        dist[kk] = dist.get(kk, 0) + 1
