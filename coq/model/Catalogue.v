(* Catalogue.v -- C01: classification of every panic-capable site of the non-test sources.

   [Generated.panic_sites] (tools/genx_panics.py, re-read from /repo on every check) lists the sites as
   (file, enclosing fn, kind, ordinal of that kind inside the fn).  This file says, for each of them,
   what stands for it in the model:
     Modelled w     the model has an explicit crash outcome for it; w names the model function and constructor
     Unreachable l  the guard in front of it makes the operation defined: lemma l of proofs/CrashProofs.v
                    (CrashProofs.unreachable_lemmas holds the proofs; C01_unreachable_lemmas_proved ties the names)
     OutOfModel r   not represented in the model; r says why (third-party serializer, lexer, constant, host side, ...);
                    such sites are covered by the process-level probes of checks/C01.py only
   Classification decided by reading the source (authoring aid: tools/dev_catalogue.py holds the decisions per
   (file, fn, kind)); the check never regenerates this file, so a new or vanished site breaks C01_catalogue_closed.
   Definitions only. *)
From Aqua Require Import Base.
Open Scope N_scope.
Open Scope string_scope.
Open Scope list_scope.

Inductive site_class :=
| Modelled (where_ : string)
| Unreachable (lemma : string)
| OutOfModel (reason : string).

Definition site_key : Type := (string * string * string * N)%type.

Definition classified : list (site_key * site_class) := [
  (("air/src/execution_step/execution_context/context.rs", "next_call_request_id", "arith", 1), Modelled "Exec.v resolved_call_execute: XCrash ""next_call_request_id: u32 overflow"" (x_lcid = 2^32-1; needs 2^32 requests of one particle on one peer, DESIGN 7-10)");
  (("air/src/execution_step/execution_context/stream_maps_variables.rs", "meet_scope_end", "unwrap", 1), OutOfModel "stream maps are the second modelling stage (Exec.v answers XUnsupported ""stream map""); same shape as Streams::meet_scope_end: scope end always follows scope start of the same `new`");
  (("air/src/execution_step/execution_context/stream_maps_variables.rs", "meet_scope_end", "unwrap", 2), OutOfModel "stream maps are the second modelling stage (Exec.v answers XUnsupported ""stream map""); same shape as Streams::meet_scope_end: scope end always follows scope start of the same `new`");
  (("air/src/execution_step/execution_context/streams_variables.rs", "meet_scope_end", "unwrap", 1), Modelled "Stream.v streams_meet_scope_end: SCrash SiteScopeEndNoStream / SiteScopeEndNoDescriptor");
  (("air/src/execution_step/execution_context/streams_variables.rs", "meet_scope_end", "unwrap", 2), Modelled "Stream.v streams_meet_scope_end: SCrash SiteScopeEndNoStream / SiteScopeEndNoDescriptor");
  (("air/src/execution_step/execution_context/stream_maps_variables/stream_map_key.rs", "from_value", "unwrap", 1), OutOfModel "guarded by the match guard `n.is_i64()` / `n.is_u64()` on the same arm (as_i64 / as_u64 are Some exactly then); stream maps not modelled");
  (("air/src/execution_step/execution_context/stream_maps_variables/stream_map_key.rs", "from_value", "unwrap", 2), OutOfModel "guarded by the match guard `n.is_i64()` / `n.is_u64()` on the same arm (as_i64 / as_u64 are Some exactly then); stream maps not modelled");
  (("air/src/execution_step/execution_context/stream_maps_variables/stream_map_key.rs", "from_value_ref", "unwrap", 1), OutOfModel "guarded by the match guard `n.is_i64()` / `n.is_u64()` on the same arm (as_i64 / as_u64 are Some exactly then); stream maps not modelled");
  (("air/src/execution_step/execution_context/stream_maps_variables/stream_map_key.rs", "from_value_ref", "unwrap", 2), OutOfModel "guarded by the match guard `n.is_i64()` / `n.is_u64()` on the same arm (as_i64 / as_u64 are Some exactly then); stream maps not modelled");
  (("air/src/execution_step/instructions/fail.rs", "fail_with_scalar", "remove", 1), Unreachable "fail_tetraplets_nonempty");
  (("air/src/execution_step/instructions/fail.rs", "fail_with_scalar_wl", "remove", 1), Unreachable "fail_tetraplets_nonempty");
  (("air/src/execution_step/instructions/fail.rs", "fail_with_canon_stream", "remove", 1), Unreachable "fail_tetraplets_nonempty");
  (("air/src/execution_step/instructions/fold_stream.rs", "execute", "unwrap", 1), OutOfModel "guarded by the `is_none()` early return ten lines above on the same (name, position) key; a stream descriptor is only removed at the end of its own `new` scope, which encloses the fold; stream lookup by span is modelled in Stream.v streams_get, the closure is not");
  (("air/src/execution_step/instructions/fold_stream_map.rs", "execute", "unwrap", 1), OutOfModel "stream maps not modelled; same guard as fold_stream.rs");
  (("air/src/execution_step/instructions/mod.rs", "execute", "unreachable", 1), Modelled "Exec.v exec: XCrash ""Instruction::Error executed""; air_parser::parse returns Err whenever it built an Error node (C23 grammar-action table, genx_grammar.py), so prepare() never hands one to execute");
  (("air/src/execution_step/instructions/next.rs", "maybe_meet_iteration_start", "expect", 1), Modelled "Exec.v scalar_ref_parts / apply_to_arg / create_fold_iterable / lens_env: PCrash ""peek on an empty iterable"" (it_peek = None)");
  (("air/src/execution_step/instructions/ap/apply_to_arguments.rs", "apply_error", "remove", 1), Unreachable "ap_tetraplets_nonempty");
  (("air/src/execution_step/instructions/ap/apply_to_arguments.rs", "apply_last_error", "remove", 1), Unreachable "ap_tetraplets_nonempty");
  (("air/src/execution_step/instructions/ap/apply_to_arguments.rs", "apply_scalar", "expect", 1), Modelled "Exec.v scalar_ref_parts / apply_to_arg / create_fold_iterable / lens_env: PCrash ""peek on an empty iterable"" (it_peek = None)");
  (("air/src/execution_step/instructions/ap/apply_to_arguments.rs", "apply_scalar_wl", "remove", 1), Unreachable "ap_tetraplets_nonempty");
  (("air/src/execution_step/instructions/call/prev_result_handler.rs", "handle_prev_state", "expect", 1), OutOfModel "serde_json::to_value of a JValue (""serde_json serializer shouldn't fail""): infallible serializer of an in-memory value (serde_json / rmp-serde / rkyv on owned data); third-party code");
  (("air/src/execution_step/instructions/call/resolved_call.rs", "execute", "expect", 1), OutOfModel "value_to_json_cid of resolved JSON arguments (""serializer shouldn't fail""): infallible serializer of an in-memory value (serde_json / rmp-serde / rkyv on owned data); third-party code");
  (("air/src/execution_step/instructions/fold/utils.rs", "create_scalar_iterable", "expect", 1), Modelled "Exec.v scalar_ref_parts / apply_to_arg / create_fold_iterable / lens_env: PCrash ""peek on an empty iterable"" (it_peek = None)");
  (("air/src/execution_step/instructions/fold/utils.rs", "create_scalar_wl_iterable", "unwrap", 1), Modelled "Exec.v scalar_ref_parts / apply_to_arg / create_fold_iterable / lens_env: PCrash ""peek on an empty iterable"" (it_peek = None)");
  (("air/src/execution_step/lambda_applier/applier.rs", "select_by_path_from_canon_map", "unreachable", 1), Modelled "Lens.v: LCrash SiteAccessorError (ValueAccessor::Error is built only together with a parser error, see C23)");
  (("air/src/execution_step/lambda_applier/applier.rs", "split_to_idx", "unreachable", 1), Modelled "Lens.v: LCrash SiteAccessorError (ValueAccessor::Error is built only together with a parser error, see C23)");
  (("air/src/execution_step/lambda_applier/applier.rs", "select_by_path_from_scalar", "unreachable", 1), Modelled "Lens.v: LCrash SiteAccessorError (ValueAccessor::Error is built only together with a parser error, see C23)");
  (("air/src/execution_step/lambda_applier/utils.rs", "select_by_scalar", "expect", 1), Modelled "Exec.v scalar_ref_parts / apply_to_arg / create_fold_iterable / lens_env: PCrash ""peek on an empty iterable"" (it_peek = None)");
  (("air/src/execution_step/lambda_applier/utils.rs", "try_scalar_ref_as_idx", "expect", 1), Modelled "Exec.v scalar_ref_parts / apply_to_arg / create_fold_iterable / lens_env: PCrash ""peek on an empty iterable"" (it_peek = None)");
  (("air/src/execution_step/value_types/scalar.rs", "into_jvaluable", "expect", 1), Modelled "Exec.v scalar_ref_parts / apply_to_arg / create_fold_iterable / lens_env: PCrash ""peek on an empty iterable"" (it_peek = None)");
  (("air/src/execution_step/value_types/iterable/canon_stream.rs", "peek", "expect", 1), OutOfModel "`self.canon_stream.nth(self.cursor)` after the `is_empty()` early return: cursor < len is the foldable_next!/foldable_prev! invariant (Exec.v it_peek ItCanon: nth_N, None never observed by the lock-step)");
  (("air/src/execution_step/value_types/iterable/canon_stream_map.rs", "peek", "expect", 1), OutOfModel "canon stream maps not modelled; same cursor invariant as canon_stream.rs");
  (("air/src/execution_step/value_types/iterable/lambda_result.rs", "peek", "index", 1), Modelled "Exec.v it_peek ItLambdaResult: nth_N items cursor (None is the panic; cursor < len invariant of it_next / it_prev: CrashProofs.it_next_in_range)");
  (("air/src/execution_step/value_types/iterable/resolved_call.rs", "peek", "index", 1), Modelled "Exec.v it_peek ItResolvedCall: nth_N arr cursor (CrashProofs.it_next_in_range)");
  (("air/src/execution_step/value_types/iterable/resolved_call.rs", "peek", "unimplemented", 1), OutOfModel "value is not an array: IterableResolvedCall::init is only called by fold/utils.rs from_value under `JValue::Array(array)` (Exec.v from_value builds ItResolvedCall only from JArr)");
  (("air/src/execution_step/value_types/iterable/resolved_call.rs", "len", "unimplemented", 1), OutOfModel "value is not an array: IterableResolvedCall::init is only called by fold/utils.rs from_value under `JValue::Array(array)` (Exec.v from_value builds ItResolvedCall only from JArr)");
  (("air/src/execution_step/value_types/iterable/vec_resolved_call.rs", "peek", "index", 1), Modelled "Exec.v it_peek ItVec: nth_N values cursor (CrashProofs.it_next_in_range)");
  (("air/src/execution_step/value_types/iterable/vec_resolved_call.rs", "peek", "index", 2), Modelled "Exec.v it_peek ItVec: nth_N values cursor (CrashProofs.it_next_in_range)");
  (("air/src/execution_step/value_types/jvaluable/canon_stream.rs", "apply_lambda_with_tetraplets", "expect", 1), Modelled "Exec.v resolve_canon_l: PCrash ""TETRAPLET_IDX_CORRECT"" (the index was just used to select the element: Lens.v split_to_idx / select_by_lambda_from_stream agree, LensProofs)");
  (("air/src/execution_step/value_types/jvaluable/cell_vec_resolved_call_result.rs", "apply_lambda_with_tetraplets", "index", 1), OutOfModel "dead code on the execution path: JValuable for streams-as-vectors is not reachable from any instruction of this version (streams are canonicalised first); same index discipline as canon_stream.rs");
  (("air/src/execution_step/value_types/stream/stream_definition.rs", "check_stream_size_limit", "arith", 1), OutOfModel "sum of three usize element counts of in-memory vectors (each < 2^32 by the size limit itself)");
  (("air/src/execution_step/value_types/stream/stream_definition.rs", "check_stream_size_limit", "arith", 2), OutOfModel "sum of three usize element counts of in-memory vectors (each < 2^32 by the size limit itself)");
  (("air/src/execution_step/value_types/stream/stream_definition.rs", "compactify", "unwrap", 1), Modelled "Stream.v stream_compactify: plan_crash SiteCompactifyStartIdx");
  (("air/src/execution_step/value_types/stream/stream_definition.rs", "update_generations", "unwrap", 1), Modelled "Stream.v update_generations: SiteCompactifyPosition");
  (("air/src/execution_step/value_types/stream/values_matrix.rs", "add_value_to_generation", "unwrap", 1), Modelled "Stream.v add_value_to_generation: SCrash SiteGenCheckedAddOne (generation = 2^32-1); since the fix of Stream::add_value the generation is < STREAM_MAX_SIZE here: CrashProofs.stream_add_value_no_crash");
  (("air/src/execution_step/value_types/stream/values_matrix.rs", "add_value_to_generation", "index", 1), OutOfModel "`self.values[generation_idx]` right after the resize to generation_idx + 1 (or under generation_idx < len): Stream.v models the rows sparsely, cells_add is total");
  (("air/src/execution_step/value_types/stream/values_matrix.rs", "add_value_to_generation", "arith", 1), OutOfModel "`self.size += 1`: usize count of stored values");
  (("air/src/execution_step/value_types/stream/values_matrix.rs", "last_generation_is_empty", "index", 1), OutOfModel "index len-1 under the `is_empty()` early return (Stream.v new_last_generation_is_empty)");
  (("air/src/execution_step/value_types/stream/values_matrix.rs", "last_non_empty_generation_idx", "arith", 1), OutOfModel "`values_len - 1` under the `values_len == 0` early return (Stream.v new_last_non_empty_generation_idx)");
  (("air/src/farewell_step/outcome.rs", "from_uncatchable_error", "expect", 1), OutOfModel "serializers of the interpreter's own outcome and the crate version constant: infallible serializer of an in-memory value (serde_json / rmp-serde / rkyv on owned data); third-party code");
  (("air/src/farewell_step/outcome.rs", "populate_outcome_from_contexts", "expect", 1), OutOfModel "serializers of the interpreter's own outcome and the crate version constant: infallible serializer of an in-memory value (serde_json / rmp-serde / rkyv on owned data); third-party code");
  (("air/src/farewell_step/outcome.rs", "populate_outcome_from_contexts", "expect", 2), OutOfModel "serializers of the interpreter's own outcome and the crate version constant: infallible serializer of an in-memory value (serde_json / rmp-serde / rkyv on owned data); third-party code");
  (("air/src/farewell_step/outcome.rs", "populate_outcome_from_contexts", "expect", 3), OutOfModel "serializers of the interpreter's own outcome and the crate version constant: infallible serializer of an in-memory value (serde_json / rmp-serde / rkyv on owned data); third-party code");
  (("air/src/preparation_step/interpreter_versions.rs", "<top>", "expect", 1), OutOfModel "semver::Version::from_str of two compile-time constant texts (checked by the repository's tests and by RunTop.v's version table, C21)");
  (("air/src/preparation_step/interpreter_versions.rs", "<top>", "expect", 2), OutOfModel "semver::Version::from_str of two compile-time constant texts (checked by the repository's tests and by RunTop.v's version table, C21)");
  (("air/src/utils/to_error_code.rs", "generate_to_error_code", "unwrap", 1), OutOfModel "position of an enum's own discriminant in the EnumIter of the same enum (strum): always found; Generated.v *_error_variants tie the tables");
  (("crates/air-lib/trace-handler/src/data_keeper/trace_slider.rs", "next_state", "index", 1), Unreachable "slider_next_state_index_defined");
  (("crates/air-lib/trace-handler/src/data_keeper/trace_slider.rs", "next_state", "arith", 1), Unreachable "slider_next_state_no_overflow");
  (("crates/air-lib/trace-handler/src/data_keeper/trace_slider.rs", "next_state", "arith", 2), Unreachable "slider_next_state_no_overflow");
  (("crates/air-lib/trace-handler/src/data_keeper/trace_slider.rs", "subtrace_len", "arith", 1), Unreachable "slider_subtrace_len_defined");
  (("crates/air-lib/trace-handler/src/merger/ap_merger.rs", "to_maybe_generation", "index", 1), Unreachable "ap_generation_guarded");
  (("crates/air-lib/trace-handler/src/merger/errors.rs", "incompatible_states", "unreachable", 1), OutOfModel "(None, None): every caller (the five try_merge_next_state_as_* functions) matches (None, None) in an earlier arm; Handler.v incompatible_states is total and only applied in the catch-all arms");
  (("crates/air-lib/trace-handler/src/merger/position_mapping.rs", "prepare_positions_mapping", "arith", 1), Unreachable "handler_pos_minus_one_unreachable");
  (("crates/air-lib/trace-handler/src/merger/position_mapping.rs", "prepare_positions_mapping", "arith", 2), Unreachable "handler_pos_minus_one_unreachable");
  (("crates/air-lib/trace-handler/src/merger/position_mapping.rs", "prepare_positions_mapping", "arith", 3), Unreachable "handler_pos_minus_one_unreachable");
  (("crates/air-lib/trace-handler/src/merger/position_mapping.rs", "prepare_positions_mapping", "arith", 4), Unreachable "handler_pos_minus_one_unreachable");
  (("crates/air-lib/trace-handler/src/merger/fold_merger/fold_lore_resolver.rs", "resolve_fold_lore", "index", 1), Unreachable "fold_descs_checked");
  (("crates/air-lib/trace-handler/src/merger/fold_merger/fold_lore_resolver.rs", "resolve_fold_lore", "index", 2), Unreachable "fold_descs_checked");
  (("crates/air-lib/trace-handler/src/merger/fold_merger/fold_lore_resolver.rs", "compute_lens_convolution", "index", 1), Unreachable "fold_descs_checked");
  (("crates/air-lib/trace-handler/src/merger/fold_merger/fold_lore_resolver.rs", "compute_lens_convolution", "arith", 1), Unreachable "fold_lens_bounded");
  (("crates/air-lib/trace-handler/src/merger/fold_merger/fold_lore_resolver.rs", "compute_lens_convolution", "index", 2), Unreachable "fold_descs_checked");
  (("crates/air-lib/trace-handler/src/merger/fold_merger/fold_lore_resolver.rs", "compute_lens_convolution", "index", 3), Unreachable "fold_descs_checked");
  (("crates/air-lib/trace-handler/src/merger/fold_merger/fold_lore_resolver.rs", "compute_lens_convolution", "arith", 2), Unreachable "fold_lens_bounded");
  (("crates/air-lib/trace-handler/src/merger/fold_merger/fold_lore_resolver.rs", "compute_lens_convolution", "arith", 3), Unreachable "fold_lens_bounded");
  (("crates/air-lib/trace-handler/src/merger/fold_merger/fold_lore_resolver.rs", "compute_before_lens", "index", 1), OutOfModel "loop index within begin_pos..=end_pos < lens.len(): Handler.v before_lens_rev recurses structurally over the group");
  (("crates/air-lib/trace-handler/src/merger/fold_merger/fold_lore_resolver.rs", "compute_before_lens", "index", 2), OutOfModel "loop index within begin_pos..=end_pos < lens.len(): Handler.v before_lens_rev recurses structurally over the group");
  (("crates/air-lib/trace-handler/src/merger/fold_merger/fold_lore_resolver.rs", "compute_before_lens", "arith", 1), Unreachable "fold_lens_bounded");
  (("crates/air-lib/trace-handler/src/merger/fold_merger/fold_lore_resolver.rs", "compute_before_lens", "arith", 2), Unreachable "fold_lens_bounded");
  (("crates/air-lib/trace-handler/src/state_automata/state_inserter.rs", "insert", "index", 1), Unreachable "handler_inserter_index_unreachable");
  (("crates/air-lib/trace-handler/src/state_automata/fold_fsm/lore_ctor.rs", "len", "arith", 1), Modelled "Handler.v ctor_into_lore: Crash SiteTrackerLen (reachable only by API misuse: CrashProofs.C01_api_misuse_tracker_len)");
  (("crates/air-lib/trace-handler/src/state_automata/fold_fsm/lore_ctor_queue.rs", "current", "index", 1), Modelled "Handler.v queue_current: Crash SiteCtorQueueCurrent (reachable only by API misuse: meet_back_iterator / meet_iteration_end before any meet_iteration_start)");
  (("crates/air-lib/trace-handler/src/state_automata/fold_fsm/lore_ctor_queue.rs", "current", "arith", 1), Modelled "Handler.v queue_current: Crash SiteCtorQueueCurrent (reachable only by API misuse: meet_back_iterator / meet_iteration_end before any meet_iteration_start)");
  (("crates/air-lib/trace-handler/src/state_automata/fold_fsm/lore_ctor_queue.rs", "add_element", "arith", 1), OutOfModel "usize counter bounded by the length of the Vec it just pushed to");
  (("crates/air-lib/trace-handler/src/state_automata/fold_fsm/lore_ctor_queue.rs", "traverse_back", "arith", 1), Unreachable "handler_traverse_back_unreachable");
  (("crates/air-lib/trace-handler/src/state_automata/par_fsm/par_builder.rs", "track", "arith", 1), Unreachable "handler_par_track_unreachable");
  (("crates/air-lib/trace-handler/src/state_automata/par_fsm/state_handler/new_states_calculation.rs", "compute_new_state", "assert", 1), OutOfModel "size_of::<u32>() <= size_of::<usize>(): a constant, true on every supported target");
  (("crates/air-lib/interpreter-data/src/executed_state.rs", "to_value", "expect", 1), OutOfModel "serde_json::to_value of a two-field struct: infallible serializer of an in-memory value (serde_json / rmp-serde / rkyv on owned data); third-party code");
  (("crates/air-lib/interpreter-data/src/generation_idx.rs", "next", "cast", 1), Modelled "Stream.v gen_idx_from_usize: SCrash SiteGenIdxFromUsize (`self.0 as usize + 1` then `as u32`)");
  (("crates/air-lib/interpreter-data/src/generation_idx.rs", "next", "arith", 1), Modelled "Stream.v gen_idx_from_usize: SCrash SiteGenIdxFromUsize (`self.0 as usize + 1` then `as u32`)");
  (("crates/air-lib/interpreter-data/src/generation_idx.rs", "prev", "cast", 1), OutOfModel "GenerationIdx::prev has no caller in the non-test sources (grep); `self.0 as usize - 1` would underflow at 0");
  (("crates/air-lib/interpreter-data/src/generation_idx.rs", "prev", "arith", 1), OutOfModel "GenerationIdx::prev has no caller in the non-test sources (grep); `self.0 as usize - 1` would underflow at 0");
  (("crates/air-lib/interpreter-data/src/generation_idx.rs", "from", "cast", 1), Modelled "Stream.v gen_idx_from_usize: SCrash SiteGenIdxFromUsize (usize -> u32 narrowing; u32 -> usize is widening)");
  (("crates/air-lib/interpreter-data/src/generation_idx.rs", "from", "cast", 2), Modelled "Stream.v gen_idx_from_usize: SCrash SiteGenIdxFromUsize (usize -> u32 narrowing; u32 -> usize is widening)");
  (("crates/air-lib/interpreter-data/src/interpreter_data.rs", "new", "expect", 1), OutOfModel "rkyv serialisation of in-memory data the interpreter built itself: infallible serializer of an in-memory value (serde_json / rmp-serde / rkyv on owned data); third-party code");
  (("crates/air-lib/interpreter-data/src/interpreter_data.rs", "from_execution_result", "expect", 1), OutOfModel "rkyv serialisation of in-memory data the interpreter built itself: infallible serializer of an in-memory value (serde_json / rmp-serde / rkyv on owned data); third-party code");
  (("crates/air-lib/interpreter-data/src/lib.rs", "<top>", "expect", 1), OutOfModel "semver::Version::from_str(env!(""CARGO_PKG_VERSION"")): compile-time constant");
  (("crates/air-lib/interpreter-data/src/raw_value.rs", "get_value", "expect", 1), OutOfModel "since the fix the interpreter calls try_get_value (cid_state.rs get_value_by_cid -> UncatchableError); get_value is kept for values built by from_value and for tests");
  (("crates/air-lib/interpreter-data/src/trace.rs", "trace_states_count", "expect", 1), Modelled "Handler.v SiteResultLen: a trace of 2^32 states (>= 2^32 * 40 bytes of input; excluded by the u32 bound of every theorem)");
  (("crates/air-lib/interpreter-data/src/trace.rs", "index", "index", 1), Unreachable "slider_next_state_index_defined");
  (("crates/air-lib/interpreter-data/src/trace.rs", "index_mut", "index", 1), Unreachable "slider_next_state_index_defined");
  (("crates/air-lib/interpreter-data/src/interpreter_data/verification.rs", "new", "expect", 1), OutOfModel "public_key.to_peer_id() after public_key.validate() succeeded for every key of the same store at the top of DataVerifier::new (C15 model Sig.v: validate is the gate)");
  (("crates/air-lib/interpreter-data/src/interpreter_data/verification.rs", "verify", "expect", 1), OutOfModel "public_key.to_peer_id() after public_key.validate() succeeded for every key of the same store at the top of DataVerifier::new (C15 model Sig.v: validate is the gate)");
  (("crates/air-lib/interpreter-data/src/interpreter_data/verification.rs", "check_cid_multiset_invariant", "expect", 1), OutOfModel "public_key.to_peer_id() after public_key.validate() succeeded for every key of the same store at the top of DataVerifier::new (C15 model Sig.v: validate is the gate)");
  (("crates/air-lib/interpreter-cid/src/lib.rs", "value_to_json_cid", "expect", 1), OutOfModel "multihash wrap of a 32-byte digest with a supported code: constant sizes (cid / multihash crates)");
  (("crates/air-lib/interpreter-cid/src/lib.rs", "raw_value_to_json_cid", "expect", 1), OutOfModel "multihash wrap of a 32-byte digest with a supported code: constant sizes (cid / multihash crates)");
  (("crates/air-lib/interpreter-signatures/src/lib.rs", "secret", "expect", 1), OutOfModel "borsh serialisation into a Vec and secret-key export of a key the process created itself: infallible serializer of an in-memory value (serde_json / rmp-serde / rkyv on owned data); third-party code");
  (("crates/air-lib/interpreter-signatures/src/lib.rs", "serialize", "expect", 1), OutOfModel "borsh serialisation into a Vec and secret-key export of a key the process created itself: infallible serializer of an in-memory value (serde_json / rmp-serde / rkyv on owned data); third-party code");
  (("crates/air-lib/interpreter-value/src/value/index.rs", "index_into", "index", 1), OutOfModel "`self[..]`: the full-range slice of a String is always in range (JValue indexing itself returns Option)");
  (("crates/air-lib/interpreter-value/src/value/partial_eq.rs", "<top>", "index", 1), OutOfModel "macro_rules repetition syntax `$($ty:ident)*` / `[$($eq)*]` inside partialeq_numeric!: not an index expression");
  (("crates/air-lib/interpreter-value/src/value/partial_eq.rs", "<top>", "index", 2), OutOfModel "macro_rules repetition syntax `$($ty:ident)*` / `[$($eq)*]` inside partialeq_numeric!: not an index expression");
  (("crates/air-lib/interpreter-value/src/value/partial_eq.rs", "<top>", "index", 3), OutOfModel "macro_rules repetition syntax `$($ty:ident)*` / `[$($eq)*]` inside partialeq_numeric!: not an index expression");
  (("crates/air-lib/interpreter-value/src/value/partial_eq.rs", "<top>", "index", 4), OutOfModel "macro_rules repetition syntax `$($ty:ident)*` / `[$($eq)*]` inside partialeq_numeric!: not an index expression");
  (("crates/air-lib/interpreter-value/src/value/partial_eq.rs", "<top>", "index", 5), OutOfModel "macro_rules repetition syntax `$($ty:ident)*` / `[$($eq)*]` inside partialeq_numeric!: not an index expression");
  (("crates/air-lib/air-parser/src/parser/air_parser.rs", "report_errors", "expect", 1), OutOfModel "codespan_reporting::term::emit into stderr / an in-memory buffer while rendering the parser's own error list: infallible serializer of an in-memory value (serde_json / rmp-serde / rkyv on owned data); third-party code");
  (("crates/air-lib/air-parser/src/parser/air_parser.rs", "report_errors", "expect", 2), OutOfModel "codespan_reporting::term::emit into stderr / an in-memory buffer while rendering the parser's own error list: infallible serializer of an in-memory value (serde_json / rmp-serde / rkyv on owned data); third-party code");
  (("crates/air-lib/air-parser/src/parser/errors.rs", "from", "unreachable", 1), OutOfModel "From<Infallible> for ParserError: the source type has no values");
  (("crates/air-lib/air-parser/src/parser/lexer/air_lexer.rs", "tokenize_string_literal", "index", 1), OutOfModel "hand-written lexer, not modelled (DESIGN 2: lexer and LR tables are outside the model); slice bounds come from char_indices of the same string; exercised by the byte-level script mutation probes of checks/C01.py");
  (("crates/air-lib/air-parser/src/parser/lexer/air_lexer.rs", "tokenize_string", "index", 1), OutOfModel "hand-written lexer, not modelled (DESIGN 2: lexer and LR tables are outside the model); slice bounds come from char_indices of the same string; exercised by the byte-level script mutation probes of checks/C01.py");
  (("crates/air-lib/air-parser/src/parser/lexer/air_lexer.rs", "parse_error", "index", 1), OutOfModel "hand-written lexer, not modelled (DESIGN 2: lexer and LR tables are outside the model); slice bounds come from char_indices of the same string; exercised by the byte-level script mutation probes of checks/C01.py");
  (("crates/air-lib/air-parser/src/parser/lexer/air_lexer.rs", "parse_error", "unreachable", 1), OutOfModel "hand-written lexer, not modelled (DESIGN 2: lexer and LR tables are outside the model); slice bounds come from char_indices of the same string; exercised by the byte-level script mutation probes of checks/C01.py");
  (("crates/air-lib/air-parser/src/parser/lexer/call_variable_parser.rs", "try_to_variable_and_lambda", "index", 1), OutOfModel "hand-written lexer, not modelled (DESIGN 2: lexer and LR tables are outside the model); slice bounds come from char_indices of the same string; exercised by the byte-level script mutation probes of checks/C01.py");
  (("crates/air-lib/air-parser/src/parser/lexer/call_variable_parser.rs", "try_to_variable_and_lambda", "index", 2), OutOfModel "hand-written lexer, not modelled (DESIGN 2: lexer and LR tables are outside the model); slice bounds come from char_indices of the same string; exercised by the byte-level script mutation probes of checks/C01.py");
  (("crates/air-lib/air-parser/src/parser/lexer/errors.rs", "from", "unreachable", 1), OutOfModel "From<Infallible> for LexerError: the source type has no values");
  (("crates/air-lib/lambda/parser/src/parser/lexer/lambda_ast_lexer.rs", "tokenize_until", "index", 1), OutOfModel "hand-written lexer, not modelled (DESIGN 2: lexer and LR tables are outside the model); slice bounds come from char_indices of the same string; exercised by the byte-level script mutation probes of checks/C01.py");
  (("crates/beautifier/src/beautifier.rs", "multiline", "arith", 1), Modelled "Beautify.v walker_overflows: BCrash (indent * step in usize; needs nesting depth * step >= 2^64)");
  (("crates/beautifier/src/lib.rs", "beautify_to_string", "unwrap", 1), OutOfModel "io::Write into a Vec<u8> cannot fail; the only BeautifyError is an io::Error (Beautify.v: the writer is a Vec)");
  (("crates/air-lib/interpreter-interface/src/interpreter_outcome.rs", "from_ivalue", "unwrap", 1), OutOfModel "host-side (marine IValue) conversion of the outcome record: not on the execute_air path, the input is the interpreter's own output");
  (("crates/air-lib/interpreter-interface/src/interpreter_outcome.rs", "from_ivalue", "unwrap", 2), OutOfModel "host-side (marine IValue) conversion of the outcome record: not on the execute_air path, the input is the interpreter's own output");
  (("crates/air-lib/interpreter-interface/src/interpreter_outcome.rs", "from_ivalue", "unwrap", 3), OutOfModel "host-side (marine IValue) conversion of the outcome record: not on the execute_air path, the input is the interpreter's own output");
  (("crates/air-lib/interpreter-interface/src/interpreter_outcome.rs", "from_ivalue", "unwrap", 4), OutOfModel "host-side (marine IValue) conversion of the outcome record: not on the execute_air path, the input is the interpreter's own output");
  (("crates/air-lib/interpreter-interface/src/interpreter_outcome.rs", "from_ivalue", "unwrap", 5), OutOfModel "host-side (marine IValue) conversion of the outcome record: not on the execute_air path, the input is the interpreter's own output");
  (("crates/air-lib/interpreter-interface/src/interpreter_outcome.rs", "from_ivalue", "unwrap", 6), OutOfModel "host-side (marine IValue) conversion of the outcome record: not on the execute_air path, the input is the interpreter's own output");
  (("crates/air-lib/interpreter-interface/src/interpreter_outcome.rs", "from_ivalue", "unwrap", 7), OutOfModel "host-side (marine IValue) conversion of the outcome record: not on the execute_air path, the input is the interpreter's own output");
  (("crates/air-lib/interpreter-interface/src/interpreter_outcome.rs", "from_ivalue", "unwrap", 8), OutOfModel "host-side (marine IValue) conversion of the outcome record: not on the execute_air path, the input is the interpreter's own output");
  (("crates/air-lib/interpreter-interface/src/run_parameters.rs", "into_ivalue", "unwrap", 1), OutOfModel "host-side (marine IValue) conversion of the outcome record: not on the execute_air path, the input is the interpreter's own output")
].

Definition site_key_eqb (a b : site_key) : bool :=
  let '(f1, g1, k1, n1) := a in let '(f2, g2, k2, n2) := b in
  String.eqb f1 f2 && String.eqb g1 g2 && String.eqb k1 k2 && N.eqb n1 n2.

(* the generated list is exactly the classified list, in order *)
Definition catalogue_closed : bool := list_eqb site_key_eqb panic_sites (map fst classified).

Definition unreachable_names : list string :=
  flat_map (fun e => match snd e with Unreachable l => [l] | _ => [] end) classified.
Definition count_class (p : site_class -> bool) : N := N.of_nat (length (filter (fun e => p (snd e)) classified)).
Definition is_modelled (c : site_class) : bool := match c with Modelled _ => true | _ => false end.
Definition is_unreachable (c : site_class) : bool := match c with Unreachable _ => true | _ => false end.
Definition is_out_of_model (c : site_class) : bool := match c with OutOfModel _ => true | _ => false end.

Fixpoint mem_string (s : string) (l : list string) : bool :=
  match l with [] => false | x :: r => String.eqb s x || mem_string s r end.

(* statements *)
Definition C01_catalogue_closed_stmt : Prop := catalogue_closed = true.
(* every Unreachable entry names a lemma of the given table (the table pairs names with proofs) *)
Definition C01_unreachable_named_stmt (proved : list string) : Prop :=
  forallb (fun l => mem_string l proved) unreachable_names = true.
