(* KeepProofs.v -- proofs for C09 (merging never forgets a result) and C04 (no data-consistency
   error on honest data): statements in model/KeepSpec.v.

   Part 1: content-id equality, the information order and the merge tables (state level).
   Part 2: knowledge multisets.
   Part 3: CID stores only grow (CidTracker::from_cid_stores is a union, exec only adds).
   Part 4: the data-consistency error set and its tie to the generated table.
   Part 5: sliders, windows and the driver protocol of the call/par fragment (handler level).
   Part 6: the executor drives the handler by that protocol. *)
From Coq Require Import Lia.
From Aqua Require Import Base Json Air Trace Handler Values Scalars Lens Exec RunExec ExecCases KeepSpec JsonFacts.
Open Scope N_scope.
Open Scope list_scope.

(* ------------------------------------------------------------------------------------------ *)
(* Part 1a: cid_eqb decides equality of symbolic content ids *)

Lemma tetraplet_eqb_eq : forall a b, tetraplet_eqb a b = true <-> a = b.
Proof.
  intros [a1 a2 a3 a4] [b1 b2 b3 b4]. unfold tetraplet_eqb. cbn [tp_peer tp_service tp_function tp_lens].
  rewrite !Bool.andb_true_iff, !String.eqb_eq. split.
  - intros [[[-> ->] ->] ->]. reflexivity.
  - intros H. inversion H. auto.
Qed.

Lemma list_eqb_eq' {A} (eqb : A -> A -> bool) :
  forall xs, (forall x, In x xs -> forall y, eqb x y = true <-> x = y) ->
  forall ys, list_eqb eqb xs ys = true <-> xs = ys.
Proof.
  induction xs as [| x xs IH]; intros H [| y ys]; cbn [list_eqb].
  - split; reflexivity.
  - split; discriminate.
  - split; discriminate.
  - rewrite Bool.andb_true_iff, (H x (or_introl eq_refl)), IH by (intros; apply H; right; assumption).
    split; [intros [-> ->]; reflexivity | intros E; inversion E; auto].
Qed.

Fixpoint cid_eqb_eq (a : cid) : forall b, cid_eqb a b = true <-> a = b.
Proof.
  destruct a as [j | t | args | a1 a2 a3 | a1 a2 ap | t vs | s]; intros b;
    destruct b as [j' | t' | args' | b1 b2 b3 | b1 b2 bp | t' vs' | s']; cbn [cid_eqb];
    try (split; [discriminate | discriminate]).
  - rewrite json_eqb_eq. split; [intros ->; reflexivity | intros E; inversion E; reflexivity].
  - rewrite tetraplet_eqb_eq. split; [intros ->; reflexivity | intros E; inversion E; reflexivity].
  - rewrite (list_eqb_eq' json_eqb) by (intros; apply json_eqb_eq).
    split; [intros ->; reflexivity | intros E; inversion E; reflexivity].
  - rewrite !Bool.andb_true_iff, (cid_eqb_eq a1), (cid_eqb_eq a2), (cid_eqb_eq a3).
    split; [intros [[-> ->] ->]; reflexivity | intros E; inversion E; auto].
  - rewrite !Bool.andb_true_iff, (cid_eqb_eq a1), (cid_eqb_eq a2).
    destruct ap as [[k c] |], bp as [[k' c'] |].
    + rewrite Bool.andb_true_iff, Bool.eqb_true_iff, (cid_eqb_eq c).
      split; [intros [[-> ->] [-> ->]]; reflexivity | intros E; inversion E; auto].
    + split; [intros [_ F]; discriminate | intros E; inversion E].
    + split; [intros [_ F]; discriminate | intros E; inversion E].
    + split; [intros [[-> ->] _]; reflexivity | intros E; inversion E; auto].
  - rewrite Bool.andb_true_iff, (cid_eqb_eq t).
    assert (L : forall l l',
      (fix go (l l' : list cid) : bool :=
         match l, l' with
         | [], [] => true
         | x :: r, y :: r' => cid_eqb x y && go r r'
         | _, _ => false
         end) l l' = true <-> l = l').
    { clear - cid_eqb_eq. fix IHl 1. intros [| x l] [| y l'].
      - split; reflexivity.
      - split; discriminate.
      - split; discriminate.
      - rewrite Bool.andb_true_iff, (cid_eqb_eq x), (IHl l l').
        split; [intros [-> ->]; reflexivity | intros E; inversion E; auto]. }
    rewrite L. split; [intros [-> ->]; reflexivity | intros E; inversion E; auto].
  - rewrite String.eqb_eq. split; [intros ->; reflexivity | intros E; inversion E; reflexivity].
Qed.

Lemma cid_eqb_refl : forall a, cid_eqb a a = true.
Proof. intros a. apply cid_eqb_eq. reflexivity. Qed.

Lemma cid_ceqb_spec : ceqb_spec cid cid_eqb.
Proof. exact (fun a b => cid_eqb_eq a b). Qed.

Lemma string_ceqb_spec : ceqb_spec string String.eqb.
Proof. exact String.eqb_eq. Qed.

(* ------------------------------------------------------------------------------------------ *)
(* Part 1b: the information order and the merge tables *)

Section OrderProofs.
  Variable C : Type.
  Variable ceqb : C -> C -> bool.
  Hypothesis ceqb_ok : ceqb_spec C ceqb.

  Let crefl : forall a, ceqb a a = true.
  Proof. intros a. apply ceqb_ok. reflexivity. Qed.

  Ltac ceq :=
    repeat match goal with
           | H : ceqb _ _ = true |- _ => apply ceqb_ok in H; subst
           | H : ceqb ?a ?b = false |- _ =>
               assert (a <> b) by (intros ->; rewrite crefl in H; discriminate); clear H
           end.

  Lemma rkind_eqb_refl : forall k, rkind_eqb k k = true.
  Proof. destruct k; reflexivity. Qed.
  Lemma rkind_eqb_eq : forall a b, rkind_eqb a b = true <-> a = b.
  Proof. destruct a, b; cbn; split; try discriminate; reflexivity. Qed.

  Lemma rkey_eqb_eq : forall a b, rkey_eqb C ceqb a b = true <-> a = b.
  Proof.
    intros [k x] [k' y]. unfold rkey_eqb. cbn [fst snd]. rewrite Bool.andb_true_iff, rkind_eqb_eq.
    split; [intros [-> H]; apply ceqb_ok in H; subst; reflexivity | intros E; inversion E; subst; split; [reflexivity | apply crefl]].
  Qed.
  Lemma rkey_eqb_refl : forall a, rkey_eqb C ceqb a a = true.
  Proof. intros a. apply rkey_eqb_eq. reflexivity. Qed.

  Lemma vr_same_refl : forall v, vr_same C ceqb v v = true.
  Proof. destruct v; cbn; apply crefl. Qed.
  Lemma call_le_refl : forall a, call_le C ceqb a a = true.
  Proof. destruct a; cbn; [reflexivity | apply vr_same_refl | apply crefl]. Qed.
  Lemma call_le_trans : forall a b c, call_le C ceqb a b = true -> call_le C ceqb b c = true -> call_le C ceqb a c = true.
  Proof.
    intros [s | v | x] [s' | v' | x'] [s'' | v'' | x'']; cbn; intros H1 H2; try discriminate; try reflexivity.
    - destruct v, v', v''; cbn in *; try discriminate; ceq; apply crefl.
    - ceq. apply crefl.
  Qed.
  Lemma canon_le_refl : forall a, canon_le C ceqb a a = true.
  Proof. destruct a; cbn; [reflexivity | apply crefl]. Qed.
  Lemma canon_le_trans : forall a b c, canon_le C ceqb a b = true -> canon_le C ceqb b c = true -> canon_le C ceqb a c = true.
  Proof.
    intros [s | x] [s' | x'] [s'' | x'']; cbn; intros H1 H2; try discriminate; try reflexivity. ceq. apply crefl.
  Qed.

  (* below a state means: pending, or the same result *)
  Lemma call_le_key : forall a b k, call_le C ceqb a b = true -> call_key C a = Some k -> call_key C b = Some k.
  Proof.
    intros [s | v | x] [s' | v' | x'] k; cbn; intros H E; try discriminate.
    - destruct v, v'; cbn in *; try discriminate; ceq; exact E.
    - ceq. exact E.
  Qed.
  Lemma call_le_nokey : forall a b, call_le C ceqb a b = true -> call_key C b = None -> call_key C a = None.
  Proof.
    intros a b H E. destruct (call_key C a) as [k |] eqn:Ea; [| reflexivity].
    rewrite (call_le_key _ _ _ H Ea) in E. discriminate.
  Qed.
  Lemma canon_le_key : forall a b k, canon_le C ceqb a b = true -> canon_key C a = Some k -> canon_key C b = Some k.
  Proof.
    intros [s | x] [s' | x'] k; cbn; intros H E; try discriminate. ceq. exact E.
  Qed.

  Lemma call_join : C09_call_join_stmt C ceqb.
  Proof.
    intros _ p c m sch H.
    assert (Hle : call_le C ceqb p m = true /\ call_le C ceqb c m = true).
    { destruct p as [s | v | x], c as [s' | v' | x']; cbn in H; try discriminate.
      - inversion H; subst. split; reflexivity.
      - inversion H; subst. split; [reflexivity | apply call_le_refl].
      - inversion H; subst. split; [reflexivity | apply call_le_refl].
      - inversion H; subst. split; [apply call_le_refl | reflexivity].
      - destruct (merge_executed C ceqb v v') as [m0 | e | s] eqn:E; cbn in H; try discriminate.
        inversion H; subst. clear H.
        destruct v, v'; cbn in E; try discriminate.
        + destruct (ceqb cid cid0) eqn:Ec; try discriminate. inversion E; subst. ceq. cbn. rewrite crefl. split; reflexivity.
        + destruct (ceqb cid cid0) eqn:Ec; try discriminate. inversion E; subst. ceq. cbn. rewrite crefl. split; reflexivity.
        + destruct (ceqb cid cid0) eqn:Ec; try discriminate. inversion E; subst. ceq. cbn. rewrite crefl. split; reflexivity.
      - inversion H; subst. split; [apply call_le_refl | reflexivity].
      - destruct (ceqb x x') eqn:Ec; cbn in H; try discriminate. inversion H; subst. ceq. cbn. rewrite crefl. split; reflexivity. }
    destruct Hle as [H1 H2]. repeat split; try assumption.
    intros k [E | E]; exists k; (split; [| apply rkey_eqb_refl]);
      [exact (call_le_key _ _ _ H1 E) | exact (call_le_key _ _ _ H2 E)].
  Qed.

  Lemma canon_join : C09_canon_join_stmt C ceqb.
  Proof.
    intros _ p c m H.
    assert (Hle : canon_le C ceqb p m = true /\ canon_le C ceqb c m = true).
    { destruct p as [s | x], c as [s' | x']; cbn in H.
      - inversion H; subst. split; reflexivity.
      - inversion H; subst. split; [reflexivity | apply canon_le_refl].
      - inversion H; subst. split; [apply canon_le_refl | reflexivity].
      - destruct (ceqb x x') eqn:Ec; try discriminate. inversion H; subst. ceq. cbn. rewrite crefl. split; reflexivity. }
    destruct Hle as [H1 H2]. repeat split; try assumption.
    intros k [E | E]; exists k; (split; [| apply rkey_eqb_refl]);
      [exact (canon_le_key _ _ _ H1 E) | exact (canon_le_key _ _ _ H2 E)].
  Qed.

  Lemma call_compat : C04_call_compat_stmt C ceqb.
  Proof.
    intros _ p c f Hp Hc.
    destruct p as [s | v | x], c as [s' | v' | x'], f as [s'' | v'' | x'']; cbn in Hp, Hc; try discriminate;
      cbn [merge_call_results];
      try (eexists; eexists; split; [reflexivity | cbn; auto; fail]).
    - destruct v, v', v''; cbn in Hp, Hc; try discriminate; ceq; cbn; rewrite ?crefl; cbn;
        eexists; eexists; (split; [reflexivity | cbn; apply crefl]).
    - ceq. cbn. rewrite crefl. cbn. eexists; eexists; split; [reflexivity | cbn; apply crefl].
  Qed.

  Lemma canon_compat : C04_canon_compat_stmt C ceqb.
  Proof.
    intros _ p c f Hp Hc.
    destruct p as [s | x], c as [s' | x'], f as [s'' | x'']; cbn in Hp, Hc; try discriminate; cbn [merge_canon_results];
      try (eexists; split; [reflexivity | cbn; auto; fail]).
    ceq. rewrite crefl. eexists; split; [reflexivity | cbn; apply crefl].
  Qed.

  (* ---- the merger functions ---- *)

  Lemma next_state_pos : forall (s s' : slider C) st, next_state C s = (Some st, s') -> s_pos C s' =? 0 = false.
  Proof.
    intros s s' st H. unfold next_state in H.
    destruct ((s_len C s <=? s_seen C s) || (len_N (s_trace C s) <=? s_pos C s)); [discriminate H |].
    destruct (Trace.nth_N (s_trace C s) (s_pos C s)); [| discriminate H].
    inversion H; subst. cbn. apply N.eqb_neq. lia.
  Qed.

  Lemma prepare_mapping_ok : forall sch k,
    (sch = SchPrevious \/ sch = SchBoth -> s_pos C (k_prev C k) =? 0 = false) ->
    (sch = SchCurrent \/ sch = SchBoth -> s_pos C (k_cur C k) =? 0 = false) ->
    exists k1, prepare_positions_mapping C sch k = Ok k1 /\
               k_prev C k1 = k_prev C k /\ k_cur C k1 = k_cur C k /\ k_result C k1 = k_result C k.
  Proof.
    intros sch k Hp Hc. unfold prepare_positions_mapping. destruct sch.
    - rewrite Hp by auto. eexists; split; [reflexivity | cbn; auto].
    - rewrite Hc by auto. eexists; split; [reflexivity | cbn; auto].
    - rewrite Hp by auto. cbn. rewrite Hc by auto. eexists; split; [reflexivity | cbn; auto].
  Qed.

  Lemma prepare_mapping_frame : forall sch k k1, prepare_positions_mapping C sch k = Ok k1 ->
    k_prev C k1 = k_prev C k /\ k_cur C k1 = k_cur C k /\ k_result C k1 = k_result C k.
  Proof.
    intros sch k k1 H. unfold prepare_positions_mapping in H. destruct sch.
    - destruct (s_pos C (k_prev C k) =? 0); inversion H; subst; cbn; auto.
    - destruct (s_pos C (k_cur C k) =? 0); inversion H; subst; cbn; auto.
    - destruct (s_pos C (k_prev C k) =? 0); cbn in H; [discriminate |].
      match type of H with context [if ?c then _ else _] => destruct c end; inversion H; subst; cbn; auto.
  Qed.

  Lemma next_states_frame : forall k p c k', next_states C k = (p, c, k') ->
    k_result C k' = k_result C k /\ next_state C (k_prev C k) = (p, k_prev C k') /\ next_state C (k_cur C k) = (c, k_cur C k').
  Proof.
    intros k p c k' H. unfold next_states in H.
    destruct (next_state C (k_prev C k)) as [p0 sp]. destruct (next_state C (k_cur C k)) as [c0 sc].
    inversion H; subst. cbn. auto.
  Qed.

  Ltac fin := repeat split; auto; try (left; discriminate); try (right; discriminate);
              try (cbn; apply call_le_refl; assumption); try (cbn; apply canon_le_refl; assumption).

  Lemma merger_call : C09_merger_call_stmt C ceqb.
  Proof.
    intros _ k r k1 H. unfold try_merge_next_state_as_call in H.
    destruct (next_states C k) as [[p c] k'] eqn:En.
    pose proof (next_states_frame _ _ _ _ En) as (Hr & _ & _).
    assert (Hprep : forall m sch r0 k2, prepare_call_result C m sch k' = Ok (r0, k2) ->
              k_prev C k2 = k_prev C k' /\ k_cur C k2 = k_cur C k' /\ k_result C k2 = k_result C k' /\
              r0 = CallMet C m (len_N (k_result C k)) (source_of sch)).
    { intros m sch r0 k2 Hq. unfold prepare_call_result in Hq.
      destruct (prepare_positions_mapping C sch k') as [k3 | e | s] eqn:Ep; cbn in Hq; try discriminate.
      inversion Hq; subst. destruct (prepare_mapping_frame _ _ _ Ep) as (A & B & D).
      repeat split; try assumption. unfold result_next_pos. rewrite Hr. reflexivity. }
    destruct p as [[pl pr | pc | pg | pcn | pf] |], c as [[cl cr | cc | cg | ccn | cf] |]; try discriminate.
    - (* both calls *)
      destruct (merge_call_results C ceqb pc cc) as [[m sch] | e | s] eqn:Em; cbn in H; try discriminate.
      destruct (Hprep _ _ _ _ H) as (A & B & D & ->).
      destruct (call_join ceqb_ok _ _ _ _ Em) as (L1 & L2 & _).
      fin.
    - destruct (Hprep _ _ _ _ H) as (A & B & D & ->).
      fin.
    - destruct (Hprep _ _ _ _ H) as (A & B & D & ->).
      fin.
    - inversion H; subst. auto.
  Qed.

  Lemma merger_canon : C09_merger_canon_stmt C ceqb.
  Proof.
    intros _ k r k1 H. unfold try_merge_next_state_as_canon in H.
    destruct (next_states C k) as [[p c] k'] eqn:En.
    destruct p as [[pl pr | pc | pg | pcn | pf] |], c as [[cl cr | cc | cg | ccn | cf] |]; try discriminate.
    - destruct (merge_canon_results C ceqb pcn ccn) as [m | e | s] eqn:Em; cbn in H; try discriminate.
      inversion H; subst. destruct (canon_join ceqb_ok _ _ _ Em) as (L1 & L2 & _).
      fin.
    - inversion H; subst. fin.
    - inversion H; subst. fin.
    - inversion H; subst. auto.
  Qed.

  Lemma merger_ap : C09_merger_ap_stmt C.
  Proof.
    intros k r k1 H. unfold try_merge_next_state_as_ap in H.
    destruct (next_states C k) as [[p c] k'] eqn:En.
    assert (Hprep : forall gens sch r0 k2, prepare_ap_result C gens sch k' = Ok (r0, k2) ->
              exists g, gens = [g] /\ r0 = ApMet g (source_of sch)).
    { intros gens sch r0 k2 Hq. unfold prepare_ap_result in Hq.
      destruct (prepare_positions_mapping C sch k'); cbn in Hq; try discriminate.
      destruct gens as [| g [| g' rest]]; try discriminate. inversion Hq; subst. eauto. }
    destruct p as [[pl pr | pc | pg | pcn | pf] |], c as [[cl cr | cc | cg | ccn | cf] |]; try discriminate.
    - destruct (Hprep _ _ _ _ H) as (g & -> & ->). cbn. fin.
    - destruct (Hprep _ _ _ _ H) as (g & -> & ->). cbn. fin.
    - destruct (Hprep _ _ _ _ H) as (g & -> & ->). cbn. fin.
    - inversion H; subst. auto.
  Qed.

  Lemma merger_compat : C04_merger_compat_stmt C ceqb.
  Proof.
    intros _ k f.
    destruct (next_states C k) as [[p c] k'] eqn:En.
    pose proof (next_states_frame _ _ _ _ En) as (Hr & Hnp & Hnc).
    assert (Pp : forall st, p = Some st -> s_pos C (k_prev C k') =? 0 = false).
    { intros st ->. eapply next_state_pos; eassumption. }
    assert (Pc : forall st, c = Some st -> s_pos C (k_cur C k') =? 0 = false).
    { intros st ->. eapply next_state_pos; eassumption. }
    intros Hp Hc. destruct f as [fl fr | fc | fg | fcn | ff]; try exact I.
    - (* call *)
      unfold try_merge_next_state_as_call. rewrite En.
      destruct p as [[pl pr | pc | pg | pcn | pf] |], c as [[cl cr | cc | cg | ccn | cf] |]; cbn in Hp, Hc; try discriminate.
      + destruct (call_compat ceqb_ok _ _ _ Hp Hc) as (m & sch & Em & _). rewrite Em. cbn.
        unfold prepare_call_result.
        destruct (prepare_mapping_ok sch k') as (k2 & E2 & _);
          [intros _; eapply Pp; reflexivity | intros _; eapply Pc; reflexivity |].
        rewrite E2. cbn. eexists; reflexivity.
      + unfold prepare_call_result.
        destruct (prepare_mapping_ok SchPrevious k') as (k2 & E2 & _);
          [intros _; eapply Pp; reflexivity | intros [F | F]; discriminate |].
        rewrite E2. cbn. eexists; reflexivity.
      + unfold prepare_call_result.
        destruct (prepare_mapping_ok SchCurrent k') as (k2 & E2 & _);
          [intros [F | F]; discriminate | intros _; eapply Pc; reflexivity |].
        rewrite E2. cbn. eexists; reflexivity.
      + eexists; reflexivity.
    - (* ap *)
      unfold try_merge_next_state_as_ap. rewrite En.
      destruct p as [[pl pr | pc | pg | pcn | pf] |], c as [[cl cr | cc | cg | ccn | cf] |]; cbn in Hp, Hc; try discriminate.
      + unfold prepare_ap_result.
        destruct (prepare_mapping_ok SchBoth k') as (k2 & E2 & _);
          [intros _; eapply Pp; reflexivity | intros _; eapply Pc; reflexivity |].
        rewrite E2. cbn. destruct pg as [| g [| g' rest]], fg as [| g0 [| g1 rest0]]; try discriminate. eexists; reflexivity.
      + unfold prepare_ap_result.
        destruct (prepare_mapping_ok SchPrevious k') as (k2 & E2 & _);
          [intros _; eapply Pp; reflexivity | intros [F | F]; discriminate |].
        rewrite E2. cbn. destruct pg as [| g [| g' rest]], fg as [| g0 [| g1 rest0]]; try discriminate. eexists; reflexivity.
      + unfold prepare_ap_result.
        destruct (prepare_mapping_ok SchCurrent k') as (k2 & E2 & _);
          [intros [F | F]; discriminate | intros _; eapply Pc; reflexivity |].
        rewrite E2. cbn. destruct cg as [| g [| g' rest]], fg as [| g0 [| g1 rest0]]; try discriminate. eexists; reflexivity.
      + eexists; reflexivity.
    - (* canon *)
      unfold try_merge_next_state_as_canon. rewrite En.
      destruct p as [[pl pr | pc | pg | pcn | pf] |], c as [[cl cr | cc | cg | ccn | cf] |]; cbn in Hp, Hc; try discriminate.
      + destruct (canon_compat ceqb_ok _ _ _ Hp Hc) as (m & Em & _). rewrite Em. cbn. eexists; reflexivity.
      + eexists; reflexivity.
      + eexists; reflexivity.
      + eexists; reflexivity.
  Qed.

  (* ---------------------------------------------------------------------------------------- *)
  (* Part 2: knowledge multisets *)

  Lemma kcount_app : forall k a b, kcount C ceqb k (a ++ b) = (kcount C ceqb k a + kcount C ceqb k b)%nat.
  Proof.
    intros k a b. induction a as [| x a IH]; cbn; [reflexivity |].
    destruct (rkey_eqb C ceqb k x); rewrite IH; reflexivity.
  Qed.
  Lemma knowledge_app : forall a b, knowledge C (a ++ b) = knowledge C a ++ knowledge C b.
  Proof.
    intros a b. induction a as [| s a IH]; cbn; [reflexivity |].
    destruct (state_key C s); rewrite IH; reflexivity.
  Qed.
  Lemma know_incl_refl : forall a, know_incl C ceqb a a.
  Proof. intros a k. lia. Qed.
  Lemma know_incl_trans : forall a b c, know_incl C ceqb a b -> know_incl C ceqb b c -> know_incl C ceqb a c.
  Proof. intros a b c H1 H2 k. specialize (H1 k). specialize (H2 k). lia. Qed.
  Lemma know_incl_app : forall a a' b b', know_incl C ceqb a b -> know_incl C ceqb a' b' -> know_incl C ceqb (a ++ a') (b ++ b').
  Proof. intros a a' b b' H1 H2 k. rewrite !kcount_app. specialize (H1 k). specialize (H2 k). lia. Qed.
  Lemma know_incl_nil : forall b, know_incl C ceqb [] b.
  Proof. intros b k. cbn. lia. Qed.

  Lemma kcount_in : forall k l, (0 < kcount C ceqb k l)%nat -> In k l.
  Proof.
    intros k l. induction l as [| x l IH]; cbn; [lia |].
    destruct (rkey_eqb C ceqb k x) eqn:E; [apply rkey_eqb_eq in E; subst; auto | auto].
  Qed.

  (* the boolean oracle decides the inclusion *)
  Lemma know_incl_b_spec : forall a o, know_incl_b C ceqb a o = true <-> know_incl C ceqb a o.
  Proof.
    intros a o. unfold know_incl_b. rewrite forallb_forall. split.
    - intros H k. destruct (kcount C ceqb k a) eqn:E; [lia |].
      assert (Hin : In k a) by (apply kcount_in; lia).
      specialize (H k Hin). apply Nat.leb_le in H. lia.
    - intros H k _. apply Nat.leb_le. apply H.
  Qed.
  Lemma keeps_both_b_spec : forall p c o, keeps_both_b C ceqb p c o = true <-> keeps_both C ceqb p c o.
  Proof.
    intros p c o. unfold keeps_both_b, keeps_both. rewrite Bool.andb_true_iff, !know_incl_b_spec. tauto.
  Qed.

  (* a ∪max b ⊆ o: for every key the larger of the two multiplicities *)
  Lemma keeps_both_max : forall p c o, keeps_both C ceqb p c o <->
    forall k, (Nat.max (kcount C ceqb k (knowledge C p)) (kcount C ceqb k (knowledge C c)) <= kcount C ceqb k (knowledge C o))%nat.
  Proof.
    intros p c o. unfold keeps_both, know_incl. split.
    - intros [H1 H2] k. specialize (H1 k). specialize (H2 k). lia.
    - intros H. split; intros k; specialize (H k); lia.
  Qed.

  (* one state below another keeps its key *)
  Lemma state_le_know : forall a b, state_le C ceqb a b = true -> know_incl C ceqb (knowledge C [a]) (knowledge C [b]).
  Proof.
    intros a b H. destruct a as [l r | ca | ga | cna | fa], b as [l' r' | cb | gb | cnb | fb]; cbn in H; try discriminate.
    - cbn. destruct (call_key C ca) as [k |] eqn:E; [| apply know_incl_nil].
      rewrite (call_le_key _ _ _ H E). apply know_incl_refl.
    - cbn. apply know_incl_nil.
    - cbn. destruct (canon_key C cna) as [k |] eqn:E; [| apply know_incl_nil].
      rewrite (canon_le_key _ _ _ H E). apply know_incl_refl.
  Qed.
End OrderProofs.

(* ------------------------------------------------------------------------------------------ *)
(* Part 3: CID stores only grow *)

Lemma cid_mem_in : forall c l, cid_mem c l = true <-> In c l.
Proof.
  intros c l. unfold cid_mem. rewrite existsb_exists. split.
  - intros (x & Hin & E). apply cid_eqb_eq in E. subst. exact Hin.
  - intros Hin. exists c. split; [exact Hin | apply cid_eqb_refl].
Qed.

Lemma cids_incl_refl : forall a, cids_incl a a.
Proof. intros a c H. exact H. Qed.
Lemma cids_incl_trans : forall a b c, cids_incl a b -> cids_incl b c -> cids_incl a c.
Proof. intros a b c H1 H2 x H. apply H2, H1, H. Qed.

Lemma cid_track_incl : forall c l, cids_incl l (cid_track c l).
Proof.
  intros c l x H. unfold cid_track. destruct (cid_mem c l); [exact H |].
  apply cid_mem_in. apply in_or_app. left. apply cid_mem_in. exact H.
Qed.
Lemma cid_track_mem : forall c l, cid_mem c (cid_track c l) = true.
Proof.
  intros c l. unfold cid_track. destruct (cid_mem c l) eqn:E; [exact E |].
  apply cid_mem_in. apply in_or_app. right. left. reflexivity.
Qed.

Lemma union_cids_left : forall b a, cids_incl a (union_cids a b).
Proof.
  unfold union_cids. induction b as [| c b IH]; intros a; cbn [fold_left]; [apply cids_incl_refl |].
  eapply cids_incl_trans; [apply (cid_track_incl c) | apply IH].
Qed.
Lemma union_cids_right : forall b a, cids_incl b (union_cids a b).
Proof.
  unfold union_cids. induction b as [| c b IH]; intros a x H; cbn [fold_left].
  - discriminate H.
  - apply cid_mem_in in H. destruct H as [<- | H].
    + apply (union_cids_left b). apply cid_track_mem.
    + apply IH. apply cid_mem_in. exact H.
Qed.

Lemma cid_state_incl_refl : forall a, cid_state_incl a a.
Proof. intros a. repeat split; apply cids_incl_refl. Qed.
Lemma cid_state_incl_trans : forall a b c, cid_state_incl a b -> cid_state_incl b c -> cid_state_incl a c.
Proof.
  intros a b c (A1 & A2 & A3 & A4 & A5) (B1 & B2 & B3 & B4 & B5).
  repeat split; eapply cids_incl_trans; eassumption.
Qed.

(* CidTracker::from_cid_stores is a union *)
Lemma merge_cid_states_left : forall p c, cid_state_incl p (merge_cid_states p c).
Proof. intros p c. repeat split; apply union_cids_left. Qed.
Lemma merge_cid_states_right : forall p c, cid_state_incl c (merge_cid_states p c).
Proof. intros p c. repeat split; apply union_cids_right. Qed.

Lemma subset_cid_spec : forall a b, subset_cid a b = true <-> cids_incl a b.
Proof.
  intros a b. unfold subset_cid, cids_incl. rewrite forallb_forall. split.
  - intros H c Hc. apply H. apply cid_mem_in. exact Hc.
  - intros H c Hc. apply H. apply cid_mem_in. exact Hc.
Qed.
Lemma cid_state_incl_b_spec : forall a b, cid_state_incl_b a b = true <-> cid_state_incl a b.
Proof.
  intros a b. unfold cid_state_incl_b, cid_state_incl. rewrite !Bool.andb_true_iff, !subset_cid_spec. tauto.
Qed.

(* ---- the two components of a context the C09 invariants talk about ---- *)

Lemma xc_record_cid x p c : x_cids (record_cid x p c) = x_cids x.
Proof. unfold record_cid. destruct (String.eqb p (current_peer x)); reflexivity. Qed.
Lemma xh_record_cid x p c : x_handler (record_cid x p c) = x_handler x.
Proof. unfold record_cid. destruct (String.eqb p (current_peer x)); reflexivity. Qed.
Lemma xc_set_errors x e i t b : x_cids (ctx_set_errors x e i t b) = x_cids x.
Proof.
  unfold ctx_set_errors.
  destruct (x_last_error_can_set x && affects_last_error e);
    match goal with |- context [if ?c then _ else _] => destruct c end; reflexivity.
Qed.
Lemma xh_set_errors x e i t b : x_handler (ctx_set_errors x e i t b) = x_handler x.
Proof.
  unfold ctx_set_errors.
  destruct (x_last_error_can_set x && affects_last_error e);
    match goal with |- context [if ?c then _ else _] => destruct c end; reflexivity.
Qed.

Ltac pjs :=
  repeat (rewrite ?xc_record_cid, ?xh_record_cid, ?xc_set_errors, ?xh_set_errors in *;
          cbn [x_cids x_handler set_scalars set_canons set_iterables set_next_peers set_last_error set_error
               set_complete set_calls set_cids set_handler set_fold_counter set_ext with_streams with_canon_maps
               all_fold_start all_fold_end all_next_before all_next_after
               call_end make_incomplete flush_complete] in * ).

Lemma set_scalar_value_frame : forall x n v y, set_scalar_value x n v = POk y -> x_cids y = x_cids x /\ x_handler y = x_handler x.
Proof.
  intros x n v y H. unfold set_scalar_value in H.
  destruct (Scalars.set_value vagg (x_scalars x) n v) as [[m b] | e]; inversion H; subst. split; reflexivity.
Qed.
Lemma set_value_err : forall T (m : matrix T) n v e, Scalars.set_value T m n v = inr e -> e = SmShadowingIsNotAllowed n.
Proof.
  intros T m n v e H. unfold Scalars.set_value in H.
  destruct (cells_get T (m_cells T m) n) as [[| last rest] |]; try discriminate H.
  destruct (negb (variable_could_be_set T m n)); [inversion H; reflexivity |].
  destruct (c_depth T last =? m_depth T m); discriminate H.
Qed.
Lemma set_scalar_value_err : forall x n v e, set_scalar_value x n v = PErr e -> is_catchable e = false.
Proof.
  intros x n v e H. unfold set_scalar_value in H.
  destruct (Scalars.set_value vagg (x_scalars x) n v) as [[m b] | s] eqn:E; inversion H; subst.
  rewrite (set_value_err _ _ _ _ _ E). reflexivity.
Qed.
Lemma add_stream_value_frame : forall x n v g p y, add_stream_value x n v g p = POk y -> x_cids y = x_cids x /\ x_handler y = x_handler x.
Proof.
  intros x n v g p y H. unfold add_stream_value in H.
  destruct (Stream.streams_add_stream_value vagg (e_streams (x_ext x)) n v g p); inversion H; subst. split; reflexivity.
Qed.
Lemma add_stream_value_err : forall x n v g p e, add_stream_value x n v g p = PErr e -> is_catchable e = false.
Proof.
  intros x n v g p e H. unfold add_stream_value in H.
  destruct (Stream.streams_add_stream_value vagg (e_streams (x_ext x)) n v g p); inversion H; reflexivity.
Qed.

Lemma track_service_result_grows : forall x v t ah y sc, track_service_result x v t ah = (y, sc) ->
  cid_state_incl (x_cids x) (x_cids y) /\ x_handler y = x_handler x.
Proof.
  intros x v t ah y sc H. unfold track_service_result in H. inversion H; subst. clear H. pjs.
  split; [| reflexivity]. repeat split; cbn; try apply cid_track_incl; apply cids_incl_refl.
Qed.

(* ---- what one call instruction does to the CID stores and to the trace handler ---- *)

Definition xsat (P : ctx -> Prop) (r : xres) : Prop :=
  match r with XOk y => P y | XErr (ECatch _) y => P y | _ => True end.

Definition grows (c0 : cid_state) (y : ctx) : Prop := cid_state_incl c0 (x_cids y).
(* after meet_call_start answered (mr, h1): nothing pushed yet / the state for this call pushed *)
Definition unpushed (c0 : cid_state) (h1 : handler cid) (y : ctx) : Prop := grows c0 y /\ x_handler y = h1.
Definition pushed (mr : merger_call_result cid) (c0 : cid_state) (h1 : handler cid) (y : ctx) : Prop :=
  grows c0 y /\ exists c, x_handler y = meet_call_end cid h1 c /\ call_keeps cid cid_eqb mr (Some c) = true.

Definition call_shape (h h' : handler cid) : Prop :=
  h' = h \/ exists push, drive_tree cid cid_eqb false (DCall push) h = Some (Ok h').
Definition call_effect (x y : ctx) : Prop :=
  cid_state_incl (x_cids x) (x_cids y) /\ call_shape (x_handler x) (x_handler y).

Lemma push_step : forall mr c0 h1 y c y',
  unpushed c0 h1 y -> call_keeps cid cid_eqb mr (Some c) = true ->
  x_cids y' = x_cids y -> x_handler y' = meet_call_end cid (x_handler y) c -> pushed mr c0 h1 y'.
Proof.
  intros mr c0 h1 y c y' [G Hh] K Ec Eh. split.
  - unfold grows. rewrite Ec. exact G.
  - exists c. rewrite Eh, Hh. split; [reflexivity | exact K].
Qed.
Lemma unpushed_step : forall c0 h1 y y',
  unpushed c0 h1 y -> x_cids y' = x_cids y -> x_handler y' = x_handler y -> unpushed c0 h1 y'.
Proof. intros c0 h1 y y' [G Hh] Ec Eh. split; [unfold grows; rewrite Ec; exact G | rewrite Eh; exact Hh]. Qed.
Lemma unpushed_grow : forall c0 h1 y y',
  unpushed c0 h1 y -> cid_state_incl (x_cids y) (x_cids y') -> x_handler y' = x_handler y -> unpushed c0 h1 y'.
Proof.
  intros c0 h1 y y' [G Hh] Ec Eh. split; [eapply cid_state_incl_trans; eassumption | rewrite Eh; exact Hh].
Qed.

Lemma effect_of_pushed : forall x mr h1 y,
  meet_call_start cid cid_eqb (x_handler x) = Ok (mr, h1) -> pushed mr (x_cids x) h1 y -> call_effect x y.
Proof.
  intros x mr h1 y Es [G (c & Eh & K)]. split; [exact G |]. right. exists (Some c).
  cbn [drive_tree]. rewrite Es, K, Eh. reflexivity.
Qed.
Lemma effect_of_unpushed : forall x mr h1 y,
  meet_call_start cid cid_eqb (x_handler x) = Ok (mr, h1) -> call_keeps cid cid_eqb mr None = true ->
  unpushed (x_cids x) h1 y -> call_effect x y.
Proof.
  intros x mr h1 y Es K [G Eh]. split; [exact G |]. right. exists None.
  cbn [drive_tree]. rewrite Es, K, Eh. reflexivity.
Qed.
Lemma effect_of_frame : forall x y, x_cids y = x_cids x -> x_handler y = x_handler x -> call_effect x y.
Proof.
  intros x y Ec Eh. split; [rewrite Ec; apply cid_state_incl_refl | left; exact Eh].
Qed.

Lemma call_le_pending : forall (m : call_result cid), call_key cid m = None -> forall c, call_le cid cid_eqb m c = true.
Proof. intros [s | [x | x g | x] | x] H c; try discriminate H. reflexivity. Qed.

Lemma resolve_service_info_err : forall x c e, resolve_service_info x c = PErr e -> is_catchable e = false.
Proof.
  intros x c e H. unfold resolve_service_info in H.
  repeat match type of H with context [match ?d with _ => _ end] => destruct d end; inversion H; reflexivity.
Qed.
Lemma verify_call_err : forall a b c d e, verify_call a b c d = PErr e -> is_catchable e = false.
Proof.
  intros a b c d e H. unfold verify_call in H.
  repeat match type of H with context [match ?d with _ => _ end] => destruct d end; inversion H; reflexivity.
Qed.

Lemma populate_from_data_spec : forall x v ah t pos src out,
  match populate_from_data x v ah t pos src out with
  | POk y => x_cids y = x_cids x /\ x_handler y = x_handler x
  | PErr e => is_catchable e = false
  | _ => True
  end.
Proof.
  intros x v ah t pos src out. unfold populate_from_data.
  destruct out as [sv | sv |], v as [c | c g | c]; try reflexivity; try (split; reflexivity).
  - destruct (resolve_service_info x c) as [si | e | s | w] eqn:E1; cbn [pbind]; try exact I;
      [| exact (resolve_service_info_err _ _ _ E1)].
    destruct (verify_call ah t (si_arg_hash si) (si_tetraplet si)) as [u | e | s | w] eqn:E2; cbn [pbind]; try exact I;
      [| exact (verify_call_err _ _ _ _ _ E2)].
    destruct (set_scalar_value x (v_name sv) (VAService (si_value si) t pos c)) eqn:E3; try exact I;
      [exact (set_scalar_value_frame _ _ _ _ E3) | exact (set_scalar_value_err _ _ _ _ E3)].
  - destruct (resolve_service_info x c) as [si | e | s | w] eqn:E1; cbn [pbind]; try exact I;
      [| exact (resolve_service_info_err _ _ _ E1)].
    destruct (verify_call ah t (si_arg_hash si) (si_tetraplet si)) as [u | e | s | w] eqn:E2; cbn [pbind]; try exact I;
      [| exact (verify_call_err _ _ _ _ _ E2)].
    destruct (add_stream_value x (v_name sv) (VAService (si_value si) t pos c) (gen_of_source src g) (v_pos sv)) eqn:E3; try exact I;
      [exact (add_stream_value_frame _ _ _ _ _ _ E3) | exact (add_stream_value_err _ _ _ _ _ _ E3)].
Qed.

Lemma xsat_uncatchable : forall P e y, is_catchable e = false -> xsat P (XErr e y).
Proof. intros P [c | u] y H; [discriminate H | exact I]. Qed.

Lemma usr_spec : forall mr c0 h1 x t ah out ans,
  (forall c, call_keeps cid cid_eqb mr (Some c) = true) -> unpushed c0 h1 x ->
  xsat (pushed mr c0 h1) (update_state_with_service_result x t ah out ans).
Proof.
  intros mr c0 h1 x t ah out ans K U. unfold update_state_with_service_result.
  destruct (negb (sa_ret_code ans =? call_service_success)%Z).
  - destruct (track_service_result x _ t ah) as [x1 sc] eqn:Et.
    destruct (track_service_result_grows _ _ _ _ _ _ Et) as [G Hh]. cbn [xsat].
    eapply push_step with (y := x1); [eapply unpushed_grow; eassumption | apply K | pjs; reflexivity | pjs; reflexivity].
  - destruct (sa_parsed ans) as [result |].
    + unfold populate_from_service_result. destruct out as [sv | sv |].
      * destruct (track_service_result x result t ah) as [x1 sc] eqn:Et.
        destruct (track_service_result_grows _ _ _ _ _ _ Et) as [G Hh].
        destruct (set_scalar_value x1 (v_name sv) _) as [x2 | e | s | w] eqn:E3; cbn [xsat]; try exact I.
        -- destruct (set_scalar_value_frame _ _ _ _ E3) as [F1 F2].
           eapply push_step with (y := x1); [eapply unpushed_grow; eassumption | apply K | pjs; exact F1 | pjs; rewrite F2; reflexivity].
        -- apply xsat_uncatchable. exact (set_scalar_value_err _ _ _ _ E3).
      * destruct (track_service_result x result t ah) as [x1 sc] eqn:Et.
        destruct (track_service_result_grows _ _ _ _ _ _ Et) as [G Hh].
        destruct (add_stream_value x1 (v_name sv) _ _ _) as [x2 | e | s | w] eqn:E3; cbn [xsat]; try exact I.
        -- destruct (add_stream_value_frame _ _ _ _ _ _ E3) as [F1 F2].
           eapply push_step with (y := x1); [eapply unpushed_grow; eassumption | apply K | pjs; exact F1 | pjs; rewrite F2; reflexivity].
        -- apply xsat_uncatchable. exact (add_stream_value_err _ _ _ _ _ _ E3).
      * cbn [xsat]. eapply push_step with (y := x); [exact U | apply K | pjs; reflexivity | pjs; reflexivity].
    + destruct (track_service_result x _ t ah) as [x1 sc] eqn:Et.
      destruct (track_service_result_grows _ _ _ _ _ _ Et) as [G Hh]. cbn [xsat].
      eapply push_step with (y := x1); [eapply unpushed_grow; eassumption | apply K | pjs; reflexivity | pjs; reflexivity].
Qed.

Lemma hps_spec : forall c0 h1 x met pos src t ah out r sd,
  unpushed c0 h1 x -> handle_prev_state x met pos src t ah out = (r, sd) ->
  match r with
  | XOk y => (sd = SD false None /\ pushed (CallMet cid met pos src) c0 h1 y) \/
             (exists b, sd = SD b (Some met) /\ unpushed c0 h1 y /\ call_key cid met = None)
  | XErr (ECatch _) y => pushed (CallMet cid met pos src) c0 h1 y
  | _ => True
  end.
Proof.
  intros c0 h1 x met pos src t ah out r sd U H. unfold handle_prev_state in H.
  assert (Krefl : call_keeps cid cid_eqb (CallMet cid met pos src) (Some met) = true).
  { cbn. apply call_le_refl. exact cid_ceqb_spec. }
  destruct met as [s | v | fc].
  - (* RequestSentBy *)
    assert (Kany : forall c, call_keeps cid cid_eqb (CallMet cid (RequestSentBy s) pos src) (Some c) = true) by reflexivity.
    assert (Hleft : forall b y, x_cids y = x_cids x -> x_handler y = x_handler x ->
              (SD b (Some (RequestSentBy s)) = SD false None /\ pushed (CallMet cid (RequestSentBy s) pos src) c0 h1 y) \/
              (exists b0, SD b (Some (RequestSentBy s)) = SD b0 (Some (RequestSentBy s)) /\ unpushed c0 h1 y /\
                          call_key cid (RequestSentBy s) = None)).
    { intros b y E1 E2. right. exists b. split; [reflexivity |]. split; [| reflexivity].
      eapply unpushed_step; [exact U | exact E1 | exact E2]. }
    destruct s as [p | p id].
    + destruct (String.eqb (tp_peer t) (current_peer x)); inversion H; subst; apply Hleft; pjs; reflexivity.
    + destruct (String.eqb p (current_peer x)).
      * destruct (results_take (x_call_results x) id) as [[ans |] rest].
        -- destruct ah as [ah |]; inversion H; subst; [| exact I].
           pose proof (usr_spec (CallMet cid (RequestSentBy (SPeerCall p id)) pos src) c0 h1
                         (set_calls x (x_lcid x) rest (x_requests x)) t ah out ans Kany) as Hu.
           assert (U' : unpushed c0 h1 (set_calls x (x_lcid x) rest (x_requests x))) by (eapply unpushed_step; [exact U | reflexivity | reflexivity]).
           specialize (Hu U').
           destruct (update_state_with_service_result _ t ah out ans) as [y | [c | u] y | | |]; cbn [xsat] in Hu; auto.
        -- inversion H; subst. apply Hleft; pjs; reflexivity.
      * destruct (String.eqb (tp_peer t) (current_peer x)); inversion H; subst; apply Hleft; pjs; reflexivity.
  - (* Executed *)
    destruct ah as [ah |]; [| inversion H; subst; exact I].
    pose proof (populate_from_data_spec x v ah t pos src out) as Hp.
    destruct (populate_from_data x v ah t pos src out) as [x1 | e | s | w]; inversion H; subst; try exact I.
    + destruct Hp as [F1 F2]. left. split; [reflexivity |].
      eapply push_step with (y := x); [exact U | exact Krefl | |].
      * destruct v; pjs; exact F1.
      * destruct v; pjs; rewrite F2; reflexivity.
    + destruct e as [c | u]; [discriminate Hp | exact I].
  - (* Failed *)
    destruct (resolve_service_info x fc) as [si | e | s | w] eqn:E1; try (inversion H; subst; exact I);
      [| inversion H; subst; apply (xsat_uncatchable (fun _ => True)) in E1 || idtac;
         pose proof (resolve_service_info_err _ _ _ E1) as Hc; destruct e; [discriminate Hc | exact I]].
    destruct ah as [ah |]; [| inversion H; subst; exact I].
    destruct (verify_call ah t (si_arg_hash si) (si_tetraplet si)) as [u | e | s | w] eqn:E2; try (inversion H; subst; exact I);
      [| inversion H; subst; pose proof (verify_call_err _ _ _ _ _ E2) as Hc; destruct e; [discriminate Hc | exact I]].
    destruct (si_value si) as [| | | | | | kvs]; try (inversion H; subst; exact I).
    destruct (obj_get "ret_code" kvs) as [[| | | | | |] |]; try (inversion H; subst; exact I).
    destruct (obj_get "message" kvs) as [[| | | | | |] |]; try (inversion H; subst; exact I).
    match type of H with context [if ?c then _ else _] => destruct c end; inversion H; subst; try exact I.
    eapply push_step with (y := x); [exact U | exact Krefl | pjs; reflexivity | pjs; reflexivity].
Qed.

Lemma rce_spec : forall x t args out, xsat (call_effect x) (resolved_call_execute x t args out).
Proof.
  intros x t args out. unfold resolved_call_execute.
  destruct (collect_args x args) as [[arg_values arg_tetraplets] | e | s | w]; try exact I.
  - (* arguments resolved *)
    unfold with_handler.
    destruct (meet_call_start cid cid_eqb (x_handler x)) as [[mr h1] | e | s] eqn:Es; try exact I.
    cbn [fst snd].
    assert (U0 : unpushed (x_cids x) h1 (set_handler x h1)) by (split; [apply cid_state_incl_refl | reflexivity]).
    assert (Hcont : forall x1 b prev,
              unpushed (x_cids x) h1 x1 ->
              (forall c, call_keeps cid cid_eqb mr (Some c) = true) ->
              (b = false -> prev = None -> False) ->
              (forall m, prev = Some m -> mr = CallMet cid m
                                                 (match mr with CallMet _ _ p _ => p | _ => 0 end)
                                                 (match mr with CallMet _ _ _ s0 => s0 | _ => PreviousData end)) ->
              xsat (call_effect x)
                match SD b prev with
                | SD false _ => XOk (maybe_set_prev_state x1 (SD b prev))
                | SD true _ =>
                    if negb (String.eqb (tp_peer t) (current_peer x1)) then
                      XOk (call_end (make_incomplete (set_next_peers x1 (x_next_peers x1 ++ [tp_peer t])))
                                    (RequestSentBy (SPeer (current_peer x1))))
                    else
                      if 4294967295 <=? x_lcid x1 then XCrash "next_call_request_id: u32 overflow" else
                      let id := x_lcid x1 + 1 in
                      let rq := {| rq_service := tp_service t; rq_function := tp_function t; rq_args := arg_values;
                                   rq_tetraplets := arg_tetraplets |} in
                      let x2 := set_calls x1 id (x_call_results x1) (x_requests x1 ++ [(id, rq)]) in
                      XOk (call_end (make_incomplete x2) (RequestSentBy (SPeerCall (current_peer x2) id)))
                end).
    { intros x1 b prev U K Hb Hm. destruct b.
      - destruct (negb (String.eqb (tp_peer t) (current_peer x1))).
        + cbn [xsat]. eapply effect_of_pushed; [exact Es |].
          eapply push_step with (y := x1); [exact U | apply K | pjs; reflexivity | pjs; reflexivity].
        + destruct (4294967295 <=? x_lcid x1); [exact I |]. cbn [xsat]. eapply effect_of_pushed; [exact Es |].
          eapply push_step with (y := x1); [exact U | apply K | pjs; reflexivity | pjs; reflexivity].
      - destruct prev as [m |]; [| exfalso; apply Hb; reflexivity].
        cbn [xsat maybe_set_prev_state]. eapply effect_of_pushed; [exact Es |].
        eapply push_step with (y := x1); [exact U | apply K | pjs; reflexivity | pjs; reflexivity]. }
    destruct mr as [| met pos src].
    + apply (Hcont (set_handler x h1) true None U0); [reflexivity | discriminate | discriminate].
    + destruct (handle_prev_state (set_handler x h1) met pos src t (Some (CArgs arg_values)) out) as [r sd] eqn:Eh.
      pose proof (hps_spec _ _ _ _ _ _ _ _ _ _ _ U0 Eh) as Hs.
      destruct r as [x1 | [c | u] x1 | | |]; try exact I.
      * destruct Hs as [[-> P] | (b & -> & U1 & Kn)].
        -- cbn [xsat maybe_set_prev_state]. eapply effect_of_pushed; eassumption.
        -- apply (Hcont x1 b (Some met) U1).
           ++ intros c. cbn. apply call_le_pending. exact Kn.
           ++ discriminate.
           ++ intros m Em. inversion Em; subst. reflexivity.
      * cbn [xsat]. eapply effect_of_pushed; eassumption.
  - (* arguments not resolved *)
    destruct (is_joinable e) eqn:Ej.
    + unfold with_handler.
      destruct (meet_call_start cid cid_eqb (x_handler x)) as [[mr h1] | e' | s] eqn:Es; try exact I.
      cbn [fst snd].
      assert (U0 : unpushed (x_cids x) h1 (set_handler x h1)) by (split; [apply cid_state_incl_refl | reflexivity]).
      destruct mr as [| met pos src].
      * destruct (negb (String.eqb (tp_peer t) (current_peer (set_handler x h1)))).
        -- cbn [xsat]. eapply effect_of_pushed; [exact Es |].
           eapply push_step with (y := set_handler x h1); [exact U0 | reflexivity | pjs; reflexivity | pjs; reflexivity].
        -- destruct e as [c | u]; [| exact I]. cbn [xsat]. eapply effect_of_unpushed; [exact Es | reflexivity | exact U0].
      * destruct (handle_prev_state (set_handler x h1) met pos src t None out) as [r sd] eqn:Eh.
        pose proof (hps_spec _ _ _ _ _ _ _ _ _ _ _ U0 Eh) as Hs.
        destruct r as [x1 | [c | u] x1 | | |]; try exact I.
        -- destruct Hs as [[-> P] | (b & -> & U1 & Kn)].
           ++ cbn [negb xsat maybe_set_prev_state]. eapply effect_of_pushed; eassumption.
           ++ assert (K : forall c, call_keeps cid cid_eqb (CallMet cid met pos src) (Some c) = true)
                by (intros c; cbn; apply call_le_pending; exact Kn).
              destruct b; cbn [negb].
              ** destruct (negb (String.eqb (tp_peer t) (current_peer x1))).
                 --- cbn [xsat]. eapply effect_of_pushed; [exact Es |].
                     eapply push_step with (y := x1); [exact U1 | apply K | pjs; reflexivity | pjs; reflexivity].
                 --- destruct e as [c | u]; [| exact I]. cbn [xsat maybe_set_prev_state]. eapply effect_of_pushed; [exact Es |].
                     eapply push_step with (y := x1); [exact U1 | apply K | pjs; reflexivity | pjs; reflexivity].
              ** cbn [xsat maybe_set_prev_state]. eapply effect_of_pushed; [exact Es |].
                 eapply push_step with (y := x1); [exact U1 | apply K | pjs; reflexivity | pjs; reflexivity].
        -- cbn [xsat]. eapply effect_of_pushed; eassumption.
    + destruct e as [c | u]; [| exact I]. cbn [xsat]. apply effect_of_frame; reflexivity.
Qed.

Lemma call_effect_frame_r : forall x y y', call_effect x y -> x_cids y' = x_cids y -> x_handler y' = x_handler y -> call_effect x y'.
Proof. intros x y y' [A B] Ec Eh. split; [rewrite Ec; exact A | rewrite Eh; exact B]. Qed.

Lemma exec_call_spec : forall x text tr args out, xsat (call_effect x) (exec_call x text tr args out).
Proof.
  intros x text tr args out. unfold exec_call.
  destruct (pbind (resolve_triplet x tr) _) as [t | e | s | w]; try exact I.
  - pose proof (rce_spec x t args out) as H.
    destruct (resolved_call_execute x t args out) as [y | e y | | |]; try exact I; [exact H |].
    destruct (is_joinable e) eqn:Ej.
    + destruct e as [c | u]; [| discriminate Ej]. cbn [xsat] in *.
      eapply call_effect_frame_r; [exact H | pjs; reflexivity | pjs; reflexivity].
    + destruct e as [c | u]; [| exact I]. cbn [xsat] in *.
      eapply call_effect_frame_r; [exact H | pjs; reflexivity | pjs; reflexivity].
  - destruct (is_joinable e).
    + cbn [xsat]. apply effect_of_frame; pjs; reflexivity.
    + destruct e as [c | u]; [| exact I]. cbn [xsat]. apply effect_of_frame; pjs; reflexivity.
Qed.

(* ------------------------------------------------------------------------------------------ *)
(* a traversal of the executor for relations on (CID stores, trace handler) *)

(* destruct the scrutinee of an innermost match of the goal *)
Ltac dmi :=
  match goal with
  | |- context [match ?d with _ => _ end] =>
      lazymatch d with
      | context [match _ with _ => _ end] => fail
      | _ => let T := type of d in
             lazymatch T with ctx => fail | run_params => fail | instr_error => fail | _ => destruct d end
      end
  end.

Lemma exec_ap_frame : forall x a r, match exec_ap x a r with XOk y | XErr _ y => x_cids y = x_cids x /\ x_handler y = x_handler x | _ => True end.
Proof.
  intros x a r. unfold exec_ap. destruct r as [v | v]; [| exact I].
  destruct (apply_to_arg x a false) as [val | e | s | w]; try exact I.
  - unfold lift. destruct (set_scalar_value x (v_name v) val) eqn:E; try exact I; [| split; reflexivity].
    exact (set_scalar_value_frame _ _ _ _ E).
  - destruct (is_joinable e); split; reflexivity.
Qed.

Lemma exec_fail_frame : forall x text f, match exec_fail x text f with XOk y | XErr _ y => x_cids y = x_cids x /\ x_handler y = x_handler x | _ => True end.
Proof.
  intros x text f. unfold exec_fail, fail_with_error_object, lift.
  destruct f; repeat dmi; try exact I; split; reflexivity.
Qed.

(* the par instruction of Exec.v, restated so that its branches can be named *)
Definition par_sub (run : instr -> ctx -> xres) (s : instr) (sg : subgraph) (y : ctx) : xres * option (option exec_err) :=
  let y0 := set_complete y (match s with INext _ _ => false | _ => true end) in
  match run s y0 with
  | XOk y1 =>
      match meet_par_subgraph_end cid (x_handler y1) sg with
      | Ok h => (XOk (set_handler y1 h), Some None)
      | Err e => (XErr (trace_err e) y1, None)
      | Crash _ => (XCrash "trace handler panic", None)
      end
  | XErr e y1 =>
      if is_catchable e then
        let y2 := make_incomplete y1 in
        match meet_par_subgraph_end cid (x_handler y2) sg with
        | Ok h => (XOk (set_handler y2 h), Some (Some e))
        | Err e' => (XErr (trace_err e') y2, None)
        | Crash _ => (XCrash "trace handler panic", None)
        end
      else (XErr e (make_incomplete y1), None)
  | r => (r, None)
  end.
Definition par_body (run : instr -> ctx -> xres) (a b : instr) (x : ctx) : xres :=
  with_handler x (meet_par_start cid (x_handler x)) (fun h1 =>
    let x1 := set_handler x h1 in
    match par_sub run a SLeft x1 with
    | (XOk y1, Some lres) =>
        let lc := x_complete y1 in
        match par_sub run b SRight y1 with
        | (XOk y2, Some rres) =>
            let rc := x_complete y2 in
            let y3 := set_complete y2 (lc || rc) in
            match lres, rres with
            | Some _, Some er => XErr er y3
            | _, _ => XOk (set_last_error y3 (x_last_error y3) true)
            end
        | (r, _) => r
        end
    | (r, _) => r
    end).
Lemma exec_par_unfold : forall E n a b x,
  exec E (S n) (IPar a b) x = wrap_errors (par_body (exec E n) a b x) "par" false.
Proof. reflexivity. Qed.

Section KeepInv.
  Variable R : ctx -> ctx -> Prop.
  Hypothesis R_refl : forall x, R x x.
  Hypothesis R_trans : forall x y z, R x y -> R y z -> R x z.
  Hypothesis R_frame : forall x y, x_cids y = x_cids x -> x_handler y = x_handler x -> R x y.
  Hypothesis R_call : forall x text tr args out, xres_sat R x (exec_call x text tr args out).
  Hypothesis R_par : forall x h1 y1 h2 y2 h3,
      meet_par_start cid (x_handler x) = Ok h1 ->
      R (set_handler x h1) y1 -> meet_par_subgraph_end cid (x_handler y1) SLeft = Ok h2 ->
      R (set_handler y1 h2) y2 -> meet_par_subgraph_end cid (x_handler y2) SRight = Ok h3 ->
      R x (set_handler y2 h3).
  Variable E : stream_hook.
  Hypothesis R_hook : hook_keeps R E.

  Lemma sat_frame_l : forall x x' r, x_cids x' = x_cids x -> x_handler x' = x_handler x -> xres_sat R x' r -> xres_sat R x r.
  Proof.
    intros x x' r Ec Eh H. destruct r as [y | [c | u] y | | |]; cbn [xres_sat] in *; auto;
      (eapply R_trans; [apply R_frame; eassumption | exact H]).
  Qed.
  Lemma sat_trans : forall x y r, R x y -> xres_sat R y r -> xres_sat R x r.
  Proof.
    intros x y r Hxy H. destruct r as [z | [c | u] z | | |]; cbn [xres_sat] in *; auto; eapply R_trans; eassumption.
  Qed.
  Lemma R_frame_r : forall x y y', R x y -> x_cids y' = x_cids y -> x_handler y' = x_handler y -> R x y'.
  Proof. intros x y y' H Ec Eh. eapply R_trans; [exact H | apply R_frame; assumption]. Qed.
  Lemma sat_wrap : forall x r i b, xres_sat R x r -> xres_sat R x (wrap_errors r i b).
  Proof.
    intros x r i b H. destruct r as [y | [c | u] y | | |]; cbn [wrap_errors xres_sat] in *; auto.
    eapply R_frame_r; [exact H | apply xc_set_errors | apply xh_set_errors].
  Qed.
  Lemma sat_of_frame : forall x r,
    match r with XOk y | XErr _ y => x_cids y = x_cids x /\ x_handler y = x_handler x | _ => True end -> xres_sat R x r.
  Proof.
    intros x r H. destruct r as [y | [c | u] y | | |]; cbn [xres_sat]; auto; destruct H; apply R_frame; assumption.
  Qed.

  Section Step.
    Variable run : instr -> ctx -> xres.
    Hypothesis IH : forall i x, xres_sat R x (run i x).

    Lemma par_sub_spec : forall s sg y,
      match par_sub run s sg y with
      | (XOk y', Some _) => exists y1 h, R y y1 /\ meet_par_subgraph_end cid (x_handler y1) sg = Ok h /\ y' = set_handler y1 h
      | (XOk _, None) => False
      | (XErr (ECatch _) _, _) => False
      | _ => True
      end.
    Proof.
      intros s sg y. unfold par_sub.
      pose proof (IH s (set_complete y (match s with INext _ _ => false | _ => true end))) as H.
      destruct (run s _) as [y1 | e y1 | | |]; try exact I.
      - cbn [xres_sat] in H.
        destruct (meet_par_subgraph_end cid (x_handler y1) sg) as [h | e | st] eqn:Ee; try exact I.
        exists y1, h. split; [| split; [exact Ee | reflexivity]].
        eapply R_trans; [apply R_frame | exact H]; reflexivity.
      - destruct e as [c | u]; cbn [is_catchable]; [| exact I]. cbn [xres_sat] in H.
        destruct (meet_par_subgraph_end cid (x_handler (make_incomplete y1)) sg) as [h | e | st] eqn:Ee; try exact I.
        exists (make_incomplete y1), h. split; [| split; [exact Ee | reflexivity]].
        eapply R_trans; [| eapply R_frame_r; [exact H | reflexivity | reflexivity]]. apply R_frame; reflexivity.
    Qed.

    Lemma par_body_spec : forall a b x, xres_sat R x (par_body run a b x).
    Proof.
      intros a b x. unfold par_body, with_handler.
      destruct (meet_par_start cid (x_handler x)) as [h1 | e | st] eqn:Es; try exact I.
      pose proof (par_sub_spec a SLeft (set_handler x h1)) as HL.
      destruct (par_sub run a SLeft (set_handler x h1)) as [[y1' | [c | u] y1' | | |] [lres |]]; try exact I; try contradiction.
      destruct HL as (y1 & h2 & R1 & E2 & ->).
      pose proof (par_sub_spec b SRight (set_handler y1 h2)) as HR.
      destruct (par_sub run b SRight (set_handler y1 h2)) as [[y2' | [c | u] y2' | | |] [rres |]]; try exact I; try contradiction.
      destruct HR as (y2 & h3 & R2 & E3 & ->).
      pose proof (R_par x h1 y1 h2 y2 h3 Es R1 E2 R2 E3) as HP.
      destruct lres as [el |], rres as [er |]; cbn [xres_sat].
      - destruct er as [c | u]; [| exact I]. eapply R_frame_r; [exact HP | reflexivity | reflexivity].
      - eapply R_frame_r; [exact HP | reflexivity | reflexivity].
      - eapply R_frame_r; [exact HP | reflexivity | reflexivity].
      - eapply R_frame_r; [exact HP | reflexivity | reflexivity].
    Qed.
  End Step.

  Ltac dm IH :=
    match goal with
    | |- context [match ?d with _ => _ end] =>
        lazymatch d with
        | context [match _ with _ => _ end] => fail
        | exec _ _ ?a ?z =>
            let H := fresh "HI" in pose proof (IH a z) as H; destruct d as [? | [? | ?] ? | | |] eqn:?; cbn [xres_sat] in H
        | _ => destruct d eqn:?
        end
    end.
  (* close a goal [R a b] by a chain of hypotheses [R p q] glued with frame steps *)
  Ltac pjg :=
    repeat (rewrite ?xc_record_cid, ?xh_record_cid, ?xc_set_errors, ?xh_set_errors;
            cbn [x_cids x_handler set_scalars set_canons set_iterables set_next_peers set_last_error set_error
                 set_complete set_calls set_cids set_handler set_fold_counter set_ext with_streams with_canon_maps
                 all_fold_start all_fold_end all_next_before all_next_after
                 call_end make_incomplete flush_complete]).
  Ltac rgo :=
    first
      [ apply R_frame; pjg; reflexivity
      | match goal with
        | H : R ?p ?q |- R ?a ?b =>
            apply (R_trans a q);
            [ apply (R_trans a p); [apply R_frame; pjg; reflexivity | exact H] | clear H; rgo ]
        end ].
  Ltac rfin :=
    try match goal with
        | |- xres_sat _ _ (XErr ?e _) => is_var e; destruct e
        | |- xres_sat _ _ (XErr (sm_to_err ?e) _) => is_var e; destruct e
        end;
    cbn [xres_sat sm_to_err]; auto;
    match goal with
    | |- R _ _ => rgo
    | |- True => exact I
    end.

  Theorem keep_inv : forall fuel i x, xres_sat R x (exec E fuel i x).
  Proof.
    induction fuel as [| n IH]; intros i x; [exact I |].
    assert (Hh : forall i0 x0, xres_sat R x0 (match E (exec E n) i0 x0 with Some r' => r' | None => XUnsupported "stream" end)).
    { intros i0 x0. destruct (E (exec E n) i0 x0) eqn:Ee; [| exact I]. apply (R_hook _ IH _ _ _ Ee). }
    destruct i; try (rewrite exec_par_unfold; apply sat_wrap; apply par_body_spec; exact IH);
      cbn [exec]; try apply sat_wrap; try exact I; try apply Hh.
    - (* call *) apply R_call.
    - (* ap *) destruct r; [apply sat_of_frame; apply exec_ap_frame | apply Hh].
    - (* seq *)
      repeat dm IH; try solve [rfin].
      eapply sat_trans; [| apply IH]. rfin.
    - (* xor *)
      repeat dm IH; try solve [rfin]; try discriminate.
    - (* match *)
      repeat dm IH; try solve [rfin]; eapply sat_trans; try apply IH; rfin.
    - (* mismatch *)
      repeat dm IH; try solve [rfin]; eapply sat_trans; try apply IH; rfin.
    - (* fail *) apply sat_of_frame. apply exec_fail_frame.
    - (* fold scalar *)
      repeat dm IH; try solve [rfin].
    - (* never *) rfin.
    - (* new *)
      match goal with na : new_arg |- _ => destruct na end; try apply Hh; try exact I.
      + repeat dm IH; cbn [lift]; try solve [rfin].
      + repeat dm IH; cbn [lift]; try solve [rfin].
    - (* next *)
      destruct (iter_get (x_iterables x) (v_name iter)) as [fs |]; [| rfin].
      destruct (fs_type fs); [| apply Hh].
      destruct (it_next (fs_iterable fs)) as [moved it'].
      destruct (negb moved).
      + destruct (fs_last fs); [| rfin].
        eapply sat_trans; [| apply IH]. rfin.
      + repeat dm IH; try solve [rfin].
    - (* null *) rfin.
  Qed.
End KeepInv.

(* ---- instance: the CID stores only grow ---- *)

Lemma xsat_to_xres_sat : forall (R : ctx -> ctx -> Prop) x r, xsat (R x) r -> xres_sat R x r.
Proof. intros R x r H. destruct r as [y | [c | u] y | | |]; exact H. Qed.

Lemma xsat_impl : forall (P Q : ctx -> Prop) r, (forall y, P y -> Q y) -> xsat P r -> xsat Q r.
Proof. intros P Q r H Hr. destruct r as [y | [c | u] y | | |]; cbn in *; auto. Qed.

Theorem exec_cids_grow : forall E, hook_keeps cids_grow E -> forall fuel i x, xres_sat cids_grow x (exec E fuel i x).
Proof.
  intros E HE. apply keep_inv; try exact HE.
  - intros x. apply cid_state_incl_refl.
  - intros x y z. apply cid_state_incl_trans.
  - intros x y Ec _. unfold cids_grow. rewrite Ec. apply cid_state_incl_refl.
  - intros x text tr args out. apply xsat_to_xres_sat.
    eapply xsat_impl; [| apply exec_call_spec]. intros y [H _]. exact H.
  - intros x h1 y1 h2 y2 h3 _ R1 _ R2 _. unfold cids_grow in *. pjs.
    eapply cid_state_incl_trans; eassumption.
Qed.

Theorem stores_kept : C09_stores_stmt.
Proof.
  intros E finish HE Hfin fuel i code d next reqs signed Hrun. unfold run in Hrun.
  pose proof (exec_cids_grow E HE fuel (ri_script i) (initial_ctx i)) as Hg.
  assert (Hpop : forall c x, (match finish x with
                              | inr u => OutPrevData (uncatchable_code u)
                              | inl x1 => OutNewData c (data_of_ctx x1) (dedup (x_next_peers x1) []) (x_requests x1) (x_tracker x1)
                              end) = OutNewData code d next reqs signed ->
                             cids_grow (initial_ctx i) x ->
                             cid_state_incl (d_cids (ri_prev i)) (d_cids d) /\ cid_state_incl (d_cids (ri_cur i)) (d_cids d)).
  { intros c x Hq Gx. destruct (finish x) as [x1 | u] eqn:Ef; [| discriminate Hq]. inversion Hq; subst.
    pose proof (Hfin _ _ Ef) as G1. unfold cids_grow in *. cbn [data_of_ctx d_cids].
    assert (G : cid_state_incl (merge_cid_states (d_cids (ri_prev i)) (d_cids (ri_cur i))) (x_cids x1)).
    { eapply cid_state_incl_trans; [exact Gx | exact G1]. }
    split; (eapply cid_state_incl_trans; [| exact G]); [apply merge_cid_states_left | apply merge_cid_states_right]. }
  destruct (exec E fuel (ri_script i) (initial_ctx i)) as [x | [c | u] x | | |]; cbn [xres_sat] in Hg; try discriminate Hrun.
  - eapply Hpop; eassumption.
  - eapply Hpop; eassumption.
Qed.

(* ------------------------------------------------------------------------------------------ *)
(* Part 4: the data-consistency error set *)

Theorem codes_tie : C04_codes_tie_stmt.
Proof.
  split; [vm_compute; reflexivity |]. split; [vm_compute; reflexivity |]. split; [vm_compute; reflexivity |].
  intros u. destruct u; vm_compute; reflexivity.
Qed.

(* the code set is duplicate free and every listed class is represented *)
Lemma codes_distinct : NoDup c04_generated_codes.
Proof.
  vm_compute. repeat constructor; cbn; intuition discriminate.
Qed.
