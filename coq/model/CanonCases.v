(* CanonCases.v -- C11 on one real run of `air::execute_air` (harness/src/bin/canon11.rs prints the
   run as a term of ExecCases.case_t): the projection of the lock-step comparison that C11 talks
   about, and the per-run part of the property oracle evaluated on the IMPLEMENTATION's observation.
   Definitions only. *)
From Aqua Require Import Base Json Air Trace Handler Values Scalars Lens Exec RunExec ExecStreams ExecCases.
Open Scope N_scope.
Open Scope list_scope.

(* the canon states of a trace, in trace order *)
Definition canon_states (t : list (state cid)) : list (canon_result cid) :=
  flat_map (fun s => match s with SCanon c => [c] | _ => [] end) t.
Definition executed_ids (t : list (state cid)) : list cid :=
  flat_map (fun s => match s with SCanon (CanonExecuted c) => [c] | _ => [] end) t.

(* model vs implementation on what C11 observes: outcome class and code, the canon states (content
   ids as content terms: tetraplet + values + tetraplets of values + provenance), the canon stores,
   the call requests (arguments and tetraplets: the canon values handed to services), the next peers *)
(* a run refused before the executor starts (preparation: decoding, versions, signature check -- e.g. the
   designated peer presenting two incomparable sets of its own results, C15) is outside the executor model *)
Definition refused_in_preparation (c : case_t) : bool :=
  let o := ec_obs c in (eo_kind o =? 1) && (0 <? eo_code o)%Z && (eo_code o <? 10000)%Z.

Definition check_case_c11 (c : case_t) : bool :=
  let o := ec_obs c in
  if refused_in_preparation c then true else
  match model_outcome c with
  | OutUnsupported _ => true
  | OutFuel => false
  | OutCrash _ => eo_kind o =? 2
  | OutPrevData code => (eo_kind o =? 1) && (code =? eo_code o)%Z
  | OutNewData code d next reqs signed =>
      (eo_kind o =? 0) && (code =? eo_code o)%Z &&
      list_eqb (canon_result_eqb cid cid_eqb) (canon_states (d_trace d)) (canon_states (eo_trace o)) &&
      set_eq_cid (cs_canon_results (d_cids d)) (cs_canon_results (eo_cids o)) &&
      set_eq_cid (cs_canon_elems (d_cids d)) (cs_canon_elems (eo_cids o)) &&
      list_eqb (pair_eqb N.eqb request_eqb) reqs (eo_requests o) &&
      set_eq_str next (eo_next o)
  end.

Definition supported_c11 (c : case_t) : bool := negb (refused_in_preparation c) && is_supported c.

(* per-run oracle, on the implementation's observation only:
   (d) an executed canon result that is in the produced data but in neither input was created by this
       run, so its tetraplet must name the current peer, with empty service, function and lens;
   (r) after a successful run an executed canon result of the previous data is still in the produced
       data (a peer never replaces a result it already holds; a run that ends in an uncaught catchable
       error produces a shorter trace and is not judged here);
   (s) every executed canon result of the produced trace is in the produced canon store *)
Definition names_current_peer (peer : string) (k : cid) : bool :=
  match k with
  | CCanonResult (CTetraplet t) _ =>
      String.eqb (tp_peer t) peer && String.eqb (tp_service t) "" && String.eqb (tp_function t) "" && String.eqb (tp_lens t) ""
  | _ => false
  end.
Definition c11_run_oracle (c : case_t) : bool :=
  let i := ec_input c in
  let o := ec_obs c in
  if eo_kind o =? 0 then
    let pe := executed_ids (d_trace (ri_prev i)) in
    let ce := executed_ids (d_trace (ri_cur i)) in
    let oe := executed_ids (eo_trace o) in
    forallb (fun k => cid_mem k pe || cid_mem k ce || names_current_peer (rp_current_peer (ri_params i)) k) oe &&
    (if (eo_code o =? 0)%Z then forallb (fun k => cid_mem k oe) pe else true) &&
    forallb (fun k => cid_mem k (cs_canon_results (eo_cids o))) oe
  else true.
