(* LensCases.v -- case type of the C24 correspondence (harness driver `lens`), the comparison of the
   model's prediction with the implementation's observation, and the C24 oracle: the property
   evaluated on the implementation's observation with plain navigation [nav] only. *)
From Aqua Require Import Base Json Air Lens.
Open Scope N_scope.

(* what a lens is applied to *)
Inductive target :=
| TScalar (v : json)                          (* a scalar, or the current element of a fold iterator *)
| TStream (elems : list json)                 (* a canon stream: the values of its elements in order *)
| TMap (pairs : list (map_key * json)).       (* a canon stream map: its (key, value) pairs in order *)

(* the error variants without their payloads (the harness recognises the variant, not the text) *)
Inductive err_kind :=
| KCanonStreamNotHaveEnoughValues | KEmptyStream | KFieldAccessorAppliedToStream
| KArrayAccessorNotMatchValue | KValueNotContainSuchArrayIdx | KValueNotContainSuchField
| KFieldAccessorNotMatchValue | KIndexAccessNotU32 | KScalarAccessorHasInvalidType
| KStreamAccessorHasInvalidType | KCanonStreamMapAccessorHasInvalidType
| KCanonStreamMapAccessorMustNotBeIterable
| KLengthFunctorAppliedToNotArray | KVariableNotFound | KVariableWasNotInitializedAfterNew.

Definition err_kind_name (k : err_kind) : string :=
  match k with
  | KCanonStreamNotHaveEnoughValues => "CanonStreamNotHaveEnoughValues" | KEmptyStream => "EmptyStream"
  | KFieldAccessorAppliedToStream => "FieldAccessorAppliedToStream"
  | KArrayAccessorNotMatchValue => "ArrayAccessorNotMatchValue"
  | KValueNotContainSuchArrayIdx => "ValueNotContainSuchArrayIdx"
  | KValueNotContainSuchField => "ValueNotContainSuchField"
  | KFieldAccessorNotMatchValue => "FieldAccessorNotMatchValue"
  | KIndexAccessNotU32 => "IndexAccessNotU32"
  | KScalarAccessorHasInvalidType => "ScalarAccessorHasInvalidType"
  | KStreamAccessorHasInvalidType => "StreamAccessorHasInvalidType"
  | KCanonStreamMapAccessorHasInvalidType => "CanonStreamMapAccessorHasInvalidType"
  | KCanonStreamMapAccessorMustNotBeIterable => "CanonStreamMapAccessorMustNotBeIterable"
  | KLengthFunctorAppliedToNotArray => "LengthFunctorAppliedToNotArray"
  | KVariableNotFound => "VariableNotFound"
  | KVariableWasNotInitializedAfterNew => "VariableWasNotInitializedAfterNew"
  end%string.
Definition err_kind_eqb (a b : err_kind) : bool := String.eqb (err_kind_name a) (err_kind_name b).

(* what the run of the purpose-built script showed *)
Inductive obs :=
| ObsOk (j : json)          (* the last call was requested; [j] is the argument it received *)
| ObsErr (k : err_kind)     (* the run ended with the code of a catchable error of the lens family *)
| ObsJoined                 (* the run succeeded but the last call was silently not performed (join behaviour) *)
| ObsOther (code : Z)       (* any other error code, or the script did not run as intended *)
| ObsPanic.

Record case_t := {
  c_target : target;
  c_lens : lambda;
  c_env : list (string * env_entry);
  c_obs : obs
}.

Definition obs_eqb (a b : obs) : bool :=
  match a, b with
  | ObsOk x, ObsOk y => json_eqb x y
  | ObsErr x, ObsErr y => err_kind_eqb x y
  | ObsJoined, ObsJoined => true
  | ObsOther x, ObsOther y => Z.eqb x y
  | ObsPanic, ObsPanic => true
  | _, _ => false
  end.

(* the environment as the model sees it: first binding of a name; an unlisted name was never defined *)
Fixpoint env_lookup (l : list (string * env_entry)) (name : string) : option env_entry :=
  match l with
  | [] => None
  | (n, x) :: rest => if String.eqb n name then Some x else env_lookup rest name
  end.
Definition env_of (l : list (string * env_entry)) : env :=
  fun name => match env_lookup l name with Some x => x | None => EnvNotFound end.

(* ---- correspondence ---- *)

Definition kind_of_lambda_error (e : lambda_error) : err_kind :=
  match e with
  | CanonStreamNotHaveEnoughValues _ _ => KCanonStreamNotHaveEnoughValues
  | EmptyStream => KEmptyStream
  | FieldAccessorAppliedToStream _ => KFieldAccessorAppliedToStream
  | ArrayAccessorNotMatchValue _ _ => KArrayAccessorNotMatchValue
  | ValueNotContainSuchArrayIdx _ _ => KValueNotContainSuchArrayIdx
  | ValueNotContainSuchField _ _ => KValueNotContainSuchField
  | FieldAccessorNotMatchValue _ _ => KFieldAccessorNotMatchValue
  | IndexAccessNotU32 _ => KIndexAccessNotU32
  | ScalarAccessorHasInvalidType _ => KScalarAccessorHasInvalidType
  | StreamAccessorHasInvalidType _ => KStreamAccessorHasInvalidType
  | CanonStreamMapAccessorHasInvalidType _ => KCanonStreamMapAccessorHasInvalidType
  | CanonStreamMapAccessorMustNotBeIterable => KCanonStreamMapAccessorMustNotBeIterable
  end.

(* the model's selection on a case *)
Definition model_select (c : case_t) : lres json :=
  let e := env_of (c_env c) in
  match c_target c with
  | TScalar v => select_by_lambda_from_scalar e v (c_lens c)
  | TStream elems => select_by_lambda_from_stream e elems (c_lens c)
  | TMap pairs => select_by_lambda_from_canon_map e pairs (c_lens c)
  end.

(* ... and how it shows through `call`: VariableNotFound is joinable (instructions/call.rs: joinable!),
   the call is skipped and the run succeeds; every other error ends the run with its code *)
Definition predict (c : case_t) : obs :=
  match model_select c with
  | LOk j => ObsOk j
  | LCatchable (LambdaApplierError e) => ObsErr (kind_of_lambda_error e)
  | LCatchable (LengthFunctorAppliedToNotArray _) => ObsErr KLengthFunctorAppliedToNotArray
  | LCatchable (VariableNotFound _) => ObsJoined
  | LCatchable (VariableWasNotInitializedAfterNew _) => ObsErr KVariableWasNotInitializedAfterNew
  | LCrash _ => ObsPanic
  end.

Definition check_case (c : case_t) : bool := obs_eqb (predict c) (c_obs c).

(* ---- the oracle: written from the property text, uses [nav] and nothing of the applier ---- *)

(* the step an accessor denotes: a literal, or the content of a scalar (string = field name,
   non-negative integer = index; anything else, or no such scalar, denotes nothing) *)
Definition o_scalar_json (l : list (string * env_entry)) (name : string) : option json :=
  match env_lookup l name with
  | Some (EnvRef (SrValue j)) => Some j
  | Some (EnvRef (SrIterable j)) => Some j
  | _ => None
  end.

Definition o_step (l : list (string * env_entry)) (a : accessor) : option step :=
  match a with
  | ArrayAccess i => Some (SIndex i)
  | FieldAccessByName f => Some (SField f)
  | FieldAccessByScalar s =>
      match o_scalar_json l s with
      | Some (JStr x) => Some (SField x)
      | Some (JInt z) => if (0 <=? z)%Z then Some (SIndex (Z.to_N z)) else None
      | _ => None
      end
  | AccessorError => None
  end.

Fixpoint o_steps (l : list (string * env_entry)) (p : list accessor) : option (list step) :=
  match p with
  | [] => Some []
  | a :: r => match o_step l a, o_steps l r with Some s, Some ss => Some (s :: ss) | _, _ => None end
  end.

(* the key a first accessor denotes on a map: a literal field name or index, or the string / integer
   held by a scalar *)
Definition o_key (l : list (string * env_entry)) (a : accessor) : option map_key :=
  match a with
  | ArrayAccess i => Some (MKInt (Z.of_N i))
  | FieldAccessByName f => Some (MKStr f)
  | FieldAccessByScalar s =>
      match o_scalar_json l s with
      | Some (JStr x) => Some (MKStr x)
      | Some (JInt z) => Some (MKInt z)
      | _ => None
      end
  | AccessorError => None
  end.

Definition o_group (pairs : list (map_key * json)) (k : map_key) : list json :=
  fold_right (fun p acc => if map_key_eqb (fst p) k then snd p :: acc else acc) [] pairs.

Definition o_len {A} (l : list A) : json := JInt (Z.of_nat (length l)).

(* what plain navigation gives ([None]: impossible) *)
Definition expected (c : case_t) : option json :=
  match c_lens c, c_target c with
  | LFunctorLength, TScalar (JArr l) => Some (o_len l)
  | LFunctorLength, TScalar _ => None
  | LFunctorLength, TStream elems => Some (o_len elems)
  | LFunctorLength, TMap pairs => Some (o_len pairs)
  | LValuePath p, TScalar v => match o_steps (c_env c) p with Some ss => nav v ss | None => None end
  | LValuePath p, TStream elems => match o_steps (c_env c) p with Some ss => nav (JArr elems) ss | None => None end
  | LValuePath [], TMap _ => None
  | LValuePath (a :: body), TMap pairs =>
      match o_key (c_env c) a, o_steps (c_env c) body with
      | Some k, Some ss => nav (JArr (o_group pairs k)) ss
      | _, _ => None
      end
  end.

(* some scalar named in the lens was never defined: the only situation in which a skipped call
   (join) is an acceptable way of not delivering a selection *)
Definition names_undefined_scalar (c : case_t) : bool :=
  match c_lens c with
  | LValuePath p =>
      existsb (fun a => match a with
                        | FieldAccessByScalar s =>
                            match env_lookup (c_env c) s with Some EnvNotFound | None => true | _ => false end
                        | _ => false end) p
  | LFunctorLength => false
  end.

Definition c24_oracle_strict (c : case_t) : bool :=
  match expected c, c_obs c with
  | Some r, ObsOk j => json_eqb r j
  | Some _, _ => false
  | None, ObsErr _ => true                      (* every [err_kind] is a catchable error *)
  | None, ObsJoined => names_undefined_scalar c
  | None, _ => false
  end.

(* The two places where the code is known to leave plain navigation on canon maps (both proved of
   the model in LensProofs.v, reported as deviations in the evidence):
   (1) absent key followed by more accessors: the implementation answers [] instead of failing;
   (2) key held by a fold iterator: the implementation fails although the key exists.
   The registered oracle accepts the implementation's answer there as well as the strict one. *)
Definition deviation_class (c : case_t) : N :=
  match c_lens c, c_target c with
  | LValuePath (a :: body), TMap pairs =>
      match a with
      | FieldAccessByScalar s =>
          match env_lookup (c_env c) s with
          | Some (EnvRef (SrIterable _)) => 2
          | _ => match o_key (c_env c) a, body with
                 | Some k, _ :: _ => match o_group pairs k with [] => 1 | _ => 0 end
                 | _, _ => 0
                 end
          end
      | _ => match o_key (c_env c) a, body with
             | Some k, _ :: _ => match o_group pairs k with [] => 1 | _ => 0 end
             | _, _ => 0
             end
      end
  | _, _ => 0
  end.

Definition c24_oracle (c : case_t) : bool :=
  c24_oracle_strict c ||
  match deviation_class c, c_obs c with
  | 1, ObsOk (JArr []) => true
  | 2, ObsErr _ => true
  | _, _ => false
  end ||
  (* `.length` of a map: the text does not say whether pairs or keys are counted; any count up to
     the number of pairs is accepted (the implementation counts pairs) *)
  match c_lens c, c_target c, c_obs c with
  | LFunctorLength, TMap pairs, ObsOk (JInt z) => ((0 <=? z) && (z <=? Z.of_nat (length pairs)))%Z
  | _, _, _ => false
  end.

(* true on the cases where the strict reading holds or the case is outside the two classes:
   [failing deviation_free cases] lists the observed deviations *)
Definition deviation_free (c : case_t) : bool := c24_oracle_strict c || negb (c24_oracle c).
