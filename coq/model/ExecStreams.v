(* ExecStreams.v -- the instruction executor, stage 2: the instructions over streams and
   canonicalized streams (air/src/execution_step/instructions/{ap.rs, canon.rs, canon_utils/mod.rs,
   fold_stream.rs, fold_stream/stream_execute_helpers.rs, fold_stream/completeness_updater.rs,
   new.rs, next.rs}) and the compactification of stream generations at the end of a run
   (farewell_step/outcome.rs: compactify_streams; value_types/stream/stream_definition.rs:
   compactify).  They plug into Exec.exec through its section variable [exec_stream_instr] and into
   RunExec.run through [finish_streams].

   Streams themselves (ValuesMatrix, Stream, Generation, RecursiveStreamCursor, Streams with
   `new` scopes) are model/Stream.v.  Stream MAPS and canon stream maps: [XUnsupported].
   Definitions only. *)
From Aqua Require Import Base Json Air Trace Handler Values Scalars Lens Exec RunExec.
From Aqua Require Stream.
Open Scope N_scope.
Open Scope list_scope.

(* the two tables with the same structure: Streams and StreamMaps (a stream map IS a stream of {key, value} objects) *)
Inductive table := TStreams | TMaps.
Definition table_of (t : table) (x : ctx) : Stream.streams vagg :=
  match t with TStreams => e_streams (x_ext x) | TMaps => e_stream_maps (x_ext x) end.
Definition with_table (t : table) (x : ctx) (m : Stream.streams vagg) : ctx :=
  match t with
  | TStreams => with_streams x m
  | TMaps => set_ext x {| e_streams := e_streams (x_ext x); e_stream_maps := m; e_canon_maps := e_canon_maps (x_ext x) |}
  end.
Definition streams_of (x : ctx) : Stream.streams vagg := table_of TStreams x.
(* Streams::get / StreamMaps::get *)
Definition get_in (t : table) (x : ctx) (name : string) (p : N) : option (Stream.stream vagg) :=
  Stream.streams_get vagg (table_of t x) name p.
(* write through get_mut *)
Definition put_in (t : table) (x : ctx) (name : string) (p : N) (s : Stream.stream vagg) : ctx :=
  with_table t x (Stream.streams_set vagg (table_of t x) name p s).
Definition get_stream := get_in TStreams.
Definition put_stream := put_in TStreams.

Definition of_sres {A} (r : Stream.sres A) : pres A :=
  match r with
  | Stream.SOk a => POk a
  | Stream.SErr _ => PErr (EUncatch UStreamSizeLimitExceeded)
  | Stream.SCrash _ => PCrash "stream: generation index does not fit u32"
  end.

(* ------------------------------------------------------------------------------------------ *)
(* ap into a stream: ap.rs *)

Definition exec_ap_stream (x : ctx) (a : ap_arg) (sv : var) : xres :=
  match apply_to_arg x a true with
  | PErr e => if is_joinable e then XOk (make_incomplete x) else XErr e x
  | PCrash s => XCrash s
  | PUnsupported w => XUnsupported w
  | POk v =>
      (* to_merger_ap_result *)
      with_handler x (meet_ap_start cid (x_handler x)) (fun rh =>
        let x0 := set_handler x (snd rh) in
        (* generate_value_descriptor *)
        let g := match fst rh with
                 | ApNotMet => Stream.GNew
                 | ApMet gen src => gen_of_source src gen
                 end in
        (* populate_context, maybe_update_trace *)
        match add_stream_value x0 (v_name sv) v g (v_pos sv) with
        | POk x1 => XOk (set_handler x1 (meet_ap_end cid (x_handler x1) [generation_stub]))
        | PErr e => XErr e x0
        | PCrash s => XCrash s
        | PUnsupported w => XUnsupported w
        end)
  end.

(* ------------------------------------------------------------------------------------------ *)
(* canon: canon.rs, canon_utils/mod.rs *)

Definition canon_tetraplet (peer : string) : tetraplet :=
  {| tp_peer := peer; tp_service := ""; tp_function := ""; tp_lens := "" |}.

Definition set_canon_value (x : ctx) (name : string) (c : canon_wp) : pres ctx :=
  match Scalars.set_value canon_wp (x_canons x) name c with
  | inl (m, _) => POk (set_canons x m)
  | inr e => PErr (sm_to_err e)
  end.

(* the three canon instructions share canon_utils; they differ in the producer and in the epilog *)
Inductive canon_kind :=
| CKStream (canon_name : string)         (* canon.rs *)
| CKMap (canon_map_name : string)        (* canon_map.rs *)
| CKMapScalar (scalar_name : string).    (* canon_stream_map_scalar.rs *)

Definition set_canon_map_value (x : ctx) (name : string) (c : canon_map_wp) : pres ctx :=
  match Scalars.set_value canon_map_wp (e_canon_maps (x_ext x)) name c with
  | inl (m, _) => POk (with_canon_maps x m)
  | inr e => PErr (sm_to_err e)
  end.

(* CanonStreamMap::from_canon_stream: every element must be a {key, value} object with a supported key *)
Definition kv_pairs_valid (values : list vagg) : bool :=
  forallb (fun v => match kv_key v, kv_value v with Some _, Some _ => true | _, _ => false end) values.

(* epilog_closure of the three instructions *)
Definition canon_epilog (k : canon_kind) (x : ctx) (values : list vagg) (t : tetraplet) (c : cid) : xres :=
  let finish (x1 : ctx) : xres := XOk (set_handler x1 (meet_canon_end cid (x_handler x1) (CanonExecuted c))) in
  match k with
  | CKStream name =>
      lift x (set_canon_value x name {| cw_values := values; cw_tetraplet := t; cw_cid := c |}) finish
  | CKMap name =>
      if negb (kv_pairs_valid values) then XErr (EUncatch UStreamMapKeyError) x else
      lift x (set_canon_map_value x name {| cmw_values := values; cmw_tetraplet := t; cmw_cid := c |}) finish
  | CKMapScalar name =>
      match values with
      | [] => XErr (EUncatch UCanonStreamMapError) x
      | v :: _ =>
          let pos := trace_pos_of x in
          lift x (set_scalar_value x name (VACanon (va_result v) (tp_peer t) (tp_lens t) pos c)) finish
      end
  end.

(* ExecutionCidState::track_canon_value for every value, then the tetraplet and the result aggregate
   (populate_unseen_cid_context) *)
Definition canon_elem_cid (v : vagg) : cid :=
  CCanonElem (CValue (va_result v)) (CTetraplet (va_tetraplet v)) (prov_to_opt (va_provenance v)).
Definition track_canon_values (cs : cid_state) (vs : list vagg) : cid_state :=
  fold_left (fun acc v =>
    {| cs_values := cid_track (CValue (va_result v)) (cs_values acc);
       cs_tetraplets := cid_track (CTetraplet (va_tetraplet v)) (cs_tetraplets acc);
       cs_canon_elems := cid_track (canon_elem_cid v) (cs_canon_elems acc);
       cs_canon_results := cs_canon_results acc; cs_services := cs_services acc |}) vs cs.

(* StreamMap::iter_unique_key_object: the first pair of every key TEXT (42 and "42" are one key here) *)
Fixpoint unique_key_objects (vs : list vagg) (seen : list string) : list (string * json) :=
  match vs with
  | [] => []
  | v :: r =>
      match va_result v with
      | JObj kvs =>
          match option_map map_key_to_string (match obj_get "key" kvs with Some j => stream_map_key_from_value j | None => None end) with
          | Some ks =>
              if existsb (String.eqb ks) seen then unique_key_objects r seen
              else match obj_get "value" kvs with
                   | Some j => (ks, j) :: unique_key_objects r (ks :: seen)
                   | None => unique_key_objects r (ks :: seen)        (* the key is marked as met before the value is looked up *)
                   end
          | None => unique_key_objects r seen
          end
      | _ => unique_key_objects r seen
      end
  end.

(* create_canon_stream_producer of the three instructions: the values to canonicalize *)
Definition canon_producer (k : canon_kind) (t : table) (x : ctx) (stream : var) (peer : string) : list vagg :=
  let values := match get_in t x (v_name stream) (v_pos stream) with
                | Some s => Stream.stream_iter vagg s
                | None => []
                end in
  match k with
  | CKStream _ | CKMap _ => values
  | CKMapScalar _ => [VALiteral (jobj_of (unique_key_objects values [])) peer 0]
  end.

(* create_canon_stream_for_first_time *)
Definition create_canon_first_time (k : canon_kind) (tb : table) (x : ctx) (stream : var) (peer : string) : xres :=
  let values := canon_producer k tb x stream peer in
  let t := canon_tetraplet peer in
  let cs1 := track_canon_values (x_cids x) values in
  let tc := CTetraplet t in
  let rc := CCanonResult tc (map canon_elem_cid values) in
  let cs2 := {| cs_values := cs_values cs1; cs_tetraplets := cid_track tc (cs_tetraplets cs1);
                cs_canon_elems := cs_canon_elems cs1; cs_canon_results := cid_track rc (cs_canon_results cs1);
                cs_services := cs_services cs1 |} in
  let x1 := record_cid (set_cids x cs2 (x_tracker x)) peer rc in
  canon_epilog k x1 values t rc.

(* ExecutionCidState::get_canon_value_by_cid: the aggregate with a fake trace position *)
Definition canon_value_by_cid (cs : cid_state) (c : cid) : pres vagg :=
  if negb (cid_mem c (cs_canon_elems cs)) then PErr (EUncatch (UValueForCidNotFound "canon aggregate")) else
  match c with
  | CCanonElem vc tc prov =>
      if negb (cid_mem vc (cs_values cs)) then PErr (EUncatch (UValueForCidNotFound "value")) else
      if negb (cid_mem tc (cs_tetraplets cs)) then PErr (EUncatch (UValueForCidNotFound "tetraplet")) else
      match vc, tc with
      | CValue j, CTetraplet t => POk (va_new j t 0 (prov_of_opt prov))
      | _, _ => PUnsupported "store entry whose content is not modelled"
      end
  | _ => PUnsupported "store entry whose content is not modelled"
  end.
Fixpoint canon_values_by_cids (cs : cid_state) (l : list cid) : pres (list vagg) :=
  match l with
  | [] => POk []
  | c :: r => dop v <- canon_value_by_cid cs c; dop vs <- canon_values_by_cids cs r; POk (v :: vs)
  end.

(* verify_canon *)
Definition verify_canon (expected stored : tetraplet) : pres unit :=
  if tetraplet_eqb expected stored then POk tt else PErr (EUncatch (UInstructionParametersMismatch "canon tetraplet")).

(* handle_canon_executed *)
Definition handle_canon_executed (k : canon_kind) (x : ctx) (p : peer_arg) (c : cid) : xres :=
  lift x (resolve_peer_id_to_string x p) (fun peer =>
    let cs := x_cids x in
    if negb (cid_mem c (cs_canon_results cs)) then XErr (EUncatch (UValueForCidNotFound "canon result aggregate")) x else
    match c with
    | CCanonResult tc vcs =>
        if negb (cid_mem tc (cs_tetraplets cs)) then XErr (EUncatch (UValueForCidNotFound "tetraplet")) x else
        match tc with
        | CTetraplet t =>
            lift x (verify_canon (canon_tetraplet peer) t) (fun _ =>
            lift x (canon_values_by_cids cs vcs) (fun values =>
              (* populate_seen_cid_context *)
              let x1 := record_cid x (tp_peer t) c in
              canon_epilog k x1 values t c))
        | _ => XUnsupported "store entry whose content is not modelled"
        end
    | _ => XUnsupported "store entry whose content is not modelled"
    end).

Definition exec_canon_generic (k : canon_kind) (tb : table) (x : ctx) (p : peer_arg) (stream : var) : xres :=
  with_handler x (meet_canon_start cid cid_eqb (x_handler x)) (fun rh =>
    let x0 := set_handler x (snd rh) in
    match fst rh with
    | CanonMet _ (CanonExecuted c) => handle_canon_executed k x0 p c
    | CanonMet _ (CanonRequestSentBy sender) =>
        (* handle_canon_request_sent_by: no join behaviour *)
        lift x0 (resolve_peer_id_to_string x0 p) (fun peer =>
          if negb (String.eqb (current_peer x0) peer) then
            let x1 := make_incomplete x0 in
            XOk (set_handler x1 (meet_canon_end cid (x_handler x1) (CanonRequestSentBy sender)))
          else create_canon_first_time k tb x0 stream peer)
    | CanonEmpty _ =>
        (* handle_unseen_canon *)
        match resolve_peer_id_to_string x0 p with
        | PErr e => if is_joinable e then XOk (make_incomplete x0) else XErr e x0
        | PCrash s => XCrash s
        | PUnsupported w => XUnsupported w
        | POk peer =>
            if negb (String.eqb (current_peer x0) peer) then
              let x1 := set_next_peers (make_incomplete x0) (x_next_peers x0 ++ [peer]) in
              XOk (set_handler x1 (meet_canon_end cid (x_handler x1) (CanonRequestSentBy (current_peer x1))))
            else create_canon_first_time k tb x0 stream peer
        end
    end).
Definition exec_canon (x : ctx) (p : peer_arg) (stream canon : var) : xres :=
  exec_canon_generic (CKStream (v_name canon)) TStreams x p stream.

(* ------------------------------------------------------------------------------------------ *)
(* ap into a stream map: ap_map.rs *)

(* resolve_key_if_needed *)
Definition resolve_map_key (x : ctx) (k : Air.map_key) : pres Lens.map_key :=
  let of_resolved (r : pres resolved) : pres Lens.map_key :=
    dop rr <- r;
    match stream_map_key_from_value (fst (fst rr)) with
    | Some key => POk key
    | None => PErr (ECatch CStreamMapError)
    end in
  match k with
  | KLiteral s => POk (MKStr s)
  | KInt z => POk (MKInt z)
  | KScalar v => of_resolved (resolve_scalar x (v_name v))
  | KScalarL v => of_resolved (resolve_scalar_l x v)
  | KCanonL v => of_resolved (resolve_canon_l x v)
  end.

(* stream_map.rs: from_key_value + StreamMap::insert *)
Definition kv_object (k : Lens.map_key) (j : json) : json := JObj [("key"%string, map_key_to_json k); ("value"%string, j)].

Definition exec_ap_map (x : ctx) (k : Air.map_key) (a : ap_arg) (m : var) : xres :=
  match apply_to_arg x a true with
  | PErr e => if is_joinable e then XOk (make_incomplete x) else XErr e x
  | PCrash s => XCrash s
  | PUnsupported w => XUnsupported w
  | POk v =>
      with_handler x (meet_ap_start cid (x_handler x)) (fun rh =>
        let x0 := set_handler x (snd rh) in
        match resolve_map_key x0 k with
        | PErr e => if is_joinable e then XOk (make_incomplete x0) else XErr e x0
        | PCrash s => XCrash s
        | PUnsupported w => XUnsupported w
        | POk key =>
            let g := match fst rh with
                     | ApNotMet => Stream.GNew
                     | ApMet gen src => gen_of_source src gen
                     end in
            let obj := va_with_result v (kv_object key (va_result v)) in
            match Stream.streams_add_stream_value vagg (table_of TMaps x0) (v_name m) obj g (v_pos m) with
            | Stream.SOk tbl =>
                let x1 := with_table TMaps x0 tbl in
                XOk (set_handler x1 (meet_ap_end cid (x_handler x1) [generation_stub]))
            | Stream.SErr _ => XErr (EUncatch UStreamSizeLimitExceeded) x0
            | Stream.SCrash _ => XCrash "ValuesMatrix: generation index does not fit u32"
            end
        end)
  end.

(* new on a canon stream map: Scalars::meet_new_start_canon_stream_map / meet_new_end_canon_stream_map *)
Definition exec_new_canon_map (run : instr -> ctx -> xres) (x : ctx) (v : var) (body : instr) : xres :=
  let x1 := with_canon_maps x (Scalars.meet_new_start canon_map_wp (e_canon_maps (x_ext x)) (v_name v)) in
  let fin (y : ctx) : pres ctx :=
    match Scalars.meet_new_end canon_map_wp (e_canon_maps (x_ext y)) (v_name v) with
    | inl m => POk (with_canon_maps y m)
    | inr e => PErr (sm_to_err e)
    end in
  match run body x1 with
  | XOk y => lift y (fin y) XOk
  | XErr e y => match fin y with POk y' => XErr e y' | _ => XErr e y end
  | r => r
  end.

(* ------------------------------------------------------------------------------------------ *)
(* new on a stream: new.rs prolog / epilog *)

Definition air_span_to_stream (sp : Air.span) : Stream.span := {| Stream.sp_left := sp_left sp; Stream.sp_right := sp_right sp |}.

(* running a compactification plan against the trace handler *)
Definition run_compact_plan (x : ctx) (pl : Stream.compact_plan) : xres :=
  match Stream.run_plan (update_generation cid) (x_handler x) pl with
  | Stream.CompactOk h => XOk (set_handler x h)
  | Stream.CompactErr _ => XErr (EUncatch UGenerationCompactificationError) x
  | Stream.CompactCrash _ => XCrash "Stream::compactify: generation index overflow"
  end.

Definition new_stream_epilog (t : table) (x : ctx) (name : string) : xres :=
  match Stream.streams_meet_scope_end vagg va_pos (table_of t x) name with
  | Stream.SOk (m, _, pl) => run_compact_plan (with_table t x m) pl
  | Stream.SErr _ => XErr (EUncatch UStreamSizeLimitExceeded) x
  | Stream.SCrash _ => XCrash "Streams::meet_scope_end: no stream / no descriptor"
  end.

Definition exec_new_stream (t : table) (run : instr -> ctx -> xres) (x : ctx) (sv : var) (body : instr) (sp : Air.span) : xres :=
  let x1 := with_table t x (Stream.streams_meet_scope_start vagg (table_of t x) (v_name sv) (air_span_to_stream sp)) in
  match run body x1 with
  | XOk y => new_stream_epilog t y (v_name sv)
  | XErr e y =>
      (* the instruction's error has priority over the epilog's *)
      match new_stream_epilog t y (v_name sv) with
      | XOk y' => XErr e y'
      | XErr _ y' => XErr e y'
      | r => r
      end
  | r => r
  end.

(* ------------------------------------------------------------------------------------------ *)
(* fold over a stream: fold_stream.rs, stream_execute_helpers.rs *)

Definition with_trace (x : ctx) (r : res (handler cid)) (k : ctx -> xres) : xres :=
  with_handler x r (fun h => k (set_handler x h)).

(* fold_scalar.rs: fold, for one batch (one generation) of a stream *)
Definition fold_batch (run : instr -> ctx -> xres) (x : ctx) (batch : list vagg) (fold_id : N) (iter : var)
           (body : instr) (last : option instr) : xres :=
  let fs := {| fs_iterable := ItVec batch 0; fs_type := IterStream fold_id; fs_body := body; fs_last := last;
               fs_back_started := false |} in
  let x1 := all_fold_start x in
  match iter_get (x_iterables x1) (v_name iter) with
  | Some _ => XErr (EUncatch (UMultipleIterableValues (v_name iter))) x1
  | None =>
      let x2 := set_iterables x1 (iter_put (x_iterables x1) (v_name iter) fs) in
      let fin (y : ctx) : ctx :=
        let y1 := set_iterables y (iter_del (x_iterables y) (v_name iter)) in
        all_fold_end y1 in
      match run body x2 with
      | XOk y => XOk (fin y)
      | XErr e y => XErr e (fin y)
      | r => r
      end
  end.

(* execute_iterations: returns the context and the OR of the observed completeness *)
Fixpoint execute_iterations (run : instr -> ctx -> xres) (x : ctx) (batches : list (list vagg)) (fold_id : N)
         (iter : var) (body : instr) (last : option instr) (observed : bool) : xres * bool :=
  match batches with
  | [] => (XOk x, observed)
  | b :: rest =>
      match b with
      | [] => execute_iterations run x rest fold_id iter body last observed       (* peek() = None: continue *)
      | v :: _ =>
          match meet_iteration_start cid (x_handler x) fold_id (va_pos v) with
          | Err e => (XErr (trace_err e) x, observed)
          | Crash _ => (XCrash "trace handler panic", observed)
          | Ok h =>
              let after (y : ctx) : xres * bool :=
                match meet_generation_end cid (x_handler y) fold_id with
                | Err e => (XErr (trace_err e) y, observed)
                | Crash _ => (XCrash "trace handler panic", observed)
                | Ok h' =>
                    let y1 := set_handler y h' in
                    execute_iterations run y1 rest fold_id iter body last (observed || x_complete y1)
                end in
              match fold_batch run (set_handler x h) b fold_id iter body last with
              | XOk y => after y
              | XErr e y => if is_catchable e then after y else (XErr e y, observed)   (* throw_error_if_not_catchable *)
              | r => (r, observed)
              end
          end
      end
  end.

(* the `while let Continue` loop; [n] bounds the number of rounds (C13_cursor_terminates: at most
   STREAM_MAX_SIZE Continue answers) *)
Fixpoint fold_stream_loop (t : table) (n : nat) (run : instr -> ctx -> xres) (x : ctx) (st : Stream.cursor_state vagg)
         (rc : Stream.rcursor) (sv iter : var) (body : instr) (last : option instr) (fold_id : N) (observed : bool)
  : xres * bool :=
  match st with
  | Stream.Exhausted => (XOk x, observed)
  | Stream.Continue batches =>
      match n with
      | O => (XFuel, observed)
      | S n' =>
          match execute_iterations run x batches fold_id iter body last observed with
          | (XOk y, obs) =>
              match get_in t y (v_name sv) (v_pos sv) with
              | None => (XCrash "fold over a stream: get_mut(..).unwrap() on a stream that disappeared", obs)
              | Some s =>
                  match Stream.met_iteration_end vagg rc s with
                  | Stream.SOk (st', rc', s') =>
                      fold_stream_loop t n' run (put_in t y (v_name sv) (v_pos sv) s') st' rc' sv iter body last fold_id obs
                  | Stream.SErr _ => (XErr (EUncatch UStreamSizeLimitExceeded) y, obs)
                  | Stream.SCrash _ => (XCrash "stream cursor: generation index does not fit u32", obs)
                  end
              end
          | r => r
          end
      end
  end.

Definition fold_rounds : nat := N.to_nat (stream_max_size + 8).

Definition exec_fold_stream (t : table) (run : instr -> ctx -> xres) (x : ctx) (sv iter : var) (body : instr) (last : option instr) : xres :=
  match get_in t x (v_name sv) (v_pos sv) with
  | None => XOk (make_incomplete x)
  | Some s =>
      (* tracker.meet_fold_stream *)
      let fold_id := x_fold_counter x + 1 in
      let x1 := set_fold_counter x fold_id in
      with_trace x1 (Handler.meet_fold_start cid (x_handler x1) fold_id) (fun x2 =>
        match Stream.met_fold_start vagg Stream.rcursor_new s with
        | Stream.SErr _ => XErr (EUncatch UStreamSizeLimitExceeded) x2
        | Stream.SCrash _ => XCrash "stream cursor: generation index does not fit u32"
        | Stream.SOk (st, rc, s') =>
            let x3 := put_in t x2 (v_name sv) (v_pos sv) s' in
            match fold_stream_loop t fold_rounds run x3 st rc sv iter body last fold_id false with
            | (XOk y, obs) =>
                (* observer.update_completeness, meet_fold_end *)
                let y1 := set_complete y obs in
                with_trace y1 (Handler.meet_fold_end cid (x_handler y1) fold_id) XOk
            | (r, _) => r
            end
        end)
  end.

(* ------------------------------------------------------------------------------------------ *)
(* next inside a fold over a stream: next.rs *)

Definition exec_next_stream (run : instr -> ctx -> xres) (x : ctx) (iter : var) (fs : fold_state) (fold_id : N) : xres :=
  (* maybe_meet_iteration_end *)
  with_trace x (meet_iteration_end cid (x_handler x) fold_id) (fun x0 =>
    let '(moved, it') := it_next (fs_iterable fs) in
    if negb moved then
      (* maybe_meet_back_iterator *)
      with_trace x0 (meet_back_iterator cid (x_handler x0) fold_id) (fun x1 =>
        match fs_last fs with
        | Some li => run li (flush_complete x1)
        | None =>
            if negb (fs_back_started fs) then
              let fs' := {| fs_iterable := fs_iterable fs; fs_type := fs_type fs; fs_body := fs_body fs;
                            fs_last := fs_last fs; fs_back_started := true |} in
              XOk (make_incomplete (set_iterables x1 (iter_put (x_iterables x1) (v_name iter) fs')))
            else XOk x1
        end)
    else
      let fs' := {| fs_iterable := it'; fs_type := fs_type fs; fs_body := fs_body fs; fs_last := fs_last fs;
                    fs_back_started := fs_back_started fs |} in
      let x1 := set_iterables x0 (iter_put (x_iterables x0) (v_name iter) fs') in
      (* maybe_meet_iteration_start *)
      match it_peek it' with
      | None => XCrash "peek on an empty iterable"
      | Some item =>
          with_trace x1 (meet_iteration_start cid (x_handler x1) fold_id (it_pos item)) (fun x2 =>
            let x3 := all_next_before x2 in
            let after (y : ctx) : ctx :=
              all_next_after y in
            match run (fs_body fs) x3 with
            | XOk y =>
                let y1 := after y in
                match iter_get (x_iterables y1) (v_name iter) with
                | None => XErr (EUncatch (UFoldStateNotFound (v_name iter))) y1
                | Some g =>
                    let g' := {| fs_iterable := snd (it_prev (fs_iterable g)); fs_type := fs_type g;
                                 fs_body := fs_body g; fs_last := fs_last g; fs_back_started := fs_back_started g |} in
                    let y2 := set_iterables y1 (iter_put (x_iterables y1) (v_name iter) g') in
                    with_trace y2 (meet_back_iterator cid (x_handler y2) fold_id) XOk
                end
            | XErr e y => XErr e (after y)
            | r => r
            end)
      end).

(* ------------------------------------------------------------------------------------------ *)
(* the hook of Exec.exec *)

Definition stream_instr (run : instr -> ctx -> xres) (i : instr) (x : ctx) : option xres :=
  match i with
  | IAp _ a (ApStream sv) => Some (exec_ap_stream x a sv)
  | ICanon _ p s c => Some (exec_canon_generic (CKStream (v_name c)) TStreams x p s)
  | INew _ (NStream sv) body sp => Some (exec_new_stream TStreams run x sv body sp)
  | INew _ (NStreamMap sv) body sp => Some (exec_new_stream TMaps run x sv body sp)
  | INew _ (NCanonMap v) body _ => Some (exec_new_canon_map run x v body)
  | IFoldStream _ sv iter body last _ => Some (exec_fold_stream TStreams run x sv iter body last)
  | IFoldStreamMap _ sv iter body last _ => Some (exec_fold_stream TMaps run x sv iter body last)
  | IApMap _ k a m => Some (exec_ap_map x k a m)
  | ICanonMap _ p m c => Some (exec_canon_generic (CKMap (v_name c)) TMaps x p m)
  | ICanonStreamMapScalar _ p m sc => Some (exec_canon_generic (CKMapScalar (v_name sc)) TMaps x p m)
  | INext _ iter =>
      match iter_get (x_iterables x) (v_name iter) with
      | Some fs => match fs_type fs with
                   | IterStream fold_id => Some (exec_next_stream run x iter fs fold_id)
                   | IterScalar => None
                   end
      | None => None
      end
  | _ => None
  end.

(* ------------------------------------------------------------------------------------------ *)
(* farewell: compactify_streams (Streams::compactify over every descriptor of every name; the
   HashMap iteration order is [streams_keys]: updates of different streams touch different trace
   positions, see C20) *)

Definition compactify_table (t : table) (x : ctx) : xres :=
  let '(m, pl) := Stream.streams_compactify vagg va_pos (Stream.streams_keys vagg (table_of t x)) (table_of t x) in
  run_compact_plan (with_table t x m) pl.
Definition finish_streams (x : ctx) : ctx + uncatchable :=
  match compactify_table TStreams x with
  | XOk y => match compactify_table TMaps y with
             | XOk z => inl z
             | XErr (EUncatch u) _ => inr u
             | _ => inr UGenerationCompactificationError
             end
  | XErr (EUncatch u) _ => inr u
  | _ => inr UGenerationCompactificationError
  end.

Definition run2 := run stream_instr finish_streams.
