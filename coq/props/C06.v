(* props/C06.v -- call request ids are fresh and results reach the call that requested them.
   Only pinned statements, [exact], non-vacuity examples and Print Assumptions.
   The statements ([..._stmt]) are defined in model/IdsSpec.v (vocabulary of model/CallSpec.v);
   the stream / canon instructions ([esi]) and the end-of-run compactification ([fs]) are universally
   quantified parameters restricted by hypotheses of the same shape as the conclusions. *)
From Coq Require Import Sorted.
From Aqua Require Import Base Json Air Trace Handler Values Scalars Lens Exec RunExec ExecStreams ExecCases CallSpec IdsSpec IdsCases ExecInv IdsProofs.
Open Scope N_scope.
Open Scope list_scope.

(* every instruction appends the requests it issues; their ids continue the counter, one by one
   (the increment is the constant read from next_call_request_id) *)
Theorem C06_fresh_exec : C06_fresh_exec_stmt.
Proof. exact C06_fresh_exec_holds. Qed.

(* one run: ids are lcid(prev)+1 .. lcid(prev)+k in order, the data the host stores says lcid(prev)+k;
   a run that does not give new data hands out no id (and the host keeps the previous data).
   The unchecked `+= 1` of the source is an explicit crash outcome of the model at 2^32-1, so no
   overflow hypothesis is needed: the ids stay <= 2^32-1 whenever the previous counter is. *)
Theorem C06_fresh_run : C06_fresh_run_stmt.
Proof. exact C06_fresh_run_holds. Qed.

(* any sequence of runs on one peer (each run starts from what the host stored after the one before,
   with arbitrary scripts, current data, call results): all ids handed out are consecutive, strictly
   increasing, pairwise distinct, larger than the starting counter *)
Theorem C06_fresh_runs : C06_fresh_runs_stmt.
Proof. exact C06_fresh_runs_holds. Qed.

(* the same for the full executor with streams, canon, new, stream folds (ExecStreams.v: run2 is what the
   lock-step compares with the implementation), with no hypothesis left *)
Theorem C06_fresh_run2 : C06_fresh_run2_stmt.
Proof. exact C06_fresh_run2_holds. Qed.
Theorem C06_fresh_runs2 : C06_fresh_runs2_stmt.
Proof. exact C06_fresh_runs2_holds. Qed.
Theorem C06_exec2 : C06_exec2_stmt.
Proof. exact C06_exec2_holds. Qed.

(* the counter of the current data does not influence anything *)
Theorem C06_lcid_from_prev : C06_lcid_from_prev_stmt.
Proof. exact C06_lcid_from_prev_holds. Qed.

(* a call takes a result only under the id of the pending state RequestSentBy(me, id) it meets *)
Theorem C06_routing_call : C06_routing_call_stmt.
Proof. exact C06_routing_call_holds. Qed.

(* ... what is taken is the first entry under that id, everything else stays in place ... *)
Theorem C06_results_take : C06_results_take_stmt.
Proof. exact results_take_spec. Qed.

(* ... and no instruction ever adds or changes an entry of the result map or the run parameters *)
Theorem C06_routing_exec : C06_routing_exec_stmt.
Proof. exact C06_routing_exec_holds. Qed.

(* a successful execution with leftover results: code 30000 and the new data is still returned;
   without leftovers: code 0 *)
Theorem C06_unknown : C06_unknown_stmt.
Proof. exact C06_unknown_holds. Qed.
Theorem C06_unknown_partial : C06_unknown_partial_stmt.
Proof. exact C06_unknown_partial_holds. Qed.

(* the reading "leftover results are ALWAYS reported" is refuted: a run that ends with an uncaught
   catchable error reports that error and drops the leftovers silently (known finding) *)
Theorem C06_unknown_refuted : ~ C06_unknown_full.
Proof. exact C06_unknown_not_full. Qed.

(* what C06_fresh_run concludes passes the freshness clauses of the oracle evaluated on the implementation *)
Theorem C06_oracle_sound : C06_oracle_sound_stmt.
Proof. exact C06_oracle_sound_holds. Qed.

(* the source lines the model stands on (tools/genx_ids.py) *)
Theorem C06_source_tie : ids_source_agrees = true /\ ids_overflow_bound_agrees = true.
Proof. split; [exact ids_source_agrees_holds | exact ids_overflow_bound_agrees_holds]. Qed.

(* ---- non-vacuity ---- *)
(* previous data says 5, current data says 9: the two calls get 5+K and 5+2K (K read from the source) *)
Example C06_ex_first :
  map fst (out_requests ex_first_out) = [5 + ids_src_increment; 5 + 2 * ids_src_increment] /\ out_lcid ex_first_out = 7 /\
  out_code ex_first_out = 0%Z /\
  out_trace ex_first_out = [SPar 1 1; SCall (RequestSentBy (SPeerCall "A" 6)); SCall (RequestSentBy (SPeerCall "A" 7))].
Proof. vm_compute. repeat split; reflexivity. Qed.
(* results under 7 and under 99: 7 reaches the second call, 6 stays pending, 99 is reported *)
Example C06_ex_second :
  out_requests ex_second_out = [] /\ out_lcid ex_second_out = 7 /\ out_code ex_second_out = 30000%Z /\
  out_trace ex_second_out = [SPar 1 1; SCall (RequestSentBy (SPeerCall "A" 6)); SCall (Executed (VRUnused (CValue (JStr "seven"))))].
Proof. vm_compute. repeat split; reflexivity. Qed.
Example C06_ex_third :
  out_requests ex_third_out = [] /\ out_code ex_third_out = 0%Z /\
  out_trace ex_third_out = [SPar 1 1; SCall (Executed (VRUnused (CValue (JStr "six")))); SCall (Executed (VRUnused (CValue (JStr "seven"))))].
Proof. vm_compute. repeat split; reflexivity. Qed.
(* the refutation witness: code of UserError, not 30000, although the result under 7 is dropped *)
Example C06_ex_refuted : out_code (run1 5 ex_refute_run) = 10006%Z /\ x_call_results ex_refute_ctx <> [].
Proof. split; [vm_compute; reflexivity | vm_compute; discriminate]. Qed.
(* the hypotheses on the parameters are satisfiable: the stage-1 instances *)
Example C06_ex_params : hook_preserves fresh_step no_streams /\ hook_preserves results_step no_streams /\ finish_keeps_ids no_finish.
Proof. split; [apply no_streams_preserves | split; [apply no_streams_preserves | exact no_finish_keeps_ids]]. Qed.

Print Assumptions C06_fresh_exec.
Print Assumptions C06_fresh_run.
Print Assumptions C06_fresh_runs.
Print Assumptions C06_fresh_run2.
Print Assumptions C06_fresh_runs2.
Print Assumptions C06_exec2.
Print Assumptions C06_lcid_from_prev.
Print Assumptions C06_routing_call.
Print Assumptions C06_results_take.
Print Assumptions C06_routing_exec.
Print Assumptions C06_unknown.
Print Assumptions C06_unknown_partial.
Print Assumptions C06_unknown_refuted.
Print Assumptions C06_oracle_sound.
Print Assumptions C06_source_tie.
